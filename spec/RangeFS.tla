------------------------------- MODULE RangeFS -------------------------------
(* What the Fiat-Shamir challenge of a range proof has to cover (rangeproof/proof.go, property C12).

   RangeStmt.tla idealises the Sigma protocol ("a reconstructed commitment equals the hashed one iff the proof
   is verified with the challenge, base, responses and descriptor it was built for") and therefore cannot
   see WHEN the prover chooses what.  This module is the protocol as a game over small integers, with the
   ORDER of the choices explicit:

     first move   the prover fixes the values that enter the hash
     challenge    c, chosen by the hash = the environment
     second move  the prover fixes everything else
     verifier     accepts iff the equation that ties the reconstructed commitment T_m to the hashed one holds.

   With the commitments C_i = R^(d_i) S^(v_i) (here: v_i = 0), the commitment T_m = R^t S^(-1) hashed in the
   first move, T_i = R^(x_i) S, and responses  dresp_i = x_i + c d_i,  mresp = rho + c m,  the verifier's
   reconstruction of T_m has the R-exponent
         sign K c  -  sign a mresp  +  SUM_i d_i dresp_i
   so that acceptance is the integer equation  (a = 1, tau = t + sign rho)
         c (SUM d_i^2  -  sign (m - K))  +  SUM d_i x_i  =  tau.                         (Eq)

   HashCs = FALSE  is the code as it was (D44): only the T's are hashed, so d_i (hence C_i) and K are second-move
   choices.  For every challenge the prover solves (Eq) for d and K: Forgeable.
   HashCs = TRUE   is the repaired code: the C_i enter the hash, d_i is a first-move choice.  K is still formally a
   second-move choice (it is not hashed: negative numbers cannot travel in the keyshare protocol's JSON), but an
   answer to a challenge that does not divide  tau - SUM d_i x_i  (any real, 256-bit challenge) needs that quantity
   to be 0 and then  SUM d_i^2 = sign (m - K): the reported statement is true - BigChallengeSound. *)
EXTENDS Integers, FiniteSets, TLC

CONSTANTS HashCs,
          Ms, Xs, Taus, Ds, KNeg, KMax, Cs      \* small integer ranges (configuration files cannot hold negative numbers)
Ks == (0 - KNeg)..KMax
Signs == {-1, 1}

\* two squares stand for the three / four of the code
Holds(sign, m, K) == sign * (m - K) >= 0
Eq(c, sign, m, K, d1, d2, x1, x2, tau) == c * (d1 * d1 + d2 * d2 - sign * (m - K)) + d1 * x1 + d2 * x2 = tau

VARIABLE g      \* the first move: [m, sign, x1, x2, tau] and, with HashCs, [d1, d2]
Init == g \in [m : Ms, sign : Signs, x1 : Xs, x2 : Xs, tau : Taus, d1 : (IF HashCs THEN Ds ELSE {0}), d2 : (IF HashCs THEN Ds ELSE {0})]
Next == UNCHANGED g
Spec == Init /\ [][Next]_g

\* the second-move choices that make the verifier accept challenge c with a reported bound K
Answers(c) == { r \in [K : Ks, d1 : Ds, d2 : Ds] :
                  /\ (HashCs => r.d1 = g.d1 /\ r.d2 = g.d2)
                  /\ Eq(c, g.sign, g.m, r.K, r.d1, r.d2, g.x1, g.x2, g.tau) }
FalseAnswers(c) == { r \in Answers(c) : ~Holds(g.sign, g.m, r.K) }

\* a first move from which EVERY challenge can be answered with a false statement
Forgeable == \A c \in Cs : FalseAnswers(c) # {}
NoForgery == ~Forgeable
\* A real challenge is a 256-bit hash value: it does not divide the (bounded) quantity  tau - SUM d_i x_i  the prover fixed in its
\* first move unless that quantity is 0.  BigC stands for such a challenge: larger than every |tau - SUM d_i x_i| of the model.
\* (For the SMALL challenges of Cs a prover can still pick tau as a common multiple and adapt K, which is not hashed; that is the
\* soundness error 1/c of any Sigma protocol with a tiny challenge space, not a defect.)
BigC == 11
ASSUME \A t \in Taus, d1 \in Ds, d2 \in Ds, x1 \in Xs, x2 \in Xs : t - d1 * x1 - d2 * x2 < BigC /\ d1 * x1 + d2 * x2 - t < BigC
BigAnswers == { r \in [K : Ks, d1 : Ds, d2 : Ds] :
                  /\ (HashCs => r.d1 = g.d1 /\ r.d2 = g.d2)
                  /\ Eq(BigC, g.sign, g.m, r.K, r.d1, r.d2, g.x1, g.x2, g.tau) }
BigChallengeSound == \A r \in BigAnswers : Holds(g.sign, g.m, r.K)
\* completeness: the honest prover (d1^2 + d2^2 = sign (m - K), tau = d1 x1 + d2 x2) is accepted for every challenge
Complete == \A K \in Ks, d1 \in Ds, d2 \in Ds :
              (d1 * d1 + d2 * d2 = g.sign * (g.m - K) /\ g.tau = d1 * g.x1 + d2 * g.x2 /\ (HashCs => d1 = g.d1 /\ d2 = g.d2))
                 => \A c \in Cs : Eq(c, g.sign, g.m, K, d1, d2, g.x1, g.x2, g.tau)

\* the concrete forgeries the replay attempts against the real verifier: the "any bound" variant (K is whatever falls out, about
\* 2^144, sign +1 only) and the "exact bound" variant (a chosen false statement m >= m + off  /  m <= m - off)
Scenarios == { [variant |-> "any", sign |-> 1, off |-> 0] } \cup [variant : {"exact"}, sign : Signs, off : {1, 2, 50}]
=============================================================================
