---- MODULE NonrevCacheSched ----
(* Cache protocol with synchronised lazy init (repaired code), one run per process, with history *)
EXTENDS Integers, FiniteSets, Sequences, TLC, Json
CONSTANTS Prep, Prov
Procs == Prep \cup Prov
None == 0
VARIABLES pc, field, buf, held, nb, proofs, hist
vars == <<pc, field, buf, held, nb, proofs, hist>>
Init == /\ pc = [p \in Procs |-> IF p \in Prep THEN "p_init" ELSE "c_recv"]
        /\ field = "nil" /\ buf = None /\ held = [p \in Procs |-> None] /\ nb = 0 /\ proofs = {} /\ hist = <<>>
Log(p, step, got, b) == hist' = Append(hist, [p |-> p, step |-> step, got |-> got, b |-> b])
PInit(p) == /\ pc[p] = "p_init" /\ field' = "chan" /\ pc' = [pc EXCEPT ![p] = "p_recv"]
            /\ Log(p, "p.init", FALSE, 0) /\ UNCHANGED <<buf, held, nb, proofs>>
RecvOrBuild(p, next, step) ==
   IF field = "chan" /\ buf # None
     THEN /\ held' = [held EXCEPT ![p] = buf] /\ buf' = None /\ UNCHANGED nb
          /\ pc' = [pc EXCEPT ![p] = next] /\ Log(p, step, TRUE, buf)
     ELSE /\ nb' = nb + 1 /\ held' = [held EXCEPT ![p] = nb + 1] /\ UNCHANGED buf
          /\ pc' = [pc EXCEPT ![p] = next] /\ Log(p, step, FALSE, nb + 1)
PRecv(p) == pc[p] = "p_recv" /\ RecvOrBuild(p, "p_send", "p.recv") /\ UNCHANGED <<field, proofs>>
PSend(p) == /\ pc[p] = "p_send"
            /\ buf' = IF buf = None THEN held[p] ELSE buf
            /\ Log(p, "p.send", buf = None, held[p])
            /\ held' = [held EXCEPT ![p] = None] /\ pc' = [pc EXCEPT ![p] = "done"]
            /\ UNCHANGED <<field, nb, proofs>>
CRecv(p) == /\ pc[p] = "c_recv" /\ RecvOrBuild(p, "done", "c.recv")
            /\ proofs' = proofs \cup {[by |-> p, b |-> held'[p]]} /\ UNCHANGED field
Next == \/ \E p \in Prep : PInit(p) \/ PRecv(p) \/ PSend(p)
        \/ \E p \in Prov : CRecv(p)
Spec == Init /\ [][Next]_vars
AllDone == \A p \in Procs : pc[p] = "done"
SingleConsumer == \A x, y \in proofs : x.b = y.b => x = y
Emit == AllDone => PrintT(<<"SCHED", ToJson([hist |-> hist, buf |-> buf, nb |-> nb])>>)
====
