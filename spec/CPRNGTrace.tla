---- MODULE CPRNGTrace ----
(* CPRNG.tla trace check: the recorded reservations (in any order) tile [0, total) without overlap *)
EXTENDS Integers, Sequences, FiniteSets, TLC, Json
Tr == ndJsonDeserialize("trace.ndjson")
Idx == 1..Len(Tr)
Blocks(i) == Tr[i].first..(Tr[i].first + Tr[i].n - 1)
Total == LET S == { Tr[i].first + Tr[i].n : i \in Idx } IN CHOOSE m \in S : \A x \in S : x <= m
\* process the reservations in increasing order of their first block: each must start where the
\* previous one ended (gap-free and disjoint), and reserve exactly ceil(len/16) blocks
VARIABLES next, done
Init == next = 0 /\ done = {}
Take(i) == /\ i \notin done /\ Tr[i].first = next
           /\ Tr[i].n = (Tr[i].len - 1) \div 16 + 1
           /\ next' = next + Tr[i].n /\ done' = done \cup {i}
Next == \E i \in Idx : Take(i)
Spec == Init /\ [][Next]_<<next, done>>
Accepted == IF TLCGet("stats").diameter - 1 = Len(Tr) THEN TRUE ELSE Print(<<"TRACE REJECTED after", TLCGet("stats").diameter - 1>>, FALSE)
====
