--------------------------- MODULE SaccMemoConc ---------------------------
(* Several goroutines ask ONE SignedAccumulator object for its accumulator at the same time
   (revocation.SignedAccumulator.UnmarshalVerify; C20, defect D64 - a regression of the repair D60 - and the first use of
   a decoded object by several goroutines, which raced in the original code as well).

   The call, as the code runs it:
     check    read the memo (verified, verifiedWith, verifiedData) and the exported field Accumulator;
              memo hit and field equal to the private copy -> return the field
     restore  memo hit, field differs (the accumulator handed out earlier was changed, or the field cleared):
              WRITE the field from the private copy, return it
     verify   no memo hit: ECDSA verification of Data (local to the caller)
     store    WRITE field and memo, return the field
   Locked = TRUE: check runs under the read lock, restore and store under the write lock, restore re-checks the memo
   (repair of D64); FALSE: no lock (the code of 0865903; and, without the restore step, the original).

   A data race: two goroutines whose next steps touch the same location, one of them writing, and not both under the lock
   (what the Go race detector reports in the stress run of the harness). *)
EXTENDS Integers, FiniteSets, TLC

CONSTANTS Procs, Locked
States == {"intact", "tampered", "cleared", "fresh"}

VARIABLES pc,       \* [Procs -> step]
          memo,     \* the private copy is set (and belongs to the key and bytes asked for)
          field,    \* "good" (equals the private copy / the signed bytes), "changed", "nil"
          ret,      \* [Procs -> what the call returned ("none" while running)]
          init0
vars == <<pc, memo, field, ret, init0>>

Init == /\ init0 \in States
        /\ memo = (init0 # "fresh")
        /\ field = CASE init0 = "intact" -> "good" [] init0 = "tampered" -> "changed" [] init0 = "cleared" -> "nil" [] OTHER -> "nil"
        /\ pc = [p \in Procs |-> "check"] /\ ret = [p \in Procs |-> "none"]

\* locations a step reads / writes
Reads(step) == CASE step = "check" -> {"memo", "field"} [] step = "restore" -> {"memo", "field"} [] OTHER -> {}
Writes(step) == CASE step = "restore" -> {"field"} [] step = "store" -> {"memo", "field"} [] OTHER -> {}
Protected(step) == Locked /\ step \in {"check", "restore", "store"}
Conflict(a, b) == (Writes(a) \cap (Reads(b) \cup Writes(b))) \cup (Writes(b) \cap Reads(a)) # {}
Race == \E p, q \in Procs : p # q /\ pc[p] # "done" /\ pc[q] # "done" /\ Conflict(pc[p], pc[q]) /\ ~(Protected(pc[p]) /\ Protected(pc[q]))

Check(p) == /\ pc[p] = "check"
            /\ IF memo /\ field = "good" THEN pc' = [pc EXCEPT ![p] = "done"] /\ ret' = [ret EXCEPT ![p] = field]
               ELSE IF memo THEN pc' = [pc EXCEPT ![p] = "restore"] /\ UNCHANGED ret
               ELSE pc' = [pc EXCEPT ![p] = "verify"] /\ UNCHANGED ret
            /\ UNCHANGED <<memo, field, init0>>
Restore(p) == /\ pc[p] = "restore"
              /\ field' = "good" /\ ret' = [ret EXCEPT ![p] = "good"] /\ pc' = [pc EXCEPT ![p] = "done"]
              /\ UNCHANGED <<memo, init0>>
Verify(p) == /\ pc[p] = "verify" /\ pc' = [pc EXCEPT ![p] = "store"] /\ UNCHANGED <<memo, field, ret, init0>>
Store(p) == /\ pc[p] = "store"
            /\ memo' = TRUE /\ field' = "good" /\ ret' = [ret EXCEPT ![p] = "good"] /\ pc' = [pc EXCEPT ![p] = "done"]
            /\ UNCHANGED init0
Next == \E p \in Procs : Check(p) \/ Restore(p) \/ Verify(p) \/ Store(p)
Spec == Init /\ [][Next]_vars /\ WF_vars(Next)

NoRace == ~Race
\* every call returns the signed accumulator
ReturnsSigned == \A p \in Procs : ret[p] \in {"none", "good"}
AllReturn == <>(\A p \in Procs : pc[p] = "done")
=============================================================================
