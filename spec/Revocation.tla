---------------------------- MODULE Revocation ----------------------------
(* RSA-B revocation accumulator of gabi (revocation/api.go, revocation/proof.go) at the grain the
   code has: the chain of revocation events, witnesses (index, time of the signed accumulator they
   hold, whether u^e = nu_index), and update *objects* including the start index their memoised
   product was computed for.  One action per public entry point:

     RevokeOther / RevokeWit   Accumulator.Remove + Sign
     Issue                     witness creation at the current accumulator
     MakeUpdate                NewUpdate for a contiguous window of events ending at the accumulator
                               it carries (window may be empty: a "time only" update)
     Apply                     Witness.Update, transcribed branch by branch
     Prepend                   Update.Prepend with an event list that may carry its own product

   MemoKeyed = TRUE is the behaviour property C09 demands (product memo keyed by start index, fix
   a554ba1); MemoKeyed = FALSE is the pinned code, kept so that the check can show it separates
   the two.  Property C09 = invariants/action properties at the end. *)
EXTENDS Integers, Sequences, FiniteSets, TLC

CONSTANTS MaxRev,     \* maximal number of revocations
          NW,         \* witnesses; witness w holds prime id w
          NU,         \* update objects
          MaxApply,   \* bound on Apply + Prepend steps
          MemoKeyed,
          Spare       \* spare SignedAccumulator object ids (only trace validation re-makes update slots)

W == 1..NW
U == 1..NU
Other == NW + 1     \* prime id of "somebody else" (a fresh prime in every position)
None == -1

VARIABLES rev,      \* sequence of revoked prime ids; accumulator index = Len(rev)
          wit,      \* [W -> [issued, idx, o, good, up]]   up = Witness.Updated: None before the first effective update,
                    \* afterwards the signing time of the accumulator the last effective update brought
          upd,      \* [U -> [made, first, last, o, memo]]   events first..last, accumulator index = last
          tobj,     \* signing time of each SignedAccumulator OBJECT (object id = position). Witnesses and updates
                    \* hold pointers (field o): a successful Witness.Update makes the witness share the update's
                    \* object, and the time-only branch overwrites the object the witness points to IN PLACE
                    \* (*w.SignedAccumulator = *update.SignedAccumulator), which every other holder sees
          nstep,    \* number of Apply/Prepend steps taken
          last      \* observable result of the last Apply/Prepend
vars == <<rev, wit, upd, tobj, nstep, last>>
view == <<rev, wit, upd, tobj, nstep>>      \* `last` is output only

n == Len(rev)
RevokedAt(w) == IF \E i \in 1..n : rev[i] = w THEN CHOOSE i \in 1..n : rev[i] = w ELSE 0

WT(w) == tobj[wit[w].o]      \* time of the accumulator a witness holds
UT(k) == tobj[upd[k].o]      \* time of the accumulator an update carries
NoResult == [op |-> "none", w |-> 0, k |-> 0, res |-> "none", g |-> 0, h |-> 0, p |-> FALSE]

Init == /\ rev = <<>>
        /\ wit = [w \in W |-> [issued |-> FALSE, idx |-> 0, o |-> 0, good |-> TRUE, up |-> None]]
        /\ upd = [k \in U |-> [made |-> FALSE, first |-> 0, last |-> 0, o |-> 0, memo |-> None]]
        /\ tobj = [x \in 1..(NW + NU + Spare) |-> 0]
        /\ nstep = 0
        /\ last = NoResult

RevokeOther == /\ n < MaxRev /\ rev' = Append(rev, Other)
               /\ UNCHANGED <<wit, upd, tobj, nstep>> /\ last' = NoResult
RevokeWit(w) == /\ n < MaxRev /\ wit[w].issued /\ RevokedAt(w) = 0
                /\ rev' = Append(rev, w)
                /\ UNCHANGED <<wit, upd, tobj, nstep>> /\ last' = NoResult
\* a witness is issued against the current accumulator (signed at time 0); good = FALSE is a
\* witness whose u is garbage (used for "a failed update leaves the witness as it was")
Issue(w, g) == /\ ~wit[w].issued
               /\ tobj' = [tobj EXCEPT ![w] = 0]                    \* witness w's own object has id w
               /\ wit' = [wit EXCEPT ![w] = [issued |-> TRUE, idx |-> n, o |-> w, good |-> g, up |-> None]]
               /\ UNCHANGED <<rev, upd, nstep>> /\ last' = NoResult
\* an update carrying events f..n and the current accumulator (index n) signed at time t;
\* f = n+1 means no events
MakeUpdate(k, f, t) == /\ ~upd[k].made /\ f \in 0..(n+1)
                       /\ tobj' = [tobj EXCEPT ![NW + k] = t]             \* update k's object has id NW + k
                       /\ upd' = [upd EXCEPT ![k] = [made |-> TRUE, first |-> f, last |-> n, o |-> NW + k, memo |-> None]]
                       /\ UNCHANGED <<rev, wit, nstep>> /\ last' = NoResult

\* Witness.Update(pk, update)
Apply(w, k) ==
  /\ wit[w].issued /\ upd[k].made /\ nstep < MaxApply
  /\ nstep' = nstep + 1
  /\ LET our == wit[w].idx
         a == upd[k].last
         f == upd[k].first
         from == our + 1
         usedFrom == IF upd[k].memo # None /\ ~MemoKeyed THEN upd[k].memo ELSE from
         used == usedFrom..a
         needed == from..a
         hit == \E i \in used : i >= 1 /\ rev[i] = w
         R(res) == [op |-> "apply", w |-> w, k |-> k, res |-> res, g |-> 0, h |-> 0, p |-> FALSE]
     IN IF a = our
          THEN IF UT(k) <= WT(w)
                 THEN /\ last' = R("noop") /\ UNCHANGED <<wit, upd, tobj>>
                 ELSE /\ last' = R("oktime") /\ tobj' = [tobj EXCEPT ![wit[w].o] = UT(k)]
                      /\ wit' = [wit EXCEPT ![w].up = UT(k)] /\ UNCHANGED upd
        ELSE IF f > a \/ a <= our
          THEN /\ last' = R("noop") /\ UNCHANGED <<wit, upd, tobj>>
        ELSE IF f > our + 1
          THEN /\ last' = R("toonew") /\ UNCHANGED <<wit, upd, tobj>>
        ELSE /\ upd' = [upd EXCEPT ![k].memo = IF upd[k].memo = None \/ MemoKeyed THEN from ELSE @]
             /\ UNCHANGED tobj
             /\ IF hit
                  THEN /\ last' = R("revoked") /\ UNCHANGED wit
                ELSE IF used = needed /\ wit[w].good
                  THEN /\ wit' = [wit EXCEPT ![w].idx = a, ![w].o = upd[k].o, ![w].up = UT(k)]
                       /\ last' = R("ok")
                  ELSE /\ last' = R("invalidated") /\ UNCHANGED wit
  /\ UNCHANGED rev

\* Update.Prepend(eventlist): eventlist covers events g..h of the genuine chain; withProduct says
\* whether the list carries its own product (ComputeProduct / FlattenEventLists)
Prepend(k, g, h, withProduct) ==
  /\ upd[k].made /\ nstep < MaxApply /\ upd[k].first <= upd[k].last     \* the code indexes Events[0]
  /\ g \in 0..n /\ h \in g..n
  /\ nstep' = nstep + 1
  /\ LET f == upd[k].first
         a == upd[k].last
         R(res) == [op |-> "prepend", w |-> 0, k |-> k, res |-> res, g |-> g, h |-> h, p |-> withProduct]
     IN IF f = 0 \/ h < f - 1      \* f = 0: "ours-1" wraps around in uint64, every list is "missing events"
          THEN /\ last' = R("missing") /\ UNCHANGED upd
        ELSE IF h > a
          THEN /\ last' = R("toonew") /\ UNCHANGED upd
        ELSE /\ upd' = [upd EXCEPT ![k].first = g,
                                   ![k].memo = IF withProduct THEN g ELSE None]
             /\ last' = R("ok")
  /\ UNCHANGED <<rev, wit, tobj>>

\* Update.Prepend with a list that does NOT belong to this accumulator (events g..h of another chain under the
\* same key, h >= 1: event 0 is identical in all chains): whatever the window, the call fails and must leave
\* the update object - including its memoised product - as it was
PrependForeign(k, g, h, withProduct) ==
  /\ upd[k].made /\ nstep < MaxApply /\ upd[k].first <= upd[k].last
  /\ g \in 0..n /\ h \in g..n /\ h >= 1
  /\ nstep' = nstep + 1
  /\ last' = [op |-> "prependforeign", w |-> 0, k |-> k, res |-> "rejected", g |-> g, h |-> h, p |-> withProduct]
  /\ UNCHANGED <<rev, wit, upd, tobj>>

\* Witness.Update with a genuinely signed update of ANOTHER accumulator chain under the same issuer key (events 0..j of that
\* chain, its accumulator of index j signed at time t): whatever j and t are, the witness stays exactly as it was. A foreign
\* accumulator with the witness's own index and a newer time is refused (fix 964b19b: it used to be taken over); one with a
\* smaller or equal index or an older time is ignored; one with a larger index fails the final check of the new witness value.
ApplyForeign(w, j, t) ==
  /\ wit[w].issued /\ nstep < MaxApply /\ j \in 0..MaxRev
  /\ nstep' = nstep + 1
  /\ last' = [op |-> "applyforeign", w |-> w, k |-> 0, g |-> j, h |-> t, p |-> FALSE,
              res |-> IF j = wit[w].idx THEN (IF t <= WT(w) THEN "noop" ELSE "rejected")
                      ELSE IF j < wit[w].idx THEN "noop" ELSE "invalidated"]
  /\ UNCHANGED <<rev, wit, upd, tobj>>

Next == \/ RevokeOther
        \/ \E w \in W : RevokeWit(w)
        \/ \E w \in W, g \in BOOLEAN : Issue(w, g)
        \/ \E k \in U, f \in 0..(MaxRev+1), t \in {0, 1} : MakeUpdate(k, f, t)
        \/ \E w \in W, k \in U : Apply(w, k)
        \/ \E w \in W, j \in 0..MaxRev, t \in {0, 1} : ApplyForeign(w, j, t)
        \/ \E k \in U, g \in 0..MaxRev, h \in 0..MaxRev, p \in BOOLEAN : Prepend(k, g, h, p) \/ PrependForeign(k, g, h, p)
Spec == Init /\ [][Next]_vars

\* ---------------------------------------------------------------- property C09
TypeOK == /\ n <= MaxRev
          /\ \A w \in W : wit[w].idx \in 0..n
          /\ \A k \in U : upd[k].made => upd[k].last \in 0..n /\ upd[k].first \in 0..(upd[k].last + 1)

\* inductive typing of the reachable states, used by RevocationGen to enumerate pre-states directly
ReachW(w) == wit[w].issued => /\ wit[w].idx \in 0..n /\ wit[w].o \in DOMAIN tobj /\ WT(w) \in {0, 1}
                              /\ (RevokedAt(w) # 0 => wit[w].idx < RevokedAt(w))
ReachU(k) == upd[k].made => /\ upd[k].last \in 0..n /\ upd[k].first \in 0..(upd[k].last + 1) /\ upd[k].o \in DOMAIN tobj /\ UT(k) \in {0, 1}
                            /\ (upd[k].memo = None \/ upd[k].memo \in upd[k].first..upd[k].last)
Reach == (\A w \in W : ReachW(w)) /\ (\A k \in U : ReachU(k))
             /\ (\A w \in W : Cardinality({i \in 1..n : rev[i] = w}) <= 1)

\* a good, non-revoked witness is never refused by a legitimate update
NoSpuriousFailure == [][last'.op = "apply" /\ last'.res = "invalidated" => ~wit[last'.w].good]_vars
\* "revoked" is reported only for witnesses whose value was removed after the index they are at
RevokedReportedRight == [][last'.res = "revoked" => RevokedAt(last'.w) # 0 /\ RevokedAt(last'.w) > wit[last'.w].idx]_vars
\* a revoked witness never reaches an accumulator from which its value was removed
NeverRevalidated == \A w \in W : wit[w].issued /\ RevokedAt(w) # 0 => wit[w].idx < RevokedAt(w)
\* a good witness stays valid against the accumulator it holds (abstractly: stays good)
MonotoneA == \A w \in W : wit[w].issued => (wit'[w].idx = wit[w].idx /\ tobj'[wit'[w].o] >= WT(w)) \/ wit'[w].idx > wit[w].idx
Monotone == [][MonotoneA]_vars
\* Witness.Updated never runs ahead of the accumulator the witness holds
UpdatedTracks == \A w \in W : wit[w].issued /\ wit[w].up # None => wit[w].up <= WT(w)
FailedUpdateNoChange == [][(last'.op = "apply" /\ last'.res \in {"toonew", "revoked", "invalidated", "noop"}) \/ last'.op = "applyforeign" => wit' = wit /\ tobj' = tobj]_vars
\* completeness: an update whose window reaches back to the witness brings a good, unrevoked witness to its accumulator
Advances == [][last'.op = "apply" /\ wit[last'.w].good /\ upd[last'.k].first <= wit[last'.w].idx + 1
               /\ upd[last'.k].first <= upd[last'.k].last /\ upd[last'.k].last > wit[last'.w].idx
               /\ ~(\E i \in (wit[last'.w].idx + 1)..upd[last'.k].last : rev[i] = last'.w)
               => last'.res = "ok" /\ wit'[last'.w].idx = upd[last'.k].last]_vars
RevokedAlwaysReported == [][last'.op = "apply" /\ upd[last'.k].first <= wit[last'.w].idx + 1
               /\ upd[last'.k].first <= upd[last'.k].last /\ upd[last'.k].last > wit[last'.w].idx
               /\ (\E i \in (wit[last'.w].idx + 1)..upd[last'.k].last : rev[i] = last'.w)
               => last'.res = "revoked"]_vars
=============================================================================
