------------------------------ MODULE RangeStmt ------------------------------
(* Range proofs (properties C12 and C13): rangeproof/proof.go, rangeproof/splitutils.go and the
   range-proof handling of proofs.go / credential.go.

   Part (a), statement logic.  A statement is (sign, factor, bound) about an attribute value m and
   means  Holds: sign*(factor*m - bound) >= 0.  What travels in a proof is a *descriptor*
   [Sign, A, K, n, Ld] (Proof.Sign/A/K, len(Proof.Cs), Proof.Ld).  Transcribed from the code:
     Desc        NewProofStructure   (x4 and -2*sign rescaling when the splitter yields 3 squares)
     ExtractOK   Proof.ExtractStructure + newWithParams (sanity checks of the verifier)
     Proves      Proof.ProvesStatement
     Proven      Proof.ProvenStatement
     Delta       the number ProofStructure.CommitmentsFromSecrets hands to the square splitter
   What the cryptography establishes about the signed value m when a proof with descriptor d
   verifies is  Established(d, m): d.Sign*(ToInt(d.A)*m - d.K) is a sum of squares, hence >= 0;
   ToInt is the machine conversion uint -> int64 of the exponent `-int64(a)*int64(sign)`.
   Machine words are modelled at the toy size W (uint = 0..2^W-1, int64(a) wraps to a - 2^W above
   MaxInt = 2^(W-1)-1, uint multiplication wraps modulo 2^W).  W is chosen so that a quarter word
   exceeds every bound of the box: then a word value h*2^(W-2) + l with small |l| behaves on the
   box exactly like h*2^62 + l does in the code, and the harness replays the tables with that
   substitution (A = 2^(W-1) stands for 2^63, 2^W-1 for 2^64-1, 2^(W-2)+1 for 2^62+1).

   Switches (TRUE = the code as it is now, FALSE = the behaviour before the named repair):
     SignAware   21282ad (D7)   rescaling K = 4*bound - 2*sign, Proven bound = floor((K+1+sign)/4)
     RefuseBig   4084472 (D16)  factors above MaxInt are refused by newWithParams
     QueryGuard  c5e7fe2 (D19)  ProvesStatement refuses queried factors whose x4 would wrap
     HiddenCheck 16f49b5 (D6)   ProofD.validate: every carried range proof sits on a hidden index
     OverrideM                  ChallengeContribution sets MResponse := AResponses[index]
     FreshStructs 140529a (D23) the verifier extracts the structures of the carried range proofs at every
                                verification (FALSE: ProofD.cachedRangeStructures, the memo of a ProofD object
                                that was verified before, is used instead and never invalidated)
     NonzeroCs   a8c17c7 (D27)  VerifyProofStructure requires 0 < C_i < n.  For C_i = 0 mod n every commitment the
                                verifier reconstructs from the range proof is 0, whatever the responses, the
                                descriptor, the index and the m-response are (the element 0 absorbs every product and
                                the failed inversion is ignored): the prover hashes zeros and needs no witness

   Theorems (TLC invariants over a state machine that walks the box):
     Sound    (C12)  ExtractOK(d) /\ Established(d, m)  =>  Holds(Proven(d), m) and, for every query q
                     of the box, Proves(d, q) => Holds(q, m)
     Complete (C13)  Holds(stmt, m) within the limits => Delta >= 0, Delta = 2 (mod 4) for three
                     squares, Delta is splittable, ExtractOK(Desc(stmt)), Proves(Desc(stmt), stmt),
                     Proven(Desc(stmt)) = stmt;   and   ~Holds(stmt, m) => Delta < 0 (creation fails)

   Part (b), attachment.  An abstract ProofD of a credential carries range proofs at positions
   (hidden | disclosed | non-existent | beyond the largest hidden index | beyond the bases | negative).
   Each range proof knows where it was made (credential, proof instance and challenge, index, the
   value and the randomiser behind its m-response, its descriptor at creation).  Accept is
   transcribed from ProofD.validate, reconstructRangeProofStructures, ChallengeContribution and
   VerifyWithChallenge with the Fiat-Shamir hash idealised: the challenge matches iff the verifier
   reconstructs exactly the commitments the prover hashed, in the same order; a reconstructed
   commitment equals the hashed one iff the proof is verified with the challenge, base, m-response
   and descriptor it was built for and none of its group elements / responses were changed.
   AttachSound: Accept => every carried range proof is at a hidden index, was visited by the
   verifier, was made for this credential at this index, and everything the library reports about
   it holds for the signed value at that index. *)
EXTENDS Integers, Sequences, FiniteSets, TLC

CONSTANTS MMax, KOff, KMax, AMax,      \* box: m in 0..MMax, K and bounds in -KOff..KMax, small factors 0..AMax
          W,                           \* toy word size
          TableLimit,                  \* limit of the three-squares table of the model
          SignAware, RefuseBig, QueryGuard, HiddenCheck, OverrideM, FreshStructs, NonzeroCs,
          LayoutIds, AttFactors, AttSlack, FullOps   \* part (b): which configurations are explored

(* ------------------------------------------------------------------ machine words *)
Word == 2 ^ W
MaxInt == 2 ^ (W - 1) - 1
MaxUint == Word - 1
Quarter == 2 ^ (W - 2)
WrapU(x) == x % Word                                        \* uint arithmetic
ToInt(a) == IF a > MaxInt THEN a - Word ELSE a              \* int64(a)
ASSUME Quarter \div 2 > KMax /\ Quarter \div 2 > KOff /\ Quarter \div 2 >= 4 * AMax + 4    \* scale separation, see above

(* ------------------------------------------------------------------ (a) statement logic *)
Holds(sign, factor, bound, m) == sign * (factor * m - bound) >= 0
FloorDiv4(x) == IF x >= 0 THEN x \div 4 ELSE -((-x + 3) \div 4)     \* big.Int.Rsh(x, 2): arithmetic shift
Cmp(a, b) == IF a < b THEN -1 ELSE IF a = b THEN 0 ELSE 1
Rescale(sign) == IF SignAware THEN 2 * sign ELSE 2

LdFour == 5          \* toy counterparts of FourSquaresSplitter.Ld() = 128 and Params.Lm = 256
LmT == 10
KLimit == 1000       \* toy counterpart of 2^(Lm + strconv.IntSize)

\* NewProofStructure(index, sign, factor, bound, splitter) -> descriptor; n = splitter.SquareCount()
DescDefined(sign, factor, n) == /\ sign = 1 \/ sign = -1
                                /\ n = 3 => factor = 1
                                /\ RefuseBig => (IF n = 3 THEN WrapU(factor * 4) ELSE factor) <= MaxInt
Desc(sign, factor, bound, n) ==
   IF n = 3 THEN [Sign |-> sign, A |-> WrapU(factor * 4), K |-> bound * 4 - Rescale(sign), n |-> 3, Ld |-> LdFour]
            ELSE [Sign |-> sign, A |-> factor, K |-> bound, n |-> 4, Ld |-> LdFour]

\* Proof.ProvesStatement(sign, factor, bound), split into the part that looks at sign/factor and the part that looks at the bound
ProvesSF(d, sign, factor) ==
   /\ sign = 1 \/ sign = -1
   /\ (d.n = 3 /\ QueryGuard) => factor <= MaxUint \div 4
   /\ d.Sign = sign
   /\ d.A = (IF d.n = 3 THEN WrapU(factor * 4) ELSE factor)
ProvesB(d, sign, bound) ==
   LET b == IF d.n = 3 THEN bound * 4 - Rescale(sign) ELSE bound
   IN Cmp(d.K, b) = 0 \/ Cmp(d.K, b) = sign
Proves(d, sign, factor, bound) == ProvesSF(d, sign, factor) /\ ProvesB(d, sign, bound)

\* Proof.ProvenStatement(): the statement type defaults to GreaterOrEqual for signs other than -1
Proven(d) == [sign   |-> IF d.Sign = -1 THEN -1 ELSE 1,
              factor |-> IF d.n = 3 THEN d.A \div 4 ELSE d.A,
              bound  |-> IF d.n = 3 THEN FloorDiv4(d.K + (IF SignAware THEN 1 + d.Sign ELSE 2)) ELSE d.K]

\* Proof.ExtractStructure + newWithParams
ExtractOK(d) == /\ d.Sign = 1 \/ d.Sign = -1
                /\ d.n = 3 \/ d.n = 4
                /\ d.n = 3 => d.A = 4
                /\ RefuseBig => d.A <= MaxInt
                /\ d.Ld <= LmT
                /\ d.K < KLimit /\ -d.K < KLimit

\* sum of the squares the prover must exhibit (CommitmentsFromSecrets: big.NewInt(int64(s.a)))
Delta(d, m) == d.Sign * (ToInt(d.A) * m - d.K)
Established(d, m) == Delta(d, m) >= 0

\* splitter contracts
Root == 20
Sq3 == { a * a + b * b + c * c : a, b, c \in 0..Root }
Sq4 == { a * a + b * b + c * c + e * e : a, b, c, e \in 0..Root }
SplitOK(n, delta) == IF n = 4 THEN delta \in Sq4                                   \* FourSquaresSplitter: any delta >= 0
                              ELSE delta % 4 = 2 /\ delta <= 4 * TableLimit + 2 /\ delta \in Sq3   \* SquaresTable.Split: delta is the SCALED value 4x + 2 of a
                                                                                              \* difference x; the table is documented to hold "entries up-to and
                                                                                              \* including limit", i.e. x <= TableLimit (fix of D46: the code used
                                                                                              \* to apply the limit to the scaled value and served only a quarter)
InLimits(n, delta) == n = 3 => delta <= 4 * TableLimit + 2

M == 0..MMax
Ks == (0 - KOff)..KMax
Signs == {-1, 1}
AllSigns == {-1, 0, 1, 2}
BigAs == {Quarter, MaxInt, MaxInt + 1, MaxUint}
As == 0..AMax \cup BigAs
Lds == {LdFour, LmT + 1}
QFactors == 0..MaxUint

SoundAt(d, m) ==
   (ExtractOK(d) /\ Established(d, m)) =>
      /\ LET p == Proven(d) IN Holds(p.sign, p.factor, p.bound, m)
      /\ \A s \in AllSigns, f \in QFactors : ProvesSF(d, s, f) => \A b \in Ks : ProvesB(d, s, b) => Holds(s, f, b, m)

CompleteAt(s, f, b, n, m) ==
   (s \in Signs /\ f \in 1..AMax /\ DescDefined(s, f, n)) =>
      LET d == Desc(s, f, b, n) IN
        /\ (Holds(s, f, b, m) /\ InLimits(n, Delta(d, m))) =>
              /\ Delta(d, m) >= 0
              /\ n = 3 => Delta(d, m) % 4 = 2
              /\ SplitOK(n, Delta(d, m))
              /\ ExtractOK(d)
              /\ Proves(d, s, f, b)
              /\ LET p == Proven(d) IN p.sign = s /\ p.factor = f /\ p.bound = b
        /\ ~Holds(s, f, b, m) => Delta(d, m) < 0

VARIABLE st

\* the box as a tree: sign, n, Ld -> A -> K -> m; the theorems are evaluated at the leaves
InitL == st \in { [ph |-> "box", lvl |-> 0, Sign |-> s, n |-> n, Ld |-> l, A |-> 0, K |-> 0, m |-> 0] : s \in AllSigns, n \in {3, 4}, l \in Lds }
NextL == /\ st.ph = "box"
         /\ \/ st.lvl = 0 /\ \E a \in As : st' = [st EXCEPT !.lvl = 1, !.A = a]
            \/ st.lvl = 1 /\ \E k \in Ks : st' = [st EXCEPT !.lvl = 2, !.K = k]
            \/ st.lvl = 2 /\ \E m \in M : st' = [st EXCEPT !.lvl = 3, !.m = m]
SpecL == InitL /\ [][NextL]_st
DOfSt == [Sign |-> st.Sign, A |-> st.A, K |-> st.K, n |-> st.n, Ld |-> st.Ld]
Sound == (st.ph = "box" /\ st.lvl = 3) => SoundAt(DOfSt, st.m)
Complete == (st.ph = "box" /\ st.lvl = 3 /\ st.Ld = LdFour) => CompleteAt(st.Sign, st.A, st.K, st.n, st.m)
\* roots of a split of delta fit the announced size whenever delta does (FourSquaresSplitter.Ld, SquaresTable.Ld)
RootsFit == (st.ph = "box" /\ st.lvl = 3 /\ st.Sign \in Signs /\ st.A <= AMax /\ Established(DOfSt, st.m)) =>
               \A r \in 0..Root : r * r <= Delta(DOfSt, st.m) => r < 2 ^ LdFour

(* ------------------------------------------------------------------ (b) attachment *)
Max(S) == CHOOSE x \in S : \A y \in S : y <= x
Min(S) == CHOOSE x \in S : \A y \in S : x <= y
NBases == 6
Positions == {-1, 0, 1, 2, 3, 4, 7}      \* 4: a base without attribute; 7: beyond the bases of the key
LayoutTab == << [h |-> {0, 1, 2, 3}, t |-> 1, u |-> 2], [h |-> {0, 1, 2}, t |-> 1, u |-> 2],
                [h |-> {0, 1, 3}, t |-> 1, u |-> 3],    [h |-> {0, 1}, t |-> 1, u |-> 0],
                [h |-> {0, 2, 3}, t |-> 2, u |-> 3],    [h |-> {0, 2}, t |-> 2, u |-> 0],
                [h |-> {0, 1, 2, 3}, t |-> 3, u |-> 1], [h |-> {0, 3}, t |-> 3, u |-> 0] >>
Lay == LayoutTab[st.L]
\* signed attribute values of the two credentials; index 0 is the secret key
Val(c, i) == IF i = Lay.t THEN (IF c = 1 THEN st.m ELSE st.m2) ELSE IF i = 0 THEN 99 ELSE 20 + 10 * c + i

NoAlt == [f |-> "none", v |-> 0]
E(at, src) == [at |-> at, src |-> src, alt |-> NoAlt]
SrcId(name) == CASE name = "R1" -> 1 [] name = "R1b" -> 2 [] name = "R2" -> 3 [] name = "RF" -> 4 [] name = "RZ" -> 5
StmtDesc(S) == Desc(S.sign, S.factor, S.bound, S.n)
\* second honest statement of credential 1: on the same index (the opposite inequality, at the boundary) or on index u
S1b == IF st.two = 1 THEN [sign |-> 0 - st.S.sign, factor |-> st.S.factor, bound |-> st.S.factor * st.m, n |-> st.S.n]
                     ELSE [sign |-> 1, factor |-> 1, bound |-> Val(1, Lay.u), n |-> 4]
Src(name) ==
   CASE name = "R1"  -> [cred |-> 1, inst |-> 1, idx |-> Lay.t, mv |-> st.m, rnd |-> "attr", d0 |-> StmtDesc(st.S)]
     [] name = "R1b" -> [cred |-> 1, inst |-> 1, idx |-> IF st.two = 1 THEN Lay.t ELSE Lay.u,
                         mv |-> IF st.two = 1 THEN st.m ELSE Val(1, Lay.u), rnd |-> "attr", d0 |-> StmtDesc(S1b)]
     [] name = "R2"  -> [cred |-> 2, inst |-> 2, idx |-> Lay.t, mv |-> st.m2, rnd |-> "attr", d0 |-> StmtDesc(st.S2)]
     [] name = "RF"  -> [cred |-> 1, inst |-> 1, idx |-> Lay.t, mv |-> st.m2, rnd |-> "own", d0 |-> StmtDesc(st.S2)]
     \* a range proof for the statement S2 (true of m2, not necessarily of m) whose commitments C_i are all 0 mod n
     [] name = "RZ"  -> [cred |-> 1, inst |-> 1, idx |-> Lay.t, mv |-> st.m, rnd |-> "zero", d0 |-> StmtDesc(st.S2)]
\* proofs of one ProofList share the challenge
ChOf(inst) == IF st.host = "list" THEN 1 ELSE inst
Hashed1 == IF st.two = 0 THEN <<1>> ELSE IF st.two = 1 \/ Lay.t < Lay.u THEN <<1, 2>> ELSE <<2, 1>>
HostRec(name) ==
   CASE name = "pd1"   -> [cred |-> 1, inst |-> 1, hidden |-> Lay.h, hashed |-> Hashed1]
     [] name = "pd2"   -> [cred |-> 2, inst |-> 2, hidden |-> Lay.h, hashed |-> <<3>>]
     [] name = "bare2" -> [cred |-> 2, inst |-> 2, hidden |-> Lay.h, hashed |-> <<>>]
     [] name = "forge" -> [cred |-> 1, inst |-> 1, hidden |-> Lay.h, hashed |-> <<4>>]
     [] name = "forgez" -> [cred |-> 1, inst |-> 1, hidden |-> Lay.h, hashed |-> <<5>>]     \* the prover hashed zeros

\* descriptor of a carried entry after the adversary's alteration
DOf(e) ==
   LET d == Src(e.src).d0 IN
   CASE e.alt.f = "K"     -> [d EXCEPT !.K = d.K + e.alt.v]
     [] e.alt.f = "Khuge" -> [d EXCEPT !.K = e.alt.v * KLimit]
     [] e.alt.f = "Klim"  -> [d EXCEPT !.K = e.alt.v * (KLimit - 1)]       \* the largest size ExtractStructure tolerates
     [] e.alt.f = "A"     -> [d EXCEPT !.A = e.alt.v]
     [] e.alt.f = "Sign"  -> [d EXCEPT !.Sign = e.alt.v]
     [] e.alt.f = "Ld"    -> [d EXCEPT !.Ld = e.alt.v]
     [] e.alt.f \in {"nAll", "nC"} -> [d EXCEPT !.n = 7 - d.n]      \* len(Cs): 3 <-> 4
     [] OTHER -> d
EntryExtractOK(e) == e.alt.f # "Knil" /\ ExtractOK(DOf(e))
\* VerifyProofStructure: list lengths agree, responses within the sizes derived from Ld
SizeOK(e) == /\ e.alt.f \notin {"big", "nC"} /\ DOf(e).Ld >= Src(e.src).d0.Ld
             /\ NonzeroCs => Src(e.src).rnd # "zero"
SameStruct(d, d0) == d.Sign = d0.Sign /\ d.A = d0.A /\ d.K = d0.K /\ d.n = d0.n
\* commitments reconstructed for entry e inside host h: the hashed ones (id of the source) or something else (0)
Recon(e, h) ==
   LET s == Src(e.src) IN
   IF s.rnd = "zero" THEN SrcId(e.src)       \* zeros, whatever else the proof and its host say
   ELSE
   IF /\ e.alt.f \notin {"Cs", "ds", "vs", "v5", "nAll"}
      /\ SameStruct(DOf(e), s.d0)
      /\ ChOf(s.inst) = ChOf(h.inst)
      /\ s.idx = e.at
      /\ OverrideM => (s.rnd = "attr" /\ s.inst = h.inst /\ s.mv = Val(h.cred, e.at))
   THEN SrcId(e.src) ELSE 0
RECURSIVE Cat(_, _, _)
Cat(cs, i, hi) == IF i > hi THEN <<>> ELSE LET T(e) == e.at = i IN SelectSeq(cs, T) \o Cat(cs, i + 1, hi)
Visit(h, cs) == Cat(cs, 0, Max(h.hidden))                      \* ChallengeContribution: index := 0..maxAttribute
Rng(s) == { s[k] : k \in 1..Len(s) }
Validated(h, cs) == /\ HiddenCheck => \A e \in Rng(cs) : e.at \in h.hidden       \* ProofD.validate
                    /\ \A e \in Rng(cs) : EntryExtractOK(e)                      \* reconstructRangeProofStructures (whole map)
Panics(h, cs) == Validated(h, cs) /\ \E e \in Rng(Visit(h, cs)) : e.at \notin h.hidden   \* new(big.Int).Set(nil)
Accept(h, cs) == /\ Validated(h, cs) /\ ~Panics(h, cs)
                 /\ \A e \in Rng(Visit(h, cs)) : SizeOK(e)
                 /\ LET v == Visit(h, cs) IN [k \in 1..Len(v) |-> Recon(v[k], h)] = h.hashed
Verdict(h, cs) == IF Panics(h, cs) THEN "panic" ELSE IF Accept(h, cs) THEN "accept" ELSE "reject"

\* A ProofD object that verified the honest proof of credential 1 before (st.re # 0: afterwards altered in place, or
\* another document decoded into the same variable) still holds the structures extracted then: one per honest range proof.
\* ChallengeContribution walks the memo, not the carried proofs: `for i, s := range cachedRangeStructures[index]`
\* verifies RangeProofs[index][i] with s.  (Modelled for the single honest range proof at the target index.)
UseMemo == ~FreshStructs /\ st.re # 0
AtTarget(cs) == LET T(e) == e.at = Lay.t IN SelectSeq(cs, T)
PanicsM(h, cs) == (HiddenCheck => \A e \in Rng(cs) : e.at \in h.hidden) /\ Len(AtTarget(cs)) = 0      \* RangeProofs[t][0] on a missing list
VisitM(h, cs) == IF Len(AtTarget(cs)) = 0 THEN <<>> ELSE <<AtTarget(cs)[1]>>
AcceptM(h, cs) == /\ HiddenCheck => \A e \in Rng(cs) : e.at \in h.hidden
                  /\ Len(AtTarget(cs)) > 0
                  /\ LET e == AtTarget(cs)[1]  s == Src(e.src) IN
                       /\ e.alt.f \notin {"big", "nC", "Cs", "ds", "vs", "v5", "nAll"}
                       /\ ChOf(s.inst) = ChOf(h.inst) /\ s.idx = e.at
                       /\ OverrideM => (s.rnd = "attr" /\ s.inst = h.inst /\ s.mv = Val(h.cred, e.at))
                       /\ h.hashed = <<SrcId(e.src)>>
AcceptX(h, cs) == IF UseMemo THEN AcceptM(h, cs) ELSE Accept(h, cs)
VisitX(h, cs) == IF UseMemo THEN VisitM(h, cs) ELSE Visit(h, cs)
VerdictX(h, cs) == IF UseMemo THEN (IF PanicsM(h, cs) THEN "panic" ELSE IF AcceptM(h, cs) THEN "accept" ELSE "reject") ELSE Verdict(h, cs)

QSmall == { [sign |-> s, factor |-> f, bound |-> b] : s \in Signs, f \in 1..3, b \in 0..(3 * MMax + 2) }
EntrySound(h, cs, e) ==
   LET s == Src(e.src)  d == DOf(e)  v == Val(h.cred, e.at)  p == Proven(d) IN
   /\ e.at \in h.hidden
   /\ e \in Rng(VisitX(h, cs))
   /\ UseMemo => DOf(e) = s.d0                   \* the descriptor that is carried is the one that was checked
   /\ s.cred = h.cred /\ s.idx = e.at
   /\ Holds(p.sign, p.factor, p.bound, v)
   /\ \A q \in QSmall : Proves(d, q.sign, q.factor, q.bound) => Holds(q.sign, q.factor, q.bound, v)
HostSound(h, cs) == AcceptX(h, cs) => \A e \in Rng(cs) : EntrySound(h, cs, e)

\* honest configurations
StmtsFor(m) == { [sign |-> s, factor |-> f, bound |-> f * m - s * k, n |-> n] :
                   s \in Signs, f \in AttFactors, k \in AttSlack, n \in {3, 4} }
TrueStmts(m) == { S \in StmtsFor(m) : DescDefined(S.sign, S.factor, S.n) /\ Holds(S.sign, S.factor, S.bound, m)
                                      /\ InLimits(S.n, Delta(StmtDesc(S), m)) }
FalseByOne(S, m) == [S EXCEPT !.bound = S.factor * m + S.sign]          \* false for m, true for m + sign
Honest1 == IF st.two = 0 THEN <<E(Lay.t, "R1")>>
           ELSE IF st.two = 1 THEN <<E(Lay.t, "R1"), E(Lay.t, "R1b")>>
           ELSE <<E(Lay.t, "R1"), E(Lay.u, "R1b")>>
Main == st.L = Min(LayoutIds)          \* the layout on which the alterations and the two-credential attacks run

InitA == \E l \in LayoutIds, m \in M, two \in {0, 1, 2} : \E S \in TrueStmts(m) :
            /\ two = 2 => LayoutTab[l].u # 0
            /\ two # 0 => (l = Min(LayoutIds) /\ S.bound = S.factor * m)
            /\ (l # Min(LayoutIds) /\ ~FullOps) => S.bound = S.factor * m      \* other layouts: boundary statements only
            /\ st = [ph |-> "att", step |-> 0, L |-> l, m |-> m, m2 |-> m, S |-> S, S2 |-> S, two |-> two, host |-> "pd1", re |-> 0,
                     cs |-> <<>>, cs2 |-> <<>>, op |-> "init"]

Fin(host, cs, cs2, op) == st' = [st EXCEPT !.step = 1, !.host = host, !.cs = cs, !.cs2 = cs2, !.op = op]
Alts(d) ==
   { [f |-> x, v |-> i] : x \in {"Cs", "ds", "vs"}, i \in {0, d.n - 1} }
   \cup { [f |-> "v5", v |-> 0], [f |-> "Knil", v |-> 0], [f |-> "nC", v |-> 0], [f |-> "nAll", v |-> 0] }
   \cup { [f |-> "K", v |-> x] : x \in {-4, -2, -1, 1, 2, 4} }
   \cup { [f |-> y, v |-> x] : y \in {"Khuge", "Klim"}, x \in {-1, 1} }
   \cup { [f |-> "A", v |-> x] : x \in ({0, 4, d.A + 1, MaxInt + 1, MaxUint} \ {d.A}) }
   \cup { [f |-> "Sign", v |-> x] : x \in AllSigns \ {d.Sign} }
   \cup { [f |-> "Ld", v |-> x] : x \in {0, LmT, LmT + 1} }
   \cup { [f |-> "big", v |-> x] : x \in {0, 1, 2} }
AtBoundary == st.S.bound = st.S.factor * st.m
OtherPos == Positions \ {Lay.t}
\* adversary working on the proof of credential 1 alone
Single ==
   /\ st.two = 0
   /\ \/ Fin("pd1", Honest1, <<>>, "honest")
      \/ \E j \in OtherPos : Fin("pd1", <<E(j, "R1")>>, <<>>, "move")
      \/ Fin("pd1", <<E(Lay.t, "R1"), E(Lay.t, "R1")>>, <<>>, "dup")
      \/ \E j \in OtherPos : Fin("pd1", <<E(Lay.t, "R1"), E(j, "R1")>>, <<>>, "dupto")
      \/ Fin("pd1", <<>>, <<>>, "drop")
      \/ (Main /\ (AtBoundary \/ FullOps)) /\ \E a \in Alts(StmtDesc(st.S)) : Fin("pd1", <<[at |-> Lay.t, src |-> "R1", alt |-> a]>>, <<>>, "alter")
      \/ (Main /\ (AtBoundary \/ FullOps)) /\ \E a \in Alts(StmtDesc(st.S)) :
            a.f \in {"K", "Sign", "A"} /\ Fin("pd1", <<E(Lay.t, "R1"), [at |-> Lay.t, src |-> "R1", alt |-> a]>>, <<>>, "alterdup")
\* the verifier's ProofD object has verified the honest proof before (1: then altered in place, 2: another document decoded into it)
Reverify ==
   /\ st.two = 0 /\ Main /\ ((AtBoundary /\ st.S.factor = 1) \/ FullOps)
   /\ \E re \in {1, 2} :
        LET F(cs, op) == st' = [st EXCEPT !.step = 1, !.re = re, !.cs = cs, !.op = op] IN
        \/ F(Honest1, "reverify-honest")
        \/ \E a \in Alts(StmtDesc(st.S)) : (FullOps \/ a.f \notin {"Cs", "ds", "vs", "v5", "big"})
                                             /\ F(<<[at |-> Lay.t, src |-> "R1", alt |-> a]>>, "reverify-alter")
        \/ \E a \in Alts(StmtDesc(st.S)) : a.f = "K" /\ F(<<E(Lay.t, "R1"), [at |-> Lay.t, src |-> "R1", alt |-> a]>>, "reverify-add")
        \/ \E j \in Lay.h \ {Lay.t} : F(<<E(Lay.t, "R1"), E(j, "R1")>>, "reverify-addto")
Double ==
   /\ st.two # 0
   /\ LET a == Honest1[1]  b == Honest1[2] IN
      \/ Fin("pd1", Honest1, <<>>, "honest2")
      \/ Fin("pd1", <<b, a>>, <<>>, "reorder")
      \/ Fin("pd1", <<a>>, <<>>, "drop2nd") \/ Fin("pd1", <<b>>, <<>>, "drop1st")
      \/ Fin("pd1", <<E(b.at, "R1"), E(a.at, "R1b")>>, <<>>, "swap")
      \/ Fin("pd1", <<E(b.at, "R1"), b>>, <<>>, "merge") \/ Fin("pd1", <<a, E(a.at, "R1b")>>, <<>>, "merge")
      \/ Fin("pd1", <<a, b, a>>, <<>>, "dup2")
\* adversary who also owns credential 2 (value m2 at the same index) or builds the range proof himself
WithOther ==
   /\ st.two = 0 /\ ((Main /\ AtBoundary) \/ FullOps)
   /\ \E m2 \in {st.m - 1, st.m, st.m + 1} \cap M, S2 \in {st.S, FalseByOne(st.S, st.m)} :
        /\ Holds(S2.sign, S2.factor, S2.bound, m2) /\ InLimits(S2.n, Delta(StmtDesc(S2), m2))
        /\ LET t == Lay.t
               F(host, cs, cs2, op) == st' = [st EXCEPT !.step = 1, !.m2 = m2, !.S2 = S2, !.host = host, !.cs = cs, !.cs2 = cs2, !.op = op]
           IN \/ F("pd1", <<E(t, "R2")>>, <<>>, "transplant")
              \/ F("pd1", <<E(t, "R1"), E(t, "R2")>>, <<>>, "transplant-add")
              \/ \E j \in Lay.h \ {t} : F("pd1", <<E(j, "R2")>>, <<>>, "transplant-to")
              \/ F("pd2", <<E(t, "R1")>>, <<>>, "into-other")
              \/ F("pd2", <<E(t, "R2"), E(t, "R1")>>, <<>>, "into-other-add")
              \/ F("bare2", <<E(t, "R1")>>, <<>>, "onto-bare")
              \/ F("forge", <<E(t, "RF")>>, <<>>, "forge")
              \/ F("forgez", <<E(t, "RZ")>>, <<>>, "forge-zero")
              \/ \E j \in Lay.h \ {t} : F("forgez", <<E(j, "RZ")>>, <<>>, "forge-zero-at")
              \/ F("list", <<E(t, "R1")>>, <<E(t, "R2")>>, "list-honest")
              \/ F("list", <<E(t, "R2")>>, <<E(t, "R1")>>, "list-swap")
              \/ F("list", <<>>, <<E(t, "R2"), E(t, "R1")>>, "list-move")
              \/ F("list", <<E(t, "R1"), E(t, "R2")>>, <<>>, "list-move")
              \/ F("list", <<E(t, "R1")>>, <<E(t, "R1")>>, "list-copy")
NextA == st.ph = "att" /\ st.step = 0 /\ (Single \/ Double \/ WithOther \/ Reverify)
SpecA == InitA /\ [][NextA]_st

FinalVerdict == IF st.host = "list"
                THEN LET v1 == Verdict(HostRec("pd1"), st.cs)  v2 == Verdict(HostRec("pd2"), st.cs2)
                     IN IF v1 = "panic" \/ (v1 = "accept" /\ v2 = "panic") THEN "panic" ELSE IF v1 = "accept" /\ v2 = "accept" THEN "accept" ELSE "reject"
                ELSE VerdictX(HostRec(st.host), st.cs)
AttachSound == (st.ph = "att" /\ st.step = 1) =>
                  IF st.host = "list"
                  THEN (Accept(HostRec("pd1"), st.cs) /\ Accept(HostRec("pd2"), st.cs2)) =>
                          /\ \A e \in Rng(st.cs) : EntrySound(HostRec("pd1"), st.cs, e)
                          /\ \A e \in Rng(st.cs2) : EntrySound(HostRec("pd2"), st.cs2, e)
                  ELSE HostSound(HostRec(st.host), st.cs)
NoPanic == (st.ph = "att" /\ st.step = 1) => FinalVerdict # "panic"
\* vacuity probes (expected to be violated)
NothingAccepted == (st.ph = "att" /\ st.step = 1) => FinalVerdict # "accept"
OnlyHonestAccepted == (st.ph = "att" /\ st.step = 1 /\ FinalVerdict = "accept") => st.op \in {"honest", "honest2", "list-honest", "reverify-honest"}
=============================================================================
