------------------------------- MODULE Decode -------------------------------
(* Property C08: verifying untrusted proofs never panics, and malformed proof lists are rejected.

   DOCUMENTS.  A document is the JSON text of a proof list as an abstract tree.  Every node is a record
        [t, tag, m, a]     t = "v"      a scalar that is present; tag is its value class:
                                         "big"  an integer in base64        "sig"     a genuine signed accumulator
                                         "int"  a non-zero number           "garbled" other bytes in its place
                                         "four" the number 4                "zero"    the number 0 (Go's zero value)
                                                                            "other"   another key counter
                           t = "null"   JSON null            t = "wrong"  a value of a JSON type the slot cannot hold
                           t = "obj"    m : key -> node      t = "arr"    a : sequence of nodes
                           t = "absent" (never stored: what Get returns for a path that does not exist = "missing")
   Map keys are strings; the key classes of the property are the concrete keys
        "-1", "0", "1" .. LenR-1 (in range), LenR (= number of bases), "2147483648" (2^31), "x" (not a number)
   so that "in range" distinguishes the same index, an index used by the sibling map, and a free index.

   TEMPLATES are the abstract trees of seven real proof lists the harness builds and verifies (it checks that its real
   JSON abstracts to exactly these trees): [D], [U], [D+nonrev], [D+range], [D+nonrev+range, U], [D, D'+nonrev], and
   [D0, D'] in which D0 discloses attribute 0 (sound proofs that cannot be linked: rejected as a list).

   MUTATIONS (Patches): delete / null / wrong-type / duplicate every node, empty every container, truncate every array
   to every shorter length, re-key and copy every map entry to every key class, swap same-named sub-trees between the
   proofs of a list, whole proofs, and sibling sub-trees of one proof (a_responses/a_disclosed, a_responses/nonrev
   responses, nonrev_proof/rangeproofs); garble the signed accumulator, change its key counter.
   Duplicating an object member repeats it with the same value: encoding/json then decodes both into the same Go value,
   which is the identity; such a member is `frozen` (a later mutation below it would be merged by the decoder with the
   untouched first copy, an effect this model does not describe).

   WellFormed transcribes what the verification code NEEDS (every dereference and index of reconstructZ,
   reconstructUcommit, ChallengeContribution, SetExpected, commitmentsFromProof, ExtractStructure, the linking loop of
   ProofList.Verify) plus the semantic rejection rules a structurally complete proof is subject to (an index both
   disclosed and hidden, a second response for base 0 in a ProofU, a range proof on an index that is not hidden, a
   proof without a hidden secret in a list, a foreign or garbled signed accumulator).
   Valid transcribes what the code CHECKS (ProofD.validate, ProofU.validate, revocation.Proof.VerifyStructure,
   ExtractStructure / VerifyProofStructure, the length rule and the linking rule of ProofList.Verify); the guard
   constants G3 (structural validation, fix 2dbdc4a), G1 (overlap, 61336b8), G2 (base 0, fc19cea), G6 (range proof on
   hidden, 16f49b5), G18 (linkable, 625831d) switch single guards off for the non-vacuity runs.

        Outcome(doc)     == IF ~WellFormed(doc) THEN "reject-or-decode-error" ELSE "any"     what C08 demands
        CodeOutcome(doc) == what the transcribed guards and uses do: decode-error | reject | panic | any

   Invariants: NoPanic (CodeOutcome is never "panic"), MalformedRejected (not WellFormed => decode-error or reject),
   TemplatesWellFormed.  Identity-equivalent mutations (same key, duplicated member, null for an absent optional part,
   omitted zero-valued number, an "alpha" or unknown extra nonrev response, an empty range proof list) stay WellFormed. *)
EXTENDS Integers, Sequences, FiniteSets, TLC

CONSTANTS MaxMut,                  \* number of mutations applied to a template
          G3, G1, G2, G6, G18,     \* guards of the code (TRUE = as in the repaired tree)
          TemplateNames            \* which templates to explore

LenR == 6                          \* bases R_0 .. R_5 of both fixed 1024-bit keys (the harness checks this)

\* ---------------------------------------------------------------- trees
EmptyM == [k \in {} |-> 0]
V(tag)  == [t |-> "v",      tag |-> tag, m |-> EmptyM, a |-> <<>>]
Null    == [t |-> "null",   tag |-> "",  m |-> EmptyM, a |-> <<>>]
Wrong   == [t |-> "wrong",  tag |-> "",  m |-> EmptyM, a |-> <<>>]
Absent  == [t |-> "absent", tag |-> "",  m |-> EmptyM, a |-> <<>>]
Obj(m)  == [t |-> "obj",    tag |-> "",  m |-> m,      a |-> <<>>]
Arr(a)  == [t |-> "arr",    tag |-> "",  m |-> EmptyM, a |-> a]
BigV    == V("big")
MapOf(keys, x) == Obj([k \in keys |-> x])
ArrN(n) == Arr([i \in 1..n |-> BigV])

ArrIdx(s) == CHOOSE i \in 0..15 : ToString(i) = s          \* array positions are path segments "0", "1", ...
IsIdx(s)  == \E i \in 0..15 : ToString(i) = s

Fld(n, k) == IF n.t = "obj" /\ k \in DOMAIN n.m THEN n.m[k] ELSE Absent
Child(n, s) == IF n.t = "obj" THEN Fld(n, s)
               ELSE IF n.t = "arr" /\ IsIdx(s) /\ ArrIdx(s) < Len(n.a) THEN n.a[ArrIdx(s) + 1] ELSE Absent
RECURSIVE Get(_, _)
Get(n, p) == IF p = <<>> THEN n ELSE Get(Child(n, Head(p)), Tail(p))

Parent(p) == SubSeq(p, 1, Len(p) - 1)
Last(p)   == p[Len(p)]
IsPrefix(f, p) == Len(f) <= Len(p) /\ SubSeq(p, 1, Len(f)) = f

RemoveAt(s, j)    == [k \in 1..(Len(s) - 1) |-> IF k < j THEN s[k] ELSE s[k + 1]]
InsertAfter(s, j) == [k \in 1..(Len(s) + 1) |-> IF k <= j THEN s[k] ELSE s[k - 1]]
WithKey(m, k, x)  == [j \in DOMAIN m \cup {k} |-> IF j = k THEN x ELSE m[j]]
WithoutKey(m, k)  == [j \in DOMAIN m \ {k} |-> m[j]]

\* Put(n, p, x): the tree with x at path p (added when an object lacks the key); x = Absent removes the member / element
RECURSIVE Put(_, _, _)
Put(n, p, x) ==
  IF p = <<>> THEN x
  ELSE LET s == Head(p) IN
       IF n.t = "obj" THEN
         IF Len(p) = 1 THEN (IF x.t = "absent" THEN Obj(WithoutKey(n.m, s)) ELSE Obj(WithKey(n.m, s, x)))
         ELSE IF s \in DOMAIN n.m THEN Obj(WithKey(n.m, s, Put(n.m[s], Tail(p), x))) ELSE n
       ELSE IF n.t = "arr" /\ IsIdx(s) /\ ArrIdx(s) < Len(n.a) THEN
         LET i == ArrIdx(s) + 1 IN
         IF Len(p) = 1 THEN (IF x.t = "absent" THEN Arr(RemoveAt(n.a, i)) ELSE Arr([n.a EXCEPT ![i] = x]))
         ELSE Arr([n.a EXCEPT ![i] = Put(n.a[i], Tail(p), x)])
       ELSE n

RECURSIVE PathsOf(_)
PathsOf(n) == {<<>>} \cup
  (IF n.t = "obj" THEN UNION { { <<k>> \o q : q \in PathsOf(n.m[k]) } : k \in DOMAIN n.m }
   ELSE IF n.t = "arr" THEN UNION { { <<ToString(i - 1)>> \o q : q \in PathsOf(n.a[i]) } : i \in 1..Len(n.a) }
   ELSE {})

\* ---------------------------------------------------------------- templates
Sacc  == Obj(("data" :> V("sig")) @@ ("pk" :> V("zero")))
Names == {"beta", "delta", "epsilon", "zeta"}                  \* "alpha" is not sent: the verifier fills it in
NR    == Obj(("C_r" :> BigV) @@ ("C_u" :> BigV) @@ ("responses" :> MapOf(Names, BigV)) @@ ("sacc" :> Sacc))
RP(n, atag) == Obj(("Cs" :> ArrN(n)) @@ ("ds" :> ArrN(n)) @@ ("vs" :> ArrN(n)) @@ ("v5" :> BigV) @@
                   ("l_d" :> V("int")) @@ ("sign" :> V("int")) @@ ("a" :> V(atag)) @@ ("k" :> BigV))
RPs   == Obj("1" :> Arr(<<RP(4, "int"), RP(3, "four")>>))      \* a four-square and a three-square proof on attribute 1
DProof(hid, dis, nr, rp) ==
  Obj(("c" :> BigV) @@ ("A" :> BigV) @@ ("e_response" :> BigV) @@ ("v_response" :> BigV) @@
      ("a_responses" :> MapOf(hid, BigV)) @@ ("a_disclosed" :> MapOf(dis, BigV)) @@
      (IF nr THEN "nonrev_proof" :> NR ELSE EmptyM) @@ (IF rp THEN "rangeproofs" :> RPs ELSE EmptyM))
UProof == Obj(("U" :> BigV) @@ ("c" :> BigV) @@ ("v_prime_response" :> BigV) @@ ("s_response" :> BigV) @@
              ("m_user_responses" :> MapOf({"3"}, BigV)))
H1 == {"0", "1", "3", "4"}                                    \* credential: secret, 1000, v2, v3, revocation value
AllTemplates == {"D", "U", "Dn", "Dr", "DnrU", "DD", "D0D"}
\* [D0, D']: D0 discloses attribute 0 (the public API builds it). Each proof is sound on its own, but a proof without a hidden
\* secret cannot be linked: the list is NOT WellFormed and must be rejected as it stands (D18: it used to panic).
Unlinkable == {"D0D"}
Template(name) ==
  CASE name = "D"    -> Arr(<<DProof(H1, {"2"}, FALSE, FALSE)>>)
    [] name = "U"    -> Arr(<<UProof>>)
    [] name = "Dn"   -> Arr(<<DProof(H1, {"2"}, TRUE, FALSE)>>)
    [] name = "Dr"   -> Arr(<<DProof(H1, {"2"}, FALSE, TRUE)>>)
    [] name = "DnrU" -> Arr(<<DProof(H1, {"2"}, TRUE, TRUE), UProof>>)
    [] name = "DD"   -> Arr(<<DProof(H1, {"2"}, FALSE, FALSE), DProof({"0", "2", "4"}, {"1", "3"}, TRUE, FALSE)>>)
    [] name = "D0D"  -> Arr(<<DProof({"1", "3", "4"}, {"0", "2"}, FALSE, FALSE), DProof({"0", "2", "4"}, {"1", "3"}, FALSE, FALSE)>>)

\* ---------------------------------------------------------------- keys
Big31   == "2147483648"
NumKeys == { ToString(i) : i \in -1..LenR } \cup {Big31}
IntKeyClasses  == NumKeys \cup {"x"}
NameKeyClasses == {"alpha", "beta", "delta", "epsilon", "zeta", "omega"}
KeyNum(k) == IF k = Big31 THEN 1000000 ELSE CHOOSE i \in -1..LenR : ToString(i) = k
InRange(k, lo) == k \in NumKeys /\ KeyNum(k) >= lo /\ KeyNum(k) < LenR

\* ---------------------------------------------------------------- decoding (encoding/json + ProofList.UnmarshalJSON)
\* A slot decodes unless it holds a value of the wrong JSON type; null and missing leave Go's nil / zero value.
Nil(n)     == n.t \in {"null", "absent"}
ScalarOK(n) == n.t \in {"v", "null", "absent"}
Entries(n) == IF n.t = "obj" THEN DOMAIN n.m ELSE {}
Elems(n)   == IF n.t = "arr" THEN 1..Len(n.a) ELSE {}
ArrOK(n)   == Nil(n) \/ (n.t = "arr" /\ \A i \in Elems(n) : ScalarOK(n.a[i]))
IntMapOK(n)  == Nil(n) \/ (n.t = "obj" /\ \A k \in Entries(n) : k \in NumKeys /\ ScalarOK(n.m[k]))
NameMapOK(n) == Nil(n) \/ (n.t = "obj" /\ \A k \in Entries(n) : ScalarOK(n.m[k]))
SaccOK(n)  == Nil(n) \/ (n.t = "obj" /\ ScalarOK(Fld(n, "data")) /\ ScalarOK(Fld(n, "pk")))
NRDecOK(n) == Nil(n) \/ (n.t = "obj" /\ ScalarOK(Fld(n, "C_r")) /\ ScalarOK(Fld(n, "C_u")) /\
                         NameMapOK(Fld(n, "responses")) /\ SaccOK(Fld(n, "sacc")))
RPDecOK(n) == Nil(n) \/ (n.t = "obj" /\ ArrOK(Fld(n, "Cs")) /\ ArrOK(Fld(n, "ds")) /\ ArrOK(Fld(n, "vs")) /\
                         \A f \in {"v5", "l_d", "sign", "a", "k"} : ScalarOK(Fld(n, f)))
RPListOK(n) == Nil(n) \/ (n.t = "arr" /\ \A i \in Elems(n) : RPDecOK(n.a[i]))
RPMapOK(n)  == Nil(n) \/ (n.t = "obj" /\ \A k \in Entries(n) : k \in NumKeys /\ RPListOK(n.m[k]))
DDecOK(p) == /\ \A f \in {"c", "A", "e_response", "v_response"} : ScalarOK(Fld(p, f))
             /\ IntMapOK(Fld(p, "a_responses")) /\ IntMapOK(Fld(p, "a_disclosed"))
             /\ NRDecOK(Fld(p, "nonrev_proof")) /\ RPMapOK(Fld(p, "rangeproofs"))
UDecOK(p) == /\ \A f \in {"U", "c", "v_prime_response", "s_response"} : ScalarOK(Fld(p, f))
             /\ IntMapOK(Fld(p, "m_user_responses"))
IsD(p) == Fld(p, "A").t = "v"                                  \* type discrimination: A present => ProofD, else U present => ProofU
IsU(p) == ~IsD(p) /\ Fld(p, "U").t = "v"
\* a null element decodes into nothing and is then an unknown proof type; unknown members are ignored
ProofDecOK(p) == (p.t = "obj" \/ p.t = "null") /\ DDecOK(p) /\ (IsD(p) \/ (UDecOK(p) /\ IsU(p)))
DecodeOK(d) == d.t = "null" \/ (d.t = "arr" /\ \A i \in Elems(d) : ProofDecOK(d.a[i]))

\* ---------------------------------------------------------------- what the verification code needs and checks
Has(n)       == n.t = "v"                                      \* Go value is non-nil
MapKeys(n)   == Entries(n)                                     \* after decoding: nil map and empty map alike
HiddenKeys(p) == { k \in MapKeys(Fld(p, "a_responses")) : Has(Fld(p, "a_responses").m[k]) }
MaxHidden(p)  == LET ks == { KeyNum(k) : k \in MapKeys(Fld(p, "a_responses")) } IN
                 IF ks = {} THEN 0 ELSE IF \A x \in ks : x < 0 THEN 0 ELSE CHOOSE x \in ks : \A y \in ks : y <= x

\* --- range proofs
RPStructOK(r) ==                                               \* ExtractStructure + newWithParams + VerifyProofStructure
  LET n == Len(Fld(r, "Cs").a) IN
  /\ r.t = "obj" /\ Has(Fld(r, "k")) /\ Fld(r, "Cs").t = "arr" /\ n \in {3, 4}
  /\ (n = 3 => Fld(r, "a").tag = "four")
  /\ Fld(r, "sign").t = "v"                                    \* sign 0 is unsupported
  /\ \A f \in {"ds", "vs"} : Fld(r, f).t = "arr" /\ Len(Fld(r, f).a) = n
  /\ \A f \in {"Cs", "ds", "vs"} : \A i \in 1..n : Has(Fld(r, f).a[i])
  /\ Has(Fld(r, "v5"))
\* numbers that are not the zero value in the template change the statement when they are dropped
RPNumbersKept(r) == \A f \in {"l_d", "a"} : Fld(r, f).t = "v"
RPListOf(p, k) == Fld(p, "rangeproofs").m[k]
RangeNeeds(p) ==                                               \* uses in ChallengeContribution
  \A k \in MapKeys(Fld(p, "rangeproofs")) :
     /\ \A i \in Elems(RPListOf(p, k)) : RPListOf(p, k).a[i].t = "obj"          \* ExtractStructure dereferences the proof
     /\ (Elems(RPListOf(p, k)) # {} /\ KeyNum(k) >= 0 /\ KeyNum(k) <= MaxHidden(p)) => k \in HiddenKeys(p)
RangeWF(p) ==
  \A k \in MapKeys(Fld(p, "rangeproofs")) :
     /\ k \in HiddenKeys(p)
     /\ \A i \in Elems(RPListOf(p, k)) : RPStructOK(RPListOf(p, k).a[i]) /\ RPNumbersKept(RPListOf(p, k).a[i])

\* --- non-revocation proof
NRPresent(p) == Fld(p, "nonrev_proof").t = "obj"               \* decodes to a non-nil *revocation.Proof
NRNeeds(n) ==                                                  \* SetExpected, commitmentsFromProof
  /\ Fld(n, "sacc").t = "obj" /\ Fld(n, "responses").t = "obj"
  /\ Has(Fld(n, "C_r")) /\ Has(Fld(n, "C_u"))
  /\ \A nm \in Names : Has(Fld(Fld(n, "responses"), nm))
SaccGenuine(s) == Fld(s, "data").tag = "sig" /\ (Fld(s, "pk").tag = "zero" \/ Nil(Fld(s, "pk")))   \* counter 0 may be omitted
NRWF(n) == NRNeeds(n) /\ SaccGenuine(Fld(n, "sacc"))

\* --- ProofD
IntMapNeeds(n, lo) == \A k \in MapKeys(n) : InRange(k, lo) /\ Has(n.m[k])
DNeeds(p) == /\ \A f \in {"c", "A", "e_response", "v_response"} : Has(Fld(p, f))
             /\ IntMapNeeds(Fld(p, "a_responses"), 0) /\ IntMapNeeds(Fld(p, "a_disclosed"), 0)
             /\ (NRPresent(p) => NRNeeds(Fld(p, "nonrev_proof")))
             /\ RangeNeeds(p)
DWF(p) == /\ DNeeds(p)
          /\ MapKeys(Fld(p, "a_responses")) \cap MapKeys(Fld(p, "a_disclosed")) = {}
          /\ (NRPresent(p) => NRWF(Fld(p, "nonrev_proof")))
          /\ RangeWF(p)
DValid(p) ==                                                   \* ProofD.validate + the checks behind it that return errors
  /\ G3 => /\ \A f \in {"c", "A", "e_response", "v_response"} : Has(Fld(p, f))
           /\ IntMapNeeds(Fld(p, "a_responses"), 0) /\ IntMapNeeds(Fld(p, "a_disclosed"), 0)
           /\ \A k \in MapKeys(Fld(p, "rangeproofs")) : \A i \in Elems(RPListOf(p, k)) : ~Nil(RPListOf(p, k).a[i])
           /\ (NRPresent(p) => NRNeeds(Fld(p, "nonrev_proof")))               \* VerifyStructure
  /\ G1 => MapKeys(Fld(p, "a_responses")) \cap MapKeys(Fld(p, "a_disclosed")) = {}
  /\ G6 => \A k \in MapKeys(Fld(p, "rangeproofs")) : k \in HiddenKeys(p)
\* rejections after validation (no panic, no acceptance): signature of the accumulator, structure of a range proof; a
\* dropped l_d or a changes the proven statement, which the challenge binds (hash idealised as injective)
DLateReject(p) == \/ (NRPresent(p) /\ Fld(Fld(p, "nonrev_proof"), "sacc").t = "obj" /\ ~SaccGenuine(Fld(Fld(p, "nonrev_proof"), "sacc")))
                  \/ \E k \in MapKeys(Fld(p, "rangeproofs")) : \E i \in Elems(RPListOf(p, k)) :
                        RPListOf(p, k).a[i].t = "obj" /\ ~(RPStructOK(RPListOf(p, k).a[i]) /\ RPNumbersKept(RPListOf(p, k).a[i]))

\* --- ProofU
UNeeds(p) == /\ \A f \in {"U", "c", "v_prime_response", "s_response"} : Has(Fld(p, f))
             /\ IntMapNeeds(Fld(p, "m_user_responses"), 0)
UWF(p)    == UNeeds(p) /\ IntMapNeeds(Fld(p, "m_user_responses"), 1)
UValid(p) == /\ G3 => UNeeds(p)
             /\ G2 => "0" \notin MapKeys(Fld(p, "m_user_responses"))

\* --- per proof and per list
ProofWF(p)    == IF IsD(p) THEN DWF(p) ELSE UWF(p)
ProofNeeds(p) == IF IsD(p) THEN DNeeds(p) ELSE UNeeds(p)
ProofValid(p) == IF IsD(p) THEN DValid(p) ELSE UValid(p)
HasSecret(p)  == IF IsD(p) THEN "0" \in HiddenKeys(p) ELSE Has(Fld(p, "s_response"))

WellFormed(d) == /\ d.t = "arr" /\ Len(d.a) >= 1 /\ DecodeOK(d)
                 /\ \A i \in Elems(d) : ProofWF(d.a[i]) /\ HasSecret(d.a[i])
Outcome(d) == IF ~WellFormed(d) THEN "reject-or-decode-error" ELSE "any"

\* The code: ProofList.Verify validates and uses the proofs one after the other, then links them.
CodeOutcome(d) ==
  IF ~DecodeOK(d) THEN "decode-error"
  ELSE IF d.t = "null" \/ Len(d.a) = 0 THEN "reject"
  ELSE LET n == Len(d.a)
           bad == { i \in 1..n : ~ProofValid(d.a[i]) \/ ~ProofNeeds(d.a[i]) \/ (IsD(d.a[i]) /\ DLateReject(d.a[i])) }
           first == CHOOSE i \in bad : \A j \in bad : i <= j
           secrets == { i \in 1..n : HasSecret(d.a[i]) }
       IN IF bad # {} THEN (IF ~ProofValid(d.a[first]) THEN "reject" ELSE IF ~ProofNeeds(d.a[first]) THEN "panic" ELSE "reject")
          ELSE IF secrets = 1..n THEN "any"
          ELSE IF G18 THEN "reject"
          ELSE IF secrets = {} THEN "any"              \* nil.Cmp(nil) = 0: accepted as linked (D18)
          ELSE "panic"
ElemOutcome(p) ==                                              \* ProofD.Verify / ProofU.Verify on one decoded element
  IF ~ProofValid(p) THEN "reject" ELSE IF ~ProofNeeds(p) THEN "panic"
  ELSE IF IsD(p) /\ DLateReject(p) THEN "reject" ELSE "any"

\* ---------------------------------------------------------------- mutations
P(op, p, arg, q) == [op |-> op, p |-> p, arg |-> arg, q |-> q]
IntMapNames == {"a_responses", "a_disclosed", "m_user_responses", "rangeproofs"}
IsIntMapPath(p)  == Len(p) = 2 /\ p[2] \in IntMapNames
IsNameMapPath(p) == Len(p) = 3 /\ p[2] = "nonrev_proof" /\ p[3] = "responses"
KeyClassesFor(mp) == IF IsIntMapPath(mp) THEN IntKeyClasses ELSE IF IsNameMapPath(mp) THEN NameKeyClasses ELSE {}
TopFields == {"c", "A", "e_response", "v_response", "a_responses", "a_disclosed", "nonrev_proof", "rangeproofs",
              "U", "v_prime_response", "s_response", "m_user_responses"}

NodePatches(d, p) ==
  LET n == Get(d, p)
      par == IF p = <<>> THEN Absent ELSE Get(d, Parent(p))
      entry == p # <<>> /\ par.t = "obj" /\ KeyClassesFor(Parent(p)) # {}
  IN (IF p # <<>> THEN {P("del", p, "", <<>>), P("dup", p, "", <<>>)} ELSE {})
     \cup {P("null", p, "", <<>>), P("wrong", p, "", <<>>)}
     \cup (IF (n.t = "obj" /\ DOMAIN n.m # {}) \/ (n.t = "arr" /\ Len(n.a) > 0) THEN {P("empty", p, "", <<>>)} ELSE {})
     \cup (IF n.t = "arr" THEN {P("trunc", p, ToString(k), <<>>) : k \in 1..(Len(n.a) - 1)} ELSE {})
     \cup (IF entry THEN {P("rekey", p, k, <<>>) : k \in KeyClassesFor(Parent(p))}
                         \cup {P("copykey", p, k, <<>>) : k \in KeyClassesFor(Parent(p)) \ DOMAIN par.m} ELSE {})
     \cup (IF n.t = "v" /\ n.tag = "sig" THEN {P("garble", p, "", <<>>)} ELSE {})
     \cup (IF n.t = "v" /\ n.tag = "zero" /\ Last(p) = "pk" THEN {P("ctr", p, "", <<>>)} ELSE {})

SwapPatches(d) ==
  LET n == IF d.t = "arr" THEN Len(d.a) ELSE 0
      S(i) == ToString(i - 1)
      ex(p) == Get(d, p).t # "absent"
      isobj(i) == d.a[i].t = "obj"
      pairs == { ij \in (1..n) \X (1..n) : ij[1] < ij[2] }
      inner == { <<<<"a_responses">>, <<"a_disclosed">>>>,
                 <<<<"a_responses">>, <<"nonrev_proof", "responses">>>>,
                 <<<<"nonrev_proof">>, <<"rangeproofs">>>> }
  IN { P("swap", <<S(ij[1])>>, "", <<S(ij[2])>>) : ij \in pairs }                       \* whole proofs
     \cup UNION { { P("swap", <<S(ij[1]), f>>, "", <<S(ij[2]), f>>) :                    \* same-named member of two proofs (or a move)
                      f \in { g \in TopFields : isobj(ij[1]) /\ isobj(ij[2]) /\ (ex(<<S(ij[1]), g>>) \/ ex(<<S(ij[2]), g>>)) } }
                  : ij \in pairs }
     \cup UNION { { P("swap", <<S(i)>> \o x[1], "", <<S(i)>> \o x[2]) :                 \* misplaced parts of one proof
                      x \in { y \in inner : ex(<<S(i)>> \o y[1]) /\ ex(<<S(i)>> \o y[2]) } } : i \in 1..n }

Free(fr, p) == \A f \in fr : ~IsPrefix(f, p)
PatchesOf(d, fr) ==
  { pt \in UNION { NodePatches(d, p) : p \in PathsOf(d) } : Free(fr, pt.p) }
  \cup { pt \in SwapPatches(d) : Free(fr, pt.p) /\ Free(fr, pt.q) }

Apply(d, pt) ==
  LET p == pt.p
      n == Get(d, p)
      par == Get(d, Parent(p))
  IN CASE pt.op = "del"     -> Put(d, p, Absent)
       [] pt.op = "null"    -> Put(d, p, Null)
       [] pt.op = "wrong"   -> Put(d, p, Wrong)
       [] pt.op = "empty"   -> Put(d, p, IF n.t = "obj" THEN Obj(EmptyM) ELSE Arr(<<>>))
       [] pt.op = "trunc"   -> Put(d, p, Arr(SubSeq(n.a, 1, ArrIdx(pt.arg))))
       [] pt.op = "dup"     -> IF par.t = "arr" THEN Put(d, Parent(p), Arr(InsertAfter(par.a, ArrIdx(Last(p)) + 1))) ELSE d
       [] pt.op = "rekey"   -> Put(d, Parent(p), Obj(WithKey(WithoutKey(par.m, Last(p)), pt.arg, n)))
       [] pt.op = "copykey" -> Put(d, Parent(p), Obj(WithKey(par.m, pt.arg, n)))
       [] pt.op = "garble"  -> Put(d, p, V("garbled"))
       [] pt.op = "ctr"     -> Put(d, p, V("other"))
       [] pt.op = "swap"    -> LET y == Get(d, pt.q) IN Put(Put(d, p, y), pt.q, n)

\* ---------------------------------------------------------------- state machine
VARIABLES tpl, doc, nmut, hist, frozen
vars == <<tpl, doc, nmut, hist, frozen>>

Init == /\ tpl \in TemplateNames /\ doc = Template(tpl) /\ nmut = 0 /\ hist = <<>> /\ frozen = {}
Next == /\ nmut < MaxMut
        /\ \E pt \in PatchesOf(doc, frozen) :
              /\ doc' = Apply(doc, pt)
              /\ hist' = Append(hist, pt)
              /\ frozen' = IF pt.op = "dup" /\ Get(doc, Parent(pt.p)).t = "obj" THEN frozen \cup {pt.p} ELSE frozen
        /\ nmut' = nmut + 1 /\ UNCHANGED tpl
Spec == Init /\ [][Next]_vars

\* ---------------------------------------------------------------- properties
NoPanic == CodeOutcome(doc) # "panic" /\ (doc.t = "arr" /\ DecodeOK(doc) => \A i \in Elems(doc) : ElemOutcome(doc.a[i]) # "panic")
MalformedRejected == ~WellFormed(doc) => CodeOutcome(doc) \in {"decode-error", "reject"}
ElementsRejected  == (doc.t = "arr" /\ DecodeOK(doc)) => \A i \in Elems(doc) : ~ProofWF(doc.a[i]) => ElemOutcome(doc.a[i]) = "reject"
OutcomeRefined == Outcome(doc) = "reject-or-decode-error" => CodeOutcome(doc) \in {"decode-error", "reject"}
TemplateOK(t) == LET d == Template(t) IN
                 IF t \in Unlinkable THEN ~WellFormed(d) /\ CodeOutcome(d) = "reject" /\ \A i \in Elems(d) : ProofWF(d.a[i]) /\ ElemOutcome(d.a[i]) = "any"
                 ELSE WellFormed(d) /\ CodeOutcome(d) = "any"
TemplatesWellFormed == nmut = 0 => doc = Template(tpl) /\ TemplateOK(tpl)
\* non-vacuity (expected to be violated): some mutated document is still well formed / some is malformed
NoMutantWellFormed == nmut > 0 => ~WellFormed(doc)
NoMutantMalformed  == WellFormed(doc)

\* ---------------------------------------------------------------- coverage of the property's quantifier (constant level)
\* every node of every template can be deleted, nulled and duplicated; every container emptied; every array truncated to
\* every shorter length; every map entry re-keyed to -1, 0, len(R), 2^31 (and the other classes); sub-trees are swapped
Tpls == { Template(t) : t \in AllTemplates }
MapEntryPaths(d) == { p \in PathsOf(d) : p # <<>> /\ KeyClassesFor(Parent(p)) # {} /\ Get(d, Parent(p)).t = "obj" }
CoverageComplete ==
  \A d \in Tpls : LET ps == PatchesOf(d, {}) IN
    /\ \A p \in PathsOf(d) \ {<<>>} : \A op \in {"del", "null", "dup", "wrong"} : P(op, p, "", <<>>) \in ps
    /\ \A p \in PathsOf(d) : Get(d, p).t = "arr" => \A k \in 0..(Len(Get(d, p).a) - 1) :
                                 IF k = 0 THEN P("empty", p, "", <<>>) \in ps ELSE P("trunc", p, ToString(k), <<>>) \in ps
    /\ \A p \in MapEntryPaths(d) : IsIntMapPath(Parent(p)) =>
                                 \A k \in {"-1", "0", ToString(LenR), Big31, "x", Last(p)} : P("rekey", p, k, <<>>) \in ps
    /\ (Len(d.a) = 2 => \E pt \in ps : pt.op = "swap" /\ Len(pt.p) = 1)
    /\ (Len(d.a) = 2 => \A f \in {"nonrev_proof", "rangeproofs", "a_responses", "c"} :
                           (Get(d, <<"0", f>>).t # "absent" \/ Get(d, <<"1", f>>).t # "absent") => P("swap", <<"0", f>>, "", <<"1", f>>) \in ps)
ASSUME CoverageComplete
ASSUME (G3 /\ G1 /\ G2 /\ G6 /\ G18) => \A t \in AllTemplates : TemplateOK(t)      \* (the non-vacuity runs switch a guard off)
=============================================================================
