------------------------------- MODULE RevAPI -------------------------------
(* Life cycle of the revocation package's message objects as an application uses them (revocation/api.go,
   revocation/proof.go), properties C09/C10: objects are built locally, decoded from messages (into fresh or into
   previously used variables), verified or not yet verified, read back from storage - and every exported call on
   every such object must RETURN (a result or an error), leave an object it fails on as it was, and leave OTHER
   objects alone.

   An object is described by how it came to be; a scenario is an object state and a call; Expect gives the outcome
   the package owes the caller.  The scenarios are replayed on real objects; a panic, a different outcome class or a
   damaged bystander object is a violation. *)
EXTENDS Integers, Sequences, FiniteSets, TLC

UpdOrigins == {"built", "decoded", "decoded-verified"}     \* NewUpdate | from JSON, Verify not called yet | from JSON and verified
UpdEvents == {"none", "some"}
ListStates == {"fresh", "used", "failed"}                  \* "failed": the variable held a list whose verification failed
Payloads == {"empty", "some"}
WitOrigins == {"built", "decoded", "decoded-no-u", "decoded-no-e"}   \* in memory | read back from JSON storage (accumulator not unmarshaled yet) | stored incompletely
Encodings == {"json", "cbor"}

Scenarios ==
   { [call |-> "prepend", upd |-> o, events |-> e] : o \in UpdOrigins, e \in UpdEvents }
   \cup { [call |-> "decode-list", list |-> l, payload |-> p, enc |-> c] : l \in ListStates, p \in Payloads, c \in Encodings }
   \cup { [call |-> "witness-update", wit |-> w] : w \in WitOrigins }
   \cup { [call |-> "flatten", parts |-> p] : p \in {"two", "with-empty", "without-product"} }
   \cup { [call |-> "prepend-shared-list", second |-> s] : s \in {"fails", "succeeds"} }
   \* a SignedAccumulator object that was verified receives OTHER signed bytes by decoding (a witness / update variable is reused)
   \cup { [call |-> "redecode-accumulator", data |-> d, enc |-> c] : d \in {"newer", "garbage"}, c \in Encodings }
   \* a credential whose witness has the given origin starts a non-revocation proof (gabi.Credential: CreateDisclosureProof with
   \* nonrev, NonrevPrepareCache, NonrevBuildProofBuilder) - replayed by `nr witapi` on real keys
   \cup { [call |-> "prove", wit |-> w, via |-> v] : w \in WitOrigins, v \in {"disclose", "prepare", "builder"} }

\* outcome class the caller is owed ("ok" / "error"), and what must hold afterwards
Expect(s) ==
   CASE s.call = "prepend" ->
           IF s.events = "none" THEN [class |-> "error", post |-> "unchanged"]                       \* nothing to prepend to
           ELSE IF s.upd = "decoded" THEN [class |-> "error", post |-> "unchanged"]                  \* accumulator not verified yet
           ELSE [class |-> "ok", post |-> "extended"]
     [] s.call = "decode-list" -> [class |-> "ok", post |-> IF s.payload = "empty" THEN "holds-none" ELSE "holds-payload"]    \* and the decoded list verifies
     [] s.call = "witness-update" -> IF s.wit \in {"decoded-no-u", "decoded-no-e"} THEN [class |-> "error", post |-> "unchanged"]
                                     ELSE [class |-> "ok", post |-> "witness-valid-at-new-index"]
     [] s.call = "prove" -> IF s.wit \in {"decoded-no-u", "decoded-no-e"} THEN [class |-> "error", post |-> "unchanged"]
                            ELSE [class |-> "ok", post |-> "proof-verifies"]
     [] s.call = "redecode-accumulator" -> IF s.data = "garbage" THEN [class |-> "error", post |-> "unchanged"]
                                           ELSE [class |-> "ok", post |-> "reports-the-new-accumulator"]
     [] s.call = "flatten" -> [class |-> "ok", post |-> IF s.parts = "without-product" THEN "verifies-no-product" ELSE "verifies"]
     [] s.call = "prepend-shared-list" -> [class |-> IF s.second = "fails" THEN "error" ELSE "ok", post |-> "first-update-intact"]

VARIABLE sc
Init == sc \in Scenarios
Next == UNCHANGED sc
Spec == Init /\ [][Next]_sc
\* the table is total and never owes a panic
Total == Expect(sc).class \in {"ok", "error"}
\* a failing call leaves its object as it was
FailLeavesUnchanged == Expect(sc).class = "error" => Expect(sc).post \in {"unchanged", "first-update-intact"}
=============================================================================
