---------------------------- MODULE RevocationTrace ----------------------------
(* Validates histories recorded from the real revocation package (harness `rev record`: long
   random histories on real, long-lived witnesses and update objects) against Revocation.
   Every event names its action and arguments; the projected outcome (error class, index, time and
   validity of the witness; window of the update) must be the one the specification computes. *)
EXTENDS Revocation, Json
Tr == ndJsonDeserialize("trace.ndjson")
VARIABLES l, nsp      \* position in the trace; number of spare object ids used
E == Tr[l]
Class(res) == IF res \in {"noop", "ok", "oktime"} THEN "nil" ELSE IF res = "revoked" THEN "revoked" ELSE "error"

TReset == /\ E.ev = "reset" /\ rev' = <<>>
          /\ wit' = [w \in W |-> [issued |-> FALSE, idx |-> 0, o |-> 0, good |-> TRUE, up |-> None]]
          /\ upd' = [k \in U |-> [made |-> FALSE, first |-> 0, last |-> 0, o |-> 0, memo |-> None]]
          /\ tobj' = [x \in DOMAIN tobj |-> 0] /\ nsp' = 0
          /\ nstep' = 0 /\ last' = NoResult
TRevoke == E.ev = "revoke" /\ IF E.id = Other THEN RevokeOther ELSE RevokeWit(E.id)
TIssue == E.ev = "issue" /\ Issue(E.w, E.good)
TMake == E.ev = "mkupd" /\ MakeUpdate(E.k, E.f, E.t)
\* the test driver drops update object k: witnesses that share its accumulator object keep it, so it moves to a spare id
TDiscard == /\ E.ev = "discard" /\ upd' = [upd EXCEPT ![E.k].made = FALSE]
            /\ nsp < Spare /\ nsp' = nsp + 1
            /\ LET old == NW + E.k  new == NW + NU + nsp + 1 IN
                 /\ tobj' = [tobj EXCEPT ![new] = tobj[old]]
                 /\ wit' = [w \in W |-> IF wit[w].o = old THEN [wit[w] EXCEPT !.o = new] ELSE wit[w]]
            /\ UNCHANGED <<rev, nstep>> /\ last' = NoResult
TApply == /\ E.ev = "apply" /\ Apply(E.w, E.k)
          /\ Class(last'.res) = E.class
          /\ wit'[E.w].idx = E.idx /\ tobj'[wit'[E.w].o] = E.t /\ wit'[E.w].good = E.valid /\ wit'[E.w].up = E.up
TPrepend == /\ E.ev = "prepend" /\ Prepend(E.k, E.g, E.h, E.p)
            /\ Class(last'.res) = E.class
            /\ upd'[E.k].first = E.first /\ upd'[E.k].last = E.last
TPrependForeign == /\ E.ev = "prependforeign" /\ PrependForeign(E.k, E.g, E.h, E.p)
                   /\ E.class = "error" /\ upd[E.k].first = E.first /\ upd[E.k].last = E.last
TNext == l <= Len(Tr) /\ l' = l + 1 /\ (E.ev \notin {"reset", "discard"} => nsp' = nsp) /\ (TReset \/ TRevoke \/ TIssue \/ TMake \/ TDiscard \/ TApply \/ TPrepend \/ TPrependForeign)
TInit == Init /\ l = 1 /\ nsp = 0
TSpec == TInit /\ [][TNext]_<<vars, l, nsp>>
TMonotone == [][(l <= Len(Tr) /\ Tr[l].ev # "reset") => MonotoneA]_<<vars, l, nsp>>
Accepted == LET d == TLCGet("stats").diameter IN
              IF d - 1 = Len(Tr) THEN TRUE
              ELSE Print(<<"TRACE REJECTED at line", d, IF d <= Len(Tr) THEN Tr[d] ELSE "eof">>, FALSE)
=============================================================================
