---------------------------- MODULE RevocationTrace ----------------------------
(* Validates histories recorded from the real revocation package (harness `rev record`: long
   random histories on real, long-lived witnesses and update objects) against Revocation.
   Every event names its action and arguments; the projected outcome (error class, index, time and
   validity of the witness; window of the update) must be the one the specification computes. *)
EXTENDS Revocation, Json
Tr == ndJsonDeserialize("trace.ndjson")
VARIABLE l
E == Tr[l]
Class(res) == IF res \in {"noop", "ok", "oktime"} THEN "nil" ELSE IF res = "revoked" THEN "revoked" ELSE "error"

TReset == /\ E.ev = "reset" /\ rev' = <<>>
          /\ wit' = [w \in W |-> [issued |-> FALSE, idx |-> 0, t |-> 0, good |-> TRUE]]
          /\ upd' = [k \in U |-> [made |-> FALSE, first |-> 0, last |-> 0, t |-> 0, memo |-> None]]
          /\ nstep' = 0 /\ last' = NoResult
TRevoke == E.ev = "revoke" /\ IF E.id = Other THEN RevokeOther ELSE RevokeWit(E.id)
TIssue == E.ev = "issue" /\ Issue(E.w, E.good)
TMake == E.ev = "mkupd" /\ MakeUpdate(E.k, E.f, E.t)
TDiscard == /\ E.ev = "discard" /\ upd' = [upd EXCEPT ![E.k].made = FALSE]
            /\ UNCHANGED <<rev, wit, nstep>> /\ last' = NoResult
TApply == /\ E.ev = "apply" /\ Apply(E.w, E.k)
          /\ Class(last'.res) = E.class
          /\ wit'[E.w].idx = E.idx /\ wit'[E.w].t = E.t /\ wit'[E.w].good = E.valid
TPrepend == /\ E.ev = "prepend" /\ Prepend(E.k, E.g, E.h, E.p)
            /\ Class(last'.res) = E.class
            /\ upd'[E.k].first = E.first /\ upd'[E.k].last = E.last
TPrependForeign == /\ E.ev = "prependforeign" /\ PrependForeign(E.k, E.g, E.h, E.p)
                   /\ E.class = "error" /\ upd[E.k].first = E.first /\ upd[E.k].last = E.last
TNext == l <= Len(Tr) /\ l' = l + 1 /\ (TReset \/ TRevoke \/ TIssue \/ TMake \/ TDiscard \/ TApply \/ TPrepend \/ TPrependForeign)
TInit == Init /\ l = 1
TSpec == TInit /\ [][TNext]_<<vars, l>>
TMonotone == [][(l <= Len(Tr) /\ Tr[l].ev # "reset") => MonotoneA]_<<vars, l>>
Accepted == LET d == TLCGet("stats").diameter IN
              IF d - 1 = Len(Tr) THEN TRUE
              ELSE Print(<<"TRACE REJECTED at line", d, IF d <= Len(Tr) THEN Tr[d] ELSE "eof">>, FALSE)
=============================================================================
