---------------------------- MODULE RangeStmtGen ----------------------------
(* Emits, for replay against the real code,
   ROW   one record per descriptor of the box: ExtractOK, the set of m for which the descriptor's own
         statement is established, Proven(d), and the complete Proves row (per matching (sign, factor)
         the set of bounds b with Proves(d, sign, factor, b));
   BOX   the box itself (the harness enumerates the queries from it);
   CASE  every attachment case of part (b) with the specification's verdict. *)
EXTENDS RangeStmt, Json
CONSTANTS RowSignIdx,        \* subset of 1..4: which descriptor signs this run emits (cfg files cannot hold -1)
          StmtWin            \* STMT: statements with |factor*m - bound| <= StmtWin
SignSeq == <<-1, 0, 1, 2>>
QFactorsGen == 0..AMax \cup {Quarter, Quarter + 1, Quarter + 2, MaxInt, MaxInt + 1, MaxInt + 2, 3 * Quarter + 1, MaxUint}

InitT == st \in { [ph |-> "row", Sign |-> SignSeq[i], A |-> a, K |-> k, n |-> n, Ld |-> LdFour] : i \in RowSignIdx, a \in As, k \in Ks, n \in {3, 4} }
SpecT == InitT /\ [][FALSE]_st
RowD == [Sign |-> st.Sign, A |-> st.A, K |-> st.K, n |-> st.n, Ld |-> st.Ld]
Row == LET d == RowD IN
       [d |-> d, ok |-> ExtractOK(d),
        est |-> { m \in M : d.Sign \in Signs /\ Established(d, m) },
        pv |-> Proven(d),
        t |-> { [s |-> x[1], f |-> x[2], b |-> { b \in Ks : ProvesB(d, x[1], b) }] :
                  x \in { y \in AllSigns \X QFactorsGen : ProvesSF(d, y[1], y[2]) } }]
EmitRow == st.ph = "row" => PrintT(<<"ROW", ToJson(Row)>>)
Box == [MMax |-> MMax, KOff |-> KOff, KMax |-> KMax, AMax |-> AMax, W |-> W, qsigns |-> AllSigns, qfactors |-> QFactorsGen,
        bigAs |-> BigAs, LmT |-> LmT, LdFour |-> LdFour, TableLimit |-> TableLimit]
ASSUME PrintT(<<"BOX", ToJson(Box)>>)

\* C13: every statement of the box near its boundary, with what the specification expects of the prover
InitS == st \in { [ph |-> "stmt", sign |-> s, factor |-> f, bound |-> b, n |-> n, m |-> m] :
                    s \in Signs, f \in 1..AMax, b \in Ks, n \in {3, 4}, m \in M }
SpecS == InitS /\ [][FALSE]_st
StmtNear == (st.factor * st.m - st.bound) \in (0 - StmtWin)..StmtWin /\ DescDefined(st.sign, st.factor, st.n)
StmtRec == LET d == Desc(st.sign, st.factor, st.bound, st.n) IN
           [sign |-> st.sign, factor |-> st.factor, bound |-> st.bound, n |-> st.n, m |-> st.m,
            holds |-> Holds(st.sign, st.factor, st.bound, st.m), inlim |-> InLimits(st.n, Delta(d, st.m)),
            delta |-> Delta(d, st.m), d |-> d, limit |-> TableLimit,
            proves |-> Proves(d, st.sign, st.factor, st.bound), pv |-> Proven(d)]
EmitStmt == (st.ph = "stmt" /\ StmtNear) => PrintT(<<"STMT", ToJson(StmtRec)>>)

SeqOfVals(c) == [i \in 1..3 |-> Val(c, i)]
Case == [op |-> st.op, L |-> st.L, hidden |-> Lay.h, t |-> Lay.t, u |-> Lay.u, m |-> st.m, m2 |-> st.m2,
         vals1 |-> SeqOfVals(1), vals2 |-> SeqOfVals(2),
         S |-> st.S, S2 |-> st.S2, S1b |-> IF st.two = 0 THEN st.S ELSE S1b, two |-> st.two,
         host |-> st.host, re |-> st.re, cs |-> st.cs, cs2 |-> st.cs2, W |-> W, LmT |-> LmT, expect |-> FinalVerdict]
EmitCase == (st.ph = "att" /\ st.step = 1) => PrintT(<<"CASE", ToJson(Case)>>)
=============================================================================
