---------------------------- MODULE KeyGenTrace ----------------------------
(* Validates what the harness (`kg volume`) recorded from real key generations against KeyGen:
     begin  a call of gabikeys.GenerateKeyPair (modulus length, attribute count)
     cand   one iteration of the consumer loop of generateSafePrimePair, logged by the hook at the decision: residues and
            length of the candidate, the lengths of its products with every stored prime (measured with math/big),
            the decision the code took (skip | store | return) and, for return, the index of the q it chose
     key    the WellFormed projection of the key pair that was returned (math/big and the private key)
   Every candidate must be what safeprime.Generate promises (CandOK, and a safe prime), every decision must be the
   decision Decide computes from the candidates logged so far, the returned pair must be the pair of the last decision,
   and the key must satisfy WellFormed. The events of one key are contiguous (the harness groups them). *)
EXTENDS KeyGen, Json
Tr == ndJsonDeserialize("trace.ndjson")

VARIABLES l,        \* position in the trace
          tst,      \* stored candidates of the key being generated
          tres,     \* <<>> or the returned pair <<p, q>>
          tn,       \* candidates seen for this key
          tln,      \* its modulus length
          nkeys     \* keys accepted so far
tvars == <<l, tst, tres, tn, tln, nkeys>>
E == Tr[l]
C(e) == [pp8 |-> e.pp8, p8 |-> e.p8, bits |-> e.bits]

TBegin == /\ E.ev = "begin" /\ tres = <<>> /\ tn = 0
          /\ tst' = <<>> /\ tres' = <<>> /\ tn' = 0 /\ tln' = E.ln /\ UNCHANGED nkeys
TCand == /\ E.ev = "cand" /\ tres = <<>> /\ E.ln = tln
         /\ LET c == C(E)
                d == Decide(tst, c, tln, LAMBDA i : E.nb[i])
            IN /\ E.safe /\ CandOK(c, tln \div 2)                     \* what safeprime.Generate promises
               /\ E.nstored = Len(tst) /\ Len(E.nb) = Len(tst)         \* the slice safeprimes is what the specification stored
               /\ d.kind = E.dec /\ d.match = E.match                  \* the code's decision is the specification's
               /\ tn' = tn + 1
               /\ CASE d.kind = "skip"   -> UNCHANGED <<tst, tres>>
                    [] d.kind = "store"  -> tst' = Append(tst, c) /\ UNCHANGED tres
                    [] d.kind = "return" -> tres' = <<c, tst[d.match]>> /\ UNCHANGED tst
         /\ UNCHANGED <<tln, nkeys>>
TKey == /\ E.ev = "key" /\ tres # <<>> /\ E.ln = tln
        /\ E.ncand = tn /\ tn >= 2
        /\ WellFormed(E)
        /\ E.p8 = tres[1].p8 /\ E.pp8 = tres[1].pp8 /\ E.q8 = tres[2].p8 /\ E.qp8 = tres[2].pp8   \* the key is made of the returned pair
        /\ tst' = <<>> /\ tres' = <<>> /\ tn' = 0 /\ nkeys' = nkeys + 1 /\ UNCHANGED tln
TNext == l <= Len(Tr) /\ l' = l + 1 /\ (TBegin \/ TCand \/ TKey) /\ UNCHANGED vars   \* KeyGen's own variables are not used here
TInit == Init /\ l = 1 /\ tst = <<>> /\ tres = <<>> /\ tn = 0 /\ tln = 0 /\ nkeys = 0
TSpec == TInit /\ [][TNext]_<<tvars, vars>>

Accepted == LET d == TLCGet("stats").diameter IN
              IF d - 1 = Len(Tr) THEN TRUE
              ELSE Print(<<"TRACE REJECTED at line", d, IF d <= Len(Tr) THEN Tr[d] ELSE "eof">>, FALSE)
=============================================================================
