-------------------------------- MODULE Gabi --------------------------------
(* Composition: the life cycle of credentials of one issuer with revocation, as the pieces specified in
   Issuance, Disclosure, ProofList, Revocation and NonRev fit together.

   Holders 1..NH each own one secret key; holder h may be issued one credential (attributes fixed per
   holder, last attribute = the witness value).  The issuer keeps one accumulator.  A verifier accepts a
   disclosure with a non-revocation part when the proof verifies, and calls it FRESH when the accumulator
   the proof embeds is the issuer's current one (the freshness policy every application of the library
   applies in some form).

     Issue(h)        full issuance protocol run; the witness is issued against the current accumulator
     Revoke(h)       the issuer removes h's witness value            RevokeOther   somebody else's
     Update(h)       h applies the issuer's update up to the current accumulator (ErrorRevoked if h was removed)
     Show(h, D)      disclosure proof of attribute set D with non-revocation part, verified
     Sign(h, D)      the same as a signature session; must verify as such and NOT as a disclosure
     Combine(g, h)   one proof list over the credentials of two holders: verifies iff g = h's secret, i.e. never
                     for two different holders (C03), whatever the labelling

   System properties: a verifier never sees a FRESH accepted proof from a holder whose witness value was
   removed from the accumulator it embeds (RevokedNeverFresh); a non-revoked holder who applied the latest
   update is always accepted as fresh (UpdatedIsFresh); disclosed values are the issued ones. *)
EXTENDS Integers, Sequences, FiniteSets, TLC
CONSTANTS NH, MaxOps
Holders == 1..NH
Subsets == {{}, {1}, {2}, {1, 2}}          \* disclosure sets over the two ordinary attributes

VARIABLES acc,      \* index of the issuer's current accumulator
          cred,     \* [Holders -> [has, widx, revAt]]
          hist
vars == <<acc, cred, hist>>
Init == acc = 0 /\ cred = [h \in Holders |-> [has |-> FALSE, widx |-> 0, revAt |-> 0]] /\ hist = <<>>
Room == Len(hist) < MaxOps
Log(r) == hist' = Append(hist, r)
Revoked(h) == cred[h].revAt # 0

Issue(h) == /\ Room /\ ~cred[h].has
            /\ cred' = [cred EXCEPT ![h] = [has |-> TRUE, widx |-> acc, revAt |-> 0]]
            /\ Log([op |-> "issue", h |-> h, ok |-> TRUE, idx |-> acc]) /\ UNCHANGED acc
Revoke(h) == /\ Room /\ cred[h].has /\ ~Revoked(h) /\ acc' = acc + 1
             /\ cred' = [cred EXCEPT ![h].revAt = acc + 1]
             /\ Log([op |-> "revoke", h |-> h, ok |-> TRUE, idx |-> acc + 1])
RevokeOther == Room /\ acc' = acc + 1 /\ Log([op |-> "revokeother", h |-> 0, ok |-> TRUE, idx |-> acc + 1]) /\ UNCHANGED cred
Update(h) == /\ Room /\ cred[h].has
             /\ IF Revoked(h) /\ cred[h].revAt > cred[h].widx /\ cred[h].revAt <= acc
                  THEN Log([op |-> "update", h |-> h, ok |-> FALSE, idx |-> cred[h].widx]) /\ UNCHANGED cred
                  ELSE cred' = [cred EXCEPT ![h].widx = acc] /\ Log([op |-> "update", h |-> h, ok |-> TRUE, idx |-> acc])
             /\ UNCHANGED acc
\* the proof verifies and embeds the accumulator the witness is at; fresh iff that is the current one
Show(h, D, sig) == /\ Room /\ cred[h].has
                   /\ Log([op |-> IF sig THEN "sign" ELSE "show", h |-> h, ok |-> TRUE, idx |-> cred[h].widx,
                           disclosed |-> D, fresh |-> (cred[h].widx = acc)])
                   /\ UNCHANGED <<acc, cred>>
Combine(g, h) == /\ Room /\ g # h /\ cred[g].has /\ cred[h].has
                 /\ Log([op |-> "combine", h |-> g, other |-> h, ok |-> FALSE, idx |-> 0]) /\ UNCHANGED <<acc, cred>>
Next == RevokeOther \/ \E h \in Holders : Issue(h) \/ Revoke(h) \/ Update(h)
           \/ (\E D \in Subsets, s \in BOOLEAN : Show(h, D, s)) \/ (\E g \in Holders : Combine(g, h))
Spec == Init /\ [][Next]_vars

WitnessSound == \A h \in Holders : cred[h].has /\ Revoked(h) => cred[h].widx < cred[h].revAt
RevokedNeverFresh == \A i \in 1..Len(hist) : hist[i].op \in {"show", "sign"} /\ hist[i].fresh =>
                        ~(\E j \in 1..(i - 1) : hist[j].op = "revoke" /\ hist[j].h = hist[i].h)
UpdatedIsFresh == \A i \in 2..Len(hist) : hist[i].op \in {"show", "sign"} /\ hist[i - 1].op = "update" /\ hist[i - 1].h = hist[i].h /\ hist[i - 1].ok
                        => hist[i].fresh
=============================================================================
