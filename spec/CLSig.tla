-------------------------------- MODULE CLSig --------------------------------
(* Camenisch-Lysyanskaya signatures of gabi (clsignature.go), property C05.

   A signature (A, e, v) on a message block is valid iff e is a prime of the prescribed interval
   [2^(le-1), 2^(le-1) + 2^(le'-1)] and A^e * S^v * PROD R_i^Rep(m_i) [* KeyshareP] = Z.  The forger
   holds the issuer's PRIVATE key, so it can make the equation hold for ANY exponent e and for any
   (block, keyshare contribution, key) of its choice; in the generic group model the equation then
   holds for exactly the blocks with the same representatives (oversize messages are hashed, a block
   has no length commitment: trailing zeros do not count), the same keyshare contribution and the
   same key.  The verifier is then asked about a tuple that differs from the forged one by at most
   one alteration.  Toy sizes: le-1 = 4, le'-1 = 3, i.e. the interval is [16, 24]. *)
EXTENDS Integers, Sequences, FiniteSets, TLC

CONSTANTS MaxLen,          \* block length 1..MaxLen (number of bases)
          Es,              \* exponents the forger tries
          CheckInterval, CheckPrime     \* TRUE = current code

Lo == 16
Hi == 24
IsPrime(p) == p >= 2 /\ \A d \in 2..(p - 1) : p % d # 0
MaxMsg == 9
Hsh(x) == IF x = 40 THEN 5 ELSE 7
Rep(x) == IF x <= MaxMsg THEN x ELSE Hsh(x)
Vals == {0, 1, 9, 40}                  \* zero, small, maximal Lm-sized, oversize (hashed)
Blocks == UNION { [1..k -> Vals] : k \in 1..MaxLen }
\* what the group equation sees of a block: representatives, padded with zeros to the number of bases
Norm(b) == [i \in 1..MaxLen |-> IF i <= Len(b) THEN Rep(b[i]) ELSE 0]

VARIABLES sig,     \* [e, blk, ksp, key]: the forged signature satisfies the equation for (blk, ksp, key) with exponent e
          chk,     \* [blk, ksp, key]: what the verifier is asked to check it against
          nrand    \* number of times the signature was randomised (A' = A*S^r, v' = v - e*r) before verification
vars == <<sig, chk, nrand>>

Init == /\ sig \in [e : Es, blk : Blocks, ksp : {0, 1}, key : {1, 2}]
        /\ chk = [blk |-> sig.blk, ksp |-> sig.ksp, key |-> sig.key]
        /\ nrand = 0
\* one alteration of the tuple under which the signature is checked
AlterEntry == \E i \in 1..Len(chk.blk), v \in Vals : v # chk.blk[i] /\ chk' = [chk EXCEPT !.blk[i] = v]
Extend == \E v \in Vals : Len(chk.blk) < MaxLen /\ chk' = [chk EXCEPT !.blk = Append(@, v)]
Truncate == Len(chk.blk) > 1 /\ chk' = [chk EXCEPT !.blk = SubSeq(@, 1, Len(@) - 1)]
OtherKsp == chk' = [chk EXCEPT !.ksp = 1 - @]
OtherKey == chk' = [chk EXCEPT !.key = 3 - @]
Alter == chk = [blk |-> sig.blk, ksp |-> sig.ksp, key |-> sig.key]
         /\ (AlterEntry \/ Extend \/ Truncate \/ OtherKsp \/ OtherKey) /\ UNCHANGED <<sig, nrand>>
Randomize == nrand < 2 /\ nrand' = nrand + 1 /\ UNCHANGED <<sig, chk>>
Next == Alter \/ Randomize
Spec == Init /\ [][Next]_vars

\* CLSignature.Verify transcribed
EqHolds == Norm(sig.blk) = Norm(chk.blk) /\ sig.ksp = chk.ksp /\ sig.key = chk.key
Verify == /\ (CheckInterval => sig.e >= Lo /\ sig.e <= Hi)
          /\ (CheckPrime => IsPrime(sig.e))
          /\ EqHolds
\* C05
Valid == sig.e >= Lo /\ sig.e <= Hi /\ IsPrime(sig.e)
Sound == Verify => Valid /\ Norm(sig.blk) = Norm(chk.blk) /\ sig.ksp = chk.ksp /\ sig.key = chk.key
Complete == (Valid /\ chk = [blk |-> sig.blk, ksp |-> sig.ksp, key |-> sig.key]) => Verify     \* also after randomisation
NoAccept == ~(Verify /\ chk.blk # sig.blk)      \* sanity, must be violated ([M] vs [H(M)], trailing zeros)
=============================================================================
