---------------------------- MODULE IssuanceGen ----------------------------
EXTENDS Issuance, Json
EmitC == phase = "end" => PrintT(<<"C", ToJson([cfg |-> cfg, fault |-> fault, outcome |-> outcome])>>)
=============================================================================
