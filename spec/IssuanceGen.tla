---------------------------- MODULE IssuanceGen ----------------------------
EXTENDS Issuance, Json
EmitC == phase = "end" => PrintT(<<"C", ToJson([cfg |-> cfg, faults |-> faults, outcome |-> outcome])>>)
=============================================================================
