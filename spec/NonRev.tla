------------------------------- MODULE NonRev -------------------------------
(* Non-revocation proofs attached to disclosure proofs (credential.go, revocation/proof.go), property C11.

   One credential with a witness.  Operations (any interleaving up to MaxOps):
     Prepare      Credential.NonrevPrepareCache: build a committed proof builder for the cache, or refresh the cached one
     RevokeOther  the issuer revokes somebody else (accumulator index + 1)
     RevokeSelf   the issuer revokes this credential's witness value
     Resign       the issuer signs the current accumulator again at a later time (no revocation happened)
     Update       Witness.Update with the issuer's update covering everything the witness misses
     Prove        CreateDisclosureProof(nonrev): consume the cached builder (refreshing its commitment to the
                  witness' accumulator if that moved on: NonRevocationProofBuilder.UpdateCommit) or build a fresh one
     Attack(k)    the last proof is manipulated in one way before it reaches the verifier, or (zero-forgery) replaced
                  by a proof the holder - revoked or not - builds without using its witness at all
   hist records every operation with what the specification expects to be observed. *)
EXTENDS Integers, Sequences, FiniteSets, TLC
CONSTANTS MaxOps,
          Rollbacks,          \* number of times the holder may reload the state stored at issuance into the credential variable in use
          RecommitOnMismatch  \* a prepared commitment that does not belong to the present state of the witness is made anew (repair of D63);
                              \* FALSE: UpdateCommit looks at the index only, the stale commitment goes into the proof

Attacks == {"Cr", "Cu", "beta", "delta", "epsilon", "zeta", "alpha-response", "sacc-older", "sacc-newer", "sacc-otherchain",
            "sacc-garbled", "transplant", "strip", "witness-attr-disclosed",
            \* degenerate group elements: Cr or Cu replaced by 0 mod n in the proof as it is, and a proof built from
            \* scratch around Cr = Cu = 0 mod n (every commitment the verifier reconstructs is then 0 whatever the
            \* responses are, so the prover hashes zeros and needs no witness) against the issuer's NEWEST accumulator
            "Cr-zero", "Cu-zero", "zero-forgery",
            \* the witness of ANOTHER value that is still in the accumulator (another credential of the holder, a colluder's),
            \* proven for a hidden attribute of this credential that holds that value: the secret key (which the holder
            \* chooses freely) or an ordinary attribute whose value the holder could influence; the response of the real
            \* revocation attribute is padded so that it does not look like one
            "foreign-witness-sk", "foreign-witness-attr"}

VARIABLES acc,      \* index of the issuer's current accumulator
          accT,     \* time at which the issuer's current signed accumulator was signed (a counter)
          wit,      \* [idx, t, revAt]: index and signing time of the accumulator the witness holds; index of the accumulator that removed it (0 = not revoked)
          cache,    \* [has, idx, stale]: the credential's cached proof builder, the index it is committed to, and whether the witness
                    \*                    was replaced underneath it (rollback) so that it belongs to another state
          hist,
          nroll
vars == <<acc, accT, wit, cache, hist, nroll>>
NoCache == [has |-> FALSE, idx |-> 0, stale |-> FALSE]

Init == acc = 0 /\ accT = 0 /\ wit = [idx |-> 0, t |-> 0, revAt |-> 0] /\ cache = NoCache /\ hist = <<>> /\ nroll = 0
Log(r) == hist' = Append(hist, r)
Room == Len(hist) < MaxOps

\* what UpdateCommit makes of the cached builder: refreshed up to wit.idx; made anew when it belongs to another state (repair of D63);
\* as it was, left alone when its index is not below the witness's
Usable == ~cache.stale \/ RecommitOnMismatch
Prepare == /\ Room
           /\ cache' = IF cache.has /\ ~Usable THEN cache ELSE [has |-> TRUE, idx |-> wit.idx, stale |-> FALSE]
           /\ Log([op |-> "prepare", ok |-> TRUE, idx |-> IF cache.has /\ ~Usable THEN cache.idx ELSE wit.idx,
                   refreshed |-> (cache.has /\ ~cache.stale /\ cache.idx < wit.idx)]) /\ UNCHANGED <<acc, accT, wit, nroll>>
RevokeOther == Room /\ acc' = acc + 1 /\ accT' = accT + 1 /\ Log([op |-> "revokeother", ok |-> TRUE, idx |-> acc + 1]) /\ UNCHANGED <<wit, cache, nroll>>
Resign == Room /\ accT' = accT + 1 /\ Log([op |-> "resign", ok |-> TRUE, idx |-> acc]) /\ UNCHANGED <<acc, wit, cache, nroll>>
RevokeSelf == /\ Room /\ wit.revAt = 0 /\ acc' = acc + 1 /\ accT' = accT + 1 /\ wit' = [wit EXCEPT !.revAt = acc + 1]
              /\ Log([op |-> "revokeself", ok |-> TRUE, idx |-> acc + 1]) /\ UNCHANGED <<cache, nroll>>
Update == /\ Room
          /\ IF wit.revAt # 0 /\ wit.revAt > wit.idx /\ wit.revAt <= acc
               THEN Log([op |-> "update", ok |-> FALSE, idx |-> wit.idx]) /\ UNCHANGED wit       \* ErrorRevoked, witness unchanged
               ELSE wit' = [wit EXCEPT !.idx = acc, !.t = accT] /\ Log([op |-> "update", ok |-> TRUE, idx |-> acc])   \* also a time-only update
          /\ UNCHANGED <<acc, accT, cache, nroll>>
\* the holder reads the state it stored at issuance (witness at index 0) into the credential variable in use - a backup is restored.
\* The cached builder, if any, was made for another state of the witness unless that state is the stored one
Rollback == /\ Room /\ nroll < Rollbacks /\ nroll' = nroll + 1
            /\ wit' = [wit EXCEPT !.idx = 0, !.t = 0]
            /\ cache' = [cache EXCEPT !.stale = cache.has /\ (cache.stale \/ cache.idx # 0)]
            /\ Log([op |-> "rollback", ok |-> TRUE, idx |-> 0]) /\ UNCHANGED <<acc, accT>>
\* the proof embeds the signed accumulator of the index the witness is at; the cache is consumed
Prove == /\ Room /\ cache' = NoCache
         /\ Log([op |-> "prove", ok |-> (~cache.has \/ Usable), idx |-> wit.idx, t |-> wit.t, fromcache |-> cache.has,
                 refreshed |-> (cache.has /\ ~cache.stale /\ cache.idx < wit.idx)])
         /\ UNCHANGED <<acc, accT, wit, nroll>>
Attack == /\ Room /\ Len(hist) > 0 /\ hist[Len(hist)].op = "prove"
          /\ \E k \in Attacks : Log([op |-> "attack", ok |-> FALSE, idx |-> hist[Len(hist)].idx, kind |-> k])
          /\ UNCHANGED <<acc, accT, wit, cache, nroll>>
Next == Prepare \/ RevokeOther \/ Resign \/ RevokeSelf \/ Update \/ Prove \/ Attack \/ Rollback
Spec == Init /\ [][Next]_vars

\* C11, model side
WitnessValidAtOwnIndex == wit.revAt = 0 \/ wit.idx < wit.revAt          \* what an accepted proof states
CacheNotAhead == (cache.has /\ ~cache.stale) => cache.idx <= wit.idx
ReadsTrue == \A i \in 1..Len(hist) : hist[i].op = "prove" => hist[i].idx <= acc /\ hist[i].ok
NoAttackAccepted == \A i \in 1..Len(hist) : hist[i].op = "attack" => ~hist[i].ok
=============================================================================
