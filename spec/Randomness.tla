----------------------------- MODULE Randomness -----------------------------
(* Freshness of proof randomness (property C07) over sequences of operations on two credentials.

   Every commitment randomiser is a fresh identifier (a counter).  A proof records the identifiers it
   consumed: its own e/v/attribute randomisers and randomised signature (always drawn when the
   builder is created), the session's shared secret-key randomiser, and - for a non-revocation part -
   the identifiers of the NonRevocationProofBuilder it consumed, which may have been sitting in the
   credential's cache (NonrevPrepareCache) and may have been refreshed by UpdateCommit (a refresh
   keeps the randomisers: the builder is still consumed by one proof only).
     prepare(c)   NonrevPrepareCache           update(c)   the issuer revokes somebody, Witness.Update
     prove(c)     disclosure proof without / provenr(c) with non-revocation part
     list(c)      one session over both credentials (first with non-revocation part)
     issue        an issuance commitment (CommitToSecretAndProve) of a new CredentialBuilder
     reissue      the SAME builder commits again for another nonce (the request is repeated after a timeout). The randomisers of
                  v' and of the user's shares of random-blind attributes live as long as the builder (drawn in NewCredentialBuilder:
                  `brand`, observation O1 - the commitment U is the same anyway); the randomiser of the SECRET KEY is drawn per call
                  and must be fresh, or the issuer extracts the secret key from the two commitments *)
EXTENDS Integers, Sequences, FiniteSets, TLC
CONSTANTS MaxOps
Creds == {1, 2}
VARIABLES next,     \* next fresh randomiser identifier
          cache,    \* [Creds -> identifier set of the cached builder, {} = empty]
          proofs,   \* sequence of [rand : set of identifiers, nb : identifiers of the consumed nonrev builder]
          ops,
          lastb     \* builder-lifetime randomisers of the latest CredentialBuilder ({}: none yet)
vars == <<next, cache, proofs, ops, lastb>>
Init == next = 1 /\ cache = [c \in Creds |-> {}] /\ proofs = <<>> /\ ops = <<>> /\ lastb = {}
Fresh(k) == next..(next + k - 1)
Room == Len(ops) < MaxOps
Log(o, c) == ops' = Append(ops, [op |-> o, cred |-> c])

Prepare(c) == /\ Room /\ Log("prepare", c)
              /\ IF cache[c] = {} THEN cache' = [cache EXCEPT ![c] = Fresh(2)] /\ next' = next + 2
                                  ELSE UNCHANGED <<cache, next>>              \* refreshed in place, same randomisers
              /\ UNCHANGED <<proofs, lastb>>
Update(c) == Room /\ Log("update", c) /\ UNCHANGED <<next, cache, proofs, lastb>>
Prove(c) == /\ Room /\ Log("prove", c)
            /\ proofs' = Append(proofs, [rand |-> Fresh(4), nb |-> {}]) /\ next' = next + 4 /\ UNCHANGED <<cache, lastb>>
ProveNr(c) == /\ Room /\ Log("provenr", c)
              /\ IF cache[c] # {}
                   THEN /\ proofs' = Append(proofs, [rand |-> Fresh(4) \cup cache[c], nb |-> cache[c]])
                        /\ next' = next + 4 /\ cache' = [cache EXCEPT ![c] = {}]
                   ELSE /\ proofs' = Append(proofs, [rand |-> Fresh(6), nb |-> (next + 4)..(next + 5)])
                        /\ next' = next + 6 /\ UNCHANGED cache
              /\ UNCHANGED lastb
List(c) == /\ Room /\ Log("list", c)
           /\ LET nb == IF cache[c] # {} THEN cache[c] ELSE (next + 7)..(next + 8)
                  used == IF cache[c] # {} THEN 7 ELSE 9
              IN /\ proofs' = proofs \o << [rand |-> (next..(next + 3)) \cup nb, nb |-> nb],
                                           [rand |-> (next + 4)..(next + 6), nb |-> {}] >>
                 /\ next' = next + used
           /\ cache' = [cache EXCEPT ![c] = {}] /\ UNCHANGED lastb
Issue == /\ Room /\ Log("issue", 0) /\ proofs' = Append(proofs, [rand |-> {next}, nb |-> {}]) /\ lastb' = (next + 1)..(next + 2)
         /\ next' = next + 3 /\ UNCHANGED cache
Reissue == /\ Room /\ lastb # {} /\ Log("reissue", 0)
           /\ proofs' = Append(proofs, [rand |-> {next}, nb |-> {}]) /\ next' = next + 1 /\ UNCHANGED <<cache, lastb>>
Next == Issue \/ Reissue \/ \E c \in Creds : Prepare(c) \/ Update(c) \/ Prove(c) \/ ProveNr(c) \/ List(c)
Spec == Init /\ [][Next]_vars

\* C07
NoReuse == \A i, j \in 1..Len(proofs) : i # j => proofs[i].rand \cap proofs[j].rand = {}
SingleConsumer == \A i, j \in 1..Len(proofs) : i # j /\ proofs[i].nb # {} => proofs[i].nb # proofs[j].nb
NotAlsoCached == \A c \in Creds, i \in 1..Len(proofs) : cache[c] # {} => cache[c] \cap proofs[i].rand = {}
=============================================================================
