---------------------------- MODULE RevocationGen ----------------------------
(* Transition generator for the conformance replay of Revocation (C09).
   Pre-states are enumerated directly from the typing invariant Reach of Revocation (which the mc
   configuration checks to be an invariant, so every reachable projected state is among them) for
   one witness and one update object; the single Apply/Prepend step of Revocation is taken from
   each, and the (pre-state, action, post-state) triple is printed as JSON.  The harness
   constructs each pre-state on real objects with the issuer's private key and runs the real call. *)
EXTENDS Revocation, Json

RevSeqs == UNION { [1..L -> 1..Other] : L \in 0..MaxRev }
WitRecs == [issued : {TRUE}, idx : 0..MaxRev, o : {1}, good : BOOLEAN, up : {None}]
UpdRecs == [made : {TRUE}, first : 0..(MaxRev + 1), last : 0..MaxRev, o : {2}, memo : {None} \cup 0..MaxRev]

GenInit == /\ rev \in RevSeqs
           /\ wit \in [W -> WitRecs]
           /\ upd \in [U -> UpdRecs]
           /\ tobj \in [1..2 -> {0, 1}]      \* NW = NU = 1, Spare = 0: object 1 = the witness's, 2 = the update's
           /\ nstep = 0 /\ last = NoResult
           /\ Reach
GenNext == \/ \E w \in W, k \in U : Apply(w, k)
           \/ \E w \in W, j \in 0..MaxRev, t \in {0, 1} : ApplyForeign(w, j, t)
           \/ \E k \in U, g \in 0..MaxRev, h \in 0..MaxRev, p \in BOOLEAN : Prepend(k, g, h, p)

\* projection to what the harness constructs and observes (times instead of object pointers)
PW(wt, tt) == [issued |-> wt.issued, idx |-> wt.idx, t |-> tt[wt.o], good |-> wt.good, up |-> wt.up]
PU(ut, tt) == [made |-> ut.made, first |-> ut.first, last |-> ut.last, t |-> tt[ut.o], memo |-> ut.memo]
EmitT == PrintT(<<"T", ToJson([rev |-> rev, wit |-> PW(wit[1], tobj), upd |-> PU(upd[1], tobj), act |-> last',
                               pwit |-> PW(wit'[1], tobj'), pupd |-> PU(upd'[1], tobj')])>>)

\* ---- two-step sequences: a FAILING first call (which must leave everything as it was), or a successful Prepend, followed by Apply on the
\* same real objects; the harness constructs the pre-state once and runs both calls, so state left behind by the
\* failed call (e.g. a polluted product memo) shows in the second result
\* The update object receives ANOTHER genuine message of its own chain by decoding (json.Unmarshal into the used variable):
\* events f..n, the current accumulator signed at time t. Nothing memoised for the old content may survive.
\* (Only in the generator: with one witness and one update nobody else holds the update's accumulator object.)
Redecode(k, f, t) ==
  /\ upd[k].made /\ nstep < MaxApply /\ f \in 0..(n + 1)
  /\ nstep' = nstep + 1
  /\ upd' = [upd EXCEPT ![k] = [made |-> TRUE, first |-> f, last |-> n, o |-> upd[k].o, memo |-> None]]
  /\ tobj' = [tobj EXCEPT ![upd[k].o] = t]
  /\ last' = [op |-> "redecode", w |-> 0, k |-> k, res |-> "ok", g |-> f, h |-> t, p |-> FALSE]
  /\ UNCHANGED <<rev, wit>>
VARIABLE first
Failing(res) == res \in {"toonew", "revoked", "invalidated", "missing", "rejected"}
Gen2Init == GenInit /\ first = [rev |-> <<>>, wit |-> PW(wit[1], tobj), upd |-> PU(upd[1], tobj), act |-> NoResult]
Gen2Next == \/ /\ nstep = 0
               /\ \/ \E w \in W, k \in U : Apply(w, k)
                  \/ \E k \in U, g \in 0..MaxRev, h \in 0..MaxRev, p \in BOOLEAN : Prepend(k, g, h, p) \/ PrependForeign(k, g, h, p)
                  \/ \E w \in W, j \in 0..MaxRev, t \in {0, 1} : ApplyForeign(w, j, t)
                  \/ \E k \in U, f \in 0..(MaxRev + 1), t \in {0, 1} : Redecode(k, f, t)
               /\ (Failing(last'.res) \/ (last'.op \in {"prepend", "redecode"} /\ last'.res = "ok") \/ last'.op = "applyforeign")      \* or a successful Prepend: what it memoises shows in the Apply
               /\ first' = [rev |-> rev, wit |-> PW(wit[1], tobj), upd |-> PU(upd[1], tobj), act |-> last']
            \/ /\ nstep = 1 /\ \E w \in W, k \in U : Apply(w, k)
               /\ UNCHANGED first
\* single transitions (first is carried along unchanged)
GenSpec == Gen2Init /\ [][GenNext /\ UNCHANGED first]_<<vars, first>>
Gen2Spec == Gen2Init /\ [][Gen2Next]_<<vars, first>>
EmitS == nstep' = 2 => PrintT(<<"S", ToJson([rev |-> rev, wit |-> first.wit, upd |-> first.upd, act1 |-> first.act,
                                            act |-> last', pwit |-> PW(wit'[1], tobj'), pupd |-> PU(upd'[1], tobj')])>>)
=============================================================================
