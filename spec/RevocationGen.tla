---------------------------- MODULE RevocationGen ----------------------------
(* Transition generator for the conformance replay of Revocation (C09).
   Pre-states are enumerated directly from the typing invariant Reach of Revocation (which the mc
   configuration checks to be an invariant, so every reachable projected state is among them) for
   one witness and one update object; the single Apply/Prepend step of Revocation is taken from
   each, and the (pre-state, action, post-state) triple is printed as JSON.  The harness
   constructs each pre-state on real objects with the issuer's private key and runs the real call. *)
EXTENDS Revocation, Json

RevSeqs == UNION { [1..L -> 1..Other] : L \in 0..MaxRev }
WitRecs == [issued : {TRUE}, idx : 0..MaxRev, t : {0, 1}, good : BOOLEAN]
UpdRecs == [made : {TRUE}, first : 0..(MaxRev + 1), last : 0..MaxRev, t : {0, 1}, memo : {None} \cup 0..MaxRev]

GenInit == /\ rev \in RevSeqs
           /\ wit \in [W -> WitRecs]
           /\ upd \in [U -> UpdRecs]
           /\ nstep = 0 /\ last = NoResult
           /\ Reach
GenNext == \/ \E w \in W, k \in U : Apply(w, k)
           \/ \E k \in U, g \in 0..MaxRev, h \in 0..MaxRev, p \in BOOLEAN : Prepend(k, g, h, p)
GenSpec == GenInit /\ [][GenNext]_vars

EmitT == PrintT(<<"T", ToJson([rev |-> rev, wit |-> wit[1], upd |-> upd[1], act |-> last',
                               pwit |-> wit'[1], pupd |-> upd'[1]])>>)
=============================================================================
