------------------------------ MODULE CLSignGen ------------------------------
(* One scripted random stream per reachable state in which the signer has read at least one candidate. *)
EXTENDS CLSign, Json
EmitS == (reads # <<>>) => PrintT(<<"S", ToJson([v |-> vchunk, reads |-> reads, e |-> e])>>)
=============================================================================
