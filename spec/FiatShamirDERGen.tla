-------------------------- MODULE FiatShamirDERGen --------------------------
(* Case generator of C15: TLC evaluates the pre-images of FiatShamirDER for a family of inputs and prints

     <<"DER", json>>  [id, fam, marker, vals, segs]            HashCommit(vals, marker) must be SHA-256(bytes(segs))
     <<"GHN", json>>  [id, a, b, index, bitlen, trunc, limbs]  GetHashNumber = SUM SHA-256(limb.pre) * 2^limb.shift
     <<"IH",  json>>  [id, input, pre]                          IntHashSha256(input) = SHA-256(pre)

   vals are value descriptors [n, l, f, g, s, z] (sign, byte length, first byte, fill, step, trailing zero bytes: the
   magnitude is FiatShamirDER!Mag(l, f, g, s, z)); segs is a sequence of [b, r]: the bytes b followed by the magnitude
   of vals[r] when r > 0.  Small pre-images are one segment with all bytes; for large ones the header bytes of every
   element are sliced out of the pre-image TLC computed and the content of non-negative integers is referenced
   (TLC asserts that the referenced slice is equal to the magnitude), which keeps the output small.

   One state per case (counter k); the cases are printed by the state constraint Emit. Run with -workers 1. *)
EXTENDS FiatShamirDER, Json

CONSTANTS Seed,        \* pseudo-random choices depend on it (VERIF_SEED)
          Thorough     \* BOOLEAN: family sizes
VARIABLE k

\* ------------------------------------------------------------------ pseudo-random choices (32-bit safe)
Mix(x) == LET y == x % 46337 IN (y * y + 12345) % 46337
Rnd(a, b, c) == Mix(Mix(Mix(Mix(Seed + 1) * 3 + a) * 5 + b) * 7 + c) \div 4        \* 0 .. 11584
Pick(seq, r) == seq[1 + (r % Len(seq))]

\* ------------------------------------------------------------------ descriptors
D(n, l, f, g, s, z) == [n |-> n, l |-> l, f |-> f, g |-> g, s |-> s, z |-> z]
Val(d) == V(d.n, d.l, d.f, d.g, d.s, d.z)
ValsOf(ds) == [i \in 1..Len(ds) |-> Val(ds[i])]
C(fam, marker, ds, full) == [fam |-> fam, marker |-> marker, ds |-> ds, full |-> full]

\* ---- family 1: single values at the byte-length boundaries, both signs, both markers
Lens1 == <<0, 1, 2, 126, 127, 128, 129, 254, 255, 256, 257, 624, 625>>
Firsts == <<1, 127, 128, 255>>
Fills1 == <<<<0, 0>>, <<255, 0>>, <<1, 7>>>>                       \* <<fill, step>>
N1 == 2 * 2 * Len(Fills1) * Len(Firsts) * Len(Lens1)
Case1(i) == LET m == i % 2  ng == (i \div 2) % 2  g == Fills1[1 + ((i \div 4) % 3)]
                f == Firsts[1 + ((i \div 12) % 4)]  l == Lens1[1 + (i \div 48)] IN
            C("single", m = 1, <<D(ng = 1, l, f, g[1], g[2], 0)>>, TRUE)

\* ---- family 2: one value, the length of the SEQUENCE body crosses 127/128 and 255/256 (with and without marker)
Lens2 == [j \in 1..26 |-> IF j <= 13 THEN 114 + j ELSE 229 + j]    \* 115..127, 243..255
N2 == 2 * 2 * 26
Case2(i) == C("seqlen", i % 2 = 1, <<D((i \div 2) % 2 = 1, Lens2[1 + i \div 4], 1, 90, 3, 0)>>, TRUE)

\* ---- family 3: lists of given lengths (count encoding 127/128/255/256/300), short pseudo-random entries
FixedLL == <<0, 1, 2, 3, 126, 127, 128, 129, 255, 256, 257, 300>>
NSampledLL == IF Thorough THEN 150 ELSE 14
N3 == 2 * (Len(FixedLL) + NSampledLL)
ShortLens == <<0, 0, 1, 1, 1, 2, 2, 3, 4, 5, 8, 16, 32, 33, 127, 128>>
FirstPool == <<1, 2, 3, 5, 64, 127, 128, 129, 200, 255>>
RndDesc(a, b, lens) ==
   LET l == Pick(lens, Rnd(a, b, 1))  tzr == Rnd(a, b, 5) % 4 IN
   D(Rnd(a, b, 2) % 2 = 1, l, Pick(FirstPool, Rnd(a, b, 3)), Rnd(a, b, 4) % 256, Rnd(a, b, 6) % 256,
     IF l >= 2 /\ tzr = 0 THEN 1 + (Rnd(a, b, 7) % (l - 1)) ELSE 0)
Case3(i) == LET j == i \div 2
                n == IF j < Len(FixedLL) THEN FixedLL[j + 1] ELSE Rnd(3, j, 0) % 301 IN
            C("list", i % 2 = 1, [e \in 1..n |-> RndDesc(3000 + j, e, ShortLens)], TRUE)

\* ---- family 4: 1..6 entries of 0..5000 bits (0..625 bytes, any first byte)
N4 == IF Thorough THEN 3000 ELSE 90
BigLens == <<0, 1, 31, 32, 33, 64, 126, 127, 128, 129, 130, 200, 254, 255, 256, 257, 258, 300, 400, 511, 512, 513, 600, 623, 624, 625>>
RndDesc4(a, b) ==
   LET d == RndDesc(a, b, BigLens)  r == Rnd(a, b, 8) IN
   IF r % 3 = 0 /\ d.l > 0 THEN [d EXCEPT !.l = 1 + (Rnd(a, b, 9) % 625), !.z = 0, !.f = 1 + (Rnd(a, b, 10) % 255)] ELSE d
Case4(i) == LET n == 1 + (Rnd(4, i, 0) % 6) IN
            C("big", Rnd(4, i, 11) % 2 = 1, [e \in 1..n |-> RndDesc4(40000 + i, e)], TRUE)

\* ---- family 5: the SEQUENCE body crosses 65535/65536 bytes: 63 values of 1024 encoded bytes, the count (3 bytes),
\*      one value with c content bytes (4 + c encoded bytes): body = 64519 + c (+ 3 with the marker)
CLens5 == IF Thorough THEN [j \in 1..15 |-> 1005 + j] ELSE [j \in 1..8 |-> 1009 + j]     \* 1006..1020 / 1010..1017
N5 == 2 * Len(CLens5)
Case5(i) == LET c == CLens5[1 + i \div 2] IN
            C("seq65535", i % 2 = 1,
              [e \in 1..64 |-> IF e = 17 THEN D(FALSE, c, 1, 17, 1, 0) ELSE D(FALSE, 1020, 1, e, 3, 0)],
              c \in {1016, 1017} /\ i % 2 = 0)

\* ---- family 6: the far corner: 300 (or 299) entries of 5000 bits, every 10th negative
N6 == IF Thorough THEN 4 ELSE 2
Case6(i) == LET n == 300 - i \div 2 IN
            C("corner", i % 2 = 1, [e \in 1..n |-> D(e % 10 = 0, 625, 255 - (e % 128), e % 256, 1 + (e % 5), 0)], FALSE)

NDER == N1 + N2 + N3 + N4 + N5 + N6
CaseAt(i) == IF i < N1 THEN Case1(i)
             ELSE IF i < N1 + N2 THEN Case2(i - N1)
             ELSE IF i < N1 + N2 + N3 THEN Case3(i - N1 - N2)
             ELSE IF i < N1 + N2 + N3 + N4 THEN Case4(i - N1 - N2 - N3)
             ELSE IF i < N1 + N2 + N3 + N4 + N5 THEN Case5(i - N1 - N2 - N3 - N4)
             ELSE Case6(i - N1 - N2 - N3 - N4 - N5)

\* ------------------------------------------------------------------ segments, sliced out of the computed pre-image
Force(f) == <<>> \o f                  \* evaluate a lazily represented sequence once
Segs(marker, vs, pre, full) ==
   IF full THEN <<[b |-> pre, r |-> 0]>>
   ELSE LET n == Len(vs)
            enc == Force([i \in 1..n |-> DERInt(vs[i])])
            lens == Force([i \in 1..n |-> Len(enc[i])])
            head == (IF marker THEN Len(DERBool(TRUE)) ELSE 0) + Len(DERInt(Nat2Int(n)))
            bodylen == FoldLeft(+, head, lens)
            start == 1 + Len(DERLen(bodylen)) + head + 1                   \* position of the first list element
            off[i \in 1..(n + 1)] == IF i = 1 THEN start ELSE off[i - 1] + lens[i - 1]
            byref(i) == ~vs[i].neg /\ Len(vs[i].mag) > 0
            seg(i) == LET h == IF byref(i) THEN lens[i] - Len(vs[i].mag) ELSE lens[i] IN
                      IF byref(i) /\ SubSeq(pre, off[i] + h, off[i] + lens[i] - 1) # vs[i].mag
                      THEN Assert(FALSE, <<"segment content is not the magnitude", i>>)
                      ELSE [b |-> SubSeq(pre, off[i], off[i] + h - 1), r |-> IF byref(i) THEN i ELSE 0]
        IN IF off[n + 1] # Len(pre) + 1 THEN Assert(FALSE, "segments do not cover the pre-image")
           ELSE <<[b |-> SubSeq(pre, 1, start - 1), r |-> 0]>> \o [i \in 1..n |-> seg(i)]

RenderDER(i) == LET c == CaseAt(i)  vs == Force(ValsOf(c.ds))  pre == Preimage(c.marker, vs) IN
   [id |-> i, fam |-> c.fam, marker |-> c.marker, vals |-> c.ds, len |-> Len(pre), segs |-> Segs(c.marker, vs, pre, c.full)]

\* ------------------------------------------------------------------ GetHashNumber
IntOf(neg, n) == [neg |-> neg /\ n # 0, mag |-> IF n = 0 THEN <<>> ELSE BytesOf(n)]       \* index values
Indexes == <<<<FALSE, 0>>, <<FALSE, 1>>, <<FALSE, 2>>, <<FALSE, 127>>, <<FALSE, 128>>, <<FALSE, 255>>, <<FALSE, 256>>,
             <<FALSE, 65535>>, <<FALSE, 65536>>, <<FALSE, 2147483647>>, <<TRUE, 1>>, <<TRUE, 128>>, <<TRUE, 129>>, <<TRUE, 2147483647>>>>
Bitlens == <<0, 1, 255, 256, 257, 511, 512, 513, 1024, 1025, 2048, 4095, 4097>>
AOpts == << <<>>, <<D(FALSE, 1, 5, 0, 0, 0)>>, <<D(FALSE, 128, 128, 33, 5, 0)>>, <<D(TRUE, 32, 255, 255, 0, 0)>>,
            <<D(FALSE, 0, 0, 0, 0, 0)>>, <<D(FALSE, 256, 201, 7, 11, 0)>> >>
NGHNfull == Len(AOpts) * Len(AOpts) * Len(Indexes) * Len(Bitlens)
NGHN == (IF Thorough THEN NGHNfull ELSE 160) + 3
GHNAt(j) ==
   IF j >= NGHN - 3
   THEN \* many limbs: the counter crosses 127/128 (one-byte / two-byte INTEGER content) and 255/256
        LET q == j - (NGHN - 3) IN
        [a |-> AOpts[2], b |-> AOpts[1 + q], index |-> <<FALSE, 3>>, bitlen |-> <<32769, 65537, 33000>>[q + 1]]
   ELSE LET t == IF Thorough THEN j ELSE (Rnd(7, j, 0) * 11587 + Rnd(7, j, 1)) % NGHNfull IN
        [a |-> AOpts[1 + (t % 6)], b |-> AOpts[1 + ((t \div 6) % 6)], index |-> Indexes[1 + ((t \div 36) % Len(Indexes))],
         bitlen |-> Bitlens[1 + (t \div (36 * Len(Indexes)))]]
RenderGHN(j) ==
   LET c == GHNAt(j)
       sch == Schedule(ValsOf(c.a), ValsOf(c.b), IntOf(c.index[1], c.index[2]), c.bitlen)
       limbs == [i \in 1..Len(sch) |-> [ctr |-> sch[i].ctr, shift |-> sch[i].shift, n |-> Len(sch[i].list),
                                        pre |-> Preimage(sch[i].marker, sch[i].list)]]
   IN IF Cardinality({limbs[i].pre : i \in 1..Len(limbs)}) # Len(limbs) THEN Assert(FALSE, "limb inputs are not distinct")
      ELSE [id |-> j, a |-> c.a, b |-> c.b, neg |-> c.index[1], index |-> c.index[2], bitlen |-> c.bitlen,
            trunc |-> TruncateToBitlen, limbs |-> limbs]

\* ------------------------------------------------------------------ IntHashSha256
IHLens == <<0, 1, 2, 31, 32, 33, 55, 56, 57, 63, 64, 65, 119, 120, 127, 128, 129, 255, 256, 625>>
NIH == 2 * Len(IHLens) + 3
RenderIH(j) ==
   LET input == IF j = 0 THEN <<0>> ELSE IF j = 1 THEN <<0, 0, 1>> ELSE IF j = 2 THEN <<0, 255, 0>>
                ELSE LET l == IHLens[1 + (j - 3) \div 2] IN
                     Mag(l, 1 + ((j * 37) % 255), j % 256, 1 + 2 * (j % 2), IF l > 2 /\ j % 2 = 0 THEN 2 ELSE 0)
   IN [id |-> j, input |-> input, pre |-> IntHashInput(input)]

\* ------------------------------------------------------------------ one state per case
NAll == NDER + NGHN + NIH
GenInit == k = 0 /\ xm = FALSE /\ ym = FALSE /\ xs = <<>> /\ ys = <<>> /\ xp = <<>> /\ yp = <<>>    \* the pair machine is idle
GenNext == k < NAll /\ k' = k + 1 /\ UNCHANGED vars
GenSpec == GenInit /\ [][GenNext]_<<k, vars>>
Emit == IF k = 0 THEN PrintT(<<"SIZES", NDER, NGHN, NIH>>)
        ELSE IF k <= NDER THEN PrintT(<<"DER", ToJson(RenderDER(k - 1))>>)
        ELSE IF k <= NDER + NGHN THEN PrintT(<<"GHN", ToJson(RenderGHN(k - 1 - NDER))>>)
        ELSE PrintT(<<"IH", ToJson(RenderIH(k - 1 - NDER - NGHN))>>)
=============================================================================
