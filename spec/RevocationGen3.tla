---------------------------- MODULE RevocationGen3 ----------------------------
(* Sequence generator for Revocation (C09): ONE update object applied MaxApply times to NW witnesses that
   lag behind by different amounts, in every order and with repetition ("one update object applied to
   several witnesses").  What a call leaves behind in the shared object - the memoised product - is not part
   of any single transition; it shows only in what LATER calls on the same object do.

   Pre-states are enumerated from the typing invariant Reach, restricted to: all witnesses issued and good at
   any index, only witness 1 possibly revoked, the update ends at the current accumulator, no memo yet, all
   signing times 0.  The harness builds each pre-state once on real objects and runs the whole sequence. *)
EXTENDS Revocation, Json

CONSTANTS MinRev, FirstMax
VARIABLE hist

RevSeqs == UNION { [1..L -> {1, Other}] : L \in MinRev..MaxRev }
GenInit == /\ rev \in RevSeqs
           /\ wit \in [W -> [issued : {TRUE}, idx : 0..MaxRev, o : W, good : {TRUE}, up : {None}]]
           /\ \A w \in W : wit[w].o = w
           /\ upd \in [U -> [made : {TRUE}, first : 0..FirstMax, last : {Len(rev)}, o : {NW + 1}, memo : {None}]]
           /\ tobj = [x \in 1..(NW + NU + Spare) |-> 0]
           /\ nstep = 0 /\ last = NoResult /\ hist = <<>>
           /\ Reach
Step == /\ \E w \in W : Apply(w, 1)
        /\ hist' = Append(hist, [w |-> last'.w, pre |-> wit[last'.w].idx, res |-> last'.res, idx |-> wit'[last'.w].idx, up |-> wit'[last'.w].up])
Gen3Spec == GenInit /\ [][Step]_<<vars, hist>>
Emit3 == nstep' = MaxApply =>
           PrintT(<<"Q", ToJson([rev |-> rev, first |-> upd[1].first, last |-> upd[1].last, steps |-> hist'])>>)
=============================================================================
