---------------------------- MODULE SaccMemoGen ----------------------------
(* Emits every history of SaccMemo of exactly MaxOps operations that ends in a Verify / Ensure (with the outcome the
   specification owes at every Verify / Ensure on the way) for replay on a real SignedAccumulator (harness: nr memo). *)
EXTENDS SaccMemo, Json
Emit == (Len(hist) = MaxOps /\ last.op # "none") => PrintT(<<"MEMO", ToJson(hist)>>)
=============================================================================
