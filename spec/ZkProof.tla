------------------------------- MODULE ZkProof -------------------------------
(* The representation-proof engine of gabi (zkproof/representationproof.go) on which the range
   proofs (C12, C13), the non-revocation proofs (C11) and the key-correctness proofs (C17) rest,
   in CONCRETE toy groups small enough for TLC to do the arithmetic itself:

     Group variant   RepresentationProofStructure over zkproof.BuildGroup(23): the subgroup of order
                     11 of Z_23^*, with the generators g, h that BuildGroup derives for this prime
     Qr variant      QrRepresentationProofStructure over a public key with n = 77 (QR_77 has order
                     15), bases S = 4, Z = 9, R0 = 16

   A structure states   PROD_lhs base^power  =  PROD_rhs base^(power * secret).
   Besides the fixed bases a statement may use bases x, y that come FROM THE PROVER (Pedersen
   commitments, the C_i of a range proof, Cr/Cu of a non-revocation proof): they range over ALL
   residues - quadratic residues, non-residues, -1, and 0.

   Commit / Recon / IsTrue are written from the mathematics, with the two places where the code
   deliberately differs from it made explicit:
     * a base^negative for a base without inverse leaves the loop variable as the previous iteration
       left it (Go's Exp returns nil and does not touch the receiver), in both variants and on both sides;
     * Qr variant: the inversion of the left-hand side is skipped when it has no inverse (the code
       ignores the nil result of ModInverse).
   Theorems checked by TLC on every case of the family:
     Complete    a true statement, honest responses  =>  Recon = Commit
     Sound2      (bases in the subgroup) two accepting transcripts for one commitment with
                 different challenges yield secrets for which the statement is true
     Absorbing   a prover-supplied base that is 0 and is really used makes Recon = 0 whatever the
                 responses are: the structure-level checks of the callers MUST refuse it (D27, D28)
   Every case is replayed on the real engine and the three numbers are compared exactly. *)
EXTENDS Integers, Sequences, FiniteSets, TLC

P == 23
Ord == 11
CONSTANTS Gg, Hh      \* the generators zkproof.BuildGroup(23) derives (read from the real code by the check before TLC runs)
N == 77
OrdN == 15

ASSUME /\ Gg \in 2..(P - 1) /\ Hh \in 2..(P - 1) /\ Gg # Hh
       /\ \E z \in 1..(P - 1) : (z * z) % P = Gg
       /\ \E z \in 1..(P - 1) : (z * z) % P = Hh        \* both in the subgroup of squares (order 11)
RECURSIVE Pow(_, _, _)
Pow(b, e, m) == IF e = 0 THEN 1 % m ELSE (b * Pow(b, e - 1, m)) % m
HasInv(x, m) == \E y \in 1..(m - 1) : (x * y) % m = 1
Inv(x, m) == CHOOSE y \in 1..(m - 1) : (x * y) % m = 1

\* ---------------------------------------------------------------- the family of statements
\* lhs: sequence of [b, p];  rhs: sequence of [b, s, p];  secrets are named "a", "b"
L(b, p) == [b |-> b, p |-> p]
R(b, s, p) == [b |-> b, s |-> s, p |-> p]
GroupStructs ==
  { [name |-> "pedersen", lhs |-> <<L("x", 1)>>,              rhs |-> <<R("g", "a", 1), R("h", "b", 1)>>],
    [name |-> "mult",     lhs |-> <<L("y", 1)>>,              rhs |-> <<R("x", "a", 1), R("h", "b", -1)>>],
    [name |-> "const",    lhs |-> <<L("g", 3), L("x", -2)>>,  rhs |-> <<R("h", "a", 2), R("g", "b", -3)>>],
    [name |-> "single",   lhs |-> <<L("x", 1)>>,              rhs |-> <<R("y", "a", 1)>>] }
QrStructs ==
  { [name |-> "crep",     lhs |-> <<L("x", 1)>>,              rhs |-> <<R("R0", "a", 1), R("S", "b", 1)>>],        \* C_i = R^d S^v
    [name |-> "mcorrect", lhs |-> <<L("R0", -3)>>,            rhs |-> <<R("S", "b", -1), R("R0", "a", -2), R("x", "b", 1)>>],
    [name |-> "nu",       lhs |-> <<L("Z", 1)>>,              rhs |-> <<R("x", "a", 1), R("S", "b", -1)>>],       \* nu = Cu^e h^-(e r)
    [name |-> "stale",    lhs |-> <<L("Z", 1)>>,              rhs |-> <<R("S", "a", 1), R("x", "b", -1)>>] }      \* supplied base with a negative power

CONSTANTS Variant,        \* "group" | "qr"
          Xs, Ys,         \* values of the prover-supplied bases
          Secs, Rands, Chals,
          Resps           \* arbitrary (dishonest) responses
Structs == IF Variant = "group" THEN GroupStructs ELSE QrStructs
M == IF Variant = "group" THEN P ELSE N

VARIABLE cs     \* the case: [st, x, y, a, b, ra, rb, c, qa, qb]   (qa, qb: arbitrary responses)
vars == <<cs>>
Init == cs \in [st : Structs, x : Xs, y : Ys, a : Secs, b : Secs, ra : Rands, rb : Rands, c : Chals, qa : Resps, qb : Resps]
Next == UNCHANGED cs
Spec == Init /\ [][Next]_vars

Val(name) == CASE name = "g" -> Gg [] name = "h" -> Hh [] name = "x" -> cs.x [] name = "y" -> cs.y
               [] name = "S" -> 4 [] name = "Z" -> 9 [] name = "R0" -> 16
Sec(s) == IF s = "a" THEN cs.a ELSE cs.b
Rnd(s) == IF s = "a" THEN cs.ra ELSE cs.rb
Arb(s) == IF s = "a" THEN cs.qa ELSE cs.qb

\* ---------------------------------------------------------------- Group variant
\* exponents are reduced into 0..Ord-1 (g.OrderMod.Mod; Group.Exp adds Order to a negative exponent)
GExp(name, e) == Pow(Val(name) % P, e % Ord, P)
\* the left-hand side: Lhs powers are NOT reduced by the engine; g and h go through Group.Exp (negative: + Order),
\* supplied bases through the caller's lookup (modular inverse for a negative power)
\* One factor of the left-hand side. `prev` is what the loop variable held before: a supplied base without inverse raised
\* to a negative power leaves it untouched (Go's Exp returns nil without writing the receiver), so the PREVIOUS factor
\* (0 at the start) is multiplied in again.
LhsExp(name, p, m, prev) == IF p >= 0 THEN Pow(Val(name) % m, p, m)
                            ELSE IF name \in {"g", "h"} THEN Pow(Val(name), p + Ord, m)
                            ELSE IF HasInv(Val(name) % m, m) THEN Pow(Inv(Val(name) % m, m), 0 - p, m) ELSE prev
RECURSIVE GProd(_, _, _)
GProd(rhs, F(_), i) == IF i > Len(rhs) THEN 1 ELSE (GExp(rhs[i].b, rhs[i].p * F(rhs[i].s)) * GProd(rhs, F, i + 1)) % P
RECURSIVE LFold(_, _, _, _)
LFold(acc, lhs, m, i) == IF i > Len(lhs) THEN acc
                         ELSE LET f == LhsExp(lhs[i].b, lhs[i].p, m, acc[2]) IN LFold(<<(acc[1] * f) % m, f>>, lhs, m, i + 1)
LProd(lhs, m, i) == LFold(<<1, 0>>, lhs, m, i)[1]
GCommit == GProd(cs.st.rhs, Rnd, 1)
GHonest(s) == (Rnd(s) - cs.c * Sec(s)) % Ord                  \* the callers' responses: r - c*s mod order
GRecon(F(_)) == (Pow(LProd(cs.st.lhs, P, 1), cs.c, P) * GProd(cs.st.rhs, F, 1)) % P
GIsTrue == LProd(cs.st.lhs, P, 1) = GProd(cs.st.rhs, Sec, 1)

\* ---------------------------------------------------------------- Qr variant (exponents are integers, never reduced)
\* acc = <<commitment, contribution>>: a base^negative without inverse leaves `contribution` as the previous iteration left it
QStep(acc, name, e) ==
  LET v == Val(name) % N
      contrib == IF e >= 0 THEN Pow(v, e, N) ELSE IF HasInv(v, N) THEN Pow(Inv(v, N), 0 - e, N) ELSE acc[2]
  IN <<(acc[1] * contrib) % N, contrib>>
RECURSIVE QFold(_, _, _, _)
QFold(acc, rhs, F(_), i) == IF i > Len(rhs) THEN acc ELSE QFold(QStep(acc, rhs[i].b, rhs[i].p * F(rhs[i].s)), rhs, F, i + 1)
QCommit == QFold(<<1, 0>>, cs.st.rhs, Rnd, 1)[1]
QHonest(s) == Rnd(s) + cs.c * Sec(s)                           \* the callers' responses: r + c*s over the integers
QLhs == LET l == LProd(cs.st.lhs, N, 1) IN IF HasInv(l, N) THEN Inv(l, N) ELSE l        \* a failed inversion is ignored
QRecon(F(_)) == QFold(<<Pow(QLhs, cs.c, N), 0>>, cs.st.rhs, F, 1)[1]
QRhsTrue == QFold(<<1, 0>>, cs.st.rhs, Sec, 1)[1]
QIsTrue == LProd(cs.st.lhs, N, 1) = QRhsTrue

Commit == IF Variant = "group" THEN GCommit ELSE QCommit
ReconHonest == IF Variant = "group" THEN GRecon(GHonest) ELSE QRecon(QHonest)
ReconArb == IF Variant = "group" THEN GRecon(Arb) ELSE QRecon(Arb)
IsTrue == IF Variant = "group" THEN GIsTrue ELSE QIsTrue

\* ---------------------------------------------------------------- theorems
Uses(name) == \E i \in 1..Len(cs.st.rhs) : cs.st.rhs[i].b = name
UsesL(name) == \E i \in 1..Len(cs.st.lhs) : cs.st.lhs[i].b = name
Supplied == {n \in {"x", "y"} : Uses(n) \/ UsesL(n)}
QRs(m) == { (z * z) % m : z \in 1..(m - 1) } \ {0}
Units(m) == { z \in 1..(m - 1) : HasInv(z, m) }
AllUnits == \A n \in Supplied : Val(n) % M \in Units(M)
\* (Group variant: the engine reduces exponents modulo the subgroup order, which is only meaningful for bases IN the subgroup -
\* x = y^10 is true for y = -1, x = 1, yet the honest transcript is not accepted)
InSubgroup == \A n \in Supplied : Val(n) % P \in QRs(P)
Complete == (IsTrue /\ (IF Variant = "group" THEN InSubgroup ELSE AllUnits)) => ReconHonest = Commit
\* a supplied base that is 0 and enters the right-hand side with a positive exponent (or the left-hand side, c > 0) absorbs everything
Absorbing == (\E i \in 1..Len(cs.st.rhs) : cs.st.rhs[i].b \in {"x", "y"} /\ Val(cs.st.rhs[i].b) % M = 0 /\ cs.st.rhs[i].p * Arb(cs.st.rhs[i].s) > 0)
               => ReconArb = 0
AbsorbingL == (cs.c > 0 /\ \E i \in 1..Len(cs.st.lhs) : cs.st.lhs[i].b \in {"x", "y"} /\ cs.st.lhs[i].p > 0 /\ Val(cs.st.lhs[i].b) % M = 0)
               => ReconArb = 0
\* special soundness in the prime-order group: the honest transcript and any other accepting transcript for the same
\* commitment with another challenge determine secrets that make the statement true (supplied bases in the subgroup)
Sound2 == (Variant = "group" /\ InSubgroup) =>
            \A c2 \in Chals \ {cs.c} : \A qa \in 0..(Ord - 1), qb \in 0..(Ord - 1) :
               LET F2(s) == IF s = "a" THEN qa ELSE qb
                   rec2 == (Pow(LProd(cs.st.lhs, P, 1), c2, P) * GProd(cs.st.rhs, F2, 1)) % P
                   d == Inv((cs.c - c2) % Ord, Ord)
                   ea == ((qa - GHonest("a")) * d) % Ord
                   eb == ((qb - GHonest("b")) * d) % Ord
                   E(s) == IF s = "a" THEN ea ELSE eb
               IN (GRecon(GHonest) = GCommit /\ rec2 = GCommit) => LProd(cs.st.lhs, P, 1) = GProd(cs.st.rhs, E, 1)
\* vacuity probes (must be violated)
NeverTrue == ~IsTrue
NeverZero == ReconArb # 0
=============================================================================
