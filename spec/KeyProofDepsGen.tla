-------------------------- MODULE KeyProofDepsGen --------------------------
(* scenarios for the replay: the forgeries that exist without the guard, their controls, and the honest proof *)
EXTENDS KeyProofDeps, Json
WrapForgery == wrap /\ ~trap /\ zero = {} /\ ~lieN /\ lieB # {} /\ \A k \in lieB : false \cap BRels(k) = {<<"rootsValid", k>>}
TrapForgery == trap /\ ~wrap /\ zero = {} /\ lieN /\ lieB = {} /\ false = {<<"pQNRel", 0>>}
MulForgery == ~wrap /\ ~trap /\ zero = {} /\ lieN /\ lieB = {} /\ false = {<<"mulTie", 0>>}     \* free multipliers, everything else honest for the true factors
Replayable == \/ MulForgery \/ WrapForgery \/ TrapForgery
              \/ /\ ~wrap /\ ~trap
                 /\ zero \subseteq {<<"p", 0>>, <<"N", 0>>}
                 /\ (lieN => false \cap NRels \subseteq {<<"pPprimeRel", 0>>, <<"pQNRel", 0>>})          \* the prover commits to unrelated primes
                 /\ (\A k \in lieB : false \cap BRels(k) = {<<"rootsValid", k>>})                       \* and to arbitrary "roots"
                 /\ (lieN => <<"p", 0>> \in zero) /\ (lieB # {} => <<"N", 0>> \in zero)                 \* (other lies cannot even be built by a prover)
EmitK == Replayable => PrintT(<<"K", ToJson([zeroP |-> (<<"p", 0>> \in zero), zeroN |-> (<<"N", 0>> \in zero), lieN |-> lieN, lieB |-> lieB, mulFree |-> MulForgery, wrap |-> WrapForgery, trap |-> TrapForgery,
                                             accept |-> Accept])>>)
=============================================================================
