-------------------------------- MODULE CLSign --------------------------------
(* The issuer's side of a CL signature (clsignature.go signMessageBlockAndCommitment,
   internal/common/randomprime.go RandomPrimeInRange), property C05, first sentence: whatever the
   random stream, the issuer produces a signature whose components lie where the verifier (and the
   security proof) want them:  v = 2^(lv-1) + vTilde with vTilde < 2^(lv-1), and e a prime of
   [2^(le-1), 2^(le-1) + 2^(le'-1)].

   The random stream is the environment: one chunk for vTilde, then one chunk per prime candidate.
   RandomPrimeInRange masks the chunk to `length` bits, sets the lowest bit, adds 2^start, discards
   candidates with a small factor or failing the primality test and READS A FRESH CHUNK for the next
   candidate.  Toy sizes: start = 5, length = 3, i.e. candidates 33, 35, 37, 39 in [32, 40]; lv = 4.

   Walk = TRUE is the tempting variant borrowed from crypto/rand.Prime (step upwards by two from a
   failed candidate instead of drawing again) without its re-check of the upper end: from 39 it
   reaches 41.  SignerSound then fails; it is kept as the demonstration that the invariant bites. *)
EXTENDS Integers, Sequences, FiniteSets, TLC

CONSTANTS Walk, MaxReads

Start == 5
Length == 3
Lo == 32
Hi == 40
Lv == 4
IsPrime(p) == p >= 2 /\ \A d \in 2..(p - 1) : p % d # 0
Chunks == 0..7                      \* what the reader returns for one candidate, after masking
VChunks == {"zeros", "ones", "mid"}   \* what the reader returns for vTilde: all zero bits, all one bits, anything else
Cand(c) == Lo + (IF c % 2 = 0 THEN c + 1 ELSE c)
NextPrimeFrom(x) == CHOOSE p \in x..(x + 16) : IsPrime(p) /\ \A q \in x..(p - 1) : ~IsPrime(q)

VARIABLES vchunk, reads, e, v
vars == <<vchunk, reads, e, v>>

Init == vchunk \in VChunks /\ reads = <<>> /\ e = 0 /\ v = 0
DrawV == /\ v = 0
         /\ v' = 8 + (CASE vchunk = "zeros" -> 0 [] vchunk = "ones" -> 7 [] OTHER -> 3)
         /\ UNCHANGED <<vchunk, reads, e>>
Candidate(c) == /\ v # 0 /\ e = 0 /\ Len(reads) < MaxReads
                /\ reads' = Append(reads, c)
                /\ e' = IF IsPrime(Cand(c)) THEN Cand(c)
                        ELSE IF Walk THEN NextPrimeFrom(Cand(c)) ELSE 0
                /\ UNCHANGED <<vchunk, v>>
Next == DrawV \/ \E c \in Chunks : Candidate(c)
Spec == Init /\ [][Next]_vars

\* C05: what the issuer hands out is valid
SignerSound == e # 0 => e >= Lo /\ e <= Hi /\ IsPrime(e)
VInRange == v # 0 => v >= 8 /\ v < 16
\* the signer never returns before a prime candidate was read, and returns at the first one
FirstPrime == e # 0 => /\ \A i \in 1..(Len(reads) - 1) : ~IsPrime(Cand(reads[i]))
                       /\ (~Walk => e = Cand(reads[Len(reads)]))
=============================================================================
