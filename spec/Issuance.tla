------------------------------ MODULE Issuance ------------------------------
(* The issuance protocol of gabi (builder.go, issuer.go), property C06, under a network adversary
   that may tamper with ONE field of one message, substitute it by the corresponding field of a
   parallel honest run, drop it, or replay a whole message of the parallel run.

     user   : NewCredentialBuilder, CommitToSecretAndProve(nonce1)      -> IssueCommitmentMessage (icm)
     issuer : verify icm.Proofs for (context, nonce1); IssueSignature(ProofU.U, attrs, witness, icm.nonce2, blind)
                                                                         -> IssueSignatureMessage (ism)
     user   : ConstructCredential(ism, attrs)  = ProofS check, share sum, witness check, signature check

   Fields are tagged by origin: "orig" (this run), "alter" (changed), "other" (the parallel run's), "nil".
   Configuration: blind (a random-blind attribute), wit (a non-revocation witness travels in the ism),
   ks (the commitment carries a keyshare contribution; the ProofU is then completed with the keyshare
   server's ProofP before it reaches the issuer).
   Fields the protocol does not depend on are not fields of the model: the message-level icm.U (the
   issuer signs the U inside the verified ProofU), Signature.KeyshareP inside the ism, issuer shares
   for non-blind indices. *)
EXTENDS Integers, Sequences, FiniteSets, TLC

ICMFields(cfg) == {"nonce2", "pu_U", "pu_c", "pu_v", "pu_s"} \cup (IF cfg.blind THEN {"pu_m"} ELSE {})
SessFields == {"nonce1", "ctx"}                    \* the issuer's own view of the session
ISMFields(cfg) == {"ps_c", "ps_e", "A", "e", "v"} \cup (IF cfg.blind THEN {"share"} ELSE {})
                     \cup (IF cfg.wit THEN {"w_u", "w_e", "w_sacc", "witness"} ELSE {})     \* "witness": the witness as a whole
Kinds == {"alter", "other", "nil"}

CONSTANT MaxFaults        \* number of faults the network may inject (1: every single fault; 2: every pair)
VARIABLES cfg, phase, icm, sess, ism, outcome, faults
vars == <<cfg, phase, icm, sess, ism, outcome, faults>>
Orig(F) == [x \in F |-> "orig"]

Init == /\ cfg \in [blind : BOOLEAN, wit : BOOLEAN, ks : BOOLEAN]
        /\ phase = "commit" /\ icm = <<>> /\ sess = <<>> /\ ism = <<>>
        /\ outcome = "none" /\ faults = <<>>
Commit == /\ phase = "commit" /\ icm' = Orig(ICMFields(cfg)) /\ sess' = Orig(SessFields)
          /\ phase' = "net1" /\ UNCHANGED <<cfg, ism, outcome, faults>>
Fresh(m, fld) == \A i \in 1..Len(faults) : ~(faults[i].msg = m /\ (faults[i].field = fld \/ faults[i].field = "*"))
Tamper1 == /\ phase = "net1" /\ Len(faults) < MaxFaults
           /\ \/ \E fld \in ICMFields(cfg) \cup SessFields, k \in Kinds :
                   /\ ~(fld = "ctx" /\ k = "other")            \* both runs use the same context
                   /\ ~(fld \in SessFields /\ k = "nil") /\ Fresh("icm", fld)
                   /\ IF fld \in SessFields THEN sess' = [sess EXCEPT ![fld] = k] /\ UNCHANGED icm
                                             ELSE icm' = [icm EXCEPT ![fld] = k] /\ UNCHANGED sess
                   /\ faults' = Append(faults, [msg |-> "icm", field |-> fld, kind |-> k])
              \/ /\ faults = <<>> /\ icm' = [x \in ICMFields(cfg) |-> "other"] /\ UNCHANGED sess       \* whole message replayed from the other run
                 /\ faults' = <<[msg |-> "icm", field |-> "*", kind |-> "other"]>>
           /\ UNCHANGED <<cfg, phase, ism, outcome>>
Intact(m, F) == \A x \in F : m[x] = "orig"
\* the issuer verifies the commitment proof for its own (context, nonce1) and signs with the nonce2 it received
Issue == /\ phase = "net1"
         /\ IF Intact(icm, ICMFields(cfg) \ {"nonce2"}) /\ Intact(sess, SessFields) /\ icm["nonce2"] # "nil"
              THEN /\ ism' = Orig(ISMFields(cfg)) /\ phase' = "net2" /\ UNCHANGED outcome
              ELSE /\ outcome' = "issuer-reject" /\ phase' = "end" /\ UNCHANGED ism
         /\ UNCHANGED <<cfg, icm, sess, faults>>
Tamper2 == /\ phase = "net2" /\ Len(faults) < MaxFaults
           /\ \/ \E fld \in ISMFields(cfg), k \in Kinds :
                   /\ (fld = "witness" => k # "alter") /\ Fresh("ism", fld)
                   /\ (fld \in {"w_u", "w_e", "w_sacc"} => Fresh("ism", "witness")) /\ (fld = "witness" => Fresh("ism", "w_u") /\ Fresh("ism", "w_e") /\ Fresh("ism", "w_sacc"))
                   /\ ism' = [ism EXCEPT ![fld] = k] /\ faults' = Append(faults, [msg |-> "ism", field |-> fld, kind |-> k])
              \/ /\ Fresh("ism", "*") /\ (\A i \in 1..Len(faults) : faults[i].msg # "ism")
                 /\ ism' = [x \in ISMFields(cfg) |-> "other"] /\ faults' = Append(faults, [msg |-> "ism", field |-> "*", kind |-> "other"])
           /\ UNCHANGED <<cfg, phase, icm, sess, outcome>>
\* fields whose absence the recipient tolerates by design: a dropped witness yields a credential without witness
Tolerated == {"witness"}
Construct == /\ phase = "net2"
             /\ outcome' = IF (\A x \in ISMFields(cfg) : ism[x] = "orig" \/ (x \in Tolerated /\ ism[x] = "nil"))
                              /\ icm["nonce2"] = "orig"
                           THEN (IF \E x \in ISMFields(cfg) : ism[x] # "orig" THEN "cred-without-witness" ELSE "cred") ELSE "user-reject"
             /\ phase' = "end" /\ UNCHANGED <<cfg, icm, sess, ism, faults>>
Next == Commit \/ Tamper1 \/ Issue \/ Tamper2 \/ Construct
Spec == Init /\ [][Next]_vars

\* C06
Integrity == outcome = "cred" => faults = <<>>
Complete == (phase = "end" /\ faults = <<>>) => outcome = "cred"
RejectIsError == outcome \in {"none", "cred", "cred-without-witness", "issuer-reject", "user-reject"}     \* never "panic"
=============================================================================
