-------------------------------- MODULE CPRNG --------------------------------
(* The process-wide AES-CTR generator (internal/common/fastrandom.go): CPRNG.Read reserves the
   keystream blocks it needs with ONE atomic add on the block counter and then encrypts exactly
   those blocks.  AtomicAdd = TRUE is the code; FALSE (load, then store) is what a non-atomic
   counter update would be.  Readers perform Reads reads of 1..MaxBlocks blocks each. *)
EXTENDS Integers, FiniteSets, Sequences, TLC
CONSTANTS Readers, Reads, MaxBlocks, AtomicAdd
VARIABLES counter, pc, tmp, need, done, served    \* served: set of [r, first, n]
vars == <<counter, pc, tmp, need, done, served>>
Init == /\ counter = 0 /\ pc = [r \in Readers |-> "idle"] /\ tmp = [r \in Readers |-> 0]
        /\ need = [r \in Readers |-> 0] /\ done = [r \in Readers |-> 0] /\ served = {}
Start(r) == /\ pc[r] = "idle" /\ done[r] < Reads
            /\ \E n \in 1..MaxBlocks : need' = [need EXCEPT ![r] = n]
            /\ pc' = [pc EXCEPT ![r] = "reserve"] /\ UNCHANGED <<counter, tmp, done, served>>
Reserve(r) == /\ pc[r] = "reserve"
              /\ IF AtomicAdd
                   THEN /\ counter' = counter + need[r] /\ tmp' = [tmp EXCEPT ![r] = counter]
                        /\ pc' = [pc EXCEPT ![r] = "encrypt"]
                   ELSE /\ tmp' = [tmp EXCEPT ![r] = counter] /\ pc' = [pc EXCEPT ![r] = "store"] /\ UNCHANGED counter
              /\ UNCHANGED <<need, done, served>>
Store(r) == /\ pc[r] = "store" /\ counter' = tmp[r] + need[r] /\ pc' = [pc EXCEPT ![r] = "encrypt"]
            /\ UNCHANGED <<tmp, need, done, served>>
Encrypt(r) == /\ pc[r] = "encrypt"
              /\ served' = served \cup {[r |-> r, k |-> done[r], first |-> tmp[r], n |-> need[r]]}
              /\ done' = [done EXCEPT ![r] = @ + 1] /\ pc' = [pc EXCEPT ![r] = "idle"]
              /\ UNCHANGED <<counter, tmp, need>>
Next == \E r \in Readers : Start(r) \/ Reserve(r) \/ Store(r) \/ Encrypt(r)
Spec == Init /\ [][Next]_vars
Blocks(s) == s.first..(s.first + s.n - 1)
\* C20: the generator never hands the same keystream block to two callers
NoKeystreamOverlap == \A s, t \in served : s # t => Blocks(s) \cap Blocks(t) = {}
\* and wastes none: when everybody is idle the reservations tile [0, counter)
GapFree == (\A r \in Readers : pc[r] = "idle") => UNION { Blocks(s) : s \in served } = 0..(counter - 1)
=============================================================================
