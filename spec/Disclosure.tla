----------------------------- MODULE Disclosure -----------------------------
(* Disclosure proofs (ProofD) of gabi in the symbolic algebra of DESIGN.md 3.1 (properties C01, C04).

   A credential is a vector m of attribute values (index 0 = secret key) signed as
        Z = A^e * S^v * PROD_i R_i^Rep(m_i),
   the only representation of Z the holder knows (generic group model).  Challenges are
   indeterminates: a response is  r + c*s  with the prover's randomiser r and coefficient s, and the
   verifier's reconstruction (ProofD.reconstructZ) equals the commitment fixed before the challenge
   iff for every base the coefficient of c vanishes modulo the group order ORD:
        base R_i :  [i hidden] s_i + [i disclosed] Rep(a_i)  =  Rep(m_i)      (mod ORD)
        base A   :  se = e'            base S : sv = v'                       (mod ORD)
   A prover starts from the honest proof for a disclosure set and deviates from it up to MaxDev
   times.  VerifyD transcribes ProofD.validate / correctResponseSizes / reconstructZ / challenge
   comparison; C01 is `Authentic`.  OverlapRule = TRUE is the current code (fix 61336b8). *)
EXTENDS Integers, Sequences, FiniteSets, TLC

CONSTANTS NAttr,        \* non-secret attributes 1..NAttr
          MaxDev,       \* deviations from the honest proof
          OverlapRule   \* verifier rejects an index that is both disclosed and hidden

ORD == 31               \* group order: larger than every size bound of the model
MaxMsg == 9             \* values above are hashed (Lm)
\* the hash of an oversize value lands in 5..9, where no genuine small value lives (collision freedom)
Hsh(x) == CASE x = 40 -> 5 [] x = 31 -> 6 [] x = 33 -> 8 [] x = 34 -> 9 [] OTHER -> 7
\* (the hash is taken over the magnitude: big.Int.Bytes() does not see the sign)
Rep(x) == IF x < 0 THEN (IF 0 - x <= MaxMsg THEN x ELSE Hsh(0 - x)) ELSE IF x <= MaxMsg THEN x ELSE Hsh(x)
Idx == 0..(NAttr + 2)     \* NAttr+1, NAttr+2: bases of the key beyond the credential's attributes (nothing signed there = exponent 0)
Real == 0..NAttr
AttrVals == {0, 2, 3, 40}       \* zero, two small values, one oversize value
SecretVals == {2, 3}

VARIABLES m,        \* [Idx -> value]               the signed values
          disc,     \* [Idx -> value or -1]         claimed disclosed value (-1: not in a_disclosed)
          hid,      \* [Idx -> [on, s, rc]]         hidden response: coefficient and size class
          ecoef, vcoef,   \* "true" | "shift" (true + ORD) | "off"; ecoef also "zeroA": the group element A itself is 0 mod n,
                          \* the absorbing element - every product it enters is 0 whatever the exponents are, so a verifier
                          \* that went on would reconstruct the commitment 0, which the prover can hash without any secret
          erc,      \* size class of the e response: "in" | "max" | "over" | "neg"
          sess,     \* "same" | "other": proof made for the verifier's (context, nonce, flag) or not
          ndev
vars == <<m, disc, hid, ecoef, vcoef, erc, sess, ndev>>

NoHid == [on |-> FALSE, s |-> 0, rc |-> "in", tag |-> "none"]
HonestHid(i) == [on |-> TRUE, s |-> Rep(m[i]), rc |-> "in", tag |-> "true"]

Init == /\ m \in [Idx -> AttrVals] /\ m[0] \in SecretVals /\ (\A i \in Idx \ Real : m[i] = 0)
        /\ \E D \in SUBSET (1..NAttr) :
              /\ disc = [i \in Idx |-> IF i \in D THEN m[i] ELSE -1]
              /\ hid = [i \in Idx |-> IF i \in D \/ i \notin Real THEN NoHid ELSE [on |-> TRUE, s |-> Rep(m[i]), rc |-> "in", tag |-> "true"]]
        /\ ecoef = "true" /\ vcoef = "true" /\ erc = "in" /\ sess = "same" /\ ndev = 0

Dev == ndev < MaxDev /\ ndev' = ndev + 1 /\ UNCHANGED m
\* values a prover may report: the value classes, the signed value shifted by the group order, and the NEGATION of the signed
\* value (never what the issuer signed: attribute values are nonnegative; -1 is the model's marker for "not reported")
Claims(i) == {0, 2, 3, 40} \cup (IF m[i] <= MaxMsg THEN {m[i] + ORD} ELSE {}) \cup (IF m[i] > 1 THEN {0 - m[i]} ELSE {})

\* change a disclosed value (no compensation)
AlterDisclosed == \E i \in Idx : \E a \in Claims(i) :
   /\ disc[i] # -1 /\ a # disc[i] /\ Dev
   /\ disc' = [disc EXCEPT ![i] = a] /\ UNCHANGED <<hid, ecoef, vcoef, erc, sess>>
\* report index i as disclosed with value a AND keep a hidden response that absorbs the difference
Overlap == \E i \in Idx : \E a \in Claims(i) :
   /\ Dev
   /\ disc' = [disc EXCEPT ![i] = a]
   /\ hid' = [hid EXCEPT ![i] = [on |-> TRUE, s |-> Rep(m[i]) - Rep(a), rc |-> "in", tag |-> "comp"]]
   /\ UNCHANGED <<ecoef, vcoef, erc, sess>>
\* disclose a hidden attribute honestly / hide a disclosed one honestly (includes the secret key)
Toggle == \E i \in Idx :
   /\ Dev
   /\ IF disc[i] # -1 THEN disc' = [disc EXCEPT ![i] = -1] /\ hid' = [hid EXCEPT ![i] = HonestHid(i)]
                      ELSE disc' = [disc EXCEPT ![i] = m[i]] /\ hid' = [hid EXCEPT ![i] = NoHid]
   /\ UNCHANGED <<ecoef, vcoef, erc, sess>>
\* shift a hidden coefficient by the group order / by one
SetCoeff == \E i \in Idx, d \in {ORD, 1} :
   /\ hid[i].on /\ hid[i].tag = "true" /\ Dev
   /\ hid' = [hid EXCEPT ![i].s = @ + d, ![i].tag = IF d = ORD THEN "shift" ELSE "off"] /\ UNCHANGED <<disc, ecoef, vcoef, erc, sess>>
\* put a response exactly at / one past / below its bound (possible exactly when the coefficient is 0)
Boundary == \E i \in Idx, rc \in {"max", "over", "neg"} :
   /\ hid[i].on /\ hid[i].s = 0 /\ hid[i].rc = "in" /\ Dev
   /\ hid' = [hid EXCEPT ![i].rc = rc] /\ UNCHANGED <<disc, ecoef, vcoef, erc, sess>>
\* report a value for an index that the proof says nothing about yet (e.g. a base beyond the credential's attributes)
Claim == \E i \in Idx : \E a \in Claims(i) :
   /\ disc[i] = -1 /\ ~hid[i].on /\ Dev
   /\ disc' = [disc EXCEPT ![i] = a] /\ UNCHANGED <<hid, ecoef, vcoef, erc, sess>>
\* leave an index out altogether
Drop == \E i \in Idx :
   /\ (disc[i] # -1 \/ hid[i].on) /\ Dev
   /\ disc' = [disc EXCEPT ![i] = -1] /\ hid' = [hid EXCEPT ![i] = NoHid]
   /\ UNCHANGED <<ecoef, vcoef, erc, sess>>
ECoef == \E x \in {"shift", "off", "zeroA"} : ecoef = "true" /\ Dev /\ ecoef' = x /\ UNCHANGED <<disc, hid, vcoef, erc, sess>>
VCoef == \E x \in {"shift", "off"} : vcoef = "true" /\ Dev /\ vcoef' = x /\ UNCHANGED <<disc, hid, ecoef, erc, sess>>
ESize == \E x \in {"max", "over", "neg"} : erc = "in" /\ Dev /\ erc' = x /\ UNCHANGED <<disc, hid, ecoef, vcoef, sess>>
OtherSession == sess = "same" /\ Dev /\ sess' = "other" /\ UNCHANGED <<disc, hid, ecoef, vcoef, erc>>

Next == AlterDisclosed \/ Claim \/ Overlap \/ Toggle \/ SetCoeff \/ Boundary \/ Drop \/ ECoef \/ VCoef \/ ESize \/ OtherSession
Spec == Init /\ [][Next]_vars

\* ---------------------------------------------------------------- the verifier, transcribed
D == {i \in Idx : disc[i] # -1}
H == {i \in Idx : hid[i].on}
Small(s) == s >= 0 - MaxMsg /\ s <= MaxMsg          \* |c*s| stays far below the response bound
KeySetOK == /\ OverlapRule => D \cap H = {}
            /\ \A i \in D : disc[i] >= 0            \* ProofD.validate refuses negative disclosed values
SizesOK == /\ \A i \in H : Small(hid[i].s) /\ hid[i].rc \in {"in", "max"}
           /\ ecoef # "shift" /\ erc \in {"in", "max"}
Coef(i) == (IF i \in H THEN hid[i].s ELSE 0) + (IF i \in D THEN Rep(disc[i]) ELSE 0) - Rep(m[i])
\* reconstructZ divides by A^(2^(le-1)): for A = 0 mod n there is no inverse and the proof is refused (common.ErrNoModInverse)
EqOK == IF ecoef = "zeroA" THEN FALSE
        ELSE /\ \A i \in Idx : Coef(i) % ORD = 0
             /\ ecoef \in {"true", "shift"} /\ vcoef \in {"true", "shift"}
VerifyD == KeySetOK /\ SizesOK /\ EqOK /\ sess = "same"

\* ---------------------------------------------------------------- property C01
Authentic == VerifyD => /\ \A i \in D : Rep(disc[i]) = Rep(m[i]) /\ disc[i] >= 0
                        /\ D \cap H = {}
                        /\ \A i \in H : hid[i].rc \in {"in", "max"}
\* property C04, model side: the honest proof of every disclosure set verifies and reports exactly that set
HonestComplete == ndev = 0 => VerifyD /\ D \cup H = Real /\ D \cap H = {} /\ \A i \in D : disc[i] = m[i]
\* sanity (must be violated): some deviating proof is accepted, so Authentic is not vacuous
NoDeviantAccepted == ~(ndev > 0 /\ VerifyD)
=============================================================================
