---------------------- MODULE SafePrimeWorkersTrace ----------------------
(* Validates the hook sequences recorded from every real worker goroutine of safeprime.GenerateConcurrent
   (harness `kg volume`) against the worker process of SafePrimeWorkers.tla, projected to one worker: the
   environment (other workers, monitor, consumer) is free, the worker's own control flow is not.

     event          action of SafePrimeWorkers            pc before -> after
     gen-ok         GenReturn   (Generate returned, err = nil)       gen -> chk
     gen-err        GenErr      (Generate failed)                     gen -> errsend0
     stopped1       Check, stopped                                    chk -> done
     send-before    Check, not stopped                                chk -> snd
     send-after     Send                                              snd -> gen
     stopped2       SendGiveUp                                        snd -> done
     err-before     (about to send the error)                         errsend0 -> errsend
     err-close      ErrSend     (error sent, about to close)          errsend -> done

   A worker that reaches its next Generate call without having gone through the first select (chk) and the
   guarded send (snd) is not a behaviour of the specification. *)
EXTENDS Integers, Sequences, TLC, Json
Tr == ndJsonDeserialize("wtrace.ndjson")
VARIABLES i, j, pc
vars == <<i, j, pc>>
Init == i = 1 /\ j = 1 /\ pc = "gen"
Delta(p, ev) == CASE p = "gen" /\ ev = "gen-ok" -> "chk"
                  [] p = "gen" /\ ev = "gen-err" -> "errsend0"
                  [] p = "chk" /\ ev = "stopped1" -> "done"
                  [] p = "chk" /\ ev = "send-before" -> "snd"
                  [] p = "snd" /\ ev = "send-after" -> "gen"
                  [] p = "snd" /\ ev = "stopped2" -> "done"
                  [] p = "errsend0" /\ ev = "err-before" -> "errsend"
                  [] p = "errsend" /\ ev = "err-close" -> "done"
                  [] OTHER -> "bad"
Consume == /\ i <= Len(Tr) /\ j <= Len(Tr[i].seq)
           /\ Delta(pc, Tr[i].seq[j]) # "bad"
           /\ pc' = Delta(pc, Tr[i].seq[j]) /\ j' = j + 1 /\ i' = i
NextWorker == /\ i <= Len(Tr) /\ j > Len(Tr[i].seq) /\ i' = i + 1 /\ j' = 1 /\ pc' = "gen"
Next == Consume \/ NextWorker
Spec == Init /\ [][Next]_vars
RECURSIVE Total(_)
Total(k) == IF k = 0 THEN 0 ELSE Total(k - 1) + Len(Tr[k].seq) + 1
Accepted == IF TLCGet("stats").diameter - 1 = Total(Len(Tr)) THEN TRUE
            ELSE Print(<<"WORKER TRACE REJECTED after steps", TLCGet("stats").diameter - 1, "of", Total(Len(Tr))>>, FALSE)
=============================================================================
