---------------------------- MODULE RevRepoTrace ----------------------------
(* Validates what the REPOSITORY'S OWN TESTS do with accumulators and witnesses (recorded through the tag-guarded trace
   points of the revocation package when the tests run with -tags verif and VERIF_TRACE_REV set) against the
   witness-update rule of Revocation.tla (Apply), event by event.

   Accumulators are identified by a digest of their value, which copes with several accumulators per key and with
   forks; `par` remembers how each accumulator was derived (parent, removed value, index).  For every Witness.Update
   the index the witness is at afterwards must be the one Apply computes: it advances to the update's accumulator iff
   the update has events, reaches back to the witness (first <= our + 1), ends beyond it, and none of the missing
   events removed the witness' own value; in every other case the witness stays where it was. *)
EXTENDS Integers, Sequences, FiniteSets, TLC, Json
Tr == ndJsonDeserialize("revtrace.ndjson")
VARIABLES par, l
vars == <<par, l>>
Put(f, k, v) == [x \in DOMAIN f \cup {k} |-> IF x = k THEN v ELSE f[x]]
Init == par = [c \in {} |-> 0] /\ l = 1
E == Tr[l]
\* value removed to obtain the ancestor with index i of accumulator nu ("" if unknown)
RECURSIVE EAt(_, _)
EAt(nu, i) == IF nu \notin DOMAIN par THEN ""
              ELSE IF par[nu].idx = i THEN par[nu].e
              ELSE IF par[nu].idx < i THEN "" ELSE EAt(par[nu].parent, i)
ExpectedAfter(ev) ==
  LET our == ev.our  a == ev.acc  f == ev.first
      hit == \E i \in (our + 1)..a : EAt(ev.newnu, i) = ev.e
  IN IF a = our \/ ev.nev = 0 \/ a <= our THEN our
     ELSE IF f > our + 1 THEN our
     ELSE IF hit THEN our
     ELSE a
Remove == E.ev = "remove" /\ par' = Put(par, E.nu, [parent |-> E.parent, e |-> E.e, idx |-> E.idx])
NewWitness == E.ev = "witness" /\ UNCHANGED par
Update == /\ E.ev = "update" /\ E.after = ExpectedAfter(E)
          /\ (E.after = E.our => (E.afterT >= E.ourT))            \* never backwards in time either
          /\ UNCHANGED par
Next == l <= Len(Tr) /\ (Remove \/ NewWitness \/ Update) /\ l' = l + 1
Spec == Init /\ [][Next]_vars
Accepted == LET d == TLCGet("stats").diameter IN
              IF d - 1 = Len(Tr) THEN TRUE ELSE Print(<<"TRACE REJECTED at line", d, IF d <= Len(Tr) THEN Tr[d] ELSE "eof">>, FALSE)
=============================================================================
