------------------------------- MODULE Builder -------------------------------
(* The life cycle of a DisclosureProofBuilder (credential.go), property C04, seen from the caller:

     CreateDisclosureProofBuilder(order)   order = the caller's LIST of indices to disclose: any order,
                                           repetitions allowed, never index 0 (the secret key)
     TimestampRequestContributions()       callable at ANY point of the life cycle (a signature session
                                           needs it before the challenge exists)
     Commit (ProofBuilderList.Challenge)   created -> committed
     CreateProof (BuildDistributedProofList) committed -> proved

   What the caller chose is a SET; neither the order of the list nor the point at which the timestamp
   contribution is asked for may change what is revealed. *)
EXTENDS Integers, Sequences, FiniteSets, TLC

CONSTANTS NAttr,           \* number of non-secret attributes: indices 1..NAttr, index 0 is the secret key
          MaxList          \* maximal length of the caller's list

Lists == UNION { [1..k -> 1..NAttr] : k \in 0..MaxList }
Range(s) == { s[i] : i \in 1..Len(s) }
All == 0..NAttr

VARIABLES order, phase, calls,
          trc,            \* indices whose VALUE the last timestamp contribution carried ({"none"} before the first call)
          trcAsked,       \* number of timestamp contributions asked for in the current phase
          proofD, proofH  \* index sets of ADisclosed / AResponses of the proof
vars == <<order, phase, calls, trc, trcAsked, proofD, proofH>>

Init == /\ order \in Lists /\ phase = "created" /\ calls = <<>> /\ trc = {-1} /\ trcAsked = 0
        /\ proofD = {} /\ proofH = {}
TRC == /\ trcAsked = 0 /\ trcAsked' = 1
       /\ trc' = Range(order)                   \* values of the chosen indices, zero everywhere else
       /\ calls' = Append(calls, "trc") /\ UNCHANGED <<order, phase, proofD, proofH>>
Commit == /\ phase = "created" /\ phase' = "committed" /\ trcAsked' = 0
          /\ calls' = Append(calls, "commit") /\ UNCHANGED <<order, trc, proofD, proofH>>
CreateProof == /\ phase = "committed" /\ phase' = "proved" /\ trcAsked' = 0
               /\ proofD' = Range(order) /\ proofH' = All \ Range(order)
               /\ calls' = Append(calls, "prove") /\ UNCHANGED <<order, trc>>
Next == TRC \/ Commit \/ CreateProof
Spec == Init /\ [][Next]_vars

\* C04
Minimal == trc # {-1} => trc = Range(order) /\ 0 \notin trc
Exact == phase = "proved" => /\ proofD = Range(order) /\ proofH = All \ proofD
                             /\ 0 \in proofH
TRCStable == [][trc # {-1} => trc' = trc]_vars     \* the contribution does not depend on the phase it is asked in
=============================================================================
