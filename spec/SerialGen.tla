----------------------------- MODULE SerialGen -----------------------------
(* Emits the reachable states of the four machines of Serial.tla as cases for harness/cmd/ser
   (CONSTRAINT EmitX, -workers 1).  The invariants of Serial are checked in the same run. *)
EXTENDS Serial, Json

\* (a) one case per non-empty sequence of writes: prior file, umask, and per step the expected error flag,
\*     mode bits and kind of content
EmitFM == Len(ops) >= 1 =>
            PrintT(<<"FM", ToJson([prior |-> [ex |-> prior.ex, link |-> prior.link, mode |-> ModeNum(prior.mode)],
                                   umask |-> ModeNum(umask), ops |-> ops])>>)

\* (b) one case per sent message
EmitMSG == Received =>
             PrintT(<<"MSG", ToJson([t |-> msg.t, parts |-> msg.parts, enc |-> rx.enc, alt |-> msg.alt, used |-> msg.used,
                                     verdict |-> Verdict(msg), decodes |-> rx.ok,
                                     restored |-> ByVerify(msg.t, msg.parts), memo |-> Memo(msg.t, msg.parts)])>>)

\* (c) one case per (un)mutated key document
EmitKEY == PrintT(<<"KEY", ToJson([kind |-> doc.kind, nb |-> doc.nb, rev |-> doc.rev, demo |-> doc.demo,
                                   op |-> doc.op, el |-> doc.el, expect |-> Expect(doc)])>>)

\* (d) one case per value class x encoding x number of leading zeros
EmitINT == Sent =>
             PrintT(<<"INT", ToJson([cls |-> num.cls, k |-> num.k, neg |-> num.neg, enc |-> num.enc, lz |-> num.lz,
                                     bytes |-> Bytes(num.cls, num.k), expect |-> ExpectInt])>>)
=============================================================================
