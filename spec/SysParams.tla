------------------------------ MODULE SysParams ------------------------------
(* The system parameters of gabi (gabikeys/sysparams.go): the base lengths per key size and the lengths
   MakeDerivedParameters derives from them, against
     (I)  the constraints of the Idemix specification (v2.3.0, section 4.1 / table 3) that the security proofs need,
     (II) what the code itself relies on: the size checks of the verifiers (ProofD.correctResponseSizes,
          ProofU.correctResponseSizes, CLSignature.Verify) must leave room for the LARGEST honest response
          (largest randomiser + largest challenge * largest secret) - otherwise honest proofs are rejected for
          some random streams (property C04/C06 completeness) - and the interval of e must be non-empty and
          inside [2^(le-1), 2^le) (C05).
   All statements are about LENGTHS; the arithmetic fact behind (II),
          2^a - 1 + (2^h - 1) * (2^m - 1) <= 2^(a+1) - 1   whenever  h + m <= a,
   is checked by TLC on small exponents (Lemma).  Besides the three parameter sets in use, TLC walks a grid of base
   parameters and shows under which condition the derivation rule yields admissible parameters at all:
          LePrime < Lm + 2     (Admissible <=> GridCondition). *)
EXTENDS Integers, FiniteSets, TLC

Max(a, b) == IF a >= b THEN a ELSE b
Derive(b) == [ Le            |-> b.Lstatzk + b.Lh + b.Lm + 5,
               LeCommit      |-> b.LePrime + b.Lstatzk + b.Lh,
               LmCommit      |-> b.Lm + b.Lstatzk + b.Lh,
               LRA           |-> b.Ln + b.Lstatzk,
               LsCommit      |-> b.Lm + b.Lstatzk + b.Lh + 1,
               Lv            |-> b.Ln + 2 * b.Lstatzk + b.Lh + b.Lm + 4,
               LvCommit      |-> b.Ln + 2 * b.Lstatzk + b.Lh + b.Lm + 4 + b.Lstatzk + b.Lh,
               LvPrime       |-> b.Ln + b.Lstatzk,
               LvPrimeCommit |-> b.Ln + 2 * b.Lstatzk + b.Lh ]

Defaults == { [LePrime |-> 120, Lh |-> 256, Lm |-> 256, Ln |-> 1024, Lstatzk |-> 80],
              [LePrime |-> 120, Lh |-> 256, Lm |-> 256, Ln |-> 2048, Lstatzk |-> 128],
              [LePrime |-> 120, Lh |-> 256, Lm |-> 512, Ln |-> 4096, Lstatzk |-> 128] }
\* a grid around the admissibility boundary (toy lengths)
Grid == [LePrime : {8, 10, 11, 12, 13, 20}, Lh : {6, 16}, Lm : {8, 10}, Ln : {64, 128}, Lstatzk : {4, 8}]

CONSTANT UseGrid
VARIABLE b
Init == b \in (IF UseGrid THEN Grid ELSE Defaults)
Next == UNCHANGED b
Spec == Init /\ [][Next]_b
d == Derive(b)

\* (I) Idemix constraints (l_r, the length of the hiders of the commitments, is Lstatzk here)
I1 == d.Le > b.Lstatzk + b.Lh + Max(b.Lm + 4, b.LePrime + 2)
I2 == d.Lv > b.Ln + b.Lstatzk + b.Lh + Max(b.Lm + b.Lstatzk + 3, b.Lstatzk + 2)
I3 == b.Lh < d.Le
I4 == b.LePrime < d.Le - b.Lstatzk - b.Lh - 3
\* (II) room for the largest honest response below the verifier's bound 2^(XCommit+1) - 1: challenge length + secret length <= randomiser length
R1 == b.Lh + b.Lm <= d.LmCommit                    \* attribute responses: r < 2^LmCommit, c < 2^Lh, m < 2^Lm
R2 == b.Lh + (b.LePrime - 1) <= d.LeCommit         \* e response: e' = e - 2^(Le-1) <= 2^(LePrime-1)
R3 == b.Lh + d.LvPrime <= d.LvPrimeCommit          \* v' response of the issuance commitment
R4 == b.Lh + b.Lm <= d.LsCommit                    \* secret-key response of the issuance commitment (bound 2^(LsCommit+1))
R5 == b.LePrime - 1 < d.Le - 1                     \* the interval [2^(Le-1), 2^(Le-1) + 2^(LePrime-1)] stays below 2^Le
R6 == d.Lv - 1 >= b.Ln + b.Lstatzk                 \* v = 2^(Lv-1) + vTilde hides v' statistically
\* statistical hiding: every randomiser is Lstatzk + Lh bits longer than what it hides
H1 == d.LmCommit >= b.Lm + b.Lstatzk + b.Lh /\ d.LeCommit >= b.LePrime + b.Lstatzk + b.Lh /\ d.LvCommit >= d.Lv + b.Lstatzk + b.Lh
Admissible == I1 /\ I2 /\ I3 /\ I4 /\ R1 /\ R2 /\ R3 /\ R4 /\ R5 /\ R6 /\ H1
DefaultsAdmissible == ~UseGrid => Admissible
GridCondition == UseGrid => (Admissible <=> b.LePrime < b.Lm + 2)

\* the arithmetic behind (II), on small exponents
Pow2(k) == 2 ^ k
Lemma == \A a \in 1..12, h \in 0..6, m \in 0..6 : (h + m <= a) => Pow2(a) - 1 + (Pow2(h) - 1) * (Pow2(m) - 1) <= Pow2(a + 1) - 1
LemmaTight == \E a \in 1..12, h \in 0..6, m \in 0..6 : h + m = a + 2 /\ Pow2(a) - 1 + (Pow2(h) - 1) * (Pow2(m) - 1) > Pow2(a + 1) - 1
ASSUME Lemma /\ LemmaTight
=============================================================================
