--------------------------- MODULE KeyProofView ---------------------------
(* What an observer sees of ONE exponentiation step of the key proof (keyproof/expstep.go, rangeproof.go) as a
   function of the secret exponent bit, with concrete toy numbers (C17, defects D53 and D59).

   A step is an OR proof: the branch for the true bit is a real proof, the other branch is simulated.  The bit is
   hidden iff every published component has the same distribution in a real and in a simulated branch.  Two
   components are not reduced modulo the group order and carry the risk:

     * the multiplier commitment of the 'bit = 1' branch (D53): a copy of the committed base power when real;
     * the results of the range proof inside the multiplication proof (D59):
           real      : r + 2W  (+ L1 - s  when the binary challenge of the round is 1),   r in [-W, W), s in [0, L1)
           simulated : uniform in [SimLo, SimLo + 2W)
       with W = 2^(l2+eps), L1 = 2^l1.  A real result therefore lies in [W, 3W) up to a slack of L1 at the upper end
       (relative weight L1 / 2W = 2^-257 for the real sizes), and a simulation is faithful iff SimLo = W.

   The module computes the supports and, for the harness, the BUCKETS floor(x / W) an observer sees with
   non-negligible probability; the harness measures the same buckets on the real code for steps with bit 0 and bit 1
   of a proof whose exponent it knows (cmd/kp, scenario exponent-bit-leak). *)
EXTENDS Integers, FiniteSets, TLC, Json

CONSTANTS W,            \* 2^(l2+eps)   (toy: 16)
          L1,           \* 2^l1         (toy: 2; must be much smaller than W)
          SimShifted,   \* the simulation draws from [W, 3W) (repair of D59); FALSE: from [0, 2W), the code as it was
          SimCopies     \* the simulated 'bit = 1' branch sends a copy of the base power as multiplier commitment (repair of D53)

ASSUME W \in Nat /\ L1 \in Nat /\ L1 * 4 <= W

Real == { r + 2 * W + c * (L1 - s) : r \in (0 - W)..(W - 1), c \in {0, 1}, s \in 0..(L1 - 1) }
SimLo == IF SimShifted THEN W ELSE 0
Sim == SimLo..(SimLo + 2 * W - 1)
\* values that only one of the two can produce
Diff == (Real \ Sim) \cup (Sim \ Real)
\* the statistical slack the design accepts: results within L1 of the end of the interval
Slack == { x \in Int : FALSE } \cup ((3 * W)..(3 * W + L1)) \cup ((W - L1)..W)
Bucket(x) == x \div W
\* the buckets seen with non-negligible probability (a bucket counts if at least a quarter of it is in the support)
Buckets(S) == { b \in { Bucket(x) : x \in S } : Cardinality({ x \in S : Bucket(x) = b }) * 4 >= W }

\* the verifier's bound on a result (rangeproof.go verifyProofStructure: < 2^(l2+eps+2))
VerifierBound == 4 * W
Accepted == Real \subseteq 0..(VerifierBound - 1) /\ Sim \subseteq 0..(VerifierBound - 1)

MulCommit(real) == IF real THEN "copy-of-base-power" ELSE (IF SimCopies THEN "copy-of-base-power" ELSE "fresh-element")

\* the view of a step: components of the 'bit = 1' branch (Bproof); the 'bit = 0' branch (Aproof) has only reduced responses
View(bit) == [ mulCommit |-> MulCommit(bit = 1),
               rangeBuckets |-> Buckets(IF bit = 1 THEN Real ELSE Sim),
               challenges |-> "uniform-256-bits-or-xor-thereof",
               reduced |-> "uniform-modulo-order" ]

VARIABLE bit
Init == bit \in {0, 1}
Next == UNCHANGED bit
Spec == Init /\ [][Next]_bit

BranchHidden == /\ View(0) = View(1)
                /\ Diff \subseteq Slack
Complete == Accepted
Emit == PrintT(<<"VIEW", ToJson([view |-> TRUE, bit |-> bit, buckets |-> Buckets(IF bit = 1 THEN Real ELSE Sim), mul |-> MulCommit(bit = 1),
                                 lo |-> (IF bit = 1 THEN W ELSE SimLo) \div W, hi |-> ((IF bit = 1 THEN 3 * W ELSE SimLo + 2 * W) - 1) \div W])>>)
=============================================================================
