------------------------- MODULE NonrevCacheTrace -------------------------
(* Validates what the REPOSITORY'S OWN TESTS do to the non-revocation cache of each Credential (recorded through the
   verifHook points when the tests run with -tags verif and VERIF_TRACE set) against NonrevCache.tla.

   Only the order of events WITHIN one goroutine is trusted (hooks fire after the channel operation, not atomically
   with it), so TLC has to find an interleaving of the calls that the specification allows: the invariant NotAccepted
   is VIOLATED exactly when the whole recording can be explained.  A call is one NonrevPrepareCache ("prep": got the
   cached builder or built one - and which -, then stored it or discarded it) or one nonrevConsumeBuilder ("cons":
   got the cached builder or found the cache empty).  The unlogged steps (creation of the channel, the proof made from
   the consumed builder) are taken silently.  Credentials are validated one after the other (Reset). *)
EXTENDS NonrevCache, Json
Tr == JsonDeserialize("ctrace.json")        \* sequence of credentials, each a sequence of calls [g, seq, kind, got, b, stored]
VARIABLES cur,      \* credential being validated
          idmap     \* recorded builder id -> builder id of the specification
tvars == <<vars, cur, idmap>>
Calls == IF cur <= Len(Tr) THEN Tr[cur] ELSE <<>>
TracePrep == { c \in 1..32 : TRUE }            \* process ids are call numbers; roles come from the recording
IsPrep(c) == c <= Len(Calls) /\ Calls[c].kind = "prep"
IsCons(c) == c <= Len(Calls) /\ Calls[c].kind = "cons"
Finished(c) == pc[c] = "done" \/ (IsCons(c) /\ pc[c] = "c_prove")
\* calls of one goroutine happen one after the other
MayRun(c) == \A d \in 1..Len(Calls) : (Calls[d].g = Calls[c].g /\ Calls[d].seq < Calls[c].seq) => Finished(d)
StartPc(c) == IF IsPrep(c) THEN "p_test" ELSE IF IsCons(c) THEN "c_recv" ELSE "done"
TInit == /\ cur = 1 /\ idmap = [x \in {} |-> 0]
         /\ pc = [p \in Procs |-> IF 1 <= Len(Tr) /\ p <= Len(Tr[1]) THEN (IF Tr[1][p].kind = "prep" THEN "p_test" ELSE "c_recv") ELSE "done"]
         /\ field = "nil" /\ buf = None /\ held = [p \in Procs |-> None]
         /\ bidx = [b \in 1..MaxBuilders |-> 0] /\ nb = 0 /\ widx = 0 /\ proofs = {}
         /\ sawNil = [p \in Procs |-> FALSE]
Put(f, k, v) == [x \in DOMAIN f \cup {k} |-> IF x = k THEN v ELSE f[x]]
Keep == UNCHANGED <<cur, idmap>>
TPTest(c) == IsPrep(c) /\ MayRun(c) /\ PTest(c) /\ Keep
TPRecv(c) == /\ IsPrep(c) /\ PRecv(c)
             /\ Calls[c].got = (field = "chan" /\ buf # None)
             /\ IF Calls[c].got THEN Calls[c].b \in DOMAIN idmap /\ idmap[Calls[c].b] = buf /\ UNCHANGED idmap
                                ELSE Calls[c].b \notin DOMAIN idmap /\ idmap' = Put(idmap, Calls[c].b, nb + 1)
             /\ UNCHANGED cur
TPSend(c) == IsPrep(c) /\ PSend(c) /\ Calls[c].stored = (field = "chan" /\ buf = None) /\ Keep
TCRecv(c) == /\ IsCons(c) /\ MayRun(c) /\ CRecv(c)
             /\ Calls[c].got = (field = "chan" /\ buf # None)
             /\ (Calls[c].got => Calls[c].b \in DOMAIN idmap /\ idmap[Calls[c].b] = buf)
             /\ Keep
TCProve(c) == IsCons(c) /\ CProve(c) /\ Keep
AllFinished == \A c \in 1..Len(Calls) : Finished(c)
TReset == /\ cur <= Len(Tr) /\ AllFinished /\ cur' = cur + 1 /\ idmap' = [x \in {} |-> 0]
          /\ pc' = [p \in Procs |-> IF cur + 1 <= Len(Tr) /\ p <= Len(Tr[cur + 1]) THEN (IF Tr[cur + 1][p].kind = "prep" THEN "p_test" ELSE "c_recv") ELSE "done"]
          /\ field' = "nil" /\ buf' = None /\ held' = [p \in Procs |-> None]
          /\ bidx' = [b \in 1..MaxBuilders |-> 0] /\ nb' = 0 /\ widx' = 0 /\ proofs' = {}
          /\ sawNil' = [p \in Procs |-> FALSE]
\* (the proof a consumer makes afterwards does not touch the cache: a "cons" call is finished once it has its builder)
TNext == TReset \/ \E c \in 1..Len(Calls) : TPTest(c) \/ TPRecv(c) \/ TPSend(c) \/ TCRecv(c)
TSpec == TInit /\ [][TNext]_tvars
\* states that differ only in the specification's own numbering of builders behave the same: compare them through the
\* recorded builder ids (0: none, -1: a builder no recorded call ever names, i.e. one built by a consumer)
RecIdOf(x) == IF x = None THEN 0 ELSE IF \E r \in DOMAIN idmap : idmap[r] = x THEN CHOOSE r \in DOMAIN idmap : idmap[r] = x ELSE 0 - 1
tview == <<cur, pc, field, RecIdOf(buf), [p \in Procs |-> RecIdOf(held[p])]>>
NotAccepted == cur <= Len(Tr)           \* "violated" = every credential's recording has been explained
=============================================================================
