----------------------------- MODULE BuilderGen -----------------------------
(* one case per complete life cycle (ending with a proof and, possibly, a last timestamp contribution) *)
EXTENDS Builder, Json
Complete == phase = "proved" /\ (trcAsked = 1 \/ ~ENABLED TRC)
EmitB == (phase = "proved") => PrintT(<<"B", ToJson([order |-> order, calls |-> calls, n |-> NAttr])>>)
=============================================================================
