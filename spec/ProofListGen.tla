---------------------------- MODULE ProofListGen ----------------------------
(* Emits every attempt of the free list adversary of ProofList for a few builder configurations, with the
   specification's verdicts, for replay against the real ProofList.Verify. *)
EXTENDS ProofList, Json
B(kd, k, s, m) == [kind |-> kd, key |-> k, secret |-> s, mode |-> m]
GenConfigs(sel) ==
  CASE sel = 1 -> { <<B("D", 1, 1, "plain"), B("U", 2, 1, "plain")>>,            \* D and U under two keys, one secret
                    <<B("D", 1, 1, "plain"), B("D", 1, 2, "plain")>>,             \* two credentials of one key, two secrets
                    <<B("U", 1, 1, "plain")>> }                                   \* a single issuance commitment
    [] sel = 2 -> { <<B("D", 1, 1, "plain"), B("U", 2, 1, "side")>>,              \* r0 side door: same s_response, shifted effective secret
                    <<B("D", 1, 1, "side"), B("D", 2, 2, "side")>>,               \* both disclose attribute 0
                    <<B("D", 1, 1, "side"), B("D", 1, 2, "plain")>> }             \* one discloses attribute 0
    [] sel = 3 -> { <<B("U", 1, 1, "plain"), B("U", 2, 2, "plain")>>,
                    <<B("D", 2, 2, "plain")>>, <<B("U", 2, 1, "plain")>>,
                    <<B("D", 1, 1, "plain"), B("U", 2, 2, "plain")>> }
    [] sel = 4 -> { <<B("D", 1, 1, "plain"), B("D", 1, 1, "plain"), B("D", 1, 2, "plain")>>,     \* three proofs: labels may recur non-contiguously
                    <<B("D", 1, 1, "plain"), B("U", 2, 2, "plain"), B("D", 2, 1, "plain")>>,
                    <<B("U", 1, 2, "plain"), B("D", 1, 1, "plain"), B("D", 2, 1, "plain")>> }
    [] sel = 5 -> { <<B("Dn", 1, 1, "plain"), B("U", 2, 1, "plain")>>,             \* sub-proofs inside bound lists
                    <<B("Dr", 1, 1, "plain"), B("Dn", 2, 1, "plain")>>,
                    <<B("Dn", 1, 1, "plain"), B("Dr", 1, 2, "plain")>> }
    [] sel = 6 -> { <<B("D", 1, 1, "plain")>>, <<B("U", 1, 1, "plain")>>,          \* used with the value 3 = MINUS the value 1 for context and nonce
                    <<B("D", 1, 1, "plain"), B("U", 2, 1, "plain")>> }
    [] OTHER -> Configs
CONSTANT Sel
\* Sel = 4 (three builders): the session tuple and the keys are the honest ones of session 1, labels are used;
\* only the choice of proofs and the labelling vary
Focus == Sel = 4
GenInit == /\ Init /\ bl \in GenConfigs(Sel)
           /\ Focus => att.ctx = sess[1].ctx /\ att.nonce = sess[1].nonce /\ att.issig = sess[1].sig /\ att.useLabels /\ ~att.keysShort
GenNext == \E p \in Pool, k \in Keys, l \in {"a", "b"} : (Focus => k = p.b.key) /\ Add(p, k, l)
GenSpec == GenInit /\ [][IF Focus THEN GenNext ELSE Next]_vars
\* the list and keys are those of an honest session (whatever the header says): these attempts are always replayed
ListHonest == \E s \in {1, 2} : att.list = [i \in 1..Len(bl) |-> Proof(s, i, bl[i])] /\ att.keys = [i \in 1..Len(bl) |-> bl[i].key]
Case == [bl |-> bl, sess |-> sess, att |-> att, verify |-> Verify, honest |-> Honest, linked |-> Linked, focus |-> ListHonest,
         complete |-> (Honest /\ (\A i \in 1..Len(bl) : bl[i].mode = "plain")
                              /\ (\A i, j \in 1..Len(bl) : Lab(i) = Lab(j) => bl[i].secret = bl[j].secret))]
EmitC == PrintT(<<"C", ToJson(Case)>>)
=============================================================================
