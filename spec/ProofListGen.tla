---------------------------- MODULE ProofListGen ----------------------------
(* Emits every attempt of the free list adversary of ProofList for a few builder configurations, with the
   specification's verdicts, for replay against the real ProofList.Verify. *)
EXTENDS ProofList, Json
B(kd, k, s, m) == [kind |-> kd, key |-> k, secret |-> s, mode |-> m]
GenConfigs(sel) ==
  CASE sel = 1 -> { <<B("D", 1, 1, "plain"), B("U", 2, 1, "plain")>>,            \* D and U under two keys, one secret
                    <<B("D", 1, 1, "plain"), B("D", 1, 2, "plain")>> }            \* two credentials of one key, two secrets
    [] sel = 2 -> { <<B("D", 1, 1, "plain"), B("U", 2, 1, "side")>>,              \* r0 side door: same s_response, shifted effective secret
                    <<B("D", 1, 1, "side"), B("D", 2, 2, "side")>>,               \* both disclose attribute 0
                    <<B("D", 1, 1, "side"), B("D", 1, 2, "plain")>> }             \* one discloses attribute 0
    [] sel = 3 -> { <<B("U", 1, 1, "plain"), B("U", 2, 2, "plain")>>,
                    <<B("D", 2, 2, "plain")>>,
                    <<B("D", 1, 1, "plain"), B("U", 2, 2, "plain")>> }
    [] OTHER -> Configs
CONSTANT Sel
GenInit == Init /\ bl \in GenConfigs(Sel)
GenSpec == GenInit /\ [][Next]_vars
Case == [bl |-> bl, sess |-> sess, att |-> att, verify |-> Verify, honest |-> Honest, linked |-> Linked,
         complete |-> (Honest /\ (\A i \in 1..Len(bl) : bl[i].mode = "plain")
                              /\ (\A i, j \in 1..Len(bl) : Lab(i) = Lab(j) => bl[i].secret = bl[j].secret))]
EmitC == PrintT(<<"C", ToJson(Case)>>)
=============================================================================
