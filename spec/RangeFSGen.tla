----------------------------- MODULE RangeFSGen -----------------------------
EXTENDS RangeFS, Json
ASSUME \A sc \in Scenarios : PrintT(<<"F", ToJson(sc)>>)
=============================================================================
