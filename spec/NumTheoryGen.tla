---------------------------- MODULE NumTheoryGen ----------------------------
(* C19, direction specification -> code: TLC evaluates the mathematical definitions of NumTheory on
   exhaustive small domains and prints expected-result tables; the harness (`nt replay`) runs the real
   helpers over the same domains and compares.

   The domain is walked by the counter k of NumTheory (one state per k, rows are printed by the state
   constraint EmitRows, so nothing is quantified at constant level).  k plays the role of "the modulus"
   of every family at once; each family has its own bound:

     t = "leg"    k odd prime <= MaxLeg   v[a+1] = Legendre symbol (a/k), a in 0..k-1           (Euler's criterion)
     t = "jac"    k odd       <= MaxJac   v[a+1] = Jacobi symbol (a/k)                            (product over prime factors)
     t = "inv"    k           <= MaxInv   v[a+1] = the inverse of a modulo k, 0 when there is none (search)
     t = "sqrt"   k           <= MaxSqrt  k = product of a valid factor list fs (odd primes, optionally 4; in both
                                          orders): sq[r+1] = r*r mod k, qr[a+1] = "a has a square root modulo k"
     t = "crt"    pa = k      <= MaxCrt   for every coprime pb <= MaxCrt: v[a+1][b+1] = the x < pa*pb with x = a (pa), x = b (pb)
     t = "pow"    m = k       <= MaxPow   for every x in -1..m: v[j] = x^y mod m for y = -PowExp..PowExp, -1 = no inverse
     t = "fm"     p = k       <= MaxFM    p = 2^b - c: xs = operands (negative, around the multiples of p and the powers
                                          of two, up to 2^30), rs = xs mod p
     t = "pr"     blocks of 256 numbers below MaxPr: prime[i], safe[i]                             (trial division)
     t = "rpir"   start = k   <= MaxStart for len in 1..start+1: the primes RandomPrimeInRange(start, len) may return
     t = "spsize" bits = k    in 8..MaxBits: the safe primes of exactly k bits
     t = "gexp"   P = k safe prime <= MaxGroup: built (FALSE for P = 5), g, h of zkproof.BuildGroup(P) as found in the tree under check
                  (GroupGens, contract checked by LemmaGroup) and vg[i], vh[i] = base^e, e = 1-q..q-1 *)
EXTENDS NumTheory, Json

CONSTANTS MaxLeg, MaxJac, MaxInv, MaxSqrt, MaxCrt, MaxPow, PowExp, MaxFM, FMDense, MaxPr, MaxStart, MaxBits, MaxGroup

Range(lo, hi) == [i \in 1..(hi - lo + 1) |-> lo + i - 1]
Emit(row) == PrintT(<<"T", ToJson(row)>>)

RowLeg(p) == [t |-> "leg", p |-> p, v |-> [i \in 1..p |-> Legendre(i - 1, p)]]
RowJac(n) == [t |-> "jac", n |-> n, v |-> [i \in 1..n |-> Jacobi(i - 1, n)]]
RowInv(n) == [t |-> "inv", n |-> n,
              v |-> [i \in 1..n |-> LET S == { x \in 1..(n - 1) : IsInverse(i - 1, n, x) } IN
                                    IF S = {} THEN 0 ELSE CHOOSE x \in S : TRUE]]

\* factor lists whose product is n: 4 (at most once) and distinct odd primes, ascending; <<>> when n has no such list
RECURSIVE FactorSeq(_)
FactorSeq(n) == IF n = 1 THEN <<>>
                ELSE IF n % 4 = 0 THEN <<4>> \o FactorSeq(n \div 4)
                ELSE LET p == LeastDiv(n, 2) IN <<p>> \o FactorSeq(n \div p)
Reverse(s) == [i \in 1..Len(s) |-> s[Len(s) + 1 - i]]
RowSqrt(n, fs) == LET sq == Squares(n) IN
                  [t |-> "sqrt", n |-> n, fs |-> fs,
                   sq |-> [i \in 1..n |-> ((i - 1) * (i - 1)) % n],
                   qr |-> [i \in 1..n |-> (i - 1) \in sq]]
EmitSqrt(n) == LET fs == FactorSeq(n) IN
               IsSqrtFactorList(fs) =>
                  /\ Emit(RowSqrt(n, fs))
                  /\ (Len(fs) > 1 => Emit(RowSqrt(n, Reverse(fs))))

RowCrt(pa, pb) == [t |-> "crt", pa |-> pa, pb |-> pb,
                   v |-> [i \in 1..pa |-> [j \in 1..pb |-> CRTValue(i - 1, pa, j - 1, pb)]]]
EmitCrt(pa) == \A pb \in 2..MaxCrt : Coprime(pa, pb) => Emit(RowCrt(pa, pb))

RowPow(m, x) == [t |-> "pow", m |-> m, x |-> x, y0 |-> -PowExp,
                 v |-> [j \in 1..(2 * PowExp + 1) |-> ModPowSigned(x, j - 1 - PowExp, m)]]
EmitPow(m) == \A x \in (-1)..m : Emit(RowPow(m, x))

\* operands of the reduction modulo p: dense around zero for small p, the neighbourhood of -p, 0, p, 2p, 2^b, 2^2b,
\* all powers of two up to 2^30 and their negatives, the largest multiples of p below 2^30 and 2^20, some scattered values
Near(x) == Range(x - 2, x + 2)
RECURSIVE Lcg(_, _)
Lcg(x, n) == IF n = 0 THEN <<>> ELSE LET y == (x * 75 + 74) % 65537 IN <<(y * 16384 + (y % 128) * (y % 128)) % Pow2(30)>> \o Lcg(y, n - 1)
FMOperands(p) == LET b == FastModB(p) IN
                 (IF p <= FMDense THEN Range(-2 * p - 2, 3 * p + 2)
                  ELSE Near(-p) \o Near(0) \o Near(p) \o Near(2 * p) \o Near(Pow2(b)))
                 \o (IF 2 * b <= 29 THEN Near(Pow2(2 * b)) ELSE <<>>)
                 \o [j \in 1..31 |-> Pow2(j - 1)] \o [j \in 1..31 |-> Pow2(j - 1) - 1] \o [j \in 1..31 |-> -Pow2(j - 1)]
                 \o Near((Pow2(30) \div p) * p) \o Near((Pow2(20) \div p) * p) \o Near(-((Pow2(30) \div p) * p))
                 \o Lcg(p, 12)
RowFM(p) == LET xs == FMOperands(p) IN
            [t |-> "fm", p |-> p, b |-> FastModB(p), c |-> FastModC(p), xs |-> xs,
             rs |-> [i \in 1..Len(xs) |-> xs[i] % p]]

RowPr(n0) == [t |-> "pr", n0 |-> n0, prime |-> [i \in 1..256 |-> IsPrime(n0 + i - 1)],
              safe |-> [i \in 1..256 |-> IsSafePrime(n0 + i - 1)]]
EmitPr(n) == /\ (n = 2 => Emit(RowPr(0)))
             /\ ((n % 256 = 0 /\ n < MaxPr) => Emit(RowPr(n)))

EmitRpir(start) == \A len \in 1..(start + 1) :
                      Emit([t |-> "rpir", start |-> start, len |-> len, primes |-> PrimesInRange(start, len)])
RowSpSize(bits) == [t |-> "spsize", bits |-> bits, v |-> { p \in Pow2(bits - 1)..(Pow2(bits) - 1) : IsSafePrime(p) }]

RowGroup(P) == LET q == GroupOrder(P) IN
               IF ~GroupBuildable(P)
               THEN [t |-> "gexp", gp |-> P, gq |-> q, built |-> FALSE, g |-> 0, h |-> 0, e0 |-> 0, vg |-> <<>>, vh |-> <<>>]
               ELSE LET g == GroupG(P) h == GroupH(P) IN
                    [t |-> "gexp", gp |-> P, gq |-> q, built |-> TRUE, g |-> g, h |-> h, e0 |-> 1 - q,
                     vg |-> [i \in 1..(2 * q - 1) |-> GroupExp(g, i - q, q, P)],
                     vh |-> [i \in 1..(2 * q - 1) |-> GroupExp(h, i - q, q, P)]]

EmitRows == /\ ((k <= MaxLeg /\ k % 2 = 1 /\ IsPrime(k)) => Emit(RowLeg(k)))
            /\ ((k <= MaxJac /\ k % 2 = 1) => Emit(RowJac(k)))
            /\ (k <= MaxInv => Emit(RowInv(k)))
            /\ (k <= MaxSqrt => EmitSqrt(k))
            /\ (k <= MaxCrt => EmitCrt(k))
            /\ (k <= MaxPow => EmitPow(k))
            /\ (k <= MaxFM => Emit(RowFM(k)))
            /\ EmitPr(k)
            /\ (k <= MaxStart => EmitRpir(k))
            /\ ((k >= 8 /\ k <= MaxBits) => Emit(RowSpSize(k)))
            /\ ((k <= MaxGroup /\ k >= 5 /\ IsSafePrime(k) /\ GroupKnown(k)) => Emit(RowGroup(k)))
            /\ (k = MaxK => Emit([t |-> "end", k |-> k]))
=============================================================================
