------------------------------ MODULE CLSigGen ------------------------------
EXTENDS CLSig, Json
EmitC == PrintT(<<"C", ToJson([sig |-> sig, chk |-> chk, nrand |-> nrand, verify |-> Verify, valid |-> Valid, eq |-> EqHolds])>>)
=============================================================================
