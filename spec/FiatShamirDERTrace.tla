------------------------- MODULE FiatShamirDERTrace -------------------------
(* C15, code -> spec direction: the harness (fs record) runs the real issuance and disclosure protocols and logs, for
   every proof it obtained, what went into the challenge according to the real code (context, the per-proof results of
   ChallengeContribution in list order, nonce, marker). This module turns every logged record into the pre-image the
   specification prescribes, ChallengePreimage(issig, context, contribs, nonce); the harness then compares its SHA-256
   with the challenge found inside the proof.  Records of kind "list" are plain HashCommit inputs (ProofS).

   recorded.ndjson: one JSON object per line
     [id, kind, marker, context, contribs, nonce, vals, ...], integers as [n |-> sign, mag |-> magnitude bytes] *)
EXTENDS FiatShamirDER, Json

VARIABLE k
Recs == ndJsonDeserialize("recorded.ndjson")
ValOf(r) == [neg |-> r.n, mag |-> r.mag]
SeqVal(s) == [j \in 1..Len(s) |-> ValOf(s[j])]
WellFormedVal(r) == /\ \A j \in 1..Len(r.mag) : r.mag[j] \in Byte
                    /\ Len(r.mag) > 0 => r.mag[1] # 0
Render(i) ==
   LET r == Recs[i]
       flat == <<>> \o SeqVal(r.vals)
       pre == IF r.kind = "challenge"
              THEN LET cs == [p \in 1..Len(r.contribs) |-> <<>> \o SeqVal(r.contribs[p])] IN
                   IF ChallengeList(ValOf(r.context), cs, ValOf(r.nonce)) # flat
                   THEN Assert(FALSE, <<"recorded flat list is not context, contributions, nonce", r.id>>)
                   ELSE ChallengePreimage(r.marker, ValOf(r.context), cs, ValOf(r.nonce))
              ELSE Preimage(r.marker, flat)
   IN IF \E j \in 1..Len(r.vals) : ~WellFormedVal(r.vals[j]) THEN Assert(FALSE, <<"malformed recorded integer", r.id>>)
      ELSE [id |-> r.id, len |-> Len(pre), segs |-> <<[b |-> pre, r |-> 0]>>]

TraceInit == k = 0 /\ xm = FALSE /\ ym = FALSE /\ xs = <<>> /\ ys = <<>> /\ xp = <<>> /\ yp = <<>>
TraceNext == k < Len(Recs) /\ k' = k + 1 /\ UNCHANGED vars
TraceSpec == TraceInit /\ [][TraceNext]_<<k, vars>>
Emit == IF k = 0 THEN PrintT(<<"RECORDS", Len(Recs)>>) ELSE PrintT(<<"PRE", ToJson(Render(k))>>)
=============================================================================
