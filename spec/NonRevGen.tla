------------------------------ MODULE NonRevGen ------------------------------
EXTENDS NonRev, Json
\* complete histories only (every shorter history is a prefix of one)
EmitH == Len(hist) = MaxOps => PrintT(<<"H", ToJson([hist |-> hist])>>)
=============================================================================
