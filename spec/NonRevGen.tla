------------------------------ MODULE NonRevGen ------------------------------
EXTENDS NonRev, Json, FiniteSets
\* complete histories only (every shorter history is a prefix of one)
EmitH == Len(hist) = MaxOps => PrintT(<<"H", ToJson([hist |-> hist])>>)

\* ---- refresh chains: a prepared commitment that is refreshed (UpdateCommit) SEVERAL times before it is used - by later
\* preparations and at consumption - each time after the witness moved on.  Only histories that end in a proof whose
\* commitment went through at least two refreshes are emitted; they need 7 operations, beyond the exhaustive depth.
RNext == Prepare \/ RevokeOther \/ Update \/ Prove \/ Rollback
RSpec == Init /\ [][RNext]_vars
NRef == Cardinality({ i \in 1..Len(hist) : hist[i].op \in {"prepare", "prove"} /\ hist[i].refreshed })
\* refreshes since the cache was last emptied by a proof
LastProve == LET P == { i \in 1..(Len(hist) - 1) : hist[i].op = "prove" } IN IF P = {} THEN 0 ELSE CHOOSE i \in P : \A j \in P : j <= i
ChainLen == Cardinality({ i \in (LastProve + 1)..Len(hist) : hist[i].op \in {"prepare", "prove"} /\ hist[i].refreshed })
\* rollbacks: histories (RSpec, Rollbacks >= 1) that end in a proof made from a cached commitment with a rollback somewhere before it
EmitB == (Len(hist) = MaxOps /\ hist[MaxOps].op = "prove" /\ hist[MaxOps].fromcache /\ \E i \in 1..(MaxOps - 1) : hist[i].op = "rollback")
            => PrintT(<<"H", ToJson([hist |-> hist])>>)
EmitR == (Len(hist) = MaxOps /\ hist[MaxOps].op = "prove" /\ ChainLen >= 2) => PrintT(<<"H", ToJson([hist |-> hist])>>)
=============================================================================
