----------------------------- MODULE DecodeGen -----------------------------
(* Emits every mutated document of Decode as a PATCH LIST against its template (never the tree), with the
   specification's verdicts, for replay on the real decoders and verifiers (harness/cmd/dec):
      wf    WellFormed(doc)            wfe   per element: ProofWF          dec   DecodeOK(doc)
      exp   CodeOutcome(doc)           (dec and exp are statistics only; the verdict uses wf / wfe)
   and, once, the abstract templates as flat node lists so that the harness can check that its real templates
   abstract to exactly the trees the specification mutates. *)
EXTENDS Decode, Json
Case == [t |-> tpl, h |-> hist, n |-> nmut, wf |-> WellFormed(doc), dec |-> DecodeOK(doc), exp |-> CodeOutcome(doc),
         wfe |-> IF doc.t = "arr" /\ DecodeOK(doc) THEN [i \in 1..Len(doc.a) |-> ProofWF(doc.a[i])] ELSE <<>>]
Emit == PrintT(<<"DOC", ToJson(Case)>>)
Flat(d) == { [p |-> p, t |-> Get(d, p).t, tag |-> Get(d, p).tag] : p \in PathsOf(d) }
ASSUME \A t \in AllTemplates : PrintT(<<"TPL", ToJson([t |-> t, nodes |-> Flat(Template(t)), npatches |-> Cardinality(PatchesOf(Template(t), {}))])>>)
=============================================================================
