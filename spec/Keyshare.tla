------------------------------ MODULE Keyshare ------------------------------
(* The keyshare protocol of gabi (keyshare.go), property C14, at message level.

   user -> server : hW = H(inputs)                      KeyshareUserCommitmentRequest
   server -> user : commitments P_commit per key        NewKeyshareCommitments   (server keeps hW and its randomiser)
   user -> server : context, nonce, flag, user response, inputs'      KeyshareUserResponseRequest
   server -> user : ProofP = (challenge, total response) or an error  KeyshareResponse

   inputs is one record per proof builder: [key id or "none" (key does not take part), value,
   commitment, other commitments].  The hash is an injective constructor.  The server releases its
   response only if every key id in inputs' is one it knows and H(inputs') = hW; it computes its own
   challenge from inputs' (adding its commitment to the entries with a key id), the context (default
   1 when absent), the nonce and the flag.  A cheating user alters inputs' in one place.
   SendContext = TRUE is the current code (fix 72f96c4: the user's request carries the context). *)
EXTENDS Integers, Sequences, FiniteSets, TLC

CONSTANTS MaxBuilders, SendContext

ServerKeys == {"k1", "k2"}                 \* keys the keyshare server knows
KeyIds == ServerKeys \cup {"k3", "none"}   \* "k3": a key id the server does not know; "none": entry without key id
Kinds == {"D", "U", "Dnonrev", "Drange"}   \* builders; the last two have other commitments
Entry(i, b) == [key |-> IF b.key \in ServerKeys \cup {"k3"} THEN b.key ELSE "none", val |-> <<"val", i>>, comm |-> <<"comm", i>>,
                others |-> IF b.kind \in {"Dnonrev", "Drange"} THEN <<<<"oth", i, 1>>, <<"oth", i, 2>>>> ELSE <<>>]
Builder == [kind : Kinds, key : ServerKeys \cup {"k3", "k4"}]
    \* "k4": an issuer key that does not take part in the keyshare protocol;
    \* "k3": a key the USER names as taking part (in both messages, consistently) but the server does not know

VARIABLES bl,          \* builder list
          ctx, flag,   \* session: context 1 (default) or 2, signature flag
          sent,        \* inputs' as sent in the second message
          ctxSent,     \* context field of the second message: 1, 2 or 0 = absent
          alt          \* the alteration applied: [name, i (position), k (key id)]
vars == <<bl, ctx, flag, sent, ctxSent, alt>>
NoAlt == [name |-> "none", i |-> 0, k |-> "none"]

Committed == [i \in 1..Len(bl) |-> Entry(i, bl[i])]
Init == /\ bl \in UNION { [1..k -> Builder] : k \in 1..MaxBuilders }
        /\ ctx \in {1, 2} /\ flag \in BOOLEAN
        /\ sent = [i \in 1..Len(bl) |-> Entry(i, bl[i])]
        /\ ctxSent = (IF SendContext THEN ctx ELSE 0)
        /\ alt = NoAlt

N == Len(sent)
Alter(name, i, k, s) == alt = NoAlt /\ alt' = [name |-> name, i |-> i, k |-> k] /\ sent' = s /\ UNCHANGED <<bl, ctx, flag, ctxSent>>
RemoveAt(s, j) == [k \in 1..(Len(s) - 1) |-> IF k < j THEN s[k] ELSE s[k + 1]]
Next ==
  \/ \E i \in 1..N : Alter("value", i, "none", [sent EXCEPT ![i].val = <<"val", 99>>])
  \/ \E i \in 1..N : Alter("commitment", i, "none", [sent EXCEPT ![i].comm = <<"comm", 99>>])
  \/ \E i \in 1..N : Alter("addOther", i, "none", [sent EXCEPT ![i].others = Append(@, <<"oth", 99, 0>>)])
  \/ \E i \in 1..N : Len(sent[i].others) > 0 /\ Alter("dropOther", i, "none", [sent EXCEPT ![i].others = SubSeq(@, 1, Len(@) - 1)])
  \/ \E i \in 1..N : Len(sent[i].others) > 0 /\ Alter("alterOther", i, "none", [sent EXCEPT ![i].others[1] = <<"oth", 99, 1>>])
  \/ \E i \in 1..N : Len(sent[i].others) > 1 /\ Alter("swapOthers", i, "none", [sent EXCEPT ![i].others = <<@[2], @[1]>>])
  \/ \E i \in 1..N, k \in KeyIds : k # sent[i].key /\ Alter(IF k = "k3" THEN "keyUnknown" ELSE IF k = "none" THEN "keyDropped" ELSE "keyOther", i, k, [sent EXCEPT ![i].key = k])
  \* the bytes of two adjacent numbers re-divided: the concatenation of their big-endian encodings is unchanged, the numbers are not
  \* (a commitment hash without framing of its fields would not notice)
  \/ \E i \in 1..N : Alter("shiftValComm", i, "none", [sent EXCEPT ![i].val = <<"val+", i>>, ![i].comm = <<"comm-", i>>])
  \/ \E i \in 1..N : Len(sent[i].others) > 0 /\ Alter("shiftCommOther", i, "none", [sent EXCEPT ![i].comm = <<"comm+", i>>, ![i].others[1] = <<"oth-", i, 1>>])
  \/ \E i \in 1..(N - 1) : Len(sent[i].others) = 0 /\ Alter("shiftNext", i, "none", [sent EXCEPT ![i].comm = <<"comm+", i>>, ![i + 1].val = <<"val-", i + 1>>])
  \* fields left out of the message (null after decoding), and numbers negated in memory (the commitment hash is taken over
  \* the bytes of the numbers, which do not show the sign)
  \/ \E i \in 1..N : Alter("valueNil", i, "none", [sent EXCEPT ![i].val = <<"nil", 0>>])
  \/ \E i \in 1..N : Alter("commitmentNil", i, "none", [sent EXCEPT ![i].comm = <<"nil", 0>>])
  \/ \E i \in 1..N : Len(sent[i].others) > 0 /\ Alter("otherNil", i, "none", [sent EXCEPT ![i].others[1] = <<"nil", 0, 0>>])
  \/ \E i \in 1..N : Alter("negate", i, "none", [sent EXCEPT ![i].val = <<"neg", i>>, ![i].comm = <<"negcomm", i>>])
  \/ \E i \in 1..N : Len(sent[i].others) > 0 /\ Alter("negateOther", i, "none", [sent EXCEPT ![i].others[1] = <<"negoth", i, 1>>])
  \/ Alter("nonceNil", 1, "none", sent) \/ Alter("respNil", 1, "none", sent)
  \/ \E i \in 1..(N - 1) : Alter("swap", i, "none", [sent EXCEPT ![i] = sent[i + 1], ![i + 1] = sent[i]])
  \/ \E i \in 1..N : N > 1 /\ Alter("drop", i, "none", RemoveAt(sent, i))
  \/ \E i \in 1..N : Alter("duplicate", i, "none", Append(sent, sent[i]))
Spec == Init /\ [][Next]_vars

\* KeyshareResponse transcribed
AllKnown == \A i \in 1..N : sent[i].key = "none" \/ sent[i].key \in ServerKeys
HeaderOK == alt.name \notin {"nonceNil", "respNil"}            \* nonce and the user's response are present
Released == AllKnown /\ HeaderOK /\ sent = Committed           \* H injective: recomputed hash = hW iff equal
ServerCtx == IF ctxSent = 0 THEN 1 ELSE ctxSent
Contrib(e, i) == <<e.val, IF e.key = "none" THEN e.comm ELSE <<"total", e.comm, e.key>>, e.others>>
ServerChallenge == <<ServerCtx, [i \in 1..N |-> Contrib(sent[i], i)], "nonce", flag>>
UserChallenge == <<ctx, [i \in 1..Len(bl) |-> Contrib(Committed[i], i)], "nonce", flag>>

\* C14
Bound == Released => sent = Committed /\ AllKnown
HonestUser == \A i \in 1..Len(bl) : bl[i].key # "k3"
Complete == alt = NoAlt /\ HonestUser => Released /\ ServerChallenge = UserChallenge
AlteredNeverReleased == alt # NoAlt => ~Released
=============================================================================
