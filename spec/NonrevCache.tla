---- MODULE NonrevCache ----
(* The non-revocation proof-builder cache of a Credential (credential.go: nonrevCacheChan, NonrevPrepareCache,
   nonrevConsumeBuilder, NonRevocationProofBuilder.UpdateCommit), one action per channel or memory operation.
   Processes: preparers run NonrevPrepareCache, provers run nonrevConsumeBuilder + CreateProof (any number of
   times each), an updater advances the witness index between whole calls.  Serves C07 (a prepared commitment is
   consumed by at most one proof: SingleConsumer, NoSharedHold, NotAlsoCached), C11 (ProofIndexCurrent) and
   C20 (NoRace: two processes whose next steps touch the plain field Credential.nonrevCache, one writing).
   SyncInit = TRUE is the current code (fix 87f2737: the field is created and read under a mutex, test-and-create
   is one atomic step); FALSE is the code before. *)
EXTENDS Integers, FiniteSets, Sequences, TLC
CONSTANTS Prep, Prov, MaxBuilders, MaxIdx, SyncInit   \* SyncInit = TRUE models a synchronised lazy init (fix)
Procs == Prep \cup Prov
None == 0
VARIABLES pc, field,     \* field: "nil" or "chan" (Credential.nonrevCache)
          buf,           \* content of the 1-buffered channel: None or builder id
          held,          \* [Procs -> builder id or None]
          bidx,          \* [1..MaxBuilders -> accumulator index the builder is committed to]
          nb,            \* number of builders created
          widx,          \* witness accumulator index
          proofs,        \* set of [b, idx]
          sawNil         \* [Procs -> BOOLEAN] local result of the nil test
vars == <<pc, field, buf, held, bidx, nb, widx, proofs, sawNil>>

Init == /\ pc = [p \in Procs |-> IF p \in Prep THEN "p_test" ELSE "c_recv"]
        /\ field = "nil" /\ buf = None /\ held = [p \in Procs |-> None]
        /\ bidx = [b \in 1..MaxBuilders |-> 0] /\ nb = 0 /\ widx = 0 /\ proofs = {}
        /\ sawNil = [p \in Procs |-> FALSE]

\* memory accesses to the plain field `nonrevCache` performed by the next step of process p
Writes(p) == pc[p] = "p_make" /\ ~SyncInit
Reads(p)  == ~SyncInit /\ pc[p] \in {"p_test", "p_recv", "p_send", "c_recv"}
Race == \E p, q \in Procs : p # q /\ Writes(p) /\ (Reads(q) \/ Writes(q))

Build(p, next) == /\ nb < MaxBuilders /\ nb' = nb + 1
                  /\ bidx' = [bidx EXCEPT ![nb + 1] = widx]
                  /\ held' = [held EXCEPT ![p] = nb + 1]
                  /\ pc' = [pc EXCEPT ![p] = next]
UpdateCommit(b) == [bidx EXCEPT ![b] = IF bidx[b] >= widx THEN @ ELSE widx]

PTest(p) == /\ pc[p] = "p_test" /\ sawNil' = [sawNil EXCEPT ![p] = (field = "nil")]
            /\ IF SyncInit
                 THEN /\ field' = "chan" /\ buf' = (IF field = "nil" THEN None ELSE buf)     \* nonrevCacheChan(true) under the mutex
                      /\ pc' = [pc EXCEPT ![p] = "p_recv"]
                 ELSE /\ pc' = [pc EXCEPT ![p] = IF field = "nil" THEN "p_make" ELSE "p_recv"]
                      /\ UNCHANGED <<field, buf>>
            /\ UNCHANGED <<held, bidx, nb, widx, proofs>>
PMake(p) == /\ pc[p] = "p_make" /\ field' = "chan" /\ buf' = None   \* a NEW channel replaces whatever was there
            /\ pc' = [pc EXCEPT ![p] = "p_recv"]
            /\ UNCHANGED <<held, bidx, nb, widx, proofs, sawNil>>
PRecv(p) == /\ pc[p] = "p_recv"
            /\ IF field = "chan" /\ buf # None
                 THEN /\ held' = [held EXCEPT ![p] = buf] /\ buf' = None
                      /\ bidx' = UpdateCommit(buf) /\ pc' = [pc EXCEPT ![p] = "p_send"] /\ UNCHANGED nb
                 ELSE /\ Build(p, "p_send") /\ UNCHANGED buf
            /\ UNCHANGED <<field, widx, proofs, sawNil>>
PSend(p) == /\ pc[p] = "p_send"
            /\ buf' = IF field = "chan" /\ buf = None THEN held[p] ELSE buf     \* else: discarded
            /\ held' = [held EXCEPT ![p] = None] /\ pc' = [pc EXCEPT ![p] = "done"]
            /\ UNCHANGED <<field, bidx, nb, widx, proofs, sawNil>>
CRecv(p) == /\ pc[p] = "c_recv"
            /\ IF field = "chan" /\ buf # None
                 THEN /\ held' = [held EXCEPT ![p] = buf] /\ buf' = None
                      /\ bidx' = UpdateCommit(buf) /\ pc' = [pc EXCEPT ![p] = "c_prove"] /\ UNCHANGED nb
                 ELSE /\ Build(p, "c_prove") /\ UNCHANGED buf
            /\ UNCHANGED <<field, widx, proofs, sawNil>>
CProve(p) == /\ pc[p] = "c_prove" /\ proofs' = proofs \cup {[b |-> held[p], idx |-> bidx[held[p]], by |-> p]}
             /\ held' = [held EXCEPT ![p] = None] /\ pc' = [pc EXCEPT ![p] = "done"]
             /\ UNCHANGED <<field, buf, bidx, nb, widx, sawNil>>
WitnessUpdate == /\ widx < MaxIdx /\ widx' = widx + 1
                 /\ \A p \in Procs : pc[p] \in {"p_test", "c_recv", "done"}   \* sequentially interleaved with whole calls only
                 /\ UNCHANGED <<pc, field, buf, held, bidx, nb, proofs, sawNil>>
Restart(p) == /\ pc[p] = "done" /\ pc' = [pc EXCEPT ![p] = IF p \in Prep THEN "p_test" ELSE "c_recv"]
              /\ UNCHANGED <<field, buf, held, bidx, nb, widx, proofs, sawNil>>
Next == \/ \E p \in Prep : PTest(p) \/ PMake(p) \/ PRecv(p) \/ PSend(p)
        \/ \E p \in Prov : CRecv(p) \/ CProve(p)
        \/ \E p \in Procs : Restart(p)
        \/ WitnessUpdate
Spec == Init /\ [][Next]_vars

SingleConsumer == \A x, y \in proofs : x.b = y.b => x = y
NoSharedHold == \A p, q \in Procs : p # q /\ held[p] # None => held[p] # held[q]
NotAlsoCached == \A p \in Procs : held[p] # None => buf # held[p]
ProofIndexCurrent == \A x \in proofs : x.idx <= widx
NoRace == ~Race
====
