------------------------- MODULE SafePrimeWorkersGen -------------------------
(* Schedule generation for the gate replay (harness `kg gates`): SafePrimeWorkers with a history of
   the actions taken. The configuration uses VIEW vars, so TLC explores exactly the state graph of
   SafePrimeWorkers (breadth first, one worker) and the history a state carries is the path on which it
   was first reached; EmitS prints it once per distinct state (invariants are evaluated on new states
   only). The harness establishes every printed state on the real goroutines by replaying its schedule
   through the blocking hooks, then opens all gates and requires that every goroutine of the pool ends. *)
EXTENDS SafePrimeWorkers, Sequences, Json

VARIABLE hist
gvars == <<vars, hist>>
Did(a, w) == hist' = Append(hist, [a |-> a, w |-> w])

GInit == Init /\ hist = <<>>
GNext == /\ ~Crashed
         /\ \/ \E w \in Workers : \/ GenReturn(w) /\ Did("GenReturn", w)
                                  \/ GenErr(w) /\ Did("GenErr", w)
                                  \/ ErrSend(w) /\ Did("ErrSend", w)
                                  \/ ErrClose(w) /\ Did("ErrClose", w)
                                  \/ Check(w) /\ Did("Check", w)
                                  \/ Send(w) /\ Did("Send", w)
                                  \/ SendGiveUp(w) /\ Did("SendGiveUp", w)
            \/ MonStop /\ Did("MonStop", 0)
            \/ MonClose /\ Did("MonClose", 0)
            \/ MonStopped /\ Did("MonStopped", 0)
            \/ RecvPrime /\ Did("RecvPrime", 0)
            \/ RecvErr /\ Did("RecvErr", 0)
            \/ DecideMore /\ Did("DecideMore", 0)
            \/ DecideDone /\ Did("DecideDone", 0)
            \/ GiveUp /\ Did("GiveUp", 0)
            \/ CloseStop /\ Did("CloseStop", 0)
GSpec == GInit /\ [][GNext]_gvars
View == vars

\* the state the schedule leads to, for the harness to compare with what it observes on the real goroutines
StateRec == [wpc |-> [w \in Workers |-> wpc[w]], buf |-> buf, errbuf |-> errbuf, stopClosed |-> stopClosed,
             stopped |-> stopped, mon |-> mon, cons |-> cons, got |-> got, nerr |-> nerr]
\* the schedule that leaked before fix D11: the consumer has returned, ints is full, every worker is about to send,
\* the monitor has not yet closed stopped
LeakSetup == cons = "done" /\ buf = Cap /\ ~stopped /\ \A w \in Workers : wpc[w] = "snd"
EmitS == PrintT(<<"S", ToJson([n |-> N, sched |-> hist, state |-> StateRec, leaksetup |-> LeakSetup])>>)
=============================================================================
