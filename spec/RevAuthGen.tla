----------------------------- MODULE RevAuthGen -----------------------------
(* Emits every message the adversary of RevAuth can assemble, with the specification's verdicts,
   for replay against revocation.Update.Verify / Witness.Update / EventList.Verify / Update.Prepend. *)
EXTENDS RevAuth, Json
ELAuth(evs, acc) == evs = <<>> \/ \E c \in Chains, a \in 0..L :
                       acc.eh = HashOf(Ev(c, a)) /\ \E f \in 0..a : evs = Window(c, f, a)
Targets == { <<f2, a2>> \in (0..L) \X (0..L) : f2 <= a2 }
PrepCase(t) == LET r == PrependResult(msg, t[1], t[2]) IN
                 [f2 |-> t[1], a2 |-> t[2], ok |-> r.ok, first |-> IF Len(r.events) = 0 THEN -1 ELSE r.events[1].idx]
Case == [msg |-> msg, nmut |-> nmut, base |-> base, genuine |-> Genuine(base),
         auth |-> Authentic(msg), verify |-> VerifyOK(msg),
         elauth |-> ELAuth(msg.events, msg.sacc.payload),
         elverify |-> ELVerifyOK(msg.events, msg.sacc.payload, msg.transported # "no"),
         otherkey |-> OtherKeyOK(msg), flatten |-> FlattenOK(msg.events, msg.sacc.payload),
         prep |-> { PrepCase(t) : t \in Targets },
         ptm |-> { [c |-> c, g |-> gh[1], h |-> gh[2], ok |-> PrependToMsg(msg, c, gh[1], gh[2]).ok] : c \in Chains, gh \in { x \in (0..L) \X (0..L) : x[1] <= x[2] } }]
EmitC == PrintT(<<"C", ToJson(Case)>>)
\* hash equality table
HashCase(h1, h2) == [h1 |-> h1, h2 |-> h2, eq |-> Equal(h1, h2), same |-> h1 = h2]
EmitH == \A h1, h2 \in HashPool : PrintT(<<"H", ToJson(HashCase(h1, h2))>>)
=============================================================================
