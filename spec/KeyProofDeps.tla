---------------------------- MODULE KeyProofDeps ----------------------------
(* The statement graph of ValidKeyProof (keyproof/validkeyproof.go, issquareproof.go, primeproof.go) under a
   RE-PROVING adversary, property C17 - the complement of part (b) of KeyProof.tla, which alters the leaves of an
   honest proof one at a time and leaves the challenge alone.

   The Camenisch-Michels half of the proof speaks about VALUES COMMITTED in Pedersen commitments (p, q, pprime,
   qprime, N, the bases s_k, their roots r_k, products mm_k, and the many commitments inside the two primality
   proofs, lumped together as `inner`).  Each relation proof ties some of these commitments together; what the
   verifier learns about the modulus n and the bases is the conjunction of the relations.

   A Pedersen commitment is a group element SENT BY THE PROVER and used as a base when the verifier reconstructs
   the relation's first message.  If the prover sends 0 (mod the group prime), every reconstructed commitment of a
   relation that uses it is 0 whatever the responses are (ZkProof.tla, theorem Absorbing): the relation is VACUOUS -
   the prover hashes 0 in its place and needs no witness.  There is one exception: a commitment that is the left-hand
   side of a range proof is raised to the bits of the challenge, 0^0 = 1, so the reconstructed list depends on the
   challenge it is hashed into and the prover finds no fixed point.

   The Gennaro half (squarefree, prime-power product, disjoint prime product, almost-safe-prime product) works
   modulo n with the true factorisation and involves no prover-supplied group elements; it establishes that n is a
   product of two ALMOST safe primes 2a^m+1.  That the factors are SAFE primes (m = 1) and that the bases are
   squares is established only by the relations below.

   NonzeroGuard = TRUE is the code after the repair of D29 (every element of the hashed list must be nonzero modulo
   the group prime); FALSE is the code as it was.  *)
EXTENDS Integers, FiniteSets, TLC

CONSTANTS NB,              \* number of bases
          NonzeroGuard,
          GroupWide,       \* the group order exceeds every product of committed values the relations multiply: 2|n| + slack bits. FALSE is
                           \* the code as it is (|n| + 522 bits): r_k * r_k, with r_k of |n| (+258) bits, wraps around the group order, and the
                           \* relation r_k^2 = s_k + k n, which is only checked in the exponent, can be satisfied for a non-square (D49)
          GeneratorsDerived, \* the generators g, h of the group are derived from the (prover-chosen) group prime (repair of D50); FALSE:
                           \* fixed integers reduced modulo it, so that a prime dividing a^x - b^y gives the prover log_g h
          SimCopies,       \* the SIMULATED 'bit = 1' branch of an exponentiation step sends, like the real one, a copy of the committed base power
                           \* as its multiplier commitment (repair of D53); FALSE: a fresh random element, which tells the branches apart
          MulTied          \* expStepB rebuilds the multiplier's representation through the committed base power (repair of D33);
                           \* FALSE: the step's own commitment Mul is tied to nothing

Bases == 1..NB
\* commitments: <<kind, k>>
Commits == {<<"p", 0>>, <<"q", 0>>, <<"pprime", 0>>, <<"qprime", 0>>, <<"N", 0>>, <<"inner", 0>>}
             \cup { <<"s", k>> : k \in Bases } \cup { <<"r", k>> : k \in Bases } \cup { <<"mm", k>> : k \in Bases }
\* left-hand sides of range proofs (newPedersenRangeProofStructure on r_k; modMultRange on mm_k; the ranges inside the primality proofs)
RangeLhs == {<<"inner", 0>>} \cup { <<"r", k>> : k \in Bases } \cup { <<"mm", k>> : k \in Bases }

\* relations: name -> the commitments whose group elements the verifier uses when it reconstructs it
Rel(name, uses) == [name |-> name, uses |-> uses]
Relations ==
  { Rel(<<"pPprimeRel", 0>>, {<<"p", 0>>, <<"pprime", 0>>}),          \* p = 2 pprime + 1
    Rel(<<"qQprimeRel", 0>>, {<<"q", 0>>, <<"qprime", 0>>}),          \* q = 2 qprime + 1
    Rel(<<"pQNRel", 0>>, {<<"p", 0>>}),                                \* g^n = p^q h^-x : n = p q
    Rel(<<"pprimeIsPrime", 0>>, {<<"pprime", 0>>, <<"inner", 0>>}),
    Rel(<<"qprimeIsPrime", 0>>, {<<"qprime", 0>>, <<"inner", 0>>}),
    Rel(<<"nRep", 0>>, {<<"N", 0>>}) }                                 \* the commitment N holds n
  \* the multiplier of every multiply step of the two exponentiation chains is the committed base power a^(2^i)
  \cup (IF MulTied THEN { Rel(<<"mulTie", 0>>, {<<"inner", 0>>}) } ELSE {})
  \cup { Rel(<<"squaresRep", k>>, {<<"s", k>>}) : k \in Bases }        \* the commitment s_k holds base k
  \cup { Rel(<<"rootsRange", k>>, {<<"r", k>>}) : k \in Bases }
  \cup { Rel(<<"rootsValid", k>>, {<<"r", k>>, <<"s", k>>, <<"N", 0>>, <<"mm", k>>}) : k \in Bases }   \* r_k^2 = s_k mod N

\* what the adversary lies about, and which relations a lie falsifies WHATEVER values the adversary commits to:
\*   "n"      the factors of n are almost safe but not safe primes: not all of pPprimeRel, qQprimeRel, pQNRel,
\*            pprimeIsPrime, qprimeIsPrime can be true; the adversary picks a nonempty set of them to be false
\*   <<"b",k>> base k is no square modulo n: rootsValid_k or squaresRep_k or nRep is false
\*            ("pprimeIsPrime" stands for the relations of the primality proof other than the tie of the multipliers, which is
\*            listed on its own: a prover that commits to the true, composite (p-1)/2 can satisfy all the others and break only the tie)
NRels == { <<"pPprimeRel", 0>>, <<"qQprimeRel", 0>>, <<"pQNRel", 0>>, <<"pprimeIsPrime", 0>>, <<"qprimeIsPrime", 0>>, <<"mulTie", 0>> }
BRels(k) == { <<"rootsValid", k>>, <<"squaresRep", k>>, <<"nRep", 0>> }

VARIABLES wrap,      \* the adversary uses roots of s_k + j*M (M the group order) for the bases it lies about
          trap,      \* the adversary brings a group prime for which it knows log_g h
          zero,      \* the commitments the adversary sends as 0
          lieN,      \* the modulus is no safe-prime product
          lieB,      \* the set of bases that are no squares
          false      \* the relations that are false for the values the adversary committed to
vars == <<wrap, trap, zero, lieN, lieB, false>>

Init == /\ wrap \in BOOLEAN /\ trap \in BOOLEAN
        /\ zero \in SUBSET {<<"p", 0>>, <<"q", 0>>, <<"pprime", 0>>, <<"qprime", 0>>, <<"N", 0>>, <<"r", 1>>, <<"s", 1>>, <<"inner", 0>>}
        /\ lieN \in BOOLEAN /\ lieB \in SUBSET Bases
        /\ false \in SUBSET (NRels \cup UNION { BRels(k) : k \in Bases })
        \* the adversary's committed values are consistent with what it lies about
        /\ (lieN <=> false \cap NRels # {})
        /\ \A k \in Bases : (k \in lieB => false \cap BRels(k) # {})
        /\ (lieB = {} => false \cap UNION { BRels(k) : k \in Bases } = {})
Next == UNCHANGED vars
Spec == Init /\ [][Next]_vars

Vacuous(r) == r.uses \cap zero # {}
NoFixedPoint == zero \cap RangeLhs # {}
Accept == /\ NonzeroGuard => zero = {}
          /\ ~NoFixedPoint
          /\ \A r \in Relations : r.name \in false =>
                \/ Vacuous(r)
                \/ (trap /\ ~GeneratorsDerived)                              \* commitments are not binding: any relation can be answered
                \/ (wrap /\ ~GroupWide /\ r.name[1] = "rootsValid")           \* true modulo the group order, false modulo n

\* C17: an accepted proof establishes a safe-prime product and square bases
Sound == Accept => ~lieN /\ lieB = {}
Honest == (zero = {} /\ false = {}) => Accept
StepView(bit) == [ achallenge |-> "uniform-256-bits-or-xor-thereof", bchallenge |-> "uniform-256-bits-or-xor-thereof",
                   mulCommit  |-> IF bit = 1 THEN "copy-of-base-power" ELSE (IF SimCopies THEN "copy-of-base-power" ELSE "fresh-element"),
                   responses  |-> "uniform-modulo-order" ]
\* what an observer sees of one exponentiation step as a function of the secret exponent bit: an OR proof hides its bit iff the view is constant (D53)
BranchHidden == StepView(0) = StepView(1)
\* the minimal forgeries (vacuity of the guard: must be violated with NonzeroGuard = FALSE)
NoForgery == ~(Accept /\ (lieN \/ lieB # {}))
=============================================================================
