---------------------------- MODULE KeyshareGen ----------------------------
EXTENDS Keyshare, Json
EmitC == PrintT(<<"C", ToJson([bl |-> bl, ctx |-> ctx, flag |-> flag, sent |-> sent, ctxSent |-> ctxSent, alt |-> alt,
                               released |-> Released, samechal |-> (ServerChallenge = UserChallenge)])>>)
=============================================================================
