--------------------------- MODULE FiatShamirDER ---------------------------
(* C15 - the Fiat-Shamir challenge encoding of gabi, written from X.690 (DER) and from the text of
   internal/common/hashtool.go, independently of encoding/asn1.

     HashCommit(values, issig)  = OS2IP( SHA-256( Preimage(issig, values) ) )
     Preimage(marker, values)   = SEQUENCE { [BOOLEAN TRUE  -- only if marker],
                                             INTEGER Len(values), INTEGER values[1], ..., INTEGER values[n] }
     createChallenge(ctx, nonce, contributions, issig) = HashCommit(<<ctx>> \o contributions \o <<nonce>>, issig)
     GetHashNumber(a, b, index, bitlen) = SUM_{i < NLimbs(bitlen)}  HashCommit(HNList(a, b, index, i), FALSE) * 2^(256 i)
                                          (no truncation to bitlen: the code does not truncate)
     IntHashSha256(bytes)       = OS2IP( SHA-256( bytes ) )

   TLC integers are 32 bit, so a number is never a TLA+ integer here: an integer is a record
   [neg, mag] with mag its big-endian magnitude as a sequence of bytes without leading zero byte
   (zero = <<>>; [neg |-> TRUE, mag |-> <<>>] is "-0" and denotes zero as well).
   SHA-256 and OS2IP (big-endian bytes -> unsigned integer) are outside the model: the harness applies
   crypto/sha256 to the byte sequences this module defines.

   The state machine below enumerates all pairs of documents (marker, list) over a finite value set and
   checks injectivity and prefix-freeness; deep recursion is avoided (closed forms, FlattenSeq). *)
EXTENDS Integers, Sequences, FiniteSets, TLC, SequencesExt

Byte == 0..255

\* ------------------------------------------------------------------ X.690 8.1.3: length octets
RECURSIVE BytesOf(_)
BytesOf(n) == IF n < 256 THEN <<n>> ELSE BytesOf(n \div 256) \o <<n % 256>>      \* n >= 0, minimal big-endian
DERLen(n) == IF n < 128 THEN <<n>>                                                \* short form
             ELSE LET bs == BytesOf(n) IN <<128 + Len(bs)>> \o bs                 \* long form, minimal (DER 10.1)

\* ------------------------------------------------------------------ X.690 8.3: INTEGER, two's complement, minimal
\* Two's complement of a non-zero magnitude m of k bytes: the k bytes of 2^(8k) - M.
\* Closed form: p = position of the last non-zero byte; bytes after p stay 0, byte p becomes
\* 256 - m[p], bytes before p are complemented.
LastNZ(m) == CHOOSE i \in 1..Len(m) : m[i] # 0 /\ \A j \in (i+1)..Len(m) : m[j] = 0
TwosComp(m) == LET p == LastNZ(m) IN
   [i \in 1..Len(m) |-> IF i > p THEN 0 ELSE IF i = p THEN 256 - m[i] ELSE 255 - m[i]]
\* 8.3.2: the first nine bits must not all be ones: drop leading 0xFF bytes while the next byte has its high bit set
LeadFF(s) == IF \A i \in 1..Len(s) : s[i] = 255 THEN Len(s) - 1
             ELSE LET q == CHOOSE i \in 1..Len(s) : s[i] # 255 /\ \A j \in 1..(i-1) : s[j] = 255
                  IN IF s[q] >= 128 THEN q - 1 ELSE IF q >= 2 THEN q - 2 ELSE 0
StripFF(s) == SubSeq(s, LeadFF(s) + 1, Len(s))

IsZero(x) == x.mag = <<>>
IntContent(x) ==
  IF IsZero(x) THEN <<0>>
  ELSE IF ~x.neg THEN (IF x.mag[1] >= 128 THEN <<0>> \o x.mag ELSE x.mag)       \* 8.3.2: first nine bits not all zero
  ELSE LET t == TwosComp(x.mag) IN StripFF(IF t[1] < 128 THEN <<255>> \o t ELSE t)

TagInteger == 2
TagBoolean == 1
TagSequence == 48                                   \* 0x30: universal 16, constructed
TLV(tag, content) == <<tag>> \o DERLen(Len(content)) \o content
DERInt(x) == TLV(TagInteger, IntContent(x))
DERBool(b) == TLV(TagBoolean, IF b THEN <<255>> ELSE <<0>>)         \* DER 11.1: TRUE is 0xFF
Nat2Int(n) == [neg |-> FALSE, mag |-> IF n = 0 THEN <<>> ELSE BytesOf(n)]

\* ------------------------------------------------------------------ the pre-image of HashCommit
Elements(marker, vals) ==
   (IF marker THEN <<DERBool(TRUE)>> ELSE <<>>) \o <<DERInt(Nat2Int(Len(vals)))>> \o [i \in 1..Len(vals) |-> DERInt(vals[i])]
Preimage(marker, vals) == TLV(TagSequence, FlattenSeq(Elements(marker, vals)))

\* createChallenge (proofs.go): context, then the contributions of the proofs in list order, then the nonce.
\* contribs is the sequence of the per-proof contribution sequences, in the order of the proof list.
ChallengeList(context, contribs, nonce) == <<context>> \o FlattenSeq(contribs) \o <<nonce>>
ChallengePreimage(issig, context, contribs, nonce) == Preimage(issig, ChallengeList(context, contribs, nonce))

\* ------------------------------------------------------------------ GetHashNumber: limb schedule
\* aopt, bopt: <<>> (nil in the code) or <<value>>; index: an integer value; limb i (0-based) hashes the list
\* (a if present, b if present, index, i) without marker and contributes H * 2^(256 i). The loop runs while
\* 256 i < bitlen, so there are ceil(bitlen / 256) limbs, none for bitlen = 0; the sum is NOT reduced to bitlen bits.
LimbBits == 256
NLimbs(bitlen) == (bitlen + LimbBits - 1) \div LimbBits
HNList(aopt, bopt, index, i) == aopt \o bopt \o <<index, Nat2Int(i)>>
Schedule(aopt, bopt, index, bitlen) ==
   [k \in 1..NLimbs(bitlen) |-> [ctr |-> k - 1, shift |-> LimbBits * (k - 1), marker |-> FALSE,
                                 list |-> HNList(aopt, bopt, index, k - 1)]]
TruncateToBitlen == FALSE

\* ------------------------------------------------------------------ IntHashSha256
\* hashes exactly the bytes it is given; for an attribute value x the callers pass x.Bytes() = the magnitude.
IntHashInput(bytes) == bytes
AttrHashInput(x) == IntHashInput(x.mag)

\* ------------------------------------------------------------------ value families
\* magnitude of len bytes: first byte `first` (1..255), then (fill + j*step) % 256 for j = 0,1,.., the last tz bytes 0
Mag(len, first, fill, step, tz) ==
   IF len = 0 THEN <<>>
   ELSE [i \in 1..len |-> IF i = 1 THEN first ELSE IF i > len - tz THEN 0 ELSE (fill + (i - 2) * step) % 256]
V(neg, len, first, fill, step, tz) == [neg |-> neg, mag |-> Mag(len, first, fill, step, tz)]
Lit(neg, mag) == [neg |-> neg, mag |-> mag]

\* boundary values for the pair exploration, most collision-prone first
ValSeq == << Lit(FALSE, <<>>),          \* 0          02 01 00
             Lit(TRUE,  <<>>),          \* -0         02 01 00
             Lit(FALSE, <<128>>),       \* 128        02 02 00 80
             Lit(TRUE,  <<128>>),       \* -128       02 01 80
             Lit(TRUE,  <<1>>),         \* -1         02 01 FF
             Lit(FALSE, <<255>>),       \* 255        02 02 00 FF
             Lit(FALSE, <<2>>),         \* 2          02 01 02   (content = INTEGER tag)
             Lit(FALSE, <<2, 1, 2>>),   \* content is itself the encoding of 2
             Lit(FALSE, <<1>>),         \* 1          02 01 01
             Lit(TRUE,  <<1, 0>>),      \* -256       02 02 FF 00
             Lit(FALSE, <<1, 0>>),      \* 256        02 02 01 00
             Lit(TRUE,  <<129>>),       \* -129       02 02 FF 7F
             Lit(FALSE, <<1, 1, 255>>), \* content is the encoding of BOOLEAN TRUE
             Lit(FALSE, <<128, 0>>),    \* 32768      02 03 00 80 00
             Lit(TRUE,  <<128, 0>>),    \* -32768     02 02 80 00
             Lit(TRUE,  <<255>>) >>     \* -255       02 02 FF 01
ValsQuick == { ValSeq[i] : i \in 1..8 }
ValsThorough == { ValSeq[i] : i \in 1..13 }
\* element domain: magnitudes of 0..257 bytes around the short/long-form boundaries, both signs
ValsElems == { V(n, l, f, g, 0, 0) : n \in BOOLEAN, l \in {0, 1, 2, 126, 127, 128, 129, 254, 255, 256, 257},
                                      f \in {1, 127, 128, 255}, g \in {0, 255} }

\* ------------------------------------------------------------------ state machine: all pairs of documents
CONSTANTS MaxLen, Vals
VARIABLES xm, xs, xp, ym, ys, yp          \* two documents (marker, list) and their pre-images
vars == <<xm, xs, xp, ym, ys, yp>>

Init == /\ xm \in BOOLEAN /\ ym \in BOOLEAN /\ xs = <<>> /\ ys = <<>>
        /\ xp = Preimage(xm, xs) /\ yp = Preimage(ym, ys)
\* x is completed before y grows: every pair (xs, ys) is reached along exactly one path
GrowX == /\ ys = <<>> /\ Len(xs) < MaxLen
         /\ \E v \in Vals : xs' = Append(xs, v)
         /\ xp' = Preimage(xm, xs')
         /\ UNCHANGED <<xm, ym, ys, yp>>
GrowY == /\ Len(ys) < MaxLen
         /\ \E v \in Vals : ys' = Append(ys, v)
         /\ yp' = Preimage(ym, ys')
         /\ UNCHANGED <<xm, ym, xs, xp>>
Next == GrowX \/ GrowY
Spec == Init /\ [][Next]_vars

Norm(v) == IF IsZero(v) THEN [neg |-> FALSE, mag |-> <<>>] ELSE v          \* -0 = 0
NormL(l) == [i \in 1..Len(l) |-> Norm(l[i])]
SameDoc == xm = ym /\ NormL(xs) = NormL(ys)      \* same marker, same count, same integers in the same order

TypeOK == /\ \A i \in 1..Len(yp) : yp[i] \in Byte
          /\ yp[1] = TagSequence
          /\ xp = Preimage(xm, xs)
Injective == xp = yp => SameDoc
\* stronger: no pre-image is a proper prefix of another one (length-extension of the encoding is impossible)
DocPrefixFree == IsPrefix(xp, yp) => SameDoc
\* element encodings (the marker, the count, every integer) are prefix-free: a concatenation parses uniquely
LastOr(s, d) == IF s = <<>> THEN d ELSE s[Len(s)]
ElemPrefixFree ==
   LET a == LastOr(xs, Nat2Int(0))  b == LastOr(ys, Nat2Int(0))
       ea == DERInt(a)  eb == DERInt(b)  t == DERBool(TRUE) IN
   /\ IsPrefix(ea, eb) => Norm(a) = Norm(b)
   /\ ~IsPrefix(t, eb) /\ ~IsPrefix(ea, t)
   /\ IsPrefix(DERInt(Nat2Int(Len(xs))), DERInt(Nat2Int(Len(ys)))) => Len(xs) = Len(ys)
\* vacuity probe (expected to be violated when Vals holds 0 and -0): injectivity without identifying -0 with 0
InjectiveStrict == xp = yp => xm = ym /\ xs = ys
=============================================================================
