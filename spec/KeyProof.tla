------------------------------ MODULE KeyProof ------------------------------
(* C17 - key-correctness proofs (package keyproof of gabi).

   PART (a)  TOY NUMBER THEORY of the four sub-protocols of Gennaro, Micciancio, Rabin ("An efficient
   non-interactive statistical zero-knowledge proof system for quasi-safe prime products", CCS'98) as
   keyproof implements them.  In every round the verifier derives a challenge from the Fiat-Shamir
   hash and checks ONE equation on the prover's response:

     protocol (file)                          round equation (N the modulus, x the challenge)          rounds
     ---------------------------------------  -------------------------------------------------------  ------
     square-free (squarefree.go)              y^N = x                                      (mod N)        8
     prime-power product                      y^2 \in {x, -x, 2x, -2x}                     (mod N)       80
       (primepowerproduct.go)
     disjoint prime product                   y^odd(N-1) = x,  N not prime                 (mod N)        8
       (disjointprimeproduct.go)
     almost-safe-prime product                (c * b^x)^g \in {t, 1/t, t^2, 1/t^2}, t = b^(g*r^2),       250
       (almostsafeprimeproduct.go)            g = 2^|N|, b = base derived from the prover's nonce,
                                              c = commitment fixed BEFORE x, r = response; N = 1 mod 3

   `Answerable(N, x)` = "the round equation has a solution for challenge x".  A prover who knows the
   factorisation can answer exactly the answerable challenges, nobody can answer the others.  For
   every odd N below a bound TLC checks, walking N as a state machine (w):

     N in the language       =>  every challenge is answerable                       (completeness)
     N outside the language  =>  the answerable fraction is at most the per-round bound that the
                                 iteration counts of securityparams.go assume          (soundness)

   Languages, per-round bounds and the resulting overall errors (iteration counts read from
   keyproof/securityparams.go on the verified tree; quasiSafePrimeProductVerifyProof additionally
   insists on N = 5 mod 8 and on N having no factor below minimumFactor = 1024):

     SF    L = {N : gcd(N, phi(N)) = 1}  (all such N are square-free; N = p*q with p, q safe primes is
           in L).  Outside L at most a 1/pmin fraction is answerable, pmin the least prime factor of N
           (the kernel of y -> y^N contains an element of order l for a prime l | gcd(N, phi(N)), and
           l | N).  With the minimum-factor rule pmin >= 1031:  (1/1031)^8 < 2^-80.
     PPP   L = {N : at most two distinct prime factors, their residues mod 8 distinct and none = 1}
           (completeness needs the side conditions, soundness does not).  With three or more prime
           factors at most 1/2 is answerable:  2^-80.
     DPP   L = {N composite : gcd(odd(N-1), phi(N)) = 1}.  Outside L either N is prime (rejected by the
           primality test, whatever the responses) or at most 1/3 is answerable (1/l for the least
           prime l of the gcd).  The comment in securityparams.go ("1/minimumFactor per iter") is NOT
           what the equation gives: the bound is 1/3 per round, 3^-8 ~ 2^-12.7 overall.  What the
           composition uses DPP for is the implication  N = 1 mod 3  /\  DPP  =>  3 does not divide
           phi(N)  (3 | N-1), which is what brings the ASPP bound from 9/10 down to ~4/5.
     ASPP  exponent side: with B = b^g of odd order m, the round is answerable iff the discrete
           logarithm L of (c*b^x)^g to base B satisfies  L \in S(m) = {k*r^2 mod m : k in {1,-1,2,-2}}.
           F(m) = |S(m)|.   F(m) = m  <=>  m square-free with at most two prime factors whose residues
           mod 8 are distinct and not 1  (true for m | p'q' of a key accepted by CanProve);
           m with three or more distinct prime factors  =>  F(m)/m <= 4/5  (worst case m = 105: 0.7714;
           without the factor 3, m = 385: 0.6883).
           modulus side (N = P*Q): averaged over the base, the answerable fraction is at most 9/10
           when the odd part of phi(N) has three or more distinct prime factors (worst: 0.8955) and at
           most 0.806 when moreover N = 1 mod 3 and N is in the DPP language (worst case N = 1633 =
           23*71: 0.80570 - marginally ABOVE the "4/5" of the code comment: 0.8057^250 ~ 2^-77.9 instead
           of (4/5)^250 ~ 2^-80.5).  The bases come from a prover-chosen 256-bit nonce: T nonce trials
           multiply the error by T.
     Overall, for N accepted by all plain checks: soundness error <= 2^-77.9 (ASPP dominates).

   PART (b)  COMPOSITION: the proof tree of ValidKeyProof as a grammar of leaf kinds, the verifier as
   structure check /\ range limits /\ XOR rule of every OR node /\ ONE hash over all reconstructed
   commitments /\ the plain checks and round equations of the quasi-safe-prime-product proof, and an
   adversary who alters leaves, containers, the verifier's context (modulus, bases) and the transport
   (MaxAlt = 1: every single step; MaxAlt = 2: every step followed by one representative of every
   (node type, kind)).  See the section "PART (b)" below.

   What is NOT modelled: the number theory of the Camenisch-Michels sub-proofs (primality by
   exponentiation); they are covered structurally - every leaf is bound by the hash.  Reading the code
   for this module turned up two things the structural view cannot see (reported, not asserted here):
   expStepB never ties its duplicated multiplier commitment (Bproof.Mul) to the committed base power
   it stands for, and range-proof results have no lower limit (see LeafDomain). *)
EXTENDS Integers, Sequences, FiniteSets, TLC

CONSTANTS MaxN,      \* part (a): odd moduli 3..MaxN for the SF / PPP / DPP claims
          MaxNG,     \* part (a): odd moduli 3..MaxNG for the group-side ASPP claim (cubic cost)
          MaxM,      \* part (a): odd orders 1..MaxM for the exponent-side ASPP claims
          MaxQ,      \* part (a): products of two distinct odd primes up to MaxQ for the averaged ASPP claims
          QExtra,    \* part (a): further single moduli for the averaged ASPP claims (all > MaxQ)
          Stride,    \* the walk of part (a) is split into Stride interleaved chains so that TLC's workers share it
          MaxAlt,    \* part (b): number of adversary steps
          RangeNonNegChecked  \* part (b): TRUE iff the verifier rejects negative range-proof results (see LeafDomain)

VARIABLES w,         \* part (a): [kind, v] - which claim family, which number
          pf         \* part (b): the adversary's proof / verification context

-----------------------------------------------------------------------------
(* Elementary arithmetic (all values stay far below 2^31: moduli < 2^11, products of residues < 2^22) *)
RECURSIVE Gcd(_, _)
Gcd(a, b) == IF b = 0 THEN a ELSE Gcd(b, a % b)
RECURSIVE PowMod(_, _, _)
PowMod(b, e, n) == IF e = 0 THEN 1 % n
                   ELSE LET h == PowMod(b, e \div 2, n) IN
                        IF e % 2 = 0 THEN (h * h) % n ELSE (((h * h) % n) * b) % n
RECURSIVE BitLen(_)
BitLen(x) == IF x = 0 THEN 0 ELSE 1 + BitLen(x \div 2)
RECURSIVE Pow2(_)
Pow2(k) == IF k = 0 THEN 1 ELSE 2 * Pow2(k - 1)
RECURSIVE OddPart(_)
OddPart(m) == IF m % 2 = 0 THEN OddPart(m \div 2) ELSE m
IsPrime(p) == p >= 2 /\ \A d \in 2..(p - 1) : d * d > p \/ p % d # 0
PrimeFactors(n) == { p \in 2..n : n % p = 0 /\ IsPrime(p) }
Units(n) == { x \in 1..(n - 1) : Gcd(x, n) = 1 }
Phi(n) == Cardinality(Units(n))
SquareFree(n) == \A p \in PrimeFactors(n) : n % (p * p) # 0
MinOf(S) == CHOOSE p \in S : \A q \in S : p <= q
\* residues mod 8 of a set of primes are pairwise distinct and none is 1: the two characters (-1/p), (2/p)
\* then separate the primes, which is what makes one of x, -x, 2x, -2x a square
Mod8Separated(P) == /\ \A p \in P : p % 8 # 1
                    /\ \A p, q \in P : p # q => p % 8 # q % 8

-----------------------------------------------------------------------------
(* Round equations, transcribed from the verifiers *)

\* squareFreeVerifyProof: Exp(response, N, N) = challenge
SFEq(n, x, y) == PowMod(y, n, n) = x
SFAnswerable(n, x) == \E y \in 0..(n - 1) : SFEq(n, x, y)
SFImage(n) == { PowMod(y, n, n) : y \in Units(n) }          \* the answerable unit challenges

\* primePowerProductVerifyProof: response^2 is one of x, -x, 2x, -2x
PPPEq(n, x, y) == (y * y) % n \in { x % n, (n - x) % n, (2 * x) % n, (2 * (n - x)) % n }
PPPAnswerable(n, x) == \E y \in 0..(n - 1) : PPPEq(n, x, y)
Squares(n) == { (y * y) % n : y \in Units(n) }
PPPOk(n) == { x \in Units(n) : { x, (n - x) % n, (2 * x) % n, (2 * (n - x)) % n } \cap Squares(n) # {} }

\* disjointPrimeProductVerifyProof: N not prime; Exp(response, odd(N-1), N) = challenge
DPPEq(n, x, y) == PowMod(y, OddPart(n - 1), n) = x
DPPAnswerable(n, x) == ~IsPrime(n) /\ \E y \in 0..(n - 1) : DPPEq(n, x, y)
DPPImage(n) == { PowMod(y, OddPart(n - 1), n) : y \in Units(n) }

\* almostSafePrimeProductVerifyProof, one round: base b, commitment c, challenge x, response r
Gamma(n) == Pow2(BitLen(n))
ASPPEq(n, b, c, x, r) ==
   LET g  == Gamma(n)
       y  == (c * PowMod(b, x, n)) % n
       yg == PowMod(y, g, n)
       t1 == PowMod(PowMod(PowMod(b, g, n), r, n), r, n)
       t3 == (t1 * t1) % n
   IN /\ n % 3 = 1
      /\ Gcd(t1, n) = 1                       \* t2 = 1/t1, t4 = 1/t3 exist (otherwise: reject, never panic)
      /\ \/ yg = t1 \/ (yg * t1) % n = 1 \/ yg = t3 \/ (yg * t3) % n = 1
\* the values t, 1/t, t^2, 1/t^2 over all responses (the equation depends on c and x only through Y = (c*b^x)^g)
ASPPTargets(n, b) ==
   LET B == PowMod(b, Gamma(n), n)  ph == Phi(n) IN
   UNION { LET t1 == PowMod(PowMod(B, r, n), r, n)
               t3 == (t1 * t1) % n
           IN { t1, PowMod(t1, ph - 1, n), t3, PowMod(t3, ph - 1, n) } : r \in 0..(n - 1) }
\* exponent side
SOf(m) == { ((k % m) * ((r * r) % m)) % m : r \in 0..(m - 1), k \in {1, m - 1, 2, 2 * m - 2} }
F(m) == Cardinality(SOf(m))
RECURSIVE OrdFrom(_, _, _, _)
OrdFrom(B, cur, k, n) == IF cur = 1 THEN k ELSE OrdFrom(B, (cur * B) % n, k + 1, n)
Ord(B, n) == OrdFrom(B, B % n, 1, n)                    \* multiplicative order of the unit B modulo n > 1
Powers(B, m, n) == { PowMod(B, j, n) : j \in 0..(m - 1) }

-----------------------------------------------------------------------------
(* Languages *)
InSF(n) == Gcd(n, Phi(n)) = 1
InPPP(n) == Cardinality(PrimeFactors(n)) <= 2 /\ Mod8Separated(PrimeFactors(n))
PPPMustReject(n) == Cardinality(PrimeFactors(n)) >= 3
InDPP(n) == ~IsPrime(n) /\ Gcd(OddPart(n - 1), Phi(n)) = 1
IsSafe(p) == IsPrime(p) /\ p % 2 = 1 /\ IsPrime((p - 1) \div 2)
TwoPrimes(n) == Cardinality(PrimeFactors(n)) = 2 /\ SquareFree(n)
\* the keys the library's prover accepts (CanProve), at toy size
ProvableKey(n) == /\ TwoPrimes(n) /\ \A p \in PrimeFactors(n) : IsSafe(p) /\ p > 5
                  /\ Mod8Separated(PrimeFactors(n))
                  /\ Mod8Separated({ (p - 1) \div 2 : p \in PrimeFactors(n) })
\* almost-safe-prime products: N = (2p^a+1)(2q^b+1); the proof works on the odd part of phi(N)
OddPhiPrimes(n) == PrimeFactors(OddPart(Phi(n))) \ {2}
ASPPMustReject(n) == n % 3 # 1 \/ Cardinality(OddPhiPrimes(n)) >= 3
GoodOrder(m) == m = 1 \/ (SquareFree(m) /\ Cardinality(PrimeFactors(m)) <= 2 /\ Mod8Separated(PrimeFactors(m)))

-----------------------------------------------------------------------------
(* Part (a): the claims, as invariants over the walk *)
NKind == w.kind = "N"
SFClaim == NKind => LET n == w.v  u == Units(n)  img == SFImage(n) IN
              /\ (img = u) <=> InSF(n)
              /\ InSF(n) => SquareFree(n)
              /\ (img # u) => Cardinality(img) * MinOf(PrimeFactors(n)) <= Cardinality(u)
PPPClaim == NKind => LET n == w.v  u == Units(n)  ok == PPPOk(n) IN
              /\ InPPP(n) => ok = u
              /\ (ok = u) => Cardinality(PrimeFactors(n)) <= 2
              /\ PPPMustReject(n) => 2 * Cardinality(ok) <= Cardinality(u)
DPPClaim == NKind => LET n == w.v  u == Units(n)  img == DPPImage(n) IN
              /\ (img = u) <=> Gcd(OddPart(n - 1), Phi(n)) = 1
              /\ (img # u) => 3 * Cardinality(img) <= Cardinality(u)
              /\ IsPrime(n) => \A x \in u : ~DPPAnswerable(n, x)
              /\ (n % 3 = 1 /\ InDPP(n)) => Phi(n) % 3 # 0
\* the image sets and the round equations say the same (unit challenges; small n only: quadratic)
EqClaim == (NKind /\ w.v <= MaxNG) => LET n == w.v IN \A x \in Units(n) :
              /\ SFAnswerable(n, x) <=> x \in SFImage(n)
              /\ PPPAnswerable(n, x) <=> x \in PPPOk(n)
              /\ (~IsPrime(n)) => (DPPAnswerable(n, x) <=> x \in DPPImage(n))
\* ASPP, group side: what the verifier's equation accepts is exactly "discrete log in S(m)"
ASPPGroupClaim == (NKind /\ w.v <= MaxNG /\ w.v % 3 = 1) => LET n == w.v  g == Gamma(n) IN
   \A b \in Units(n) :
      LET B == PowMod(b, g, n)
          m == Ord(B, n)
          T == ASPPTargets(n, b)
      IN /\ m % 2 = 1
         /\ T = { PowMod(B, j, n) : j \in SOf(m) }
         \* the targets are what the round equation accepts (x = 0: Y = c^g; cubic, so tiny n only)
         /\ n <= 45 => \A c \in Units(n) : (\E r \in 0..(n - 1) : ASPPEq(n, b, c, 0, r)) <=> PowMod(c, g, n) \in T
\* ASPP, exponent side
MKind == w.kind = "M"
ASPPOrderClaim == MKind => LET m == w.v IN
   /\ (F(m) = m) <=> GoodOrder(m)
   /\ Cardinality(PrimeFactors(m)) >= 3 => 5 * F(m) <= 4 * m
\* ASPP, modulus side: N = P*Q, fraction of (base, challenge) pairs answerable with the best commitment
\* = average over the units b of F(m_b)/m_b, m_b the order of b^g.  Lam = odd part of the exponent of Z_N^*.
QKind == w.kind = "Q" /\ TwoPrimes(w.v)
OrdTable(n) == [ b \in Units(n) |-> Ord(PowMod(b, Gamma(n), n), n) ]
ASPPModulusClaim == QKind => LET n == w.v
                                 ot == OrdTable(n)
                                 ords == { ot[b] : b \in Units(n) }
                                 lam == CHOOSE l \in ords : \A o \in ords : l % o = 0
                                 ft == [ o \in ords |-> F(o) * (lam \div o) * Cardinality({ b \in Units(n) : ot[b] = o }) ]
                                 RECURSIVE Sum(_)
                                 Sum(S) == IF S = {} THEN 0 ELSE LET o == CHOOSE o \in S : TRUE IN ft[o] + Sum(S \ {o})
                                 num == Sum(ords)
                                 den == Cardinality(Units(n)) * lam
                             IN
   /\ ProvableKey(n) => num = den
   /\ Cardinality(OddPhiPrimes(n)) >= 3 => 10 * num <= 9 * den
   /\ (Cardinality(OddPhiPrimes(n)) >= 3 /\ n % 3 = 1 /\ InDPP(n)) => 500 * num <= 403 * den
\* non-vacuity probes (each must be VIOLATED in its own configuration)
NoProvableKey == ~(w.kind = "Q" /\ TwoPrimes(w.v) /\ ProvableKey(w.v))
NoThreePrimeOrderSemiprime == ~(w.kind = "Q" /\ TwoPrimes(w.v) /\ Cardinality(OddPhiPrimes(w.v)) >= 3 /\ w.v % 3 = 1 /\ InDPP(w.v))

WalkMax(kind) == CASE kind = "N" -> MaxN [] kind = "M" -> MaxM [] kind = "Q" -> MaxQ
WalkStart(kind) == CASE kind = "N" -> 3 [] kind = "M" -> 1 [] kind = "Q" -> 15
InitA == /\ \/ \E kind \in {"N", "M", "Q"}, j \in 0..(Stride - 1) :
                 /\ WalkStart(kind) + 2 * j <= WalkMax(kind)
                 /\ w = [kind |-> kind, v |-> WalkStart(kind) + 2 * j]
            \/ \E q \in QExtra : w = [kind |-> "Q", v |-> q]      \* single moduli beyond MaxQ (no successors)
         /\ pf = <<>>
NextA == /\ w.v + 2 * Stride <= WalkMax(w.kind)
         /\ w' = [w EXCEPT !.v = @ + 2 * Stride]
         /\ UNCHANGED pf
SpecA == InitA /\ [][NextA]_<<w, pf>>

-----------------------------------------------------------------------------
(* PART (b)  COMPOSITION

   The proof tree.  Kids[t] lists the fields of node type t as <<field name, type, container>> with
   container "one" (plain field), "arr" (slice, one element type) or "key" (entry class of the map
   RangeProof.Results).  Field names are those of the Go structs (= the JSON keys), so that the
   harness can classify every real leaf by its path with indices removed.  Leaf types ("L:..."):

     L:GroupPrime   safe prime defining the proof group; enters the hash as is; size and primality checked
     L:Challenge    the ONE Fiat-Shamir challenge: compared with the hash over all reconstructed commitments
     L:PedCommit    Pedersen commitment: enters the hash as is and serves as a base modulo the group prime
     L:Schnorr      Schnorr-style result r - c*s: used only as an exponent, i.e. modulo the group order
     L:RangeSecret  range-proof result of the ranged secret: integer below 2^(l2+eps+2), then exponent
     L:RangeHider   range-proof result of a hider: exponent modulo the group order
     L:OrChallenge  sub-challenge of an OR node (expStep: A/B, primeProof: a^((p-1)/2) = +1 / -1);
                    the verifier insists on  sub1 XOR sub2 = Challenge
     L:SFResp L:PPPResp L:DPPResp   Gennaro responses (modulo N; PPP only through its square)
     L:ASPPNonce    seed of the 250 bases;  L:ASPPCommit  commitment (enters the hash as is, used mod N);
     L:ASPPResp     response (only r^2 modulo the odd order matters) *)
Kids == [
  ValidKeyProof |-> { <<"PProof", "Pedersen", "one">>, <<"QProof", "Pedersen", "one">>,
                      <<"PprimeProof", "Pedersen", "one">>, <<"QprimeProof", "Pedersen", "one">>,
                      <<"PQNRel", "Schnorr", "one">>, <<"Challenge", "L:Challenge", "one">>,
                      <<"GroupPrime", "L:GroupPrime", "one">>,
                      <<"PprimeIsPrimeProof", "PrimeProof", "one">>, <<"QprimeIsPrimeProof", "PrimeProof", "one">>,
                      <<"QSPPproof", "QSPP", "one">>, <<"BasesValidProof", "IsSquare", "one">> },
  Pedersen |-> { <<"Commit", "L:PedCommit", "one">>, <<"Sresult", "Schnorr", "one">>, <<"Hresult", "Schnorr", "one">> },
  Schnorr |-> { <<"Result", "L:Schnorr", "one">> },
  Range |-> { <<"Results", "RangeMap", "one">> },
  RangeMap |-> { <<"secret", "L:RangeSecret", "key">>, <<"hider", "L:RangeHider", "key">> },   \* each entry: a vector of rangeProofIters results
  PrimeProof |-> { <<"HalfPCommit", "Pedersen", "one">>, <<"PreaCommit", "Pedersen", "one">>, <<"ACommit", "Pedersen", "one">>,
                   <<"AnegCommit", "Pedersen", "one">>, <<"AResCommit", "Pedersen", "one">>, <<"AnegResCommit", "Pedersen", "one">>,
                   <<"PreaMod", "Schnorr", "one">>, <<"PreaHider", "Schnorr", "one">>,
                   <<"APlus1", "Schnorr", "one">>, <<"AMin1", "Schnorr", "one">>,
                   <<"APlus1Challenge", "L:OrChallenge", "one">>, <<"AMin1Challenge", "L:OrChallenge", "one">>,
                   <<"PreaRangeProof", "Range", "one">>, <<"ARangeProof", "Range", "one">>,
                   <<"AnegRangeProof", "Range", "one">>, <<"PreaModRangeProof", "Range", "one">>,
                   <<"AExpProof", "Exp", "one">>, <<"AnegExpProof", "Exp", "one">> },
  Exp |-> { <<"ExpBitProofs", "Pedersen", "arr">>, <<"ExpBitEqHider", "Schnorr", "one">>,
            <<"BasePowProofs", "Pedersen", "arr">>, <<"BasePowRangeProofs", "Range", "arr">>, <<"BasePowRelProofs", "Mult", "arr">>,
            <<"StartProof", "Pedersen", "one">>,
            <<"InterResProofs", "Pedersen", "arr">>, <<"InterResRangeProofs", "Range", "arr">>,
            <<"InterStepsProofs", "ExpStep", "arr">> },
  Mult |-> { <<"ModMultProof", "Pedersen", "one">>, <<"Hider", "Schnorr", "one">>, <<"RangeProof", "Range", "one">> },
  ExpStep |-> { <<"Achallenge", "L:OrChallenge", "one">>, <<"Aproof", "ExpStepA", "one">>,
                <<"Bchallenge", "L:OrChallenge", "one">>, <<"Bproof", "ExpStepB", "one">> },
  ExpStepA |-> { <<"Bit", "Schnorr", "one">>, <<"EqualityHider", "Schnorr", "one">> },
  ExpStepB |-> { <<"Mul", "Pedersen", "one">>, <<"Bit", "Schnorr", "one">>, <<"MultiplicationProof", "Mult", "one">> },
  QSPP |-> { <<"SFproof", "SF", "one">>, <<"PPPproof", "PPP", "one">>, <<"DPPproof", "DPP", "one">>, <<"ASPPproof", "ASPP", "one">> },
  SF |-> { <<"Responses", "L:SFResp", "arr">> },
  PPP |-> { <<"Responses", "L:PPPResp", "arr">> },
  DPP |-> { <<"Responses", "L:DPPResp", "arr">> },
  ASPP |-> { <<"Nonce", "L:ASPPNonce", "one">>, <<"Commitments", "L:ASPPCommit", "arr">>, <<"Responses", "L:ASPPResp", "arr">> },
  IsSquare |-> { <<"NProof", "Pedersen", "one">>, <<"SquaresProof", "Pedersen", "arr">>, <<"RootsProof", "Pedersen", "arr">>,
                 <<"RootsRangeProof", "Range", "arr">>, <<"RootsValidProof", "Mult", "arr">> } ]

IsLeafType(t) == t \notin DOMAIN Kids
\* every node of the tree: [p: path of field names, t: type, c: container kind of the last step]
RECURSIVE NodesFrom(_, _, _)
NodesFrom(t, prefix, c) ==
   { [p |-> prefix, t |-> t, c |-> c] } \cup
   (IF IsLeafType(t) THEN {} ELSE UNION { NodesFrom(k[2], Append(prefix, k[1]), k[3]) : k \in Kids[t] })
Nodes == NodesFrom("ValidKeyProof", <<>>, "one")
Leaves == { nd \in Nodes : IsLeafType(nd.t) }
Arrays == { nd \in Nodes : nd.c = "arr" }                        \* slices (of leaves or of sub-proofs)
Maps == { nd \in Nodes : nd.t = "RangeMap" }                      \* RangeProof.Results
OrNodes == { nd \in Nodes : nd.t \in {"ExpStep", "PrimeProof"} }  \* carry a pair of sub-challenges
SeqRange(s) == { s[i] : i \in 1..Len(s) }
\* which branch of the nearest OR node a node lives in: A/B of expStep, P/M = a^((p-1)/2) is +1 / -1 of primeProof
Branch(p) == LET r == SeqRange(p) IN
             CASE "Aproof" \in r \/ "Achallenge" \in r -> "A"
               [] "Bproof" \in r \/ "Bchallenge" \in r -> "B"
               [] "APlus1" \in r \/ "APlus1Challenge" \in r -> "P"
               [] "AMin1" \in r \/ "AMin1Challenge" \in r -> "M"
               [] OTHER -> "none"

(* Alterations.  Value kinds act on a leaf:
     plus1     x + 1                                  random   a fresh value of the same size (for the group
     zero      0                                               prime: another safe prime of the right size)
     negmod    M - x   (M the modulus of the leaf's natural domain)
     shift     x + M                                  unshift  x - M  (negative as a rule; exists in memory only:
                                                               big.Int.MarshalText refuses negative numbers)
     nil       the pointer removed
   Container kinds: truncate / extend (duplicate the last element) / nilelem on a slice; dropkey / addshort
   (extra name with a short vector) / addfull (extra name with a full-length vector) on Results;
   orswap (exchange the two sub-challenges) / orshiftboth (XOR both with the same mask) on an OR node. *)
ValueKinds == {"plus1", "random", "zero", "negmod", "shift", "unshift"}
ModLeaf == {"L:PedCommit", "L:Schnorr", "L:RangeHider", "L:SFResp", "L:PPPResp", "L:DPPResp", "L:ASPPCommit", "L:ASPPResp"}
Applicable(t, k) == CASE k \in {"plus1", "random", "zero", "nil"} -> TRUE
                      [] k = "negmod" -> t \in ModLeaf
                      [] k \in {"shift", "unshift"} -> t \in ModLeaf \cup {"L:RangeSecret"}
                      [] OTHER -> FALSE

(* LeafDomain: is the altered leaf THE SAME VALUE in the leaf's natural domain?  (TRUE = same proof:
   the property does not care whether such a proof is accepted.)  A Schnorr-style result or a hider result
   lives modulo the group order, a Pedersen commitment modulo the group prime, SF/DPP responses and ASPP
   commitments modulo N, a PPP response modulo N up to sign, an ASPP response modulo the odd order up to
   sign.  A range-proof result of the ranged secret is an INTEGER with an upper limit: x + order leaves the
   range.  x - order is negative: as long as the verifier has no lower limit (RangeNonNegChecked = FALSE, the
   code as it is) it is the same exponent inside the one-sided range, cannot be serialised, and is recorded
   as an observation, not as an alteration. *)
SameInDomain(t, k) ==
   CASE k \in {"plus1", "random", "zero", "nil"} -> FALSE
     [] k = "negmod" -> t \in {"L:PPPResp", "L:ASPPResp"}
     [] k = "shift" -> t \in ModLeaf
     [] k = "unshift" -> t \in ModLeaf \/ (t = "L:RangeSecret" /\ ~RangeNonNegChecked)
     [] OTHER -> FALSE

(* The verifier, by mechanism (ValidKeyProofStructure.VerifyProof).  Fails(t, k) = the checks that a single
   alteration of kind k on a leaf of type t makes fail:
     "struct"  nil / length / key-set / group-prime checks of the verifyProofStructure family
     "range"   rangeProofStructure.verifyProofStructure: result >= 2^(l2+eps+2)
     "xor"     expStep / primeProof verifyProofStructure: sub1 XOR sub2 = challenge
     "hash"    challenge = HashCommit(all reconstructed commitments, group prime, N, bases)
     "gennaro" a round equation of part (a) or a plain check of quasiSafePrimeProductVerifyProof *)
Changed(t, k) == ~SameInDomain(t, k)
Fails(t, k) ==
   IF k = "nil" THEN {"struct"}
   ELSE CASE t = "L:GroupPrime" -> IF k = "random" THEN {"hash"} ELSE {"struct"}
          [] t = "L:Challenge" -> {"xor", "hash"}
          [] t = "L:OrChallenge" -> {"xor", "hash"}
          [] t = "L:PedCommit" -> {"hash"}                                   \* the raw value is hashed: also for x +- P
          [] t = "L:ASPPCommit" -> IF Changed(t, k) THEN {"hash", "gennaro"} ELSE {"hash"}
          [] t \in {"L:Schnorr", "L:RangeHider"} -> IF Changed(t, k) THEN {"hash"} ELSE {}
          [] t = "L:RangeSecret" -> CASE k = "shift" -> {"range"}
                                      [] k = "unshift" -> IF RangeNonNegChecked THEN {"range"} ELSE {}
                                      [] OTHER -> {"hash"}
          [] t \in {"L:SFResp", "L:PPPResp", "L:DPPResp", "L:ASPPResp", "L:ASPPNonce"} -> IF Changed(t, k) THEN {"gennaro"} ELSE {}
ContainerKinds(nd) == (IF nd.c = "arr" THEN {"truncate", "extend"} \cup (IF IsLeafType(nd.t) THEN {"nilelem"} ELSE {}) ELSE {})
                      \cup (IF nd.t = "RangeMap" THEN {"dropkey", "addshort", "addfull"} ELSE {})
                      \cup (IF nd.t \in {"ExpStep", "PrimeProof"} THEN {"orswap", "orshiftboth"} ELSE {})
                      \cup (IF nd.c = "key" THEN {"truncate", "extend", "nilelem"} ELSE {})      \* the result vectors
ContainerFails(k) == CASE k \in {"truncate", "extend", "nilelem", "dropkey", "addshort", "addfull"} -> {"struct"}
                       [] k \in {"orswap", "orshiftboth"} -> {"hash"}
\* an extra element / an extra map entry that a verifier could ignore is not part of the tree
ContainerSame(k) == k \in {"extend", "addshort", "addfull"}

\* every alteration the adversary can make in one step
LeafAlts == UNION { { [p |-> nd.p, t |-> nd.t, k |-> k] : k \in { kk \in ValueKinds \cup {"nil"} : Applicable(nd.t, kk) } } : nd \in Leaves }
ContAlts == UNION { { [p |-> nd.p, t |-> nd.t, k |-> k] : k \in ContainerKinds(nd) } : nd \in Nodes }
AllAlts == LeafAlts \cup ContAlts
AltFails(a) == IF IsLeafType(a.t) /\ a.k \in ValueKinds \cup {"nil"} THEN Fails(a.t, a.k) ELSE ContainerFails(a.k)
AltSame(a) == IF IsLeafType(a.t) /\ a.k \in ValueKinds \cup {"nil"} THEN SameInDomain(a.t, a.k) ELSE ContainerSame(a.k)

(* Context of the verification and transport:
     ctxN      "same" | "other"  (another well-formed modulus of the same length)
     ctxB      "same" | "changed" (one base replaced) | "permuted" | "fewer" | "more"
     transport "none" | "json"   (json.Marshal + json.Unmarshal; fails on a negative number) *)
CtxNs == {"same", "other"}
CtxBs == {"same", "changed", "permuted", "fewer", "more"}
CtxFails(n, b) == (IF n = "other" THEN {"hash", "gennaro"} ELSE {}) \cup
                  (CASE b = "same" -> {} [] b \in {"changed", "permuted"} -> {"hash"} [] OTHER -> {"struct"})

InitB == /\ w = [kind |-> "B", v |-> 0]
         /\ pf = [alts |-> {}, n |-> "same", b |-> "same", transport |-> "none"]
\* one representative alteration per (node type, kind): the second step of a pair is taken from these
RepAlts == { a \in AllAlts : a = CHOOSE b \in AllAlts : b.t = a.t /\ b.k = a.k }
Alter == \E a \in (IF pf.alts = {} THEN AllAlts ELSE RepAlts) :
                            /\ Cardinality(pf.alts) < MaxAlt /\ a \notin pf.alts
                            /\ pf.transport = "none"                           \* alterations happen before the transport
                            /\ pf' = [pf EXCEPT !.alts = @ \cup {a}]
Few == Cardinality(pf.alts) <= 1                     \* context and transport vary around at most one alteration
OtherModulus == Few /\ pf.n = "same" /\ pf' = [pf EXCEPT !.n = "other"]
OtherBases == \E b \in CtxBs \ {"same"} : Few /\ pf.b = "same" /\ pf' = [pf EXCEPT !.b = b]
RoundTrip == Few /\ pf.transport = "none" /\ pf' = [pf EXCEPT !.transport = "json"]
NextB == (Alter \/ OtherModulus \/ OtherBases \/ RoundTrip) /\ UNCHANGED w
SpecB == InitB /\ [][NextB]_<<w, pf>>

Transportable(x) == \A a \in x.alts : ~(a.k = "unshift" \/ a.k = "nil" \/ a.k = "nilelem")   \* negative and nil values do not survive json
AllFails(x) == UNION { AltFails(a) : a \in x.alts } \cup CtxFails(x.n, x.b)
                 \cup (IF x.transport = "json" /\ ~Transportable(x) THEN {"struct"} ELSE {})
VerifyOK(x) == AllFails(x) = {}
Unaltered(x) == (\A a \in x.alts : AltSame(a)) /\ x.n = "same" /\ x.b = "same"
Malformed(x) == \E a \in x.alts : a.k \in {"nil", "nilelem", "truncate", "dropkey"}

BKind == w.kind = "B"
\* C17: an accepted proof is the honest proof (every leaf the same in its natural domain) for the same (N, bases)
AcceptImpliesUnaltered == BKind => (VerifyOK(pf) => Unaltered(pf))
\* malformed proofs are rejected (the harness adds: and never panic)
MalformedRejected == BKind => (Malformed(pf) => ~VerifyOK(pf))
\* the honest proof verifies, also after the round trip and against a fresh copy of the same context
HonestAccepted == BKind => ((pf.alts = {} /\ pf.n = "same" /\ pf.b = "same") => VerifyOK(pf))
\* every leaf is bound by some check: no alteration that changes a leaf in its domain goes unnoticed
EveryLeafBound == BKind => \A nd \in Leaves : \A k \in {"plus1", "random"} : Fails(nd.t, k) # {}
\* non-vacuity probe (must be VIOLATED): some altered proof is accepted - the don't-care alterations
NoAlteredAccepted == BKind => ~(pf.alts # {} /\ VerifyOK(pf))

\* constants of the implementation the soundness statements of part (a) rest on (securityparams.go)
Params == [sf |-> 8, ppp |-> 80, dpp |-> 8, aspp |-> 250, minfactor |-> 1024, rangeiters |-> 80, rangeeps |-> 256, nonce |-> 256]
=============================================================================
