------------------------------- MODULE KeyGen -------------------------------
(* C16, sequential part: what gabikeys.generateSafePrimePair does with the stream of safe primes that
   safeprime.GenerateConcurrent delivers, findMatch, and the postcondition of GenerateKeyPair.

   A candidate safe prime p = 2p'+1 is abstracted to  [pp8 = p' mod 8, p8 = p mod 8, bits = BitLen(p)].
   What safeprime.Generate guarantees about a candidate is the assumption CandOK (p' odd, p = 2p'+1,
   exactly the requested length); the trace specification KeyGenTrace checks it on every real candidate.
   The bit length of a product p*q is not a function of the residues: the model check gives every
   candidate a toy magnitude v (PrimeSize-bit integers, product length computed exactly), the trace
   specification takes the lengths the harness measured on the real numbers. Decide/FindMatch therefore
   take the product length as an operator argument NB(i) = BitLen(p * stored[i]).

   Code anchors: gabikeys/keys.go findMatch, generateSafePrimePair, GenerateKeyPair,
   GenerateRevocationKeypair; keyproof/validkeyproof.go CanProve. *)
EXTENDS Integers, Sequences, FiniteSets, TLC

CONSTANTS MaxLen,       \* longest candidate stream explored
          PrimeSize     \* toy candidate length in bits (magnitudes 2^(PrimeSize-1) .. 2^PrimeSize - 1)

Odd8 == {1, 3, 5, 7}
BitLen(x) == IF x = 0 THEN 0 ELSE CHOOSE k \in 1..30 : 2^(k-1) <= x /\ x < 2^k
Min(S) == CHOOSE x \in S : \A y \in S : x <= y

\* ---------------------------------------------------------------- the code, transcribed
\* what safeprime.Generate(size) promises about its result
CandOK(c, size) == c.pp8 \in Odd8 /\ c.p8 = (2 * c.pp8 + 1) % 8 /\ c.bits = size

\* findMatch(safeprimes, param, p): index of the FIRST stored q with BitLen(p*q) = Ln and p # q (mod 8); 0 = nil
FindMatch(st, c, ln, NB(_)) ==
    LET ok == {i \in 1..Len(st) : NB(i) = ln /\ c.p8 # st[i].p8}
    IN  IF ok = {} THEN 0 ELSE Min(ok)

\* one iteration of `case p = <-ints` in generateSafePrimePair
Decide(st, c, ln, NB(_)) ==
    IF c.pp8 = 1 THEN [kind |-> "skip", match |-> 0]                      \* p' mod 8 = 1: continue loop
    ELSE LET m == FindMatch(st, c, ln, NB)
         IN  IF Len(st) = 0 \/ m = 0 THEN [kind |-> "store", match |-> 0] \* append(safeprimes, p)
             ELSE [kind |-> "return", match |-> m]                         \* close(stop); return p, q

\* keyproof.CanProve(p', q'), residue part (its other part is: 2p'+1 and 2q'+1 are probable safe primes)
CanProveRes(p8, q8, pp8, qp8) ==
    /\ p8 # 1 /\ q8 # 1 /\ pp8 # 1 /\ qp8 # 1
    /\ p8 # q8 /\ pp8 # qp8

\* ---------------------------------------------------------------- the property
\* projection of a generated key pair, computed by the harness with math/big and the private key
WellFormed(k) ==
    /\ k.ln = 2 * k.primeSize
    /\ k.pBits = k.primeSize /\ k.qBits = k.primeSize /\ k.nBits = k.ln      \* lengths
    /\ k.pSafe /\ k.qSafe /\ k.distinct                                      \* two distinct safe primes
    /\ k.nIsPQ /\ k.primesConsistent                                         \* n = pq on both keys, p' = (p-1)/2, order = p'q'
    /\ CanProveRes(k.p8, k.q8, k.pp8, k.qp8) /\ k.canProve                   \* a key-correctness proof can be made
    /\ k.sQR /\ k.sGenerates                                                 \* S is a square and generates QR_n
    /\ k.zQR /\ k.zInS
    /\ Len(k.rInS) = k.nAttr /\ Len(k.rQR) = k.nAttr
    /\ \A i \in 1..k.nAttr : k.rQR[i] /\ k.rInS[i]
    /\ k.gQR /\ k.hQR                                                        \* revocation bases
    /\ k.derivedParamsOK /\ k.ecdsaMatches /\ k.revocationPresent

\* the part of WellFormed that the consumer loop is responsible for, on abstract candidates
PairOK(p, q, ln, nb) ==
    /\ p.bits * 2 = ln /\ q.bits * 2 = ln /\ nb = ln
    /\ p.p8 # q.p8                                  \* hence p # q
    /\ CanProveRes(p.p8, q.p8, p.pp8, q.pp8)
Compatible(p, q, ln, nb) == nb = ln /\ p.p8 # q.p8 /\ p.pp8 # 1 /\ q.pp8 # 1

\* ---------------------------------------------------------------- the consumer over every candidate stream
Ln == 2 * PrimeSize
Mags == (2^(PrimeSize-1))..(2^PrimeSize - 1)
Cands == {[pp8 |-> r, p8 |-> (2 * r + 1) % 8, bits |-> BitLen(v), v |-> v] : r \in Odd8, v \in Mags}
ToyNB(c, d) == BitLen(c.v * d.v)
None == <<>>                \* no pair returned yet; a returned pair is <<p, q>>

VARIABLES stored,   \* the slice safeprimes
          seen,     \* number of candidates received so far
          res       \* None, or the returned pair <<p, q>>
vars == <<stored, seen, res>>

Init == stored = <<>> /\ seen = 0 /\ res = None
Recv(c) == /\ res = None /\ seen < MaxLen /\ seen' = seen + 1
           /\ LET d == Decide(stored, c, Ln, LAMBDA i : ToyNB(c, stored[i])) IN
                CASE d.kind = "skip"   -> UNCHANGED <<stored, res>>
                  [] d.kind = "store"  -> stored' = Append(stored, c) /\ UNCHANGED res
                  [] d.kind = "return" -> res' = <<c, stored[d.match]>> /\ UNCHANGED stored
Next == \E c \in Cands : Recv(c)
Spec == Init /\ [][Next]_vars

TypeOK == /\ stored \in Seq(Cands) /\ seen \in 0..MaxLen /\ res \in Seq(Cands) /\ Len(res) \in {0, 2}
          /\ \A c \in Cands : CandOK(c, PrimeSize)
\* whatever the stream, a returned pair has the lengths, the residues and the distinctness WellFormed asks for,
\* and keyproof.CanProve's condition
ReturnedPairOK == res # None => PairOK(res[1], res[2], Ln, ToyNB(res[1], res[2]))
\* a pair never comes from fewer than two candidates, and q is one that was stored earlier
TwoCandidates == res # None => (seen >= 2 /\ \E i \in 1..Len(stored) : stored[i] = res[2])
\* nothing stored is useless or overlooked: stored candidates pass the p' filter and no two of them are a usable pair
\* (so the loop returns at the first candidate that completes a usable pair - generation does not run on needlessly)
NoMissedPair == /\ \A i \in 1..Len(stored) : stored[i].pp8 # 1
                /\ res = None => \A i, j \in 1..Len(stored) :
                                    i < j => ~Compatible(stored[i], stored[j], Ln, ToyNB(stored[i], stored[j]))
\* vacuity guards (expected to be VIOLATED: used once by the build to see that pairs are returned and candidates stored)
NeverReturns == res = None
NeverStoresTwo == Len(stored) < 2
=============================================================================
