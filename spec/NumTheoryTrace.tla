--------------------------- MODULE NumTheoryTrace ---------------------------
(* C19, direction code -> specification: validates the call records written by `nt record`.

   One line of trace.ndjson is one batch of calls of one helper on one modulus (the whole residue
   range, or the operand list of FastMod), with the results exactly as the real code returned them:

     f = "leg" / "jac"  LegendreSymbol(a, p) for a = a0, a0+1, ...                    r[i]
     f = "inv"          ModInverse(a, n), a = 0..n-1                                  ok[i], x[i]
     f = "pow"          ModPow(x, y, m), y = y0, y0+1, ...                            err[i], r[i]
     f = "crt"          Crt(a, pa, b, pb), a < pa, b < pb                             x[a+1][b+1]
     f = "sqrt"         PrimeSqrt(a, p) / ModSqrt(a, fs), a = 0..n-1, n = product     ok[i], r[i]
     f = "sq4"          SumFourSquares(n), n = n0, n0+1, ...                          v[i] = <<x, y, z, w>>
     f = "fm"           FastMod{p}.Mod(ret, x) for x in xs (al: 0 separate result,    rs[i]
                        1 result is the operand, 2 result held another value)
     f = "spt"          safeprime.ProbablySafePrime(n), n = n0, n0+1, ...             r[i]
     f = "rpir"         RandomPrimeInRange(start, len), several draws                 p[i]
     f = "spgen"        safeprime.Generate(bits), several draws                       p[i]
     f = "gexp"         Group{P}.Exp(ret, base, e), e = e0, e0+1, ...                 st[i] (0 returned, 1 panic, 2 refused), r[i]

   Every record also says whether any operand was modified (kept) and whether any call panicked.
   The postcondition of a record is the mathematical meaning from NumTheory - for relations
   (square roots, four squares, primes) only the relation, never "the value the code would pick".
   A record outside the small domain the operators are defined for is MALFORMED (harness error).

   The counter k of NumTheory is the line number.  A rejected record does not stop the walk: it is
   printed (with the positions of the failing calls) and counted in TLC register 1; the
   postcondition Accepted demands that every line was consumed and none was rejected. *)
EXTENDS NumTheory, Json

Tr == ndJsonDeserialize("trace.ndjson")
E == Tr[k]

Idx(s) == 1..Len(s)
Small(x) == x > -Lim /\ x < Lim
Mid(x) == Abs(x) < Pow2(20)

(* ---- domain of each record family (MALFORMED otherwise) ---- *)
Pre(e) ==
  CASE e.f = "leg"   -> e.p > 2 /\ e.p < Lim /\ IsPrime(e.p) /\ Mid(e.a0) /\ Mid(e.a0 + Len(e.r))
    [] e.f = "jac"   -> e.n > 2 /\ e.n < Lim /\ e.n % 2 = 1 /\ Mid(e.a0) /\ Mid(e.a0 + Len(e.r))
    [] e.f = "inv"   -> e.n >= 2 /\ e.n < Lim /\ e.a0 = 0 /\ Len(e.ok) = e.n /\ Len(e.x) = e.n
    [] e.f = "pow"   -> e.m >= 2 /\ e.m < Lim /\ Small(e.x) /\ Len(e.err) = Len(e.r) /\ Abs(e.y0) < 64 /\ Len(e.r) < 200
    [] e.f = "crt"   -> e.pa >= 2 /\ e.pb >= 2 /\ e.pa * e.pb < Lim /\ Coprime(e.pa, e.pb)
                        /\ Len(e.x) = e.pa /\ \A i \in Idx(e.x) : Len(e.x[i]) = e.pb
    [] e.f = "sqrt"  -> /\ \A i \in Idx(e.fs) : e.fs[i] >= 3 /\ e.fs[i] < Lim
                        /\ e.n < Lim /\ e.n = ProdSeq(e.fs) /\ IsSqrtFactorList(e.fs)
                        /\ (e.via = "PrimeSqrt" => Len(e.fs) = 1 /\ e.fs[1] # 4)
                        /\ e.a0 = 0 /\ Len(e.ok) = e.n /\ Len(e.r) = e.n
    [] e.f = "sq4"   -> e.n0 >= 0 /\ e.n0 + Len(e.v) < Pow2(28) /\ \A i \in Idx(e.v) : Len(e.v[i]) = 4
    [] e.f = "fm"    -> e.p >= 1 /\ e.p < Lim /\ Len(e.xs) = Len(e.rs) /\ \A i \in Idx(e.xs) : Abs(e.xs[i]) <= Pow2(30)
    [] e.f = "spt"   -> e.n0 >= 0 /\ e.n0 + Len(e.r) < Pow2(30)
    [] e.f = "rpir"  -> e.start >= 2 /\ e.start <= 28 /\ e.len >= 1 /\ e.len <= 28
    [] e.f = "spgen" -> e.bits >= 3 /\ e.bits <= 30
    [] e.f = "gexp"  -> e.gp >= 5 /\ e.gp < Lim /\ IsSafePrime(e.gp) /\ Len(e.st) = Len(e.r) /\ Small(e.e0)
    [] OTHER -> FALSE

(* ---- positions of the calls of a record whose result contradicts the mathematics ---- *)
BadLeg(e) == { i \in Idx(e.r) : e.r[i] # Legendre(e.a0 + i - 1, e.p) }
BadJac(e) == { i \in Idx(e.r) : e.r[i] # Jacobi(e.a0 + i - 1, e.n) }
BadInv(e) == { i \in Idx(e.ok) :
                 LET a == i - 1 x == e.x[i] IN
                 ~ IF e.ok[i] THEN x \in 1..(e.n - 1) /\ IsInverse(a, e.n, x)       \* a reported inverse is one
                    ELSE ~HasInverse(a, e.n) }                                        \* absence is reported only when there is none
BadPow(e) == { i \in Idx(e.r) :
                 LET y == e.y0 + i - 1 IN
                 ~ IF e.err[i] THEN y < 0 /\ ~HasInverse(e.x % e.m, e.m)             \* the only legitimate failure
                    ELSE /\ IsModPow(e.r[i], e.x, y, e.m)
                         /\ (y < 0 => HasInverse(e.x % e.m, e.m)) }
BadCrt(e) == { i \in 1..(e.pa * e.pb) :
                 LET a == (i - 1) \div e.pb  b == (i - 1) % e.pb IN ~IsCRT(e.x[a + 1][b + 1], a, e.pa, b, e.pb) }
BadSqrt(e) == LET sq == Squares(e.n) IN
              { i \in Idx(e.ok) :
                 LET a == i - 1 IN
                 ~ IF e.ok[i] THEN IsSqrtMod(e.r[i], a, e.n)                         \* r*r = a (mod n)
                    ELSE a \notin sq }                                                \* "no root" only for non-residues
BadSq4(e) == { i \in Idx(e.v) : ~IsFourSquares(e.n0 + i - 1, e.v[i][1], e.v[i][2], e.v[i][3], e.v[i][4]) }
BadFM(e) == { i \in Idx(e.xs) : ~IsMod(e.rs[i], e.xs[i], e.p) }
BadSpt(e) == { i \in Idx(e.r) : e.r[i] # IsSafePrime(e.n0 + i - 1) }
BadRpir(e) == IF e.failed THEN {0} ELSE { i \in Idx(e.p) : ~IsPrimeInRange(e.p[i], e.start, e.len) }
BadSpgen(e) == { i \in Idx(e.p) : ~IsSafePrimeOfSize(e.p[i], e.bits) }
\* the group itself must be what BuildGroup promises (refused exactly for P = 5; otherwise a base of order q: a square other than 1);
\* exponents outside -q < e < q are outside the domain
BadGexp(e) == LET q == GroupOrder(e.gp) IN
              IF ~e.built THEN (IF GroupBuildable(e.gp) THEN {0} ELSE {})
              ELSE IF ~GroupBuildable(e.gp) \/ e.gq # q \/ e.g <= 1 \/ e.g >= e.gp \/ PowMod(e.g, q, e.gp) # 1 THEN {0}
              ELSE { i \in Idx(e.st) :
                       LET x == e.e0 + i - 1 IN
                       GroupExpInDomain(x, q) /\ ~(e.st[i] = 0 /\ e.r[i] = GroupExp(e.g, x, q, e.gp)) }

Bad(e) == CASE e.f = "leg" -> BadLeg(e) [] e.f = "jac" -> BadJac(e) [] e.f = "inv" -> BadInv(e)
            [] e.f = "pow" -> BadPow(e) [] e.f = "crt" -> BadCrt(e) [] e.f = "sqrt" -> BadSqrt(e)
            [] e.f = "sq4" -> BadSq4(e) [] e.f = "fm" -> BadFM(e) [] e.f = "spt" -> BadSpt(e)
            [] e.f = "rpir" -> BadRpir(e) [] e.f = "spgen" -> BadSpgen(e) [] e.f = "gexp" -> BadGexp(e)

First(S, n) == { i \in S : Cardinality({ j \in S : j < i }) < n }

Check(e) == IF ~Pre(e) THEN PrintT(<<"MALFORMED", ToJson([line |-> k, f |-> e.f])>>) /\ TLCSet(1, TLCGet(1) + 1)
            ELSE LET bad == Bad(e) IN
                 IF bad = {} /\ e.kept /\ ~e.panic THEN TRUE
                 ELSE /\ PrintT(<<"REJECTED", ToJson([line |-> k, f |-> e.f, kept |-> e.kept, panic |-> e.panic,
                                                     nbad |-> Cardinality(bad), bad |-> First(bad, 5)])>>)
                      /\ TLCSet(1, TLCGet(1) + 1)

TInit == k = 1 /\ TLCSet(1, 0)
TNext == k <= Len(Tr) /\ Check(E) /\ k' = k + 1
TSpec == TInit /\ [][TNext]_k

Accepted == LET d == TLCGet("stats").diameter
                nrej == TLCGet(1) IN
            IF d - 1 = Len(Tr) /\ nrej = 0 THEN PrintT(<<"TRACE ACCEPTED", Len(Tr)>>)
            ELSE Print(<<"TRACE REJECTED", [consumed |-> d - 1, lines |-> Len(Tr), rejected |-> nrej]>>, FALSE)
=============================================================================
