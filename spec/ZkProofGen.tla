------------------------------ MODULE ZkProofGen ------------------------------
EXTENDS ZkProof, Json
EmitZ == PrintT(<<"Z", ToJson([v |-> Variant, st |-> cs.st, x |-> cs.x, y |-> cs.y, a |-> cs.a, b |-> cs.b, ra |-> cs.ra, rb |-> cs.rb,
                               c |-> cs.c, qa |-> cs.qa, qb |-> cs.qb,
                               commit |-> Commit, honest |-> ReconHonest, arb |-> ReconArb, istrue |-> IsTrue])>>)
=============================================================================
