-------------------------- MODULE SafePrimeWorkers --------------------------
(* C16 (and C20), concurrent part: safeprime.GenerateConcurrent - N worker goroutines, the monitor
   goroutine - and its consumer gabikeys.generateSafePrimePair, one action per channel operation.

     ints    buffered channel of capacity N      (buf = number of primes in it)
     errs    buffered channel of capacity N      (errbuf)
     stop    closed by the consumer              (stopClosed)
     stopped closed by the monitor when stop fires, or by a worker whose Generate failed (stopped;
             nclose counts the close(stopped) calls: a second one panics the process)

   worker      for { x, err := Generate(size, stopped)                  "gen"
                     if err != nil { errs <- err; close(stopped) (once); return }   "errsend" "errclose"
                     select { case <-stopped: return; default: }        "chk"
                     select { case <-stopped: return; case ints <- x: } "snd"   (GuardedSend)
                   }
   monitor     select { case <-stop: close(stopped) (once); case <-stopped: }  "wait" "close"
   consumer    for { select { case p = <-ints: skip | store | (close(stop); return p, q)   "recv" "decide" "stop"
                              case err = <-errs: close(stop); return err } }

   Switches: GuardedSend = FALSE is the code before fix D11 (second select was a bare `ints <- x`);
   OnceClose = FALSE is the code before fix D24 (bare close(stopped) in monitor and failing workers), TRUE is
   the current stopOnce.Do(func() { close(stopped) }).
   The consumer is satisfied after any number MinNeed..MaxNeed of primes (which candidates match is
   KeyGen.tla's business; generateSafePrimePair needs at least 2, keyproof.findSafePrime takes 1); with ExternalStop it may also give up at any moment, even before the first prime (a caller
   that stops generation from outside). At most MaxErrs calls of Generate fail. The labels in
   parentheses after each action are the hook points of the real code that the gate replay uses. *)
EXTENDS Integers, FiniteSets, TLC

CONSTANTS N, MinNeed, MaxNeed, MaxErrs, GuardedSend, OnceClose, ExternalStop
Workers == 1..N
Cap == N

VARIABLES wpc, buf, errbuf, stopClosed, stopped, nclose, mon, cons, got, nerr
vars == <<wpc, buf, errbuf, stopClosed, stopped, nclose, mon, cons, got, nerr>>

Crashed == nclose >= 2         \* "panic: close of closed channel" in a library goroutine: the process is gone

Init == /\ wpc = [w \in Workers |-> "gen"] /\ buf = 0 /\ errbuf = 0
        /\ stopClosed = FALSE /\ stopped = FALSE /\ nclose = 0
        /\ mon = "wait" /\ cons = "recv" /\ got = 0 /\ nerr = 0

\* close(stopped), by whoever
CloseStopped == IF OnceClose /\ stopped THEN UNCHANGED <<stopped, nclose>>
                ELSE stopped' = TRUE /\ nclose' = nclose + 1

\* ---------------------------------------------------------------- workers
\* Generate returns a safe prime - or (nil, nil) because it polled `stopped`; the next step is the same (worker.generated)
GenReturn(w) == /\ wpc[w] = "gen" /\ wpc' = [wpc EXCEPT ![w] = "chk"]
                /\ UNCHANGED <<buf, errbuf, stopClosed, stopped, nclose, mon, cons, got, nerr>>
\* Generate fails (worker.generated with err, worker.err.before)
GenErr(w) == /\ wpc[w] = "gen" /\ nerr < MaxErrs /\ nerr' = nerr + 1 /\ wpc' = [wpc EXCEPT ![w] = "errsend"]
             /\ UNCHANGED <<buf, errbuf, stopClosed, stopped, nclose, mon, cons, got>>
\* errs <- err (worker.err.close.before)
ErrSend(w) == /\ wpc[w] = "errsend" /\ errbuf < Cap /\ errbuf' = errbuf + 1 /\ wpc' = [wpc EXCEPT ![w] = "errclose"]
              /\ UNCHANGED <<buf, stopClosed, stopped, nclose, mon, cons, got, nerr>>
\* close(stopped); return
ErrClose(w) == /\ wpc[w] = "errclose" /\ CloseStopped /\ wpc' = [wpc EXCEPT ![w] = "done"]
               /\ UNCHANGED <<buf, errbuf, stopClosed, mon, cons, got, nerr>>
\* first select (worker.stopped 1 | worker.send.before)
Check(w) == /\ wpc[w] = "chk" /\ wpc' = [wpc EXCEPT ![w] = IF stopped THEN "done" ELSE "snd"]
            /\ UNCHANGED <<buf, errbuf, stopClosed, stopped, nclose, mon, cons, got, nerr>>
\* second select, case ints <- x (worker.send.after)
Send(w) == /\ wpc[w] = "snd" /\ buf < Cap /\ buf' = buf + 1 /\ wpc' = [wpc EXCEPT ![w] = "gen"]
           /\ UNCHANGED <<errbuf, stopClosed, stopped, nclose, mon, cons, got, nerr>>
\* second select, case <-stopped (worker.stopped 2)
SendGiveUp(w) == /\ GuardedSend /\ wpc[w] = "snd" /\ stopped /\ wpc' = [wpc EXCEPT ![w] = "done"]
                 /\ UNCHANGED <<buf, errbuf, stopClosed, stopped, nclose, mon, cons, got, nerr>>
WorkerStep(w) == GenReturn(w) \/ GenErr(w) \/ ErrSend(w) \/ ErrClose(w) \/ Check(w) \/ Send(w) \/ SendGiveUp(w)

\* ---------------------------------------------------------------- monitor
MonStop == /\ mon = "wait" /\ stopClosed /\ mon' = "close"                       \* case <-stop (monitor.close.before)
           /\ UNCHANGED <<wpc, buf, errbuf, stopClosed, stopped, nclose, cons, got, nerr>>
MonClose == /\ mon = "close" /\ CloseStopped /\ mon' = "done"                    \* close(stopped) (monitor.close.after)
            /\ UNCHANGED <<wpc, buf, errbuf, stopClosed, cons, got, nerr>>
MonStopped == /\ mon = "wait" /\ stopped /\ mon' = "done"                        \* case <-stopped (monitor.stopped)
              /\ UNCHANGED <<wpc, buf, errbuf, stopClosed, stopped, nclose, cons, got, nerr>>
MonitorStep == MonStop \/ MonClose \/ MonStopped

\* ---------------------------------------------------------------- consumer
RecvPrime == /\ cons = "recv" /\ buf > 0 /\ buf' = buf - 1 /\ got' = got + 1 /\ cons' = "decide"   \* (cons.recv)
             /\ UNCHANGED <<wpc, errbuf, stopClosed, stopped, nclose, mon, nerr>>
RecvErr == /\ cons = "recv" /\ errbuf > 0 /\ errbuf' = errbuf - 1 /\ cons' = "stop"                \* (cons.err)
           /\ UNCHANGED <<wpc, buf, stopClosed, stopped, nclose, mon, got, nerr>>
DecideMore == /\ cons = "decide" /\ got < MaxNeed /\ cons' = "recv"              \* skip | store (cons.decision, cons.select.before)
              /\ UNCHANGED <<wpc, buf, errbuf, stopClosed, stopped, nclose, mon, got, nerr>>
DecideDone == /\ cons = "decide" /\ got >= MinNeed /\ cons' = "stop"                              \* return (cons.decision)
              /\ UNCHANGED <<wpc, buf, errbuf, stopClosed, stopped, nclose, mon, got, nerr>>
GiveUp == /\ ExternalStop /\ cons = "recv" /\ cons' = "stop"
          /\ UNCHANGED <<wpc, buf, errbuf, stopClosed, stopped, nclose, mon, got, nerr>>
CloseStop == /\ cons = "stop" /\ stopClosed' = TRUE /\ cons' = "done"            \* close(stop) (cons.stop.closed)
             /\ UNCHANGED <<wpc, buf, errbuf, stopped, nclose, mon, got, nerr>>
ConsStep == RecvPrime \/ RecvErr \/ DecideMore \/ DecideDone \/ GiveUp \/ CloseStop

AllDone == cons = "done" /\ mon = "done" /\ \A w \in Workers : wpc[w] = "done"
Term == (AllDone \/ Crashed) /\ UNCHANGED vars
Next == \/ ~Crashed /\ (MonitorStep \/ ConsStep \/ \E w \in Workers : WorkerStep(w))
        \/ Term
\* every goroutine that can take a step eventually does (Go's scheduler); nothing is assumed about which select
\* case is taken when several are ready
Fairness == /\ WF_vars(~Crashed /\ MonitorStep) /\ WF_vars(~Crashed /\ ConsStep)
            /\ \A w \in Workers : WF_vars(~Crashed /\ WorkerStep(w))
Spec == Init /\ [][Next]_vars /\ Fairness
SpecNoFair == Init /\ [][Next]_vars

\* ---------------------------------------------------------------- properties
TypeOK == /\ wpc \in [Workers -> {"gen", "chk", "snd", "errsend", "errclose", "done"}]
          /\ buf \in 0..Cap /\ errbuf \in 0..Cap /\ stopClosed \in BOOLEAN /\ stopped \in BOOLEAN /\ nclose \in 0..2
          /\ mon \in {"wait", "close", "done"} /\ cons \in {"recv", "decide", "stop", "done"}
          /\ got \in 0..MaxNeed /\ nerr \in 0..MaxErrs
\* close(stopped) happens at most once (a second close panics)
NoDoubleClose == nclose <= 1
\* once the consumer has abandoned the channel and the stop has been propagated, no worker sits in (or ever enters) a
\* send it cannot leave: every worker that has not returned can take a step
NoSendAfterAbandon == \A w \in Workers : (stopped /\ wpc[w] # "done") => ENABLED WorkerStep(w)
\* sending an error never blocks (errs has room for one error per worker)
ErrSendNeverBlocks == \A w \in Workers : wpc[w] = "errsend" => errbuf < Cap
\* the consumer does not return without telling the workers, and the workers are only stopped by stop or by an error
StopDiscipline == /\ cons = "done" => stopClosed
                  /\ stopped => (stopClosed \/ nerr > 0)
\* generation terminates, and then no goroutine is left
Termination == <>(AllDone \/ Crashed)
\* (a worker's search for the next prime is ONE step here: it ends with a prime or by noticing `stopped`. In the code it is a loop that
\*  looks at the channel every 1000 candidates; that the step really ends when the pool is stopped is measured by `kg stoplat` at
\*  1024 and 1536 bits, where a prime takes minutes and a stopped search must be over in seconds)
NoLeak == [](cons = "done" => <>(Crashed \/ (mon = "done" /\ \A w \in Workers : wpc[w] = "done")))
\* vacuity guards (expected to be VIOLATED)
NeverGivesUpInSend == [][\A w \in Workers : ~SendGiveUp(w)]_vars
NeverFullWhenAbandoned == ~(cons = "done" /\ buf = Cap /\ ~stopped /\ \A w \in Workers : wpc[w] = "snd")
=============================================================================
