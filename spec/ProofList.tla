------------------------------ MODULE ProofList ------------------------------
(* Binding of proof lists to their session (C02) and linking of proofs through one secret key (C03):
   createChallenge / ProofList.Verify of prooflist.go with the proofs of proofs.go, in the symbolic
   algebra of DESIGN.md 3.1 (the Fiat-Shamir hash is an injective constructor: a challenge equals the
   expected one iff every hashed component is equal).

   Two honest sessions are run over the same list of builders (disclosure proofs D of a credential,
   issuance commitment proofs U), each with its own (context, nonce, signature-session flag) and its
   own commitments.  The adversary owns all the resulting proofs (and all secrets) and assembles an
   attempt proof by proof: any proof of either session at any position, any key per position, any
   label per position, any context/nonce/flag, with or without labels, with a full or a short key
   list.  Verify transcribes ProofList.Verify.  C02 is `Bound`, C03 is `Linked`.

   Side doors that let a proof equalise its secret-key response without sharing the secret are the
   builder modes "d0" (disclosure proof that discloses attribute 0: no secret-key response at all)
   and "r0" (issuance commitment with a second response on base R_0).  RejectNoSk / RejectR0 = TRUE
   is the current code (fixes 625831d, fc19cea). *)
EXTENDS Integers, Sequences, FiniteSets, TLC

CONSTANTS MaxBuilders,     \* builders per session
          MaxAtt,          \* proofs per attempt
          RejectNoSk, RejectR0,
          CtxVals, NonceVals,   \* values context / nonce range over (1 = the value session 1 uses; 0 = zero, a value implementations like to treat specially;
                                \* 3 = the NEGATION of value 1: same magnitude, other sign - what a sign-blind encoder would conflate)
          Reduced          \* quick tier: the two sessions differ in exactly one tuple component; first label is "a" wlog

Keys == {1, 2}
Secrets == {1, 2}
Builder == [kind : {"D", "U"}, key : Keys, secret : Secrets, mode : {"plain", "side"}]
       \* (generation also uses kinds "Dn" / "Dr": disclosure proofs carrying a non-revocation / a range sub-proof, whose
       \*  commitments are part of the proof's contribution to the challenge; for this model they behave like "D")
IsD(b) == b.kind \in {"D", "Dn", "Dr"}
       \* mode "side": for D = discloses attribute 0 ("d0"); for U = extra response on base R_0 ("r0")
Configs == UNION { [1..k -> Builder] : k \in 1..MaxBuilders }
Proof(sid, pos, b) == [sid |-> sid, pos |-> pos, b |-> b]

VARIABLES bl,        \* the builder list of both honest sessions
          sess,      \* [1..2 -> [ctx, nonce, sig]]  the tuples the two sessions were made for
          att        \* the attempt under construction
vars == <<bl, sess, att>>

Pool == { Proof(s, i, bl[i]) : s \in {1, 2}, i \in 1..Len(bl) }

\* what a proof hashes to: the whole tuple of the session it was made in
Chal(p) == <<sess[p.sid].ctx, [i \in 1..Len(bl) |-> <<"commit", p.sid, i>>], sess[p.sid].nonce, sess[p.sid].sig>>
\* contribution of proof p when reconstructed under key k
Contrib(p, k) == IF k = p.b.key THEN <<"commit", p.sid, p.pos>> ELSE <<"junk", p.sid, p.pos, k>>
\* the secret-key response r + c*s: shared randomiser of the session, coefficient = the secret the response speaks for
HasSk(p) == ~(IsD(p.b) /\ p.b.mode = "side")
SkResp(p) == <<p.sid, p.b.secret>>
\* the secret the proof is really bound to ("r0": a second exponent on R_0 shifts it)
Effective(p) == IF p.b.kind = "U" /\ p.b.mode = "side" THEN p.b.secret + 10 ELSE p.b.secret
StructOK(p) == ~(RejectR0 /\ p.b.kind = "U" /\ p.b.mode = "side")

Lab(i) == IF att.useLabels THEN att.labels[i] ELSE ""
NKeys == IF att.keysShort /\ Len(att.keys) > 0 THEN Len(att.keys) - 1 ELSE Len(att.keys)

Verify ==
  LET n == Len(att.list) IN
  /\ n > 0 /\ n = NKeys
  /\ \A i \in 1..n : StructOK(att.list[i])
  /\ LET expected == <<att.ctx, [i \in 1..n |-> Contrib(att.list[i], att.keys[i])], att.nonce, att.issig>> IN
       \A i \in 1..n : Chal(att.list[i]) = expected
  /\ \A i \in 1..n : RejectNoSk => HasSk(att.list[i])
  /\ \A i, j \in 1..n : Lab(i) = Lab(j) =>
        IF HasSk(att.list[i]) /\ HasSk(att.list[j]) THEN SkResp(att.list[i]) = SkResp(att.list[j])
        ELSE ~HasSk(att.list[i]) /\ ~HasSk(att.list[j])      \* nil.Cmp(nil) = 0; nil against non-nil panics (not an accept)

\* C02: the attempt is exactly one honest session, verified with that session's own tuple and keys
Honest == \E s \in {1, 2} :
  /\ att.list = [i \in 1..Len(bl) |-> Proof(s, i, bl[i])]
  /\ att.keys = [i \in 1..Len(bl) |-> bl[i].key] /\ ~att.keysShort
  /\ att.ctx = sess[s].ctx /\ att.nonce = sess[s].nonce /\ att.issig = sess[s].sig
\* C03: proofs under one label are bound to one secret
Linked == \A i, j \in 1..Len(att.list) : Lab(i) = Lab(j) => Effective(att.list[i]) = Effective(att.list[j])

Tuples == [ctx : CtxVals, nonce : NonceVals, sig : BOOLEAN]
Init == /\ bl \in Configs
        /\ sess \in [1..2 -> Tuples] /\ sess[1] # sess[2]
        /\ sess[1] = [ctx |-> 1, nonce |-> 1, sig |-> sess[1].sig]        \* wlog: session 1 uses context 1, nonce 1
        /\ Reduced => Cardinality({f \in {"ctx", "nonce", "sig"} : sess[1][f] # sess[2][f]}) = 1   \* sessions differ in one component
        /\ att \in [list : {<<>>}, keys : {<<>>}, labels : {<<>>}, ctx : CtxVals, nonce : NonceVals, issig : BOOLEAN,
                    useLabels : BOOLEAN, keysShort : BOOLEAN]
Add(p, k, l) == /\ Len(att.list) < MaxAtt
                /\ att' = [att EXCEPT !.list = Append(@, p), !.keys = Append(@, k), !.labels = Append(@, l)]
                /\ UNCHANGED <<bl, sess>>
Next == \E p \in Pool, k \in Keys, l \in {"a", "b"} : (Reduced /\ att.list = <<>> => l = "a") /\ Add(p, k, l)
Spec == Init /\ [][Next]_vars

Bound == Verify => Honest
LinkedOK == Verify => Linked
\* sanity (must be violated): acceptance is reachable, with two proofs and with labels
SomeAccept == ~(Verify /\ Len(att.list) = 2 /\ att.useLabels)
\* completeness: an honest session of side-door-free builders sharing one secret per label verifies
HonestAccepted ==
  (Honest /\ (\A i \in 1..Len(bl) : bl[i].mode = "plain")
          /\ (\A i, j \in 1..Len(bl) : Lab(i) = Lab(j) => bl[i].secret = bl[j].secret)) => Verify
=============================================================================
