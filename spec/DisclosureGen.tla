--------------------------- MODULE DisclosureGen ---------------------------
(* Emits every proof the deviating prover of Disclosure can assemble, with the specification's verdict. *)
EXTENDS Disclosure, Json
Case == [m |-> m, disc |-> disc, hid |-> hid, ecoef |-> ecoef, vcoef |-> vcoef, erc |-> erc, sess |-> sess,
         ndev |-> ndev, verify |-> VerifyD, eq |-> EqOK, sizes |-> SizesOK, keyset |-> KeySetOK]
EmitC == PrintT(<<"C", ToJson(Case)>>)
=============================================================================
