------------------------------ MODULE NumTheory ------------------------------
(* C19 - what the arithmetic helpers of gabi claim to compute, written as mathematics.

   Every definition below is the *textbook meaning* of a helper of internal/common (mathutil.go,
   fastmod.go, randomprime.go), safeprime and zkproof.Group, and is deliberately computed by a
   different algorithm than the code uses:

     code                                          here
     --------------------------------------------  ---------------------------------------------
     ModInverse: extended Euclid (big.Int.GCD)      IsInverse(a,n,x) == (a*x) % n = 1, existence by search
     ModPow: stdlib ModInverse + Exp                repeated multiplication; negative exponent = power of
                                                    the searched inverse, NoValue when there is none
     LegendreSymbol: binary Jacobi algorithm        Euler's criterion a^((p-1)/2) by a recursive power
                     (quadratic reciprocity)        (and, as a cross-check, "is a non-zero square" by search)
     LegendreSymbol on a composite odd modulus      product of the Legendre symbols over the prime factors
     Crt: Bezout coefficients                       IsCRT: the two congruences, value by search
     PrimeSqrt: Tonelli-Shanks, ModSqrt: CRT        IsSqrtMod(r,a,n) == r*r % n = a % n, existence by search
     SumFourSquares: Rabin-Shallit                  IsFourSquares: the sum of the squares
     FastMod: folding with 2^b = c (mod p)          TLC's mathematical modulus (floor semantics)
     RandomPrimeInRange, safeprime: Miller-Rabin,   trial division
                     2^(2q) = 1 (mod 2q+1)
     Group.Exp: table exponentiation after          signed power of the base
                folding a negative exponent

   TLC integers are 32 bit: every modulus used with these operators stays below 2^15 (products of
   two residues below 2^30); the single operands of FastMod and of the primality predicates may go
   up to 2^30.  Operators that multiply caller-supplied values guard the ranges first, so that a
   wildly wrong recorded result is rejected instead of overflowing.

   The module has one variable, a counter k: the model-checking configuration walks k over
   2..MaxK and checks the cross-consistency lemmas of section "Lemmas" at every k (two independent
   definitions of the same notion must agree); NumTheoryGen walks the same counter to print
   expected-result tables, NumTheoryTrace uses it as the line number of the recorded calls. *)
EXTENDS Integers, Sequences, FiniteSets, TLC, GroupGens

CONSTANTS MaxK,      \* last value of the counter in the model-checking / generation walk
          Stride     \* the walk is split into Stride interleaved chains (k, k+Stride, ...) so that TLC's workers share it

VARIABLE k

-----------------------------------------------------------------------------
(* Elementary *)
MaxInt == 2147483647
Lim == 32767                       \* moduli below 2^15: (Lim-1)^2 < 2^30
Abs(x) == IF x < 0 THEN -x ELSE x
Min(a, b) == IF a < b THEN a ELSE b

RECURSIVE Pow2(_)
Pow2(b) == IF b = 0 THEN 1 ELSE 2 * Pow2(b - 1)               \* b <= 30

RECURSIVE BitLen(_)
BitLen(x) == IF x = 0 THEN 0 ELSE 1 + BitLen(x \div 2)          \* x >= 0

RECURSIVE IsqrtBS(_, _, _)
IsqrtBS(n, lo, hi) == IF lo = hi THEN lo
                      ELSE LET mid == (lo + hi + 1) \div 2 IN
                           IF mid * mid <= n THEN IsqrtBS(n, mid, hi) ELSE IsqrtBS(n, lo, mid - 1)
Isqrt(n) == IsqrtBS(n, 0, Min(n, 46340))                        \* floor(sqrt n), 0 <= n < 2^31
IsSquare(n) == n >= 0 /\ Isqrt(n) * Isqrt(n) = n

RECURSIVE ProdSeq(_)
ProdSeq(s) == IF Len(s) = 0 THEN 1 ELSE Head(s) * ProdSeq(Tail(s))

RECURSIVE Gcd(_, _)
Gcd(a, b) == IF b = 0 THEN a ELSE Gcd(b, a % b)                 \* only used in lemmas and domain filters
Coprime(a, b) == Gcd(a, b) = 1
PairwiseCoprime(s) == \A i \in 1..Len(s) : \A j \in (i + 1)..Len(s) : Coprime(s[i], s[j])

-----------------------------------------------------------------------------
(* Primes, by trial division *)
IsPrime(p) == p >= 2 /\ \A d \in 2..Isqrt(p) : p % d # 0
IsSafePrime(p) == p >= 5 /\ p % 2 = 1 /\ IsPrime(p) /\ IsPrime((p - 1) \div 2)
RECURSIVE LeastDiv(_, _)
LeastDiv(n, d) == IF d * d > n THEN n ELSE IF n % d = 0 THEN d ELSE LeastDiv(n, d + 1)   \* n >= 2: least prime factor is LeastDiv(n, 2)

\* "random prime in [2^start, 2^start + 2^len]"
InPrimeRange(p, start, len) == Pow2(start) <= p /\ p <= Pow2(start) + Pow2(len)
IsPrimeInRange(p, start, len) == p > 0 /\ p < Pow2(30) /\ InPrimeRange(p, start, len) /\ IsPrime(p)
\* the candidates of RandomPrimeInRange are 2^start + odd offset below 2^len; when none of them is prime the call cannot return
PrimesInRange(start, len) == { p \in (Pow2(start) + 1)..(Pow2(start) + Pow2(len) - 1) : p % 2 = 1 /\ IsPrime(p) }

\* "safe prime of the requested size": exactly `bits` bits
IsSafePrimeOfSize(p, bits) == p > 0 /\ p < Pow2(30) /\ BitLen(p) = bits /\ IsSafePrime(p)

-----------------------------------------------------------------------------
(* Modular powers *)
RECURSIVE PowMod(_, _, _)      \* square and multiply; 0 <= b < n < 2^15, e >= 0
PowMod(b, e, n) == IF e = 0 THEN 1 % n
                   ELSE LET h == PowMod(b, e \div 2, n) IN
                        IF e % 2 = 0 THEN (h * h) % n ELSE (((h * h) % n) * b) % n
RECURSIVE PowNaive(_, _, _)    \* e multiplications; used where the exponent is small
PowNaive(b, e, n) == IF e = 0 THEN 1 % n ELSE (PowNaive(b, e - 1, n) * b) % n

(* Inverses *)
IsInverse(a, n, x) == (a * x) % n = 1                           \* |a|, |x| < 2^15
HasInverse(a, n) == \E x \in 1..(n - 1) : IsInverse(a, n, x)
Inverse(a, n) == CHOOSE x \in 1..(n - 1) : IsInverse(a, n, x)

(* ModPow(x, y, m): y may be negative; then the result is the |y|-th power of the inverse of x, and
   there is no result (NoValue, the code returns ErrNoModInverse) when x has no inverse. *)
NoValue == -1
ModPowSigned(x, y, m) == LET r == x % m IN
                         IF y >= 0 THEN PowNaive(r, y, m)
                         ELSE IF HasInverse(r, m) THEN PowNaive(Inverse(r, m), -y, m) ELSE NoValue
\* the same as a relation on a claimed result: v * x^|y| = 1 for negative y
IsModPow(v, x, y, m) == /\ v \in 0..(m - 1)
                        /\ IF y >= 0 THEN v = PowNaive(x % m, y, m)
                           ELSE (v * PowNaive(x % m, -y, m)) % m = 1 % m

-----------------------------------------------------------------------------
(* Legendre and Jacobi symbols *)
\* Euler's criterion, p an odd prime; the value 2 cannot occur for a prime (it marks a wrong modulus)
Legendre(a, p) == LET r == a % p
                      e == PowMod(r, (p - 1) \div 2, p) IN
                  IF r = 0 THEN 0 ELSE IF e = 1 THEN 1 ELSE IF e = p - 1 THEN -1 ELSE 2
\* the definition of the symbol: 0 for multiples of p, 1 for the other squares, -1 for non-squares
QuadChar(a, p) == LET r == a % p IN
                  IF r = 0 THEN 0 ELSE IF \E s \in 1..(p - 1) : (s * s) % p = r THEN 1 ELSE -1
\* Jacobi symbol for odd n >= 1 as the product over the prime factors (with multiplicity)
RECURSIVE Jacobi(_, _)
Jacobi(a, n) == IF n = 1 THEN 1
                ELSE LET p == LeastDiv(n, 2) IN Legendre(a, p) * Jacobi(a, n \div p)

-----------------------------------------------------------------------------
(* Chinese remaindering: x is THE number below pa*pb with the two residues *)
IsCRT(x, a, pa, b, pb) == x \in 0..(pa * pb - 1) /\ x % pa = a % pa /\ x % pb = b % pb
CRTValue(a, pa, b, pb) == CHOOSE x \in { (a % pa) + j * pa : j \in 0..(pb - 1) } : x % pb = b % pb   \* pa, pb coprime

-----------------------------------------------------------------------------
(* Square roots modulo n (n a prime, or the product of given pairwise coprime factors) *)
IsSqrtMod(r, a, n) == r \in 0..(n - 1) /\ (r * r) % n = a % n
Squares(n) == { (r * r) % n : r \in 0..(n - 1) }
HasSqrtMod(a, n) == (a % n) \in Squares(n)
HasSqrtModFactors(a, fs) == HasSqrtMod(a, ProdSeq(fs))
\* what the code computes for a list of factors is only meaningful for pairwise coprime factors, each an odd prime or 4
IsSqrtFactor(f) == f = 4 \/ (f % 2 = 1 /\ IsPrime(f))
IsSqrtFactorList(fs) == Len(fs) >= 1 /\ (\A i \in 1..Len(fs) : IsSqrtFactor(fs[i])) /\ PairwiseCoprime(fs)

-----------------------------------------------------------------------------
(* Four squares *)
IsFourSquares(n, w, x, y, z) == LET s == Isqrt(n) IN
                                /\ \A v \in {w, x, y, z} : Abs(v) <= s
                                /\ w * w + x * x + y * y + z * z = n            \* n < 2^29
HasFourSquares(n) == LET s == Isqrt(n) IN
                     \E w \in 0..s : \E x \in 0..w : \E y \in 0..x :
                        LET r == n - w * w - x * x - y * y IN r >= 0 /\ r <= y * y /\ IsSquare(r)

-----------------------------------------------------------------------------
(* Reduction modulo p = 2^b - c.  Every p >= 1 has exactly one such form with b = BitLen(p)
   (FastMod.Set derives it that way), so "all moduli 2^b - c with b <= B" are all p < 2^B. *)
FastModB(p) == BitLen(p)
FastModC(p) == Pow2(BitLen(p)) - p
IsMod(r, x, p) == r \in 0..(p - 1) /\ (x - r) % p = 0          \* |x| <= 2^30; negative x has a non-negative residue
\* the identity the implementation's folding relies on (checked as a lemma): 2^b = c (mod p)
Fold(x, b, c) == (x % Pow2(b)) + (x \div Pow2(b)) * c

-----------------------------------------------------------------------------
(* zkproof.Group: P a safe prime, Order = (P-1)/2. Since the repair of D50 the bases G and H are DERIVED from P by hashing
   (SHA-256, not expressible here): the specification takes what BuildGroup of the tree under check returns (module GroupGens,
   written by `nt groups` at check time; the committed copy is that of the tree at the time of writing) and states the
   CONTRACT instead: BuildGroup refuses a prime whose subgroup of squares has fewer than two elements besides 1 (P = 5, D57),
   and otherwise returns two DIFFERENT elements of order (P-1)/2.
   Group.Exp(ret, name, exp) folds a negative exponent by adding the order once, refuses (panics)
   when the folded exponent is not below the order, and otherwise returns base^folded.  Its domain
   is therefore -Order < exp < Order; there the result must be the signed power of the base. *)
GroupOrder(P) == (P - 1) \div 2
GroupKnown(P) == P \in DOMAIN CodeGens
GroupBuilt(P) == CodeGens[P][1]
GroupG(P) == CodeGens[P][2]
GroupH(P) == CodeGens[P][3]
GroupSquares(P) == { (x * x) % P : x \in 1..(P - 1) } \ {1}
GroupBuildable(P) == P >= 7              \* for a safe prime: at least two squares besides 1
GroupExpInDomain(e, q) == -q < e /\ e < q
GroupFold(e, q) == IF e < 0 THEN e + q ELSE e
GroupExp(g, e, q, P) == PowMod(g, GroupFold(e, q), P)            \* for e in the domain

-----------------------------------------------------------------------------
(* Lemmas: independent definitions agree (checked by TLC for every k of the walk). *)
LemmaEuler(n) == (n > 2 /\ IsPrime(n)) => \A a \in (-n)..(2 * n) : Legendre(a, n) = QuadChar(a, n)
LemmaJacobiZero(n) == (n > 2 /\ n % 2 = 1) => \A a \in 0..(n - 1) : (Jacobi(a, n) = 0) <=> ~Coprime(a, n)
LemmaJacobiSquare(n) == (n > 2 /\ n % 2 = 1) => \A a \in 1..(n - 1) : Coprime(a, n) => Jacobi((a * a) % n, n) = 1
LemmaInverse(n) == \A a \in 0..(n - 1) :
                      /\ HasInverse(a, n) <=> Coprime(a, n)
                      /\ Cardinality({ x \in 1..(n - 1) : IsInverse(a, n, x) }) <= 1
LemmaPow(n) == \A b \in 0..(n - 1) : \A e \in 0..12 : PowMod(b, e, n) = PowNaive(b, e, n)
LemmaModPow(n) == \A x \in 0..(n - 1) : \A y \in 1..4 :
                      LET v == ModPowSigned(x, -y, n) IN
                      IF Coprime(x, n) THEN IsModPow(v, x, -y, n) ELSE v = NoValue
LemmaFourSquares(n) == HasFourSquares(n)
LemmaCRT(n) == \A m \in 2..(n - 1) : Coprime(m, n) =>
                  \A a \in 0..(n - 1) : \A b \in 0..(m - 1) :
                      /\ IsCRT(CRTValue(a, n, b, m), a, n, b, m)
                      /\ CRTValue(a, n, b, m) = CRTValue(b, m, a, n)
LemmaSqrtFactors(n) == \A m \in 3..(n - 1) : (IsSqrtFactor(n) /\ IsSqrtFactor(m) /\ Coprime(m, n)) =>
                          \A a \in 0..(n * m - 1) : HasSqrtMod(a, n * m) <=> (HasSqrtMod(a, n) /\ HasSqrtMod(a, m))
LemmaFold(p) == LET b == FastModB(p) c == FastModC(p) IN
                /\ c >= 1 /\ c <= p /\ p = Pow2(b) - c
                /\ \A x \in 0..(4 * Pow2(b)) : IsMod(Fold(x, b, c) % p, x, p)
LemmaGroup(P) == (IsSafePrime(P) /\ GroupKnown(P)) =>
                    LET q == GroupOrder(P) IN
                    /\ GroupBuilt(P) <=> GroupBuildable(P)
                    /\ GroupBuildable(P) <=> Cardinality(GroupSquares(P)) >= 2
                    /\ GroupBuilt(P) =>
                          /\ GroupG(P) # GroupH(P)
                          /\ \A g \in {GroupG(P), GroupH(P)} :
                                /\ g \in GroupSquares(P)                 \* order (P-1)/2: a square other than 1
                                /\ PowMod(g, q, P) = 1
                                /\ \A e \in (1 - q)..(q - 1) : GroupExp(g, e, q, P) = ModPowSigned(g, e, P)
\* every safe prime of the walk is in the table (the table is as long as the walk)
LemmaGroupCovered(P) == (IsSafePrime(P) /\ P >= 5) => GroupKnown(P)
LemmaSafe(p) == IsSafePrime(p) <=> (IsPrime(p) /\ \E q \in 2..p : IsPrime(q) /\ p = 2 * q + 1)

Lemmas == /\ LemmaEuler(k) /\ LemmaJacobiZero(k) /\ LemmaJacobiSquare(k) /\ LemmaInverse(k) /\ LemmaPow(k)
          /\ LemmaModPow(k) /\ LemmaFourSquares(k) /\ LemmaFold(k) /\ LemmaSafe(k)
\* what BuildGroup of the tree under check returned (GroupGens) honours the contract: a finding about the CODE when violated
GroupContract == LemmaGroup(k) /\ LemmaGroupCovered(k)
LemmasPairs == (k <= 40) => (LemmaCRT(k) /\ LemmaSqrtFactors(k))

Init == k \in 2..(1 + Stride)
Next == k + Stride <= MaxK /\ k' = k + Stride
Spec == Init /\ [][Next]_k
TypeOK == k \in 2..MaxK
=============================================================================
