---------------------------- MODULE RandomnessGen ----------------------------
EXTENDS Randomness, Json
EmitS == Len(ops) = MaxOps => PrintT(<<"S", ToJson([ops |-> ops])>>)
=============================================================================
