----------------------------- MODULE SaccMemo -----------------------------
(* The life of ONE revocation.SignedAccumulator object (revocation/api.go) - the signed bytes `Data`, the exported
   field `Accumulator` holding what was unmarshaled from them, and the private memo (verifiedWith, verifiedData) that
   lets UnmarshalVerify skip the ECDSA verification - under everything a program can do to it between two uses
   (C10, C11; defects D38, D40, D54, D60, D61):

     Sign(v)          the issuer signs an accumulator it holds; the result carries that accumulator as memo
     MutateCaller     the issuer goes on to change ITS accumulator object (acc.Index++, acc.Time = now, ...)
     DecodeInto(m)    other signed bytes are decoded into the object (json/cbor Unmarshal into a variable in use: the
                      decoder replaces Data by a fresh slice and leaves the `json:"-"` fields alone)
     EditInPlace      the bytes of Data are overwritten in place (a buffer that is reused)
     SetField         someone assigns the exported field Accumulator
     Verify(k)        SignedAccumulator.UnmarshalVerify(pk_k)
     Ensure           gabi's ensureAccumulator(pk, witness) (credential.go), the way every non-revocation proof of a
                      credential gets at the accumulator of its witness, followed by the read of .Accumulator

   Aliasing is explicit: accAlias says that the memoised accumulator IS the caller's object, vdAlias that the
   memoised bytes share the backing array of Data.
   MemoSound is the property: whatever Verify / Ensure hands out without error is the content of the CURRENT bytes,
   and these are signed by the key asked for. *)
EXTENDS Integers, Sequences, TLC

CONSTANTS MaxOps,
          MemoByKey,        \* the memo holds only for the key it was obtained with (repair of D38)
          MemoByData,       \* ... and only for the bytes it was obtained from (repairs of D40, D54)
          MemoPrivate,      \* the verified accumulator is kept in a private copy, from which the exported field is restored when it
                            \* differs (repair of D60); FALSE: the memo IS the exported field, and Sign puts the caller's object there
          DataCopied,       \* the memoised bytes are a copy (repair of D60); FALSE: they share the array of Data
          EnsureVerifies    \* ensureAccumulator asks UnmarshalVerify (repair of D61); FALSE: any Accumulator that is present will do

Keys == {"K1", "K2"}
Msgs == {"m0", "m1", "mX", "bad"}            \* index 0 and index 1 signed by K1; index 1 signed by K2; garbage
Signer(m) == CASE m = "m0" -> "K1" [] m = "m1" -> "K1" [] m = "mX" -> "K2" [] OTHER -> "nobody"
Payload(m) == CASE m = "m0" -> "a0" [] m = "m1" -> "a1" [] m = "mX" -> "a1" [] OTHER -> "none"
MsgOf(v) == IF v = "a0" THEN "m0" ELSE "m1"

VARIABLES data,       \* content of the bytes the object holds
          acc,        \* value of the accumulator in the field Accumulator ("none": nil)
          accAlias,   \* that accumulator is the object the caller of Sign still holds
          vkey,       \* verifiedWith ("none": nil)
          vdata,      \* content of verifiedData ("none": nil)
          vdAlias,    \* verifiedData shares the backing array of Data
          vacc,       \* value of the private copy of the verified accumulator ("none": nil; only with MemoPrivate)
          held,       \* the caller of Sign holds an accumulator object
          last,       \* the outcome of the last step if it was Verify / Ensure
          hist
vars == <<data, acc, accAlias, vkey, vdata, vdAlias, vacc, held, last, hist>>
None == [op |-> "none"]
\* the history is output only: without it the state space is the handful of object states times the length
View == <<data, acc, accAlias, vkey, vdata, vdAlias, vacc, held, last, Len(hist)>>

\* a stored credential: the object has just been decoded from m0
Init == /\ data = "m0" /\ acc = "none" /\ accAlias = FALSE /\ vkey = "none" /\ vdata = "none" /\ vdAlias = FALSE /\ vacc = "none"
        /\ held = FALSE /\ last = None /\ hist = <<>>

Log(r) == hist' = Append(hist, r)
Sign(v) == /\ data' = MsgOf(v) /\ acc' = v /\ accAlias' = ~MemoPrivate /\ vkey' = "K1" /\ vdata' = MsgOf(v) /\ vdAlias' = ~DataCopied
           /\ vacc' = IF MemoPrivate THEN v ELSE "none"
           /\ held' = TRUE /\ last' = None /\ Log([op |-> "sign", arg |-> v])
MutateCaller == /\ held
                /\ acc' = IF accAlias THEN "mut" ELSE acc
                /\ last' = None /\ Log([op |-> "mutate", arg |-> ""]) /\ UNCHANGED <<data, accAlias, vkey, vdata, vdAlias, vacc, held>>
DecodeInto(m) == /\ data' = m /\ vdAlias' = FALSE
                 /\ last' = None /\ Log([op |-> "decode", arg |-> m]) /\ UNCHANGED <<acc, accAlias, vkey, vdata, vacc, held>>
EditInPlace == /\ data # "bad" /\ data' = "bad" /\ vdata' = IF vdAlias THEN "bad" ELSE vdata
               /\ last' = None /\ Log([op |-> "edit", arg |-> ""]) /\ UNCHANGED <<acc, accAlias, vkey, vdAlias, vacc, held>>
SetField == /\ acc' = "forged" /\ accAlias' = FALSE
            /\ last' = None /\ Log([op |-> "setfield", arg |-> ""]) /\ UNCHANGED <<data, vkey, vdata, vdAlias, vacc, held>>

Memo == IF MemoPrivate THEN vacc ELSE acc
Hit(k) == Memo # "none" /\ (MemoByKey => vkey = k) /\ (MemoByData => (vdata # "none" /\ vdata = data))
\* what UnmarshalVerify(k) does
VerifyStep(k, opname) ==
   IF Hit(k) THEN /\ last' = [op |-> opname, key |-> k, ok |-> TRUE, value |-> Memo]
                  /\ acc' = Memo /\ accAlias' = (accAlias /\ acc = Memo)        \* (restored from the private copy when it differs)
                  /\ UNCHANGED <<data, vkey, vdata, vdAlias, vacc, held>>
   ELSE IF Signer(data) = k
        THEN /\ acc' = Payload(data) /\ accAlias' = FALSE /\ vkey' = k /\ vdata' = data /\ vdAlias' = ~DataCopied
             /\ vacc' = IF MemoPrivate THEN Payload(data) ELSE "none"
             /\ last' = [op |-> opname, key |-> k, ok |-> TRUE, value |-> Payload(data)]
             /\ UNCHANGED <<data, held>>
        ELSE /\ last' = [op |-> opname, key |-> k, ok |-> FALSE, value |-> "none"]
             /\ UNCHANGED <<data, acc, accAlias, vkey, vdata, vdAlias, vacc, held>>
Verify(k) == VerifyStep(k, "verify") /\ Log([op |-> "verify", arg |-> k, ok |-> last'.ok, value |-> last'.value])
Ensure == /\ IF ~EnsureVerifies /\ acc # "none"
               THEN /\ last' = [op |-> "ensure", key |-> "K1", ok |-> TRUE, value |-> acc]
                    /\ UNCHANGED <<data, acc, accAlias, vkey, vdata, vdAlias, vacc, held>>
               ELSE VerifyStep("K1", "ensure")
          /\ Log([op |-> "ensure", arg |-> "K1", ok |-> last'.ok, value |-> last'.value])

Next == /\ Len(hist) < MaxOps
        /\ \/ \E v \in {"a0", "a1"} : Sign(v)
           \/ MutateCaller \/ EditInPlace \/ SetField
           \/ \E m \in Msgs : DecodeInto(m)
           \/ \E k \in Keys : Verify(k)
           \/ Ensure
Spec == Init /\ [][Next]_vars

\* C10 / C11: an accumulator is handed out only if the current bytes are signed by the key asked for, and it is their content
MemoSound == last.op # "none" /\ last.ok => Signer(data) = last.key /\ last.value = Payload(data)
\* ... and it is refused only if they are not (the honest holder of a stored credential can always go on)
NoSpuriousFailure == last.op # "none" /\ ~last.ok => Signer(data) # last.key
\* a failing call changes nothing (FailLeavesState is an action property)
FailLeavesState == [][(last'.op # "none" /\ ~last'.ok) => UNCHANGED <<data, acc, vkey, vdata, vacc>>]_vars
=============================================================================
