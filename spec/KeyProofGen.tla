---------------------------- MODULE KeyProofGen ----------------------------
(* Emits, for replay against the real keyproof package (harness/cmd/kp):
     "P"  the implementation constants part (a) assumes (Params)
     "L"  every leaf class of the proof tree: path (Go field names), leaf kind, OR branch
     "C"  every single alteration with the specification's verdict:
            expect = "reject"   the altered proof must not verify            (leaf changed in its domain / malformed)
                     "dontcare" same proof in the natural domain: either verdict, but consistently and without panic
            fails  = the checks of the verifier that the specification expects to react (documentation)
     "X"  context / transport cases (other modulus, other base lists, JSON round trip)
     "N"  part (a), one record per odd toy modulus: language membership and the number of answerable unit
          challenges per sub-protocol (the harness recomputes both by brute force and then holds the real
          component verifiers to them, round by round)
   Run with -workers 1 (printed lines must not interleave). *)
EXTENDS KeyProof, Json

SetToSeq(S) == LET RECURSIVE Go(_)
                   Go(T) == IF T = {} THEN <<>> ELSE LET x == CHOOSE x \in T : TRUE IN <<x>> \o Go(T \ {x})
               IN Go(S)
Expect(a) == IF AltSame(a) THEN "dontcare" ELSE "reject"
AltCase(a) == [p |-> a.p, t |-> a.t, k |-> a.k, branch |-> Branch(a.p), expect |-> Expect(a), fails |-> SetToSeq(AltFails(a)),
               leaf |-> IsLeafType(a.t) /\ a.k \in ValueKinds \cup {"nil"}]
CtxCase(n, b, tr) == LET x == [alts |-> {}, n |-> n, b |-> b, transport |-> tr] IN
                     [n |-> n, b |-> b, transport |-> tr, expect |-> IF VerifyOK(x) THEN "accept" ELSE "reject", fails |-> SetToSeq(AllFails(x))]
EmitB == /\ PrintT(<<"P", ToJson(Params @@ [rangenonneg |-> IF RangeNonNegChecked THEN 1 ELSE 0])>>)
         /\ \A nd \in Leaves : PrintT(<<"L", ToJson([p |-> nd.p, t |-> nd.t, c |-> nd.c, branch |-> Branch(nd.p)])>>)
         /\ \A a \in AllAlts : PrintT(<<"C", ToJson(AltCase(a))>>)
         /\ \A n \in CtxNs, b \in CtxBs, tr \in {"none", "json"} : PrintT(<<"X", ToJson(CtxCase(n, b, tr))>>)
\* generation of part (b) happens in the single initial state of SpecB
GenB == BKind => EmitB

ModCase(n) == [n |-> n, units |-> Cardinality(Units(n)), prime |-> IsPrime(n), nprimes |-> Cardinality(PrimeFactors(n)),
               insf |-> InSF(n), inppp |-> InPPP(n), pppmust |-> PPPMustReject(n), indpp |-> InDPP(n),
               asppmust |-> ASPPMustReject(n), provable |-> TwoPrimes(n) /\ ProvableKey(n),
               csf |-> Cardinality(SFImage(n)), cppp |-> Cardinality(PPPOk(n)), cdpp |-> Cardinality(DPPImage(n)),
               oddphiprimes |-> Cardinality(OddPhiPrimes(n))]
GenA == NKind => PrintT(<<"N", ToJson(ModCase(w.v))>>)
=============================================================================
