----------------------------- MODULE SysParamsGen -----------------------------
EXTENDS SysParams, Json
EmitP == PrintT(<<"P", ToJson([base |-> b, derived |-> d, admissible |-> Admissible, default |-> ~UseGrid])>>)
=============================================================================
