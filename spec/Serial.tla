------------------------------- MODULE Serial -------------------------------
(* Serialisation round trips and key-file privacy (property C18).

   Four small state machines in one module; a run of TLC explores one of them (SpecA..SpecD), the
   variables of the other three rest at Idle.  The reachable states of each machine are the cases
   which the harness (harness/cmd/ser) executes on the real code; SerialGen.tla prints them.

   (a) FILE MODES     gabikeys.PrivateKey.WriteToFile / PublicKey.WriteToFile as the system calls they issue
   (b) MESSAGES       protocol messages with optional parts; fields that are not serialised and are restored
                      while verifying (json:"-" and unexported fields); Meaning(Decode(Encode(x))) = Meaning(x)
   (c) KEY DOCUMENTS  grammar of the public / private key XML and its single mutations
   (d) BIG INTEGERS   boundary byte-length classes of big.Int through its five encodings

   The oracle for the replay is what the property demands (error / same meaning / mode bits); whatever
   the property is silent about is "any". *)
EXTENDS Integers, Sequences, FiniteSets, TLC

CONSTANTS MaxOps,           \* (a) length of a sequence of writes
          PrivFchmod,       \* (a) TRUE: PrivateKey.WriteToFile(force) issues fchmod(0600) after open (keys.go:185)
          Restored,         \* (b) derived fields which verification sets again (AllRestored = as the code is)
          KnownFinding_NegativeK,   \* (b) TRUE = as the code is (known finding D21): rangeproof.Proof.K is negative for
                            \*     some true statements (three squares, m >= 0: K = 4*0 - 2), and the text encoding of
                            \*     big.Int refuses negative values (part d): such a ProofD cannot be encoded as JSON
          BaseCounts,       \* (c) numbers of bases of the keys
          StrictBaseNames,  \* (c) TRUE: element names Base_i out of order must be refused
          Ks,               \* (d) exponents k of the boundary values 2^k - 1, 2^k
          MaxLead           \* (d) number of leading zero bytes / digits put in front of an input

VARIABLES file, umask, prior, ops,      \* (a)
          msg, rx,                      \* (b)
          doc,                          \* (c)
          num                           \* (d)
vars == <<file, umask, prior, ops, msg, rx, doc, num>>
Idle == "idle"

\* =====================================================================================================
\* (a) FILE MODES.  The process is root (as the harness is): permission checks never fail, so the only
\*     error is EEXIST.  A mode is the set of its permission bits (execute bits play no role).
\* =====================================================================================================
Bits == {256, 128, 32, 16, 4, 2}                  \* 0400 0200 0040 0020 0004 0002
GroupOther == {32, 16, 4, 2}
M600 == {256, 128}
M644 == {256, 128, 32, 4}
M666 == Bits
M400 == {256}
PriorModes == {M644, M666, M400, M600}
Umasks == { {}, {16, 2}, GroupOther }             \* 000, 022, 077
ModeNum(m) == (IF 256 \in m THEN 256 ELSE 0) + (IF 128 \in m THEN 128 ELSE 0) + (IF 32 \in m THEN 32 ELSE 0)
            + (IF 16 \in m THEN 16 ELSE 0) + (IF 4 \in m THEN 4 ELSE 0) + (IF 2 \in m THEN 2 ELSE 0)

\* file: what the path names.  link = TRUE: the path is a symbolic link to a regular file; mode and
\* content are those of the inode the path resolves to (what stat(2) reports).
Absent == [ex |-> FALSE, link |-> FALSE, mode |-> {}, content |-> "none"]
Priors == {Absent} \cup { [ex |-> TRUE, link |-> l, mode |-> m, content |-> "other"] : l \in BOOLEAN, m \in PriorModes }

\* open(path, O_CREAT | (O_EXCL or O_TRUNC), cmode)
\*   existing name + O_EXCL: EEXIST (also for a symbolic link, which O_EXCL does not follow);
\*   existing name + O_TRUNC: the existing inode (through the link) is truncated, cmode is IGNORED;
\*   no such name: a new regular file with mode cmode & ~umask.
Open(f, um, excl, cmode) ==
   IF f.ex THEN IF excl THEN [err |-> TRUE, f |-> f]
                        ELSE [err |-> FALSE, f |-> [f EXCEPT !.content = "empty"]]
           ELSE [err |-> FALSE, f |-> [ex |-> TRUE, link |-> FALSE, mode |-> cmode \ um, content |-> "empty"]]
\* fchmod(fd, m): the inode behind the descriptor; the umask does not apply
Fchmod(f, m) == [f EXCEPT !.mode = m]
WriteAll(f, kind) == [f EXCEPT !.content = kind]

\* PrivateKey.WriteToFile (keys.go:175): force: OpenFile(O_WRONLY|O_CREATE|O_TRUNC, 0600); f.Chmod(0600)
\*                                       else:  OpenFile(O_RDWR|O_CREATE|O_EXCL, 0600)
PrivWrite(f, um, force) ==
   LET o == Open(f, um, ~force, M600) IN
   IF o.err THEN o
   ELSE [err |-> FALSE, f |-> WriteAll(IF force /\ PrivFchmod THEN Fchmod(o.f, M600) ELSE o.f, "priv")]
\* PublicKey.WriteToFile (keys.go:362): OpenFile(.., 0644) with O_TRUNC resp. O_EXCL, no chmod
PubWrite(f, um, force) ==
   LET o == Open(f, um, ~force, M644) IN
   IF o.err THEN o ELSE [err |-> FALSE, f |-> WriteAll(o.f, "pub")]

IdleA == file = Idle /\ umask = Idle /\ prior = Idle /\ ops = Idle
IdleB == msg = Idle /\ rx = Idle
IdleC == doc = Idle
IdleD == num = Idle
varsA == <<file, umask, prior, ops>>
varsB == <<msg, rx>>

InitA == /\ file \in Priors /\ umask \in Umasks /\ prior = file /\ ops = <<>>
         /\ IdleB /\ IdleC /\ IdleD
Write(kind, force) ==
   LET r == IF kind = "priv" THEN PrivWrite(file, umask, force) ELSE PubWrite(file, umask, force) IN
   /\ Len(ops) < MaxOps
   /\ file' = r.f
   /\ ops' = Append(ops, [kind |-> kind, force |-> force, err |-> r.err,
                          mode |-> ModeNum(r.f.mode), content |-> r.f.content])
   /\ UNCHANGED <<umask, prior, msg, rx, doc, num>>
NextA == \E k \in {"priv", "pub"}, fc \in BOOLEAN : Write(k, fc)
SpecA == InitA /\ [][NextA]_vars

\* C18, last clause: a file holding private-key material is never readable or writable by group or others
PrivateStaysPrivate == file.content = "priv" => file.mode \cap GroupOther = {}
\* a refused write leaves the file as it was
FailedWriteChangesNothing == [][(ops' # ops /\ ops'[Len(ops')].err) => file' = file]_vars
\* a write without the overwrite flag never replaces an existing file
NoForceNeverOverwrites == [][(ops' # ops /\ ~ops'[Len(ops')].force /\ file.ex) => ops'[Len(ops')].err]_vars

\* =====================================================================================================
\* (b) MESSAGES.  A message is [t, parts, alt, used, mem]:
\*       t      its type
\*       parts  the optional parts which are present (absent = nil or empty: both are left out of the encoding)
\*       alt    "none" for an honest message, otherwise the one serialised field that was altered
\*       used   it has been verified once locally before being sent (every derived field and memo is populated)
\*       mem    the fields currently held in memory that are NOT serialised
\*     Not-serialised fields are of three kinds:
\*       ByVerify  restored while verifying, from serialised fields and the enclosing proof
\*                 (revocation.Proof.SetExpected, SignedAccumulator.UnmarshalVerify, ProofD.ChallengeContribution)
\*       ByDecode  recomputed by the decoder itself (EventList.uncompress: indices and parent hashes of all but the first event)
\*       Memo      caches that are no part of the meaning (Update.product, EventList.verified/product,
\*                 Witness.randomizer, revocation.Proof.acc)
\* =====================================================================================================
MsgTypes == {"ProofD", "ProofU", "IssueCommitmentMessage", "IssueSignatureMessage", "Update", "Witness",
             "EventList", "SignedAccumulator", "ProofList"}
OptParts(t) ==
   CASE t = "ProofD"                 -> {"nonrev", "range", "rangeneg"}     \* nonrev_proof, rangeproofs; rangeneg: a range proof
                                                                            \* of a true statement whose K is negative
     [] t = "ProofU"                 -> {"muser"}                           \* m_user_responses
     [] t = "IssueCommitmentMessage" -> {"U", "jwt", "jwts", "proofD"}      \* U, proofPJwt, proofPJwts, a ProofD next to the ProofU in combinedProofs
     [] t = "IssueSignatureMessage"  -> {"missuer", "nonrev"}               \* m_issuer, nonrev (witness)
     [] t = "Update"                 -> {"events"}                          \* e
     [] t = "Witness"                -> {"updated"}                         \* Updated non-zero
     [] t = "EventList"              -> {"events"}
     [] t = "SignedAccumulator"      -> {}
     [] t = "ProofList"              -> {"nonrev", "range", "secondD", "U", "Ufirst", "muser"}
                                        \* [ProofD(+nonrev)(+range), (ProofD)?, (ProofU(+muser))?], the ProofU first if Ufirst
ValidParts(t, ps) == t = "ProofList" => (("Ufirst" \in ps => "U" \in ps) /\ ("muser" \in ps => "U" \in ps))
CborTypes == {"Update", "Witness", "EventList", "SignedAccumulator"}      \* the revocation package is also spoken in CBOR
Encodings(t) == IF t \in CborTypes THEN {"json", "cbor"} ELSE {"json"}

\* serialised fields that the adversary side of the replay alters (one at a time)
Sites(t, ps) ==
   CASE t = "ProofD" -> {"c", "A", "e_response", "v_response", "a_responses", "a_disclosed"}
                        \cup (IF "nonrev" \in ps THEN {"nonrev.C_r", "nonrev.C_u", "nonrev.responses", "nonrev.sacc"} ELSE {})
                        \cup (IF "range" \in ps THEN {"range.Cs", "range.ds", "range.vs", "range.v5", "range.k"} ELSE {})
     [] t = "ProofU" -> {"U", "c", "v_prime_response", "s_response"} \cup (IF "muser" \in ps THEN {"m_user_responses"} ELSE {})
     [] t = "IssueCommitmentMessage" -> {"n_2", "combinedProofs"} \cup (IF "U" \in ps THEN {"U"} ELSE {})
     [] t = "IssueSignatureMessage" -> {"proof.c", "proof.e_response", "signature.A", "signature.e", "signature.v"}
                        \cup (IF "missuer" \in ps THEN {"m_issuer"} ELSE {})
                        \cup (IF "nonrev" \in ps THEN {"nonrev.u", "nonrev.e", "nonrev.sacc"} ELSE {})
     [] t = "Update" -> {"sacc.data", "sacc.pk"} \cup (IF "events" \in ps THEN {"e.i", "e.hash", "e.e"} ELSE {})
     [] t = "Witness" -> {"u", "e", "sacc.data", "sacc.pk"}
     [] t = "EventList" -> IF "events" \in ps THEN {"i", "hash", "e"} ELSE {}
     [] t = "SignedAccumulator" -> {"data", "pk"}
     [] t = "ProofList" -> {"D.c", "D.a_responses"} \cup (IF "U" \in ps THEN {"U.c", "U.s_response"} ELSE {})
                        \cup (IF "secondD" \in ps THEN {"D2.c"} ELSE {})

ByVerify(t, ps) ==
   CASE t \in {"ProofD", "ProofList"} ->
             (IF "nonrev" \in ps THEN {"nonrev.Nu", "nonrev.Challenge", "nonrev.responses.alpha", "nonrev.sacc.Accumulator"} ELSE {})
        \cup (IF {"range", "rangeneg"} \cap ps # {} THEN {"range.MResponse", "range.structure"} ELSE {})
     [] t = "IssueSignatureMessage" -> IF "nonrev" \in ps THEN {"nonrev.sacc.Accumulator"} ELSE {}
     [] t \in {"Update", "Witness"} -> {"sacc.Accumulator"}
     [] t = "SignedAccumulator" -> {"Accumulator"}
     [] OTHER -> {}
ByDecode(t, ps) == IF t \in {"Update", "EventList"} /\ "events" \in ps THEN {"events.index", "events.parenthash"} ELSE {}
Memo(t, ps) ==
   CASE t \in {"ProofD", "ProofList"} -> IF "nonrev" \in ps THEN {"nonrev.acc"} ELSE {}
     [] t = "IssueSignatureMessage" -> IF "nonrev" \in ps THEN {"nonrev.randomizer"} ELSE {}
     [] t = "Update" -> {"product"}
     [] t = "Witness" -> {"randomizer"}
     [] t = "EventList" -> {"product", "verified"}
     [] OTHER -> {}
Derived(t, ps) == ByVerify(t, ps) \cup ByDecode(t, ps) \cup Memo(t, ps)
AllRestored == UNION { ByVerify(t, OptParts(t)) : t \in MsgTypes }
RestoredButNu == AllRestored \ {"nonrev.Nu"}          \* non-vacuity run: SetExpected forgetting the accumulator value

\* what the producing API leaves in memory: the prover sets Nu, Challenge, MResponse and deletes the alpha
\* response (credential.go:384); accumulators signed locally carry their payload; events are explicit
FreshMem(t, ps) ==
   ( CASE t \in {"ProofD", "ProofList"} ->
             (IF "nonrev" \in ps THEN {"nonrev.Nu", "nonrev.Challenge", "nonrev.sacc.Accumulator"} ELSE {})
        \cup (IF {"range", "rangeneg"} \cap ps # {} THEN {"range.MResponse"} ELSE {})
       [] OTHER -> ByVerify(t, ps) ) \cup ByDecode(t, ps)

NoRx == [enc |-> "none", ok |-> FALSE, m |-> [t |-> "none", parts |-> {}, alt |-> "none", used |-> FALSE, mem |-> {}]]
\* Encode keeps the serialised fields only: nothing of mem reaches the wire
Encode(x) == [t |-> x.t, parts |-> x.parts, alt |-> x.alt]
\* Decode builds a fresh value: derived fields are unset, except those the decoder computes itself
Decode(w) == [t |-> w.t, parts |-> w.parts, alt |-> w.alt, used |-> FALSE,
              mem |-> ByDecode(w.t, w.parts) \cup (IF w.t = "EventList" THEN {"verified"} ELSE {})]
\* verification first restores the derived fields (whatever they held before is overwritten)
Restore(x) == [x EXCEPT !.mem = @ \cup (ByVerify(x.t, x.parts) \cap Restored)]
MeaningFields(t, ps) == ByVerify(t, ps) \cup ByDecode(t, ps)
\* the verification-relevant projection: serialised content plus the derived fields verification works with
Meaning(x) == [t |-> x.t, parts |-> x.parts, alt |-> x.alt, derived |-> x.mem \cap MeaningFields(x.t, x.parts)]
Verdict(x) == IF x.alt = "none" /\ MeaningFields(x.t, x.parts) \subseteq Restore(x).mem THEN "accept" ELSE "reject"

InitB == /\ \E t \in MsgTypes : msg = [t |-> t, parts |-> {}, alt |-> "none", used |-> FALSE, mem |-> FreshMem(t, {})]
         /\ rx = NoRx
         /\ IdleA /\ IdleC /\ IdleD
Building == rx = NoRx /\ msg.alt = "none" /\ ~msg.used
AddPart(p) == /\ Building /\ p \in OptParts(msg.t) \ msg.parts
              /\ msg' = [msg EXCEPT !.parts = @ \cup {p}, !.mem = FreshMem(msg.t, msg.parts \cup {p})]
              /\ UNCHANGED rx
\* verify locally before sending: every derived field and every memo is populated
Use == /\ Building /\ ValidParts(msg.t, msg.parts)
       /\ msg' = [msg EXCEPT !.used = TRUE, !.mem = Derived(msg.t, msg.parts)]
       /\ UNCHANGED rx
\* an altered message is one assembled from serialised fields (a received one): it carries no restored field.
\* (Its ByDecode fields stay: a chain altered in memory keeps the old indices and parent hashes of its later
\*  events; these are not serialised, the decoder recomputes them from the first event, so for a chain that
\*  does not verify the replay compares the serialised fields only.)
Alter(s) == /\ Building /\ ValidParts(msg.t, msg.parts) /\ s \in Sites(msg.t, msg.parts)
            /\ "rangeneg" \notin msg.parts          \* (cannot be sent at all, see KnownGap)
            /\ msg' = [msg EXCEPT !.alt = s, !.mem = @ \ ByVerify(msg.t, msg.parts)]
            /\ UNCHANGED rx
\* the honest messages known not to survive: the encoder refuses them (nothing is altered silently)
KnownGap(x, enc) == KnownFinding_NegativeK /\ x.t = "ProofD" /\ "rangeneg" \in x.parts /\ enc = "json"
Send(enc) == /\ rx = NoRx /\ ValidParts(msg.t, msg.parts) /\ enc \in Encodings(msg.t)
             /\ rx' = IF KnownGap(msg, enc) THEN [NoRx EXCEPT !.enc = enc]
                                            ELSE [enc |-> enc, ok |-> TRUE, m |-> Decode(Encode(msg))]
             /\ UNCHANGED msg
NextB == /\ (\/ \E p \in {"nonrev", "range", "rangeneg", "muser", "U", "jwt", "jwts", "proofD", "missuer", "events", "updated",
                          "secondD", "Ufirst"} : AddPart(p)
             \/ Use
             \/ \E t \in MsgTypes : \E s \in Sites(t, OptParts(t)) : Alter(s)
             \/ \E e \in {"json", "cbor"} : Send(e))
         /\ UNCHANGED <<file, umask, prior, ops, doc, num>>
SpecB == InitB /\ [][NextB]_vars

Received == rx.enc # "none"
\* C18: the re-read message means what the original meant, and verifies exactly as the original did
MeaningPreserved == (Received /\ rx.ok) => Meaning(Restore(rx.m)) = Meaning(Restore(msg))
VerdictPreserved == (Received /\ rx.ok) => Verdict(rx.m) = Verdict(msg)
\* nothing that is not serialised is needed from the sender: a received message starts without restored fields
ReceivedStartsBare == (Received /\ rx.ok) => rx.m.mem \cap ByVerify(rx.m.t, rx.m.parts) = {}
\* honest messages are accepted, also when re-read (so VerdictPreserved is not vacuous)
HonestAccepted == (Received /\ rx.ok /\ msg.alt = "none") => Verdict(rx.m) = "accept"
\* every message can be sent and read (what C18 asks for is rx.ok; the known gap is the exception while KnownFinding_NegativeK = TRUE)
EverythingDecodes == Received => (rx.ok \/ KnownGap(msg, rx.enc))

\* =====================================================================================================
\* (c) KEY DOCUMENTS.  doc = [kind, nb, rev, demo, op, el]: the key document of a key with nb bases,
\*     with or without the revocation parts, after the single mutation op on element el.
\* =====================================================================================================
El(name) == [name |-> name, i |-> 0]
BaseEl(j) == [name |-> "Base", i |-> j]
NoEl == El("-")
PubEls(nb, rev) == { El(x) : x \in {"Counter", "ExpiryDate", "n", "Z", "S", "Bases", "Epoch"} \cup (IF rev THEN {"G", "H", "ECDSA"} ELSE {}) }
                   \cup { BaseEl(j) : j \in 0..(nb - 1) }
PrivEls(rev) == { El(x) : x \in {"Counter", "ExpiryDate", "p", "q", "pPrime", "qPrime"} \cup (IF rev THEN {"ECDSA"} ELSE {}) }
Els(d) == IF d.kind = "pub" THEN PubEls(d.nb, d.rev) ELSE PrivEls(d.rev)
BigNames == {"n", "Z", "S", "G", "H", "Base", "p", "q", "pPrime", "qPrime"}     \* decimal numbers of arbitrary size
WordNames == {"Counter", "ExpiryDate", "Epoch"}                                \* machine integers
Mandatory(kind) == IF kind = "pub" THEN {"n", "Z", "S", "Bases"} ELSE {"p", "q", "pPrime", "qPrime"}
Numeric(e) == e.name \in BigNames \cup WordNames

ElemOps(e) == IF e.name = "Bases" THEN {"delete"}
              ELSE IF e.name = "ECDSA" THEN {"delete", "garble"}
              ELSE {"delete", "negate", "plus", "garble", "empty"}
PubDocOps(nb) == {"numplus", "shortmod", "halfmod"} \cup (IF nb >= 1 THEN {"numminus"} ELSE {}) \cup (IF nb >= 2 THEN {"misnumber"} ELSE {})
PrivDocOps == {"inconsistent_p", "inconsistent_q", "composite_p", "composite_q", "notsafe_p", "notsafe_q"}

\* class of the text of element e in the mutated document
Class(d, e) == IF d.el # e THEN (IF e.name = "Base" /\ d.op = "delete" /\ d.el = El("Bases") THEN "absent" ELSE "dec")
               ELSE CASE d.op = "delete" -> "absent" [] d.op = "negate" -> "neg" [] d.op = "plus" -> "plus"
                      [] d.op = "garble" -> "garbled" [] d.op = "empty" -> "empty" [] OTHER -> "dec"
NumAttr(d) == d.nb + (IF d.op = "numplus" THEN 1 ELSE 0) - (IF d.op = "numminus" THEN 1 ELSE 0)
BaseCount(d) == d.nb - (IF d.op = "delete" /\ d.el.name = "Base" THEN 1 ELSE 0)
ModLenSupported(d) == d.op \notin {"shortmod", "halfmod"}
PrimesSafe(d) == d.op \notin PrivDocOps
InOrder(d) == d.op # "misnumber"

\* the grammar, stated positively
Conforms(d) ==
   /\ \A e \in Els(d) : Numeric(e) => Class(d, e) = "dec"
   /\ \A e \in Els(d) : Class(d, e) # "absent" /\ Class(d, e) # "garbled"
   /\ d.kind = "pub" => (NumAttr(d) = BaseCount(d) /\ ModLenSupported(d) /\ InOrder(d))
   /\ d.kind = "priv" => PrimesSafe(d)
\* what C18 names as input that reading must refuse with an error
MustError(d) ==
   \/ \E m \in Mandatory(d.kind) : Class(d, El(m)) = "absent"                       \* missing mandatory element
   \/ \E e \in Els(d) : Numeric(e) /\ Class(d, e) = "garbled"                       \* non-decimal number
   \/ \E e \in Els(d) : e.name \in BigNames /\ Class(d, e) \in {"neg", "empty"}     \* negative / not a number
   \/ Class(d, El("Counter")) = "neg"
   \/ d.kind = "pub" /\ Class(d, El("Bases")) # "absent" /\ NumAttr(d) # BaseCount(d)   \* base list whose count is wrong
   \/ d.kind = "pub" /\ StrictBaseNames /\ ~InOrder(d)                              \* ... or whose numbers are wrong
   \/ d.kind = "pub" /\ ~ModLenSupported(d)                                         \* unsupported modulus length
   \/ d.kind = "priv" /\ ~d.demo /\ ~PrimesSafe(d)                                  \* inconsistent or non-safe primes
Expect(d) == IF d.op = "none" THEN "ok" ELSE IF MustError(d) THEN "error" ELSE "any"

InitC == /\ \/ \E nb \in BaseCounts, rv \in BOOLEAN :
                 doc = [kind |-> "pub", nb |-> nb, rev |-> rv, demo |-> FALSE, op |-> "none", el |-> NoEl]
            \/ \E rv \in BOOLEAN, dm \in BOOLEAN :
                 doc = [kind |-> "priv", nb |-> 0, rev |-> rv, demo |-> dm, op |-> "none", el |-> NoEl]
         /\ IdleA /\ IdleB /\ IdleD
Mutate == /\ doc.op = "none"
          /\ \/ \E e \in Els(doc) : \E o \in ElemOps(e) :
                   /\ (o \in {"negate", "plus", "empty"} => Numeric(e))
                   /\ doc' = [doc EXCEPT !.op = o, !.el = e]
             \/ \E o \in (IF doc.kind = "pub" THEN PubDocOps(doc.nb) ELSE PrivDocOps) : doc' = [doc EXCEPT !.op = o]
          /\ UNCHANGED <<file, umask, prior, ops, msg, rx, num>>
NextC == Mutate
SpecC == InitC /\ [][NextC]_vars

UnmutatedConforms == doc.op = "none" => (Conforms(doc) /\ ~MustError(doc))
ErrorsAreGrammarViolations == MustError(doc) => ~Conforms(doc)
EveryMutationLeavesGrammar == doc.op # "none" => ~Conforms(doc)

\* =====================================================================================================
\* (d) BIG INTEGERS.  num = [cls, k, neg, enc, lz, rx]: value 0, 1, 2^k - 1 ("powm1") or 2^k ("pow"),
\*     possibly negated; sent through encoding enc with lz leading zeros in the input.
\*     Byte image of the magnitude (big endian, minimal): [len, top, fill].
\* =====================================================================================================
Pow2(n) == 2 ^ n
Bytes(cls, k) ==
   CASE cls = "zero"  -> [len |-> 0, top |-> 0, fill |-> 0]
     [] cls = "one"   -> [len |-> 1, top |-> 1, fill |-> 0]
     [] cls = "pow"   -> [len |-> (k \div 8) + 1, top |-> Pow2(k % 8), fill |-> 0]
     [] cls = "powm1" -> [len |-> (k + 7) \div 8, top |-> IF k % 8 = 0 THEN 255 ELSE Pow2(k % 8) - 1, fill |-> 255]
TextEncs == {"json", "jsonnum", "text", "xml"}       \* base64 text (JSON string, MarshalText), decimal text (JSON number, XML)
ByteEncs == {"binary", "cbor"}
IntEncs == TextEncs \cup ByteEncs
\* the codecs as they are (big/int.go): MarshalText refuses a negative value; the decimal forms carry the sign and
\* the readers refuse it; the byte forms carry the magnitude only
Wire(v, enc) == IF enc \in {"json", "text"} THEN [ok |-> ~v.neg, neg |-> FALSE, cls |-> v.cls, k |-> v.k]
                ELSE IF enc \in {"jsonnum", "xml"} THEN [ok |-> TRUE, neg |-> v.neg, cls |-> v.cls, k |-> v.k]
                ELSE [ok |-> TRUE, neg |-> FALSE, cls |-> v.cls, k |-> v.k]
Read(w) == IF ~w.ok \/ w.neg THEN [ok |-> FALSE, neg |-> FALSE, cls |-> "zero", k |-> 0] ELSE w      \* leading zeros do not matter
Values == {[cls |-> "zero", k |-> 0, neg |-> FALSE]} \cup {[cls |-> "one", k |-> 0, neg |-> n] : n \in BOOLEAN}
          \cup {[cls |-> c, k |-> k, neg |-> n] : c \in {"pow", "powm1"}, k \in Ks, n \in BOOLEAN}
NoInt == [ok |-> FALSE, neg |-> FALSE, cls |-> "none", k |-> 0]
InitD == /\ \E v \in Values : num = [cls |-> v.cls, k |-> v.k, neg |-> v.neg, enc |-> "none", lz |-> 0, rx |-> NoInt]
         /\ IdleA /\ IdleB /\ IdleC
Transport(enc, lz) == /\ num.enc = "none"
                      /\ lz > 0 => (~num.neg /\ enc # "jsonnum")        \* a JSON number has no leading zeros
                      /\ num' = [num EXCEPT !.enc = enc, !.lz = lz, !.rx = Read(Wire(num, enc))]
                      /\ UNCHANGED <<file, umask, prior, ops, msg, rx, doc>>
NextD == \E e \in IntEncs, z \in 0..MaxLead : Transport(e, z)
SpecD == InitD /\ [][NextD]_vars

Sent == num.enc # "none"
Same == num.rx.ok /\ ~num.rx.neg /\ num.rx.cls = num.cls /\ num.rx.k = num.k
NonNegativeSurvives == (Sent /\ ~num.neg) => Same
NegativeRefusedByText == (Sent /\ num.neg /\ num.enc \in TextEncs) => ~num.rx.ok
\* (outside C18, recorded by the replay: the byte forms return |x| for a negative x)
ExpectInt == IF ~num.neg THEN "same" ELSE IF num.enc \in TextEncs THEN "refuse" ELSE "any"
=============================================================================
