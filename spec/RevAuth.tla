------------------------------- MODULE RevAuth -------------------------------
(* Authenticity of revocation update messages (property C10), adversary side of revocation/api.go.

   Symbolic values.  An event is [idx, e, ph]; the hash of an event is the injective constructor
   [alg, cut, of |-> event] (random-oracle idealisation: the hash of an event *is* the event), with
   cut distinguishing the full hash from byte-level near misses (raw prefix, prefix with adjusted
   length byte, extension, empty) and alg the multihash code.  An accumulator payload is
   [nu, idx, time, eh]; a signed accumulator is [key, over, ctr, payload]: `key` made the signature
   over `over`.  Signatures cannot be forged: the adversary can only move genuine signed
   accumulators around, change the unsigned counter, sign with its own key, or alter the payload
   under an existing signature.

   The adversary starts from a genuine update of chain A and applies up to MaxMut mutations, then
   optionally sends the message through JSON/CBOR (which re-derives indices and parent hashes of all
   but the first event and marks the list `verified`, as EventList.uncompress does).

   The acceptance predicates are transcribed from the code:
     SigOK        SignedAccumulator.UnmarshalVerify
     HashEq       Event.hashEquals (Hash.Algorithm + Hash.Equal)
     ELVerifyOK   EventList.Verify   (TailAlways = TRUE: tail check before the `verified` memo, fix 4d3a18b)
     VerifyOK     Update.Verify
     PrependOK    Update.Prepend
     Equal        Hash.Equal         (StrictEqual = TRUE: bytes.Equal, fix fd2c0ed)
   and C10 is: acceptance implies Authentic, a definition that does not mention them. *)
EXTENDS Integers, Sequences, FiniteSets, TLC

CONSTANTS L,            \* chains have events 0..L
          MaxMut,       \* number of mutations
          TailAlways, StrictEqual, FirstPhCheck,
          PositiveCheck,      \* EventList.Verify refuses events whose value is missing, zero or negative (fix c58ff27)
          MemoByKey,          \* the memo of SignedAccumulator.UnmarshalVerify holds only for the key it was obtained with (fix 96a8e2d)
          FlattenUnverified   \* FlattenEventLists does not mark its result as verified (fix 287430f)

Chains == {"A", "B"}
Val(c, i) == IF i = 0 THEN <<"one", 0>> ELSE <<c, i>>
ZeroHash == [alg |-> "sha256", cut |-> "full", of |-> [zero |-> TRUE]]
\* An event is hashed as  index || parent hash bytes || value bytes  WITHOUT framing.  sh = 1 says: on the wire
\* the leading byte of the value has been moved to the end of the parent hash (the value on the wire is the
\* remainder <<c, i + 100>>, the parent hash on the wire is a raw extension); the bytes hashed are unchanged,
\* so the hash ignores sh.
Strip(ev) == [idx |-> ev.idx, e |-> ev.e, ph |-> ev.ph]
HashOf(ev) == [alg |-> "sha256", cut |-> "full", of |-> Strip(ev)]
WireE(ev) == IF ev.sh = 1 THEN <<ev.e[1], ev.e[2] + 100>> ELSE ev.e
WirePh(ev) == IF ev.sh = 1 THEN [ev.ph EXCEPT !.cut = "rawext"] ELSE ev.ph
RECURSIVE Ev(_, _)
\* neg = 1: the value has been NEGATED in memory. The hash of an event is taken over the bytes of the value, which do not show
\* the sign: Strip (what is hashed) has no neg. The value <<"nil", 0>> is a missing value (null in a message).
Ev(c, i) == [idx |-> i, e |-> Val(c, i), ph |-> IF i = 0 THEN ZeroHash ELSE HashOf(Ev(c, i - 1)), sh |-> 0, neg |-> 0]
Acc(c, i, t) == [nu |-> <<c, i>>, idx |-> i, time |-> t, eh |-> HashOf(Ev(c, i))]
Sacc(c, i, t) == [key |-> 0, over |-> Acc(c, i, t), ctr |-> 0, payload |-> Acc(c, i, t)]
Window(c, f, a) == [k \in 1..(a - f + 1) |-> Ev(c, f + k - 1)]       \* <<>> when f > a

Cuts == {"full", "rawpre", "lenpre", "rawext", "lenext"}
EmptyHash == [alg |-> "none", cut |-> "empty", of |-> [zero |-> TRUE]]      \* the zero-length byte string
GenuineEvents == { Ev(c, i) : c \in Chains, i \in 0..L }
HashPool == { [alg |-> al, cut |-> cu, of |-> Strip(ev)] : al \in {"sha256", "other"}, cu \in Cuts, ev \in GenuineEvents } \cup {ZeroHash, EmptyHash}
Vals == { Val(c, i) : c \in Chains, i \in 0..L } \cup {<<"fresh", 0>>, <<"nil", 0>>}
ValOK(ev) == ev.neg = 0 /\ ev.e[1] # "nil"

VARIABLES msg,     \* [sacc, events, transported]
          nmut, base
vars == <<msg, nmut, base>>

Init == \E a \in 0..L, f \in 0..(L + 1) :
          /\ f <= a + 1
          /\ msg = [sacc |-> Sacc("A", a, 0), events |-> Window("A", f, a), transported |-> "no"]
          /\ nmut = 0 /\ base = [f |-> f, a |-> a]

\* the genuine message the adversary started from. The harness also replays every assembled message as an IN-PLACE alteration of
\* the received genuine one: Genuine(base) is decoded (JSON / CBOR) by the receiver, verified, and the objects of the decoded update
\* - the accumulator and every event, the slice of events staying the same when the lengths agree - are then overwritten with the
\* content of msg; all verdicts are functions of the content (AuthVerify etc. speak about msg, not about the history of the object)
Genuine(b) == [sacc |-> Sacc("A", b.a, 0), events |-> Window("A", b.f, b.a), transported |-> "no"]
N == Len(msg.events)
Mut(m) == /\ nmut < MaxMut /\ msg.transported = "no" /\ nmut' = nmut + 1 /\ msg' = m /\ UNCHANGED base
SetEv(j, ev) == [msg EXCEPT !.events[j] = ev]
RemoveAt(s, j) == [k \in 1..(Len(s) - 1) |-> IF k < j THEN s[k] ELSE s[k + 1]]
InsertAt(s, j, x) == [k \in 1..(Len(s) + 1) |-> IF k < j THEN s[k] ELSE IF k = j THEN x ELSE s[k - 1]]

SetE == \E j \in 1..N, v \in Vals : msg.events[j].sh = 0 /\ Mut(SetEv(j, [msg.events[j] EXCEPT !.e = v]))
SetIdx == \E j \in 1..N, i \in 0..(L + 1) : Mut(SetEv(j, [msg.events[j] EXCEPT !.idx = i]))
SetPh == \E j \in 1..N, h \in HashPool : msg.events[j].sh = 0 /\ Mut(SetEv(j, [msg.events[j] EXCEPT !.ph = h]))
Del == \E j \in 1..N : Mut([msg EXCEPT !.events = RemoveAt(@, j)])
Ins == \E j \in 1..(N + 1), ev \in GenuineEvents : N <= L + 1 /\ Mut([msg EXCEPT !.events = InsertAt(@, j, ev)])
NegE == \E j \in 1..N : msg.events[j].neg = 0 /\ msg.events[j].e[1] # "nil" /\ Mut(SetEv(j, [msg.events[j] EXCEPT !.neg = 1]))
ShiftB == \E j \in 1..N : msg.events[j].sh = 0 /\ msg.events[j].ph.cut = "full" /\ msg.events[j].e[2] < 100 /\ ValOK(msg.events[j])
                         /\ Mut(SetEv(j, [msg.events[j] EXCEPT !.sh = 1]))
Swap == \E j \in 1..(N - 1) : Mut([msg EXCEPT !.events = [@ EXCEPT ![j] = msg.events[j + 1], ![j + 1] = msg.events[j]]])
ReplaceSacc == \E c \in Chains, i \in 0..L, t \in {0, 1} : Mut([msg EXCEPT !.sacc = Sacc(c, i, t)])
SetCtr == Mut([msg EXCEPT !.sacc.ctr = 1])
SetKey == \E k \in {1, 2, 3} : Mut([msg EXCEPT !.sacc.key = k])        \* 1: another key; 2: garbage signature bytes; 3: no accumulator at all (nil)
SetPayload == \/ \E i \in 0..L : Mut([msg EXCEPT !.sacc.payload.idx = i])
              \/ Mut([msg EXCEPT !.sacc.payload.time = 1 - @])
              \/ \E c \in Chains, i \in 0..L : Mut([msg EXCEPT !.sacc.payload.eh = HashOf(Ev(c, i))])
              \/ \E c \in Chains, i \in 0..L : Mut([msg EXCEPT !.sacc.payload.nu = <<c, i>>])
\* JSON / CBOR transport of the event list: only the first index, the first parent hash and the values travel
RECURSIVE Recompute(_, _)
Recompute(evs, k) == IF k = 1 THEN <<evs[1]>>
                     ELSE LET pre == Recompute(evs, k - 1)
                          IN Append(pre, [idx |-> evs[1].idx + k - 1, e |-> WireE(evs[k]), ph |-> HashOf(pre[k - 1]), sh |-> 0, neg |-> 0])
\* JSON decodes a hash with multihash.MHFromBytes: bytes after the declared length are dropped (a raw
\* extension is normalised away), a hash shorter than its declared length does not decode at all (the
\* message is refused by the decoder); CBOR carries the bytes as they are
JsonHash(h) == IF h.cut = "rawext" THEN [h EXCEPT !.cut = "full"] ELSE h
JsonDecodes(h) == h.cut # "rawpre"       \* (the empty hash decodes since fix 79cf44c)
Transport(kind) ==
   /\ msg.transported = "no"
   /\ \A k \in 1..N : ValOK(msg.events[k])            \* neither encoding carries a negative or a missing value
   /\ msg.sacc.key # 3
   /\ (kind = "json" /\ N > 0) => JsonDecodes(msg.events[1].ph)
   /\ LET f1 == msg.events[1]
           first == IF kind = "json" THEN [idx |-> f1.idx, e |-> WireE(f1), ph |-> JsonHash(f1.ph), sh |-> 0, neg |-> 0] ELSE f1
           evs == [msg.events EXCEPT ![1] = first]
      IN msg' = [msg EXCEPT !.transported = kind, !.events = IF N = 0 THEN <<>> ELSE Recompute(evs, N)]
   /\ UNCHANGED <<nmut, base>>

Next == SetE \/ SetIdx \/ SetPh \/ Del \/ Ins \/ Swap \/ ShiftB \/ NegE \/ ReplaceSacc \/ SetCtr \/ SetKey \/ SetPayload \/ Transport("json") \/ Transport("cbor")
Spec == Init /\ [][Next]_vars

\* ------------------------------------------------------------------ acceptance, transcribed
\* the pinned loop compared only the common prefix: two hashes over the same bytes that differ only by a
\* raw truncation/extension (or the empty hash against anything) compared equal
RawFamily == {"full", "rawpre", "rawext"}
Equal(h1, h2) == IF StrictEqual THEN h1 = h2
                 ELSE \/ "empty" \in {h1.cut, h2.cut}
                      \/ (h1.alg = h2.alg /\ h1.of = h2.of /\ (h1.cut = h2.cut \/ {h1.cut, h2.cut} \subseteq RawFamily))
\* Hash.Algorithm() decodes the multihash: raw truncations/extensions and the empty hash do not decode
Decodes(h) == h.cut \in {"full", "lenpre", "lenext"}
HashEq(ev, h) == Decodes(h) /\ h.alg = "sha256" /\ Equal(HashOf(ev), h)
SigOK(s) == s.ctr = 0 /\ s.key = 0 /\ s.over = s.payload
ChainOK(evs) == /\ \A k \in 2..Len(evs) : HashEq(evs[k - 1], WirePh(evs[k]))
                /\ \A k \in 1..Len(evs) : evs[k].idx = evs[1].idx + k - 1
\* the parent hash of the first event must be a well-formed hash (fix 39af8cd; FirstPhCheck = FALSE is the code before)
FirstPhOK(evs) == FirstPhCheck => (Decodes(WirePh(evs[1])) /\ evs[1].ph.alg = "sha256")
ValuesOK(evs) == PositiveCheck => \A k \in 1..Len(evs) : ValOK(evs[k])
ELVerifyOK(evs, acc, memo) ==
   \/ Len(evs) = 0
   \/ /\ ValuesOK(evs)
      /\ IF TailAlways THEN HashEq(evs[Len(evs)], acc.eh) /\ FirstPhOK(evs) /\ (memo \/ ChainOK(evs))
                       ELSE memo \/ (HashEq(evs[Len(evs)], acc.eh) /\ FirstPhOK(evs) /\ ChainOK(evs))
VerifyOK(m) == SigOK(m.sacc) /\ ELVerifyOK(m.events, m.sacc.payload, FALSE)      \* Update.Verify builds a fresh list
\* Update.Prepend of the message's event list to a genuine target update (events f2..a2 of chain A)
PrependResult(m, f2, a2) ==
   LET evs == m.events   cnt == Len(m.events)  lastI == evs[cnt].idx
       combined == evs \o Window("A", lastI + 1, a2)
   IN IF cnt = 0 THEN [ok |-> TRUE, events |-> Window("A", f2, a2)]
      ELSE IF f2 = 0 \/ lastI < f2 - 1 \/ lastI > a2 THEN [ok |-> FALSE, events |-> Window("A", f2, a2)]
      ELSE IF ELVerifyOK(combined, Acc("A", a2, 0), FALSE) THEN [ok |-> TRUE, events |-> combined]
      ELSE [ok |-> FALSE, events |-> Window("A", f2, a2)]

\* EventList.Verify called a second time on the same list object: the memo fields after the first call are
\* verified' = memo \/ (first call went through the chain check successfully); validationErr is only set by a
\* failed chain check, which leaves verified = FALSE
ELVerifyTwice(evs, acc, memo) ==
   LET first == ELVerifyOK(evs, acc, memo)
       memo2 == memo \/ (Len(evs) > 0 /\ first)
   IN ELVerifyOK(evs, acc, memo2)
\* Update.Prepend of a GENUINE event list (events g..h of chain c, possibly transported = marked verified) to the
\* message under attack, whose accumulator memo is set (the receiver called Update.Verify on it before, and the
\* signature was fine): the combined list is verified from scratch against the message's accumulator
PrependToMsg(m, c, g, h) ==
   LET evs == m.events
       f == evs[1].idx
       combined == Window(c, g, h) \o SubSeq(evs, h - f + 2, Len(evs))
   IN IF Len(evs) = 0 \/ ~SigOK(m.sacc) THEN [ok |-> FALSE, events |-> evs]
      ELSE IF f = 0 \/ h < f - 1 \/ 1 + h - f > Len(evs) THEN [ok |-> FALSE, events |-> evs]
      ELSE IF ELVerifyOK(combined, m.sacc.payload, FALSE) THEN [ok |-> TRUE, events |-> combined]
      ELSE [ok |-> FALSE, events |-> evs]

\* ------------------------------------------------------------------ property C10
GenuineWindow(evs) == \E c \in Chains, a \in 0..L : \E f \in 0..a : evs = Window(c, f, a)
Authentic(m) == \E c \in Chains, a \in 0..L, t \in {0, 1} :
                   /\ m.sacc = Sacc(c, a, t)
                   /\ (m.events = <<>> \/ \E f \in 0..a : m.events = Window(c, f, a))
AuthVerify == VerifyOK(msg) => Authentic(msg)
\* the public EventList.Verify on the (possibly transported) list against the message's own accumulator
AuthEventList == SigOK(msg.sacc) /\ ELVerifyOK(msg.events, msg.sacc.payload, msg.transported # "no") => Authentic(msg)
AuthPrepend == \A a2 \in 0..L : \A f2 \in 0..a2 :
                  LET r == PrependResult(msg, f2, a2) IN r.ok => \E g \in 0..a2 : r.events = Window("A", g, a2)
AuthEventListTwice == SigOK(msg.sacc) /\ ELVerifyTwice(msg.events, msg.sacc.payload, msg.transported # "no") => Authentic(msg)
AuthPrependToMsg == \A c \in Chains, g \in 0..L : \A h \in g..L :
                       LET r == PrependToMsg(msg, c, g, h) IN
                         r.ok => Authentic([msg EXCEPT !.events = r.events])
\* the receiver verified the message under the issuer's key (memo set) and is then asked to verify the SAME object under an
\* unrelated key (other ECDSA key, other counter): never acceptable
OtherKeyOK(m) == ~MemoByKey /\ VerifyOK(m)
AuthOtherKey == ~OtherKeyOK(msg)
\* FlattenEventLists of the message's events cut into two lists, then EventList.Verify of the result
FlattenOK(evs, acc) == IF FlattenUnverified THEN ELVerifyOK(evs, acc, FALSE)
                       ELSE Len(evs) = 0 \/ (ValuesOK(evs) /\ HashEq(evs[Len(evs)], acc.eh) /\ FirstPhOK(evs))
AuthFlatten == SigOK(msg.sacc) /\ FlattenOK(msg.events, msg.sacc.payload) => Authentic(msg)
HashEqIsEquality == \A h1, h2 \in HashPool : Equal(h1, h2) <=> h1 = h2
\* sanity (must be violated): an accepted mutated message exists, i.e. the invariants are not vacuous
NoAcceptAfterMutation == ~(nmut > 0 /\ VerifyOK(msg))
=============================================================================
