------------------------------- MODULE RevAuth -------------------------------
(* Authenticity of revocation update messages (property C10), adversary side of revocation/api.go.

   Symbolic values.  An event is [idx, e, ph]; the hash of an event is the injective constructor
   [alg, cut, of |-> event] (random-oracle idealisation: the hash of an event *is* the event), with
   cut distinguishing the full hash from byte-level near misses (raw prefix, prefix with adjusted
   length byte, extension, empty) and alg the multihash code.  An accumulator payload is
   [nu, idx, time, eh]; a signed accumulator is [key, over, ctr, payload]: `key` made the signature
   over `over`.  Signatures cannot be forged: the adversary can only move genuine signed
   accumulators around, change the unsigned counter, sign with its own key, or alter the payload
   under an existing signature.

   The adversary starts from a genuine update of chain A and applies up to MaxMut mutations, then
   optionally sends the message through JSON/CBOR (which re-derives indices and parent hashes of all
   but the first event and marks the list `verified`, as EventList.uncompress does).

   The acceptance predicates are transcribed from the code:
     SigOK        SignedAccumulator.UnmarshalVerify
     HashEq       Event.hashEquals (Hash.Algorithm + Hash.Equal)
     ELVerifyOK   EventList.Verify   (TailAlways = TRUE: tail check before the `verified` memo, fix 4d3a18b)
     VerifyOK     Update.Verify
     PrependOK    Update.Prepend
     Equal        Hash.Equal         (StrictEqual = TRUE: bytes.Equal, fix fd2c0ed)
   and C10 is: acceptance implies Authentic, a definition that does not mention them. *)
EXTENDS Integers, Sequences, FiniteSets, TLC

CONSTANTS L,            \* chains have events 0..L
          MaxMut,       \* number of mutations
          TailAlways, StrictEqual

Chains == {"A", "B"}
Val(c, i) == IF i = 0 THEN <<"one", 0>> ELSE <<c, i>>
ZeroHash == [alg |-> "sha256", cut |-> "full", of |-> [zero |-> TRUE]]
HashOf(ev) == [alg |-> "sha256", cut |-> "full", of |-> ev]
RECURSIVE Ev(_, _)
Ev(c, i) == [idx |-> i, e |-> Val(c, i), ph |-> IF i = 0 THEN ZeroHash ELSE HashOf(Ev(c, i - 1))]
Acc(c, i, t) == [nu |-> <<c, i>>, idx |-> i, time |-> t, eh |-> HashOf(Ev(c, i))]
Sacc(c, i, t) == [key |-> 0, over |-> Acc(c, i, t), ctr |-> 0, payload |-> Acc(c, i, t)]
Window(c, f, a) == [k \in 1..(a - f + 1) |-> Ev(c, f + k - 1)]       \* <<>> when f > a

Cuts == {"full", "rawpre", "lenpre", "rawext", "lenext"}
EmptyHash == [alg |-> "none", cut |-> "empty", of |-> [zero |-> TRUE]]      \* the zero-length byte string
GenuineEvents == { Ev(c, i) : c \in Chains, i \in 0..L }
HashPool == { [alg |-> al, cut |-> cu, of |-> ev] : al \in {"sha256", "other"}, cu \in Cuts, ev \in GenuineEvents } \cup {ZeroHash, EmptyHash}
Vals == { Val(c, i) : c \in Chains, i \in 0..L } \cup {<<"fresh", 0>>}

VARIABLES msg,     \* [sacc, events, transported]
          nmut, base
vars == <<msg, nmut, base>>

Init == \E a \in 0..L, f \in 0..(L + 1) :
          /\ f <= a + 1
          /\ msg = [sacc |-> Sacc("A", a, 0), events |-> Window("A", f, a), transported |-> "no"]
          /\ nmut = 0 /\ base = [f |-> f, a |-> a]

N == Len(msg.events)
Mut(m) == /\ nmut < MaxMut /\ msg.transported = "no" /\ nmut' = nmut + 1 /\ msg' = m /\ UNCHANGED base
SetEv(j, ev) == [msg EXCEPT !.events[j] = ev]
RemoveAt(s, j) == [k \in 1..(Len(s) - 1) |-> IF k < j THEN s[k] ELSE s[k + 1]]
InsertAt(s, j, x) == [k \in 1..(Len(s) + 1) |-> IF k < j THEN s[k] ELSE IF k = j THEN x ELSE s[k - 1]]

SetE == \E j \in 1..N, v \in Vals : Mut(SetEv(j, [msg.events[j] EXCEPT !.e = v]))
SetIdx == \E j \in 1..N, i \in 0..(L + 1) : Mut(SetEv(j, [msg.events[j] EXCEPT !.idx = i]))
SetPh == \E j \in 1..N, h \in HashPool : Mut(SetEv(j, [msg.events[j] EXCEPT !.ph = h]))
Del == \E j \in 1..N : Mut([msg EXCEPT !.events = RemoveAt(@, j)])
Ins == \E j \in 1..(N + 1), ev \in GenuineEvents : N <= L + 1 /\ Mut([msg EXCEPT !.events = InsertAt(@, j, ev)])
Swap == \E j \in 1..(N - 1) : Mut([msg EXCEPT !.events = [@ EXCEPT ![j] = msg.events[j + 1], ![j + 1] = msg.events[j]]])
ReplaceSacc == \E c \in Chains, i \in 0..L, t \in {0, 1} : Mut([msg EXCEPT !.sacc = Sacc(c, i, t)])
SetCtr == Mut([msg EXCEPT !.sacc.ctr = 1])
SetKey == \E k \in {1, 2} : Mut([msg EXCEPT !.sacc.key = k])           \* 1: another key; 2: garbage signature bytes
SetPayload == \/ \E i \in 0..L : Mut([msg EXCEPT !.sacc.payload.idx = i])
              \/ Mut([msg EXCEPT !.sacc.payload.time = 1 - @])
              \/ \E c \in Chains, i \in 0..L : Mut([msg EXCEPT !.sacc.payload.eh = HashOf(Ev(c, i))])
              \/ \E c \in Chains, i \in 0..L : Mut([msg EXCEPT !.sacc.payload.nu = <<c, i>>])
\* JSON / CBOR transport of the event list: only the first index, the first parent hash and the values travel
RECURSIVE Recompute(_, _)
Recompute(evs, k) == IF k = 1 THEN <<evs[1]>>
                     ELSE LET pre == Recompute(evs, k - 1)
                          IN Append(pre, [idx |-> evs[1].idx + k - 1, e |-> evs[k].e, ph |-> HashOf(pre[k - 1])])
\* JSON decodes a hash with multihash.MHFromBytes: bytes after the declared length are dropped (a raw
\* extension is normalised away), a hash shorter than its declared length does not decode at all (the
\* message is refused by the decoder); CBOR carries the bytes as they are
JsonHash(h) == IF h.cut = "rawext" THEN [h EXCEPT !.cut = "full"] ELSE h
JsonDecodes(h) == h.cut # "rawpre"       \* (the empty hash decodes since fix 79cf44c)
Transport(kind) ==
   /\ msg.transported = "no"
   /\ (kind = "json" /\ N > 0) => JsonDecodes(msg.events[1].ph)
   /\ LET first == IF kind = "json" THEN [msg.events[1] EXCEPT !.ph = JsonHash(@)] ELSE msg.events[1]
           evs == [msg.events EXCEPT ![1] = first]
      IN msg' = [msg EXCEPT !.transported = kind, !.events = IF N = 0 THEN <<>> ELSE Recompute(evs, N)]
   /\ UNCHANGED <<nmut, base>>

Next == SetE \/ SetIdx \/ SetPh \/ Del \/ Ins \/ Swap \/ ReplaceSacc \/ SetCtr \/ SetKey \/ SetPayload \/ Transport("json") \/ Transport("cbor")
Spec == Init /\ [][Next]_vars

\* ------------------------------------------------------------------ acceptance, transcribed
\* the pinned loop compared only the common prefix: two hashes over the same bytes that differ only by a
\* raw truncation/extension (or the empty hash against anything) compared equal
RawFamily == {"full", "rawpre", "rawext"}
Equal(h1, h2) == IF StrictEqual THEN h1 = h2
                 ELSE \/ "empty" \in {h1.cut, h2.cut}
                      \/ (h1.alg = h2.alg /\ h1.of = h2.of /\ (h1.cut = h2.cut \/ {h1.cut, h2.cut} \subseteq RawFamily))
\* Hash.Algorithm() decodes the multihash: raw truncations/extensions and the empty hash do not decode
Decodes(h) == h.cut \in {"full", "lenpre", "lenext"}
HashEq(ev, h) == Decodes(h) /\ h.alg = "sha256" /\ Equal(HashOf(ev), h)
SigOK(s) == s.ctr = 0 /\ s.key = 0 /\ s.over = s.payload
ChainOK(evs) == /\ \A k \in 2..Len(evs) : HashEq(evs[k - 1], evs[k].ph)
                /\ \A k \in 1..Len(evs) : evs[k].idx = evs[1].idx + k - 1
ELVerifyOK(evs, acc, memo) ==
   \/ Len(evs) = 0
   \/ IF TailAlways THEN HashEq(evs[Len(evs)], acc.eh) /\ (memo \/ ChainOK(evs))
                    ELSE memo \/ (HashEq(evs[Len(evs)], acc.eh) /\ ChainOK(evs))
VerifyOK(m) == SigOK(m.sacc) /\ ELVerifyOK(m.events, m.sacc.payload, FALSE)      \* Update.Verify builds a fresh list
\* Update.Prepend of the message's event list to a genuine target update (events f2..a2 of chain A)
PrependResult(m, f2, a2) ==
   LET evs == m.events   cnt == Len(m.events)  lastI == evs[cnt].idx
       combined == evs \o Window("A", lastI + 1, a2)
   IN IF cnt = 0 THEN [ok |-> TRUE, events |-> Window("A", f2, a2)]
      ELSE IF f2 = 0 \/ lastI < f2 - 1 \/ lastI > a2 THEN [ok |-> FALSE, events |-> Window("A", f2, a2)]
      ELSE IF ELVerifyOK(combined, Acc("A", a2, 0), FALSE) THEN [ok |-> TRUE, events |-> combined]
      ELSE [ok |-> FALSE, events |-> Window("A", f2, a2)]

\* ------------------------------------------------------------------ property C10
GenuineWindow(evs) == \E c \in Chains, a \in 0..L : \E f \in 0..a : evs = Window(c, f, a)
Authentic(m) == \E c \in Chains, a \in 0..L, t \in {0, 1} :
                   /\ m.sacc = Sacc(c, a, t)
                   /\ (m.events = <<>> \/ \E f \in 0..a : m.events = Window(c, f, a))
AuthVerify == VerifyOK(msg) => Authentic(msg)
\* the public EventList.Verify on the (possibly transported) list against the message's own accumulator
AuthEventList == SigOK(msg.sacc) /\ ELVerifyOK(msg.events, msg.sacc.payload, msg.transported # "no") => Authentic(msg)
AuthPrepend == \A a2 \in 0..L : \A f2 \in 0..a2 :
                  LET r == PrependResult(msg, f2, a2) IN r.ok => \E g \in 0..a2 : r.events = Window("A", g, a2)
HashEqIsEquality == \A h1, h2 \in HashPool : Equal(h1, h2) <=> h1 = h2
\* sanity (must be violated): an accepted mutated message exists, i.e. the invariants are not vacuous
NoAcceptAfterMutation == ~(nmut > 0 /\ VerifyOK(msg))
=============================================================================
