"""C17 - Key-correctness proofs accept good keys and reject bad ones (KeyProof.tla, parts a and b)."""
import json, os
from concurrent.futures import ThreadPoolExecutor
import vplib, zkstage

# each of these configurations must violate the named invariant (non-vacuity of the claims)
PROBES = [("KeyProof.a.nonvacuous1.cfg", "NoProvableKey", "a toy key the library's prover accepts is among the walked moduli"),
          ("KeyProof.a.nonvacuous2.cfg", "NoThreePrimeOrderSemiprime", "a semiprime with three odd primes in phi, N = 1 mod 3, in the DPP language is walked"),
          ("KeyProof.b.nonvacuous.cfg", "NoAlteredAccepted", "the model verifier accepts some altered proof (the don't-care alterations)")]


def probes(chk, module, plist):
    vplib.scratch()
    def one(p):
        return vplib.tlc(module, p[0], timeout=600, workers=4, allow_fail=True, name="probe-" + p[0])
    with ThreadPoolExecutor(max_workers=len(plist)) as ex:
        rs = list(ex.map(one, plist))
    for p, r in zip(plist, rs):
        if p[1] not in r.invariant_violated:
            raise vplib.Machinery("probe %s: expected a violation of %s (%s), got %s %s" % (p[0], p[1], p[2], r.invariant_violated, r.error))
        chk.extra.setdefault("probes", []).append({"cfg": p[0], "violates": p[1], "meaning": p[2], "wall_s": round(r.wall, 1)})


def generate(chk, T):
    """TLC emits the leaf classes, the alteration / context cases and the toy-modulus records."""
    gb = vplib.tlc("KeyProofGen", "KeyProof.gen.b.cfg", workers=1, timeout=600)
    ga = vplib.tlc("KeyProofGen", "KeyProof.gen.a.%s.cfg" % T, workers=1, timeout=2400)
    recs, counts = [], {}
    for tag, src in (("P", gb), ("L", gb), ("C", gb), ("X", gb), ("N", ga)):
        js = sorted(set(src.tagged_raw_json(tag)))
        counts[tag] = len(js)
        recs += ['{"tag":"%s","rec":%s}' % (tag, j) for j in js]
    chk.add_tlc(gb, "KeyProofGen", "KeyProof.gen.b.cfg", "%d leaf classes, %d alteration cases, %d context cases" % (counts["L"], counts["C"], counts["X"]))
    chk.add_tlc(ga, "KeyProofGen", "KeyProof.gen.a.%s.cfg" % T, "%d toy moduli" % counts["N"])
    if counts["P"] != 1 or counts["L"] < 200 or counts["C"] < 1500 or counts["X"] < 20 or counts["N"] < 100:
        raise vplib.Machinery("generator produced too little: %s" % counts)
    path = os.path.join(vplib.sub("c17"), "cases.ndjson")
    open(path, "w").write("\n".join(recs) + "\n")
    return path, counts


def run(chk):
    T = chk.tier
    thorough = T == "thorough"
    chk.rule = ("TLC (a): for every odd N below the bound, the four languages of Gennaro et al. and Answerable(N, x) per sub-protocol; invariants over a walk of N: "
                "N in the language => every challenge answerable, N outside => answerable fraction <= the per-round bound the iteration counts assume "
                "(SF 1/pmin, PPP 1/2, DPP 1/3 or prime, ASPP 4/5 per base of full order, 9/10 resp. 0.806 averaged); the ASPP verifier equation is tied to its "
                "discrete-log form on every base. TLC (b): proof tree of ValidKeyProof as a grammar (250 leaf classes, 13 leaf kinds), verifier = structure /\\ range "
                "limits /\\ XOR rule /\\ one hash /\\ plain checks and round equations; adversary: every value alteration of every leaf (+1, random, 0, M-x, x+M, x-M, nil), "
                "container alterations (truncate, extend, nil element, drop/add map entries), OR nodes (swap / shift both sub-challenges), other modulus, other "
                "base lists, JSON transport; invariants AcceptImpliesUnaltered (in the leaf's natural domain), MalformedRejected, HonestAccepted, EveryLeafBound. "
                "Replay: (1) component verifiers on TLC's toy moduli with brute-force provers (verdict must equal 'every round answerable'), on medium-size "
                "bad moduli of every forbidden shape (p^2 q, pqr, p^k, non-(almost-)safe factors, P = 5 mod 8, small / even factors, ground nonce) with provers "
                "that know the factorisation, and on honest component proofs with every response altered; verdict must equal the round equations evaluated with "
                "math/big; (2) the OR node expStep as a component: either branch real, every leaf altered, forgery with both branches simulated; (3) random good "
                "keys (48..96-bit primes, 1..4 bases): BuildProof, VerifyProof, JSON round trip, every leaf enumerated by reflection and classified by the "
                "grammar, TLC's cases applied to a seeded sample in worker processes: must-reject cases accepted, panics (also in the verifier's goroutines) and "
                "rejected honest proofs are VIOLATIONs. (3b) KeyProofDeps.tla: the statement graph of ValidKeyProof (which relation proof uses which prover-supplied Pedersen "
                "commitment as a base, which commitments are left-hand sides of range proofs) under a RE-PROVING adversary that sends commitments as 0 modulo the group prime "
                "and hashes the zeros the verifier will reconstruct; invariant Sound (accept => safe-prime product and square bases), violated without the nonzero guard (D29) and without the tie between the multiplier of an "
                "expStepB step and the committed base power (D33: with free multipliers both exponentiation chains of the primality proof reach +1 / -1 for a COMPOSITE (P-1)/2 "
                "that is committed honestly - all commitments nonzero); without a group order wide enough for the square of an |n|-bit root (D49, KNOWN FINDING: the model checks the design "
                "the property demands, GroupWide = TRUE, and shows that the code as it is, GroupWide = FALSE, violates Sound; the forgery - roots of s + j*M for non-square bases of a genuine "
                "340-bit modulus - is replayed and reported as KNOWN-FINDING); and with generators that do not depend on the prover's group prime (D50: a prime dividing a^30 - b^31 "
                "gives log_g h); an honest proof is searched for the distinguisher of D53 (is the multiplier of a step sent as a copy of the base-power commitment?) and must not reveal a "
                "factor of n; BuildGroup on every small safe prime must return (D57). "
                "Replay: every scenario is built for real by a cheating prover inside the package (tag verif) for the representatives 0, GroupPrime, 2*GroupPrime - a modulus "
                "(2a^3+1)(2b+1) and bases with Jacobi symbol -1 - sent through JSON and given to the unmodified VerifyProof. (4) ZkProof.tla (Group variant): the representation-proof engine of the Camenisch-Michels sub-proofs in the concrete group "
                "zkproof.BuildGroup(23) - Pedersen, multiplication-type, constant-left-hand-side and single-base statements with prover-supplied bases over all residues "
                "(subgroup, non-residues, -1, 0); invariants Complete (for bases in the subgroup), Sound2 (special soundness), Absorbing; every case (48,384) is evaluated by "
                "the real engine and compared exactly. Non-trivial = distinct (leaf class, alteration) / (modulus shape, component) / engine case.")
    chk.assumptions = ["SHA-256 / HashCommit idealised in the model (random oracle); the harness derives challenges with the library's GetHashNumber (C15 covers its encoding)",
                       "toy number theory is exhaustive below the bounds only; above them the harness' provers are best effort (roots by CRT, subgroup search below 2^22)",
                       "soundness of the Camenisch-Michels sub-proofs (exponentiation, primality) is covered structurally (every leaf bound by the hash), not number-theoretically",
                       "a negative range-proof result is accepted by the verifier in memory (no lower limit) and cannot be serialised: recorded as an observation "
                       "(RangeNonNegChecked = FALSE in the cfgs), not as an alteration",
                       "full-proof alterations are a seeded sample per run (all leaf kinds and OR branches every run, all leaf classes in the thorough tier)"]
    ca, cb = "KeyProof.a.%s.cfg" % T, "KeyProof.b.%s.cfg" % T
    vplib.scratch()
    with ThreadPoolExecutor(max_workers=3) as ex:
        fb = ex.submit(vplib.tlc_mc, "KeyProof", cb, timeout=3000, workers=4 if not thorough else 8, name="kpb")
        fg = ex.submit(generate, chk, T)          # single-threaded by design (printed lines must not interleave)
        ra = vplib.tlc_mc("KeyProof", ca, timeout=3000, name="kpa")
        rb = fb.result()
        path, counts = fg.result()
    chk.add_tlc(ra, "KeyProof", ca, "SFClaim PPPClaim DPPClaim EqClaim ASPPGroupClaim ASPPOrderClaim ASPPModulusClaim")
    chk.add_tlc(rb, "KeyProof", cb, "AcceptImpliesUnaltered MalformedRejected HonestAccepted EveryLeafBound")
    probes(chk, "KeyProof", PROBES)
    chk.extra["generated"] = counts
    seed = str(chk.seed)
    res = vplib.vh("kp", ["gennaro", "--in", path, "--tier", T, "--seed", seed], timeout=3000)
    chk.add_replay(res, "gennaro_components")
    n = res.get("notes", {})
    if n.get("toy_moduli", 0) < 100 or n.get("bad_shapes", 0) < 12:
        raise vplib.Machinery("component replay is vacuous: %s" % n)
    lucky = {k: v for k, v in res.get("counts", {}).items() if k.startswith("lucky:medium")}
    if lucky:
        raise vplib.Machinery("a cheating prover answered every round of a protocol whose language excludes the modulus (%s): the language claims of "
                              "KeyProof.tla do not hold at this size, or a 2^-80 event happened" % lucky)
    res = vplib.vh("kp", ["orstep", "--in", path, "--tier", T, "--seed", seed], timeout=3000)
    chk.add_replay(res, "or_composition")
    c = res.get("counts", {})
    if not res["violations"] and (c.get("or-proofs:A", 0) < 1 or c.get("or-proofs:B", 0) < 1 or c.get("forge:reject", 0) < 1):
        raise vplib.Machinery("OR replay is vacuous: %s" % c)
    if res.get("notes", {}).get("observation_range"):
        print("NOTE C17: " + res["notes"]["observation_range"])
    res = vplib.vh("kp", ["full", "--in", path, "--tier", T, "--seed", seed], timeout=3300)
    chk.add_replay(res, "full_proof")
    n = res.get("notes", {})
    if not res["violations"] and (res.get("counts", {}).get("keys", 0) < 2 or n.get("leaf_kind_x_branch_altered", 0) < 20 or n.get("class_kind_pairs_executed", 0) < 300):
        raise vplib.Machinery("full-proof replay is vacuous: %s" % n)
    # the re-proving adversary with degenerate commitments (KeyProofDeps.tla)
    r = vplib.tlc_mc("KeyProofDeps", "KeyProofDeps.mc.cfg", timeout=600)
    chk.add_tlc(r, "KeyProofDeps", "KeyProofDeps.mc.cfg", "Sound, Honest over every set of zeroed commitments, every lie and every assignment of false relations")
    # without the nonzero guard (D29) / the tie of the multipliers (D33) / a group wide enough for squares of n-bit roots (D49, the code AS IT IS) / derived generators (D50)
    for probe in ("KeyProofDeps.asis.cfg", "KeyProofDeps.asis2.cfg", "KeyProofDeps.asis3.cfg", "KeyProofDeps.asis4.cfg", "KeyProofDeps.asis5.cfg"):
        r = vplib.tlc("KeyProofDeps", probe, timeout=300, allow_fail=True)
        want = "BranchHidden" if probe.endswith("asis5.cfg") else "Sound"
        if want not in r.invariant_violated and ("invariant of %s is equal to FALSE" % want) not in (r.error or "") + r.out:
            raise vplib.Machinery("KeyProofDeps: %s should violate Sound (vacuity)" % probe)
    g = vplib.tlc_mc("KeyProofDepsGen", "KeyProofDeps.gen.cfg", workers=1, timeout=600)
    scen = sorted(set(g.tagged_raw_json("K")))
    chk.add_tlc(g, "KeyProofDepsGen", "KeyProofDeps.gen.cfg", "%d replayable scenarios" % len(scen))
    if len(scen) < 10:
        raise vplib.Machinery("only %d zero-commitment scenarios" % len(scen))
    # what an observer sees of an exponentiation step, by exponent bit (KeyProofView.tla; D53, D59)
    r = vplib.tlc_mc("KeyProofView", "KeyProofView.mc.cfg", workers=1, timeout=300)
    views = sorted(set(r.tagged_raw_json("VIEW")))
    chk.add_tlc(r, "KeyProofView", "KeyProofView.mc.cfg", "BranchHidden, Complete; %d view records" % len(views))
    if len(views) != 2:
        raise vplib.Machinery("KeyProofView: %d view records" % len(views))
    for probe in ("KeyProofView.asis.D59.cfg", "KeyProofView.asis.D53.cfg"):
        r = vplib.tlc("KeyProofView", probe, timeout=300, allow_fail=True)
        if "BranchHidden" not in r.invariant_violated and "invariant of BranchHidden is equal to FALSE" not in (r.error or "") + r.out:
            raise vplib.Machinery("KeyProofView: %s should violate BranchHidden (vacuity)" % probe)
    sp = os.path.join(vplib.sub("c17"), "zeroforge.ndjson")
    open(sp, "w").write("\n".join(scen + views) + "\n")
    res = vplib.vh("kp", ["zeroforge", "--in", sp, "--tier", T, "--seed", seed], timeout=3000)
    c = res.get("counts", {})
    if not res["violations"] and (c.get("zeroforge:spec=true:code=true", 0) < 1 or c.get("zeroforge:spec=false:code=false", 0) < 30 or not res.get("known_or_violation_kinds_seen", True)
                                  or not any(k.startswith("view:bit=1:buckets=") for k in c) or c.get("exponent-bit-leak:none", 0) < 1):
        raise vplib.Machinery("zero-commitment replay is vacuous: %s" % c)
    chk.add_replay(res, "zero_commitment_forgeries")
    # the representation-proof engine underneath, in a concrete toy group (ZkProof.tla)
    zkstage.run(chk, "group")
    chk.exhaustive = False


def replay(chk, path):
    """Re-runs the part of the harness that produced the recorded violation with the recorded seed and tier
    (all case selection is seeded; key material and the prover's randomness are fresh)."""
    v = json.load(open(path))
    part = {"gennaro": "gennaro", "orstep": "orstep", "full": "full"}.get(v.get("part", ""), None)
    if part is None:
        raise vplib.Machinery("replay file without a part")
    cases, _ = generate(chk, chk.tier)
    res = vplib.vh("kp", [part, "--in", cases, "--tier", chk.tier, "--seed", str(chk.seed)], timeout=3300)
    hits = [x for x in res["violations"] if x.get("kind") == v.get("kind")]
    for x in hits[:10]:
        print("VIOLATION property=C17 replay=%s  # %s" % (path, str(x["what"])[:300]))
    return 1 if hits else 0
