"""C02 - Proofs verify only in the session they were made for (ProofList.tla); C03 shares the module."""
import os, json, vplib

RULE = ("TLC: ProofList.tla - a free adversary assembles attempts proof by proof from the pool of two honest sessions over the same builders "
        "(D/U kinds, two keys, two secrets, side-door modes), choosing key, label, context, nonce, flag, with or without labels and with a full or "
        "short key list; invariants Bound (accept => exactly one honest session with its own tuple), LinkedOK (accept => one effective secret per label), "
        "HonestAccepted. Replay: for selected builder configurations EVERY attempt of length <= 2 (thorough: plus a seeded sample of length 3) is "
        "assembled from two real sessions (1024-bit keys, real credentials and issuance commitments) and given to ProofList.Verify with exactly the "
        "attempt's arguments; VIOLATION = real acceptance of an attempt the spec marks not honest / not linked, a panic, or rejection of a complete honest list. "
        "Context and nonce range over the session's value, another value, 0 and the NEGATION of the session's value. "
        "Non-trivial = distinct attempt that is not an honest linked session.")
ASSUME = ["Fiat-Shamir hash idealised as injective in the model (its encoding is C15's subject)", "1024-bit fixed keys",
          "side doors beyond 'discloses attribute 0' and 'second R_0 response' are not enumerated"]

def run_pl(chk, prop):
    T = chk.tier
    thorough = T == "thorough"
    chk.rule, chk.assumptions = RULE, ASSUME
    mc = "ProofList.mc.thorough.cfg" if thorough else "ProofList.mc.quick.cfg"
    r = vplib.tlc_mc("ProofList", mc, timeout=3300, heap="28g" if thorough else None)
    chk.add_tlc(r, "ProofList", mc, "Bound, LinkedOK, HonestAccepted")
    r = vplib.tlc("ProofList", "ProofList.nonvacuous.cfg", timeout=900, allow_fail=True)
    if "SomeAccept" not in r.invariant_violated:
        raise vplib.Machinery("vacuity check failed: acceptance not reachable in the model")
    sels = [1, 2, 3, 4, 5, 6] if thorough else ([1, 2, 4] if prop == "C03" else [1, 3, 5, 6])
    cases = []
    for s in sels:
        g = vplib.tlc("ProofListGen", "ProofList.gen.%d.cfg" % s, workers=1, timeout=1500)
        c = g.tagged_raw_json("C")
        chk.add_tlc(g, "ProofListGen", "ProofList.gen.%d.cfg" % s, "%d attempts" % len(c))
        cases += c
    if thorough:
        g = vplib.tlc("ProofListGen", "ProofList.gen3.cfg", workers=1, timeout=600, simulate="num=30000", depth=4, seed=chk.seed)
        c = g.tagged_raw_json("C")
        chk.add_tlc(g, "ProofListGen", "ProofList.gen3.cfg", "%d attempts of length <= 3 (seeded simulation)" % len(c))
        cases += c
    cases = sorted(set(cases))
    # every attempt whose list and keys are an honest session's (any header, labelling) is replayed; of the rest a seeded sample
    import random
    focus = [c for c in cases if '"focus":true' in c]
    rest = [c for c in cases if '"focus":true' not in c]
    random.Random(chk.seed).shuffle(rest)
    cap = 400000 if thorough else 90000
    chk.extra["attempts_generated"] = len(cases)
    chk.extra["attempts_focus"] = len(focus)
    cases = focus + rest[:max(0, cap - len(focus))]
    if len(cases) < 5000:
        raise vplib.Machinery("generator produced only %d attempts" % len(cases))
    cp = os.path.join(vplib.sub("pl"), "cases.ndjson")
    open(cp, "w").write("\n".join(cases) + "\n")
    res = vplib.vh("pl", ["replay", "--in", cp, "--tier", T, "--seed", str(chk.seed)], timeout=3300)
    chk.add_replay(res, "attempt_replay")
    chk.exhaustive = False

def run(chk):
    run_pl(chk, "C02")

def replay(chk, path):
    v = json.load(open(path))
    cp = os.path.join(vplib.sub("pl"), "one.ndjson")
    open(cp, "w").write(json.dumps(v["case"]) + "\n")
    res = vplib.vh("pl", ["replay", "--in", cp, "--seed", str(chk.seed)])
    for x in res["violations"]:
        print("VIOLATION property=%s replay=%s  # %s" % (chk.pid, path, x["what"]))
    return 1 if res["violations"] else 0
