"""C11 - Non-revocation proofs are sound and tied to the credential (NonRev.tla)."""
import os, json, vplib, memostage

def run(chk):
    T = chk.tier
    thorough = T == "thorough"
    chk.rule = ("TLC: NonRev.tla - all interleavings up to depth 4 (thorough 6) of {prepare cache, revoke other, revoke self, update witness, prove, attack(kind)} "
                "on one credential; invariants WitnessValidAtOwnIndex, CacheNotAhead, ReadsTrue, NoAttackAccepted. Replay: every complete history (thorough: a seeded "
                "sample) is executed on a real credential with a real accumulator chain (1024-bit keys): NonrevPrepareCache (cached builder's index checked through a "
                "verif accessor), Accumulator.Remove, Witness.Update (ErrorRevoked exactly for the revoked witness), CreateDisclosureProof(nonrev) whose proof must "
                "verify (also after a JSON round trip) and embed the accumulator index the spec says it was made against - including proofs made after UpdateCommit "
                "refreshed a cached commitment -, and 17 manipulations of the proof (commitments multiplied by 4 or replaced by a representative of 0 mod n, a proof built from scratch by the holder - revoked or not - around Cr = Cu = 0 mod n with zeros hashed for the verifier's reconstructed commitments and the issuer's newest accumulator embedded, each response, alpha response, older/newer/other-chain/garbled "
                "accumulator, transplanted non-revocation part of another holder, stripped part, witness attribute disclosed) which must all be rejected. "
                "Plus refresh chains: all histories of 9 (10) operations over {prepare, revoke other, update, prove} that end in a proof whose cached commitment went through at least two "
                "UpdateCommit refreshes. Known finding D10 is constructed deliberately and reported as KNOWN-FINDING. Non-trivial = distinct history.")
    chk.assumptions = ["soundness of the Sigma protocol itself is assumed (generic group); manipulations are structural/algebraic",
                       "freshness policy (is the embedded accumulator recent enough) is the verifier application's business",
                       "a same-index accumulator re-signed at another time is the same accumulator (don't-care)"]
    cfg = "NonRev.mc.%s.cfg" % T
    g = vplib.tlc_mc("NonRevGen", cfg, workers=1, timeout=900)
    if thorough:
        vplib.coverage_check(chk, "NonRevGen", "NonRev.mc.quick.cfg", workers=1, timeout=600)
        vplib.coverage_check(chk, "GabiGen", "Gabi.mc.quick.cfg", workers=1, timeout=600)
    hs = sorted(set(g.tagged_raw_json("H")))
    chk.add_tlc(g, "NonRevGen", cfg, "%d complete histories" % len(hs))
    if len(hs) < 1000:
        raise vplib.Machinery("generator produced only %d histories" % len(hs))
    if not thorough:
        # plus a seeded sample of depth-6 histories (refresh of a cached commitment needs prepare, revoke, update, prove)
        gs = vplib.tlc("NonRevGen", "NonRev.mc.thorough.cfg", workers=1, timeout=120, simulate="num=600", depth=7, seed=chk.seed)
        deep = sorted(set(gs.tagged_raw_json("H")))
        chk.add_tlc(gs, "NonRevGen", "NonRev.mc.thorough.cfg", "%d sampled depth-6 histories (simulation)" % len(deep))
        hs = hs + deep
    # refresh chains: a cached commitment refreshed at least twice before it is used (needs >= 7 operations)
    rc = "NonRev.refresh.%s.cfg" % T
    gr = vplib.tlc_mc("NonRevGen", rc, workers=1, timeout=900)
    chains = sorted(set(gr.tagged_raw_json("H")))
    chk.add_tlc(gr, "NonRevGen", rc, "%d histories ending in a proof whose cached commitment was refreshed >= 2 times" % len(chains))
    if len(chains) < 100:
        raise vplib.Machinery("refresh-chain generator produced only %d histories" % len(chains))
    chp = os.path.join(vplib.sub("c11"), "chains.ndjson")
    open(chp, "w").write("\n".join(chains) + "\n")
    res = vplib.vh("nr", ["replay", "--in", chp, "--tier", T, "--seed", str(chk.seed), "--n", str(len(chains))], timeout=3300)
    chk.add_replay(res, "refresh_chains")
    # rollbacks: the state stored at issuance is read back into the credential in use while a prepared commitment sits in the cache
    pr = vplib.tlc("NonRev", "NonRev.asis.D63.cfg", timeout=300, allow_fail=True)
    if "ReadsTrue" not in pr.invariant_violated:
        raise vplib.Machinery("NonRev: without RecommitOnMismatch the invariant ReadsTrue should be violated (vacuity)")
    gb = vplib.tlc_mc("NonRevGen", "NonRev.rollback.cfg", workers=1, timeout=900)
    rolls = sorted(set(gb.tagged_raw_json("H")))
    chk.add_tlc(gb, "NonRevGen", "NonRev.rollback.cfg", "%d histories ending in a proof from a cached commitment after a rollback" % len(rolls))
    if len(rolls) < 100:
        raise vplib.Machinery("rollback generator produced only %d histories" % len(rolls))
    rp = os.path.join(vplib.sub("c11"), "rollbacks.ndjson")
    open(rp, "w").write("\n".join(rolls) + "\n")
    res = vplib.vh("nr", ["replay", "--in", rp, "--tier", T, "--seed", str(chk.seed), "--n", str(len(rolls))], timeout=3300)
    chk.add_replay(res, "rollbacks")
    cp = os.path.join(vplib.sub("c11"), "hist.ndjson")
    open(cp, "w").write("\n".join(hs) + "\n")
    n = 6000 if thorough else len(hs)
    res = vplib.vh("nr", ["replay", "--in", cp, "--tier", T, "--seed", str(chk.seed), "--n", str(n)], timeout=3300)
    chk.add_replay(res, "history_replay")
    # composition (Gabi.tla): whole life cycles of two holders' credentials - issue, revoke, update, show, sign, combine
    gcfg = "Gabi.mc.%s.cfg" % T
    gg = vplib.tlc_mc("GabiGen", gcfg, workers=1, timeout=1200)
    lives = sorted(set(gg.tagged_raw_json("G")))
    chk.add_tlc(gg, "GabiGen", gcfg, "WitnessSound, RevokedNeverFresh, UpdatedIsFresh; %d life cycles" % len(lives))
    if len(lives) < 1000:
        raise vplib.Machinery("life-cycle generator produced only %d histories" % len(lives))
    lp = os.path.join(vplib.sub("c11"), "lives.ndjson")
    open(lp, "w").write("\n".join(lives) + "\n")
    res = vplib.vh("nr", ["lifecycle", "--in", lp, "--tier", T, "--seed", str(chk.seed), "--n", str(4000 if thorough else 700)], timeout=3300)
    chk.add_replay(res, "life_cycles")
    # the SignedAccumulator object in the witness of a stored credential (SaccMemo.tla), and the entry points of non-revocation proofs
    # on witnesses that were built, stored, or stored incompletely (RevAPI.tla, scenarios "prove")
    ga = vplib.tlc_mc("RevAPIGen", "RevAPI.cfg", workers=1, timeout=300)
    prove = sorted(x for x in set(ga.tagged_raw_json("A")) if '"call":"prove"' in x)
    chk.add_tlc(ga, "RevAPIGen", "RevAPI.cfg", "Total, FailLeavesUnchanged; %d proof-entry scenarios" % len(prove))
    if len(prove) != 12:
        raise vplib.Machinery("%d proof-entry scenarios" % len(prove))
    memostage.run(chk, vplib.sub("c11"), api_scen=prove)
    res = vplib.vh("nr", ["d10", "--tier", T, "--seed", str(chk.seed)], timeout=600)
    chk.add_replay(res, "known_finding_D10")
    chk.exhaustive = not thorough

def replay(chk, path):
    v = json.load(open(path))
    rc = memostage.replay(chk, v, path, vplib.sub("c11"))
    if rc is not None:
        return rc
    if "history" not in v:
        print("no history in replay file"); return 2
    cp = os.path.join(vplib.sub("c11"), "one.ndjson")
    open(cp, "w").write(json.dumps({"hist": v["history"]}) + "\n")
    res = vplib.vh("nr", ["replay", "--in", cp, "--seed", str(chk.seed)])
    bad = [x for x in res["violations"] if x.get("cause") != "other-hidden-response-below-alpha-bound"]
    for x in bad:
        print("VIOLATION property=C11 replay=%s  # %s" % (path, x["what"]))
    return 1 if bad else 0
