"""C05 - CL signatures: valid ones verify, invalid ones never do (CLSig.tla)."""
import os, json, vplib

def run(chk):
    T = chk.tier
    thorough = T == "thorough"
    chk.rule = ("TLC: CLSig.tla - a forger holding the private key makes the signature equation hold for any exponent (toy interval [16,24]: small primes, primes "
                "and composites just outside either end, the ends themselves, primes and composites inside) and any (block, keyshare contribution, key); the verifier "
                "is asked about a tuple one alteration away (entry changed, block extended/truncated, other keyshare contribution, other key), before and after "
                "randomisation; invariants Sound and Complete. Replay: every emitted case is forged for real with the 1024-bit private keys (exponent classes mapped to "
                "the real interval: its exact ends, nearest primes and composites on both sides, a 17-bit prime, an odd composite inside), optionally randomised, "
                "and given to CLSignature.Verify; the harness decides validity itself (interval, primality, normalised block equality). "
                "Every case is judged twice: in a fresh CLSignature object and in an object that held a genuine signature, was verified (accepted) and then "
                "overwritten in place field by field (big integers keep their identity) - the verdict must be a function of the content, not of the object's history. "
                "Plus SignMessageBlock + Randomize + Verify over random blocks of every length up to the number of bases. "
                "Plus CLSign.tla: the ISSUER under every scripted random stream (vTilde chunk all zeros / all ones / other; up to 2 (quick) or 3 (thorough) candidate "
                "chunks fixing the top three bits of the prime offset, all-zero and all-one chunks included): invariants SignerSound (e a prime of its interval), VInRange, "
                "FirstPrime; SysParams.tla: the three parameter sets in use satisfy the constraints of the Idemix specification and leave room, below every size bound of the "
                "verifiers, for the largest honest response (lengths; the arithmetic lemma is checked on small exponents), and on a grid of base parameters the derivation rule "
                "yields admissible parameters exactly when LePrime < Lm + 2 - every derived set is compared with gabikeys.MakeDerivedParameters / DefaultSystemParameters and "
                "the bounds of the defaults are re-evaluated with the real numbers; the Walk = TRUE variant (step upwards from a failed candidate without re-checking the upper end) must violate SignerSound. Replay: "
                "crypto/rand.Reader is replaced by the scripted stream during SignMessageBlock on the real keys; e must be a prime of the real interval, v in "
                "[2^(lv-1), 2^lv), the exponent must be the first scripted candidate that is prime, the signature must verify. Non-trivial = distinct forged case / stream.")
    chk.assumptions = ["[M] vs [H(M)] and trailing-zero blocks are the same block (inherent to the scheme; the spec treats them as equal)",
                       "generic group: the equation holds for no other representation (strong RSA not attacked)", "1024-bit fixed keys"]
    r = vplib.tlc_mc("CLSig", "CLSig.mc.quick.cfg", timeout=900)
    chk.add_tlc(r, "CLSig", "CLSig.mc.quick.cfg", "Sound, Complete over 23 exponents, blocks <= 3")
    r = vplib.tlc("CLSig", "CLSig.nonvacuous.cfg", timeout=300, allow_fail=True)
    if "NoAccept" not in r.invariant_violated:
        raise vplib.Machinery("vacuity check failed")
    if thorough:
        vplib.coverage_check(chk, "CLSig", "CLSig.mc.quick.cfg", timeout=900)
    gen = "CLSig.gen.thorough.cfg" if thorough else "CLSig.gen.quick.cfg"
    g = vplib.tlc("CLSigGen", gen, workers=1, timeout=1800)
    cases = sorted(set(g.tagged_raw_json("C")))
    chk.add_tlc(g, "CLSigGen", gen, "%d cases" % len(cases))
    if len(cases) < 5000:
        raise vplib.Machinery("generator produced only %d cases" % len(cases))
    cp = os.path.join(vplib.sub("c05"), "cases.ndjson")
    open(cp, "w").write("\n".join(cases) + "\n")
    res = vplib.vh("cl", ["forge", "--in", cp, "--tier", T, "--seed", str(chk.seed)], timeout=3000)
    chk.add_replay(res, "forged_signatures")
    res = vplib.vh("cl", ["honest", "--tier", T, "--seed", str(chk.seed)], timeout=1200)
    chk.add_replay(res, "issuer_signatures")
    # the issuer under every scripted random stream (CLSign.tla)
    r = vplib.tlc_mc("CLSign", "CLSign.mc.cfg", timeout=300)
    chk.add_tlc(r, "CLSign", "CLSign.mc.cfg", "SignerSound, VInRange, FirstPrime over every stream of <= 3 candidate chunks")
    r = vplib.tlc("CLSign", "CLSign.walk.cfg", timeout=300, allow_fail=True)
    if "SignerSound" not in r.invariant_violated:
        raise vplib.Machinery("CLSign: the walking variant does not violate SignerSound (vacuity)")
    gen = "CLSign.gen.%s.cfg" % T
    g = vplib.tlc_mc("CLSignGen", gen, workers=1, timeout=300)
    scripts = sorted(set(g.tagged_raw_json("S")))
    chk.add_tlc(g, "CLSignGen", gen, "%d scripted random streams" % len(scripts))
    if len(scripts) < 100:
        raise vplib.Machinery("only %d scripts" % len(scripts))
    sp = os.path.join(vplib.sub("c05"), "scripts.ndjson")
    open(sp, "w").write("\n".join(scripts) + "\n")
    res = vplib.vh("cl", ["streams", "--in", sp, "--tier", T, "--seed", str(chk.seed)], timeout=1800)
    if not res.get("counts", {}).get("scripted-prime=true") or not res.get("counts", {}).get("scripted-prime=false"):
        raise vplib.Machinery("scripted streams are vacuous: %s" % res.get("counts"))
    chk.add_replay(res, "issuer_under_scripted_randomness")
    # the system parameters behind the interval of e and every size bound (SysParams.tla)
    recs = []
    for gflag in ("FALSE", "TRUE"):
        g = vplib.tlc_mc("SysParamsGen", "SysParams.%s.cfg" % gflag, workers=1, timeout=300)
        recs += sorted(set(g.tagged_raw_json("P")))
        chk.add_tlc(g, "SysParamsGen", "SysParams.%s.cfg" % gflag, "DefaultsAdmissible, GridCondition, Lemma")
    pp = os.path.join(vplib.sub("c05"), "params.ndjson")
    open(pp, "w").write("\n".join(recs) + "\n")
    res = vplib.vh("cl", ["params", "--in", pp, "--seed", str(chk.seed)], timeout=300)
    if res["evaluations"] != len(recs) or len(recs) < 90:
        raise vplib.Machinery("parameter replay: %d of %d" % (res["evaluations"], len(recs)))
    chk.add_replay(res, "system_parameters")
    chk.exhaustive = True

def replay(chk, path):
    v = json.load(open(path))
    if "case" not in v or "sig" not in v["case"]:
        print("not a forged-signature case; re-run the check"); return 2
    cp = os.path.join(vplib.sub("c05"), "one.ndjson")
    open(cp, "w").write(json.dumps(v["case"]) + "\n")
    res = vplib.vh("cl", ["forge", "--in", cp, "--seed", str(chk.seed)])
    for x in res["violations"]:
        print("VIOLATION property=C05 replay=%s  # %s" % (path, x["what"]))
    return 1 if res["violations"] else 0
