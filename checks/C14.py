"""C14 - Keyshare protocol: joint proofs complete, server bound to commitment (Keyshare.tla)."""
import os, json, vplib

def run(chk):
    T = chk.tier
    thorough = T == "thorough"
    chk.rule = ("TLC: Keyshare.tla - message-level model of the user/keyshare-server exchange for every builder list (kinds D, U, D+nonrev, D+range over two "
                "participating keys and one non-participating key), context default/other, both flags, and every single alteration of the second message's challenge "
                "inputs (value, commitment, other commitments added/dropped/altered/swapped, key id to another/unknown/none, entries swapped/dropped/duplicated); "
                "invariants Bound, Complete, AlteredNeverReleased. Replay: every emitted case (thorough: a seeded sample of the length-3 space) runs the REAL "
                "functions KeyshareUserCommitmentRequest, NewKeyshareCommitments, KeyshareUserResponseRequest, KeyshareResponse on 1024-bit keys with real credentials; "
                "altered inputs must yield an error and no response; honest runs must release, give equal challenges on both sides and a joint proof list that "
                "verifies with the keyshare labelling. Non-trivial = distinct altered case.")
    chk.assumptions = ["commitment hash idealised as injective in the model", "only 1024-bit keys (no 2048-bit key available offline within the time budget)",
                       "the legacy keyshare generation (KeyshareResponseLegacy, ProofP with P) is exercised for completeness of disclosure builders only (24 runs), not modelled",
                       "honest non-revocation proofs matching known finding D10 are discarded (counted), see DESIGN.md section 8"]
    cfg = "Keyshare.mc.thorough.cfg" if thorough else "Keyshare.mc.quick.cfg"
    g = vplib.tlc_mc("KeyshareGen", cfg, workers=1, timeout=1800)
    if thorough:
        vplib.coverage_check(chk, "KeyshareGen", "Keyshare.mc.quick.cfg", workers=1, timeout=900)
    cases = sorted(set(g.tagged_raw_json("C")))
    chk.add_tlc(g, "KeyshareGen", cfg, "Bound, Complete, AlteredNeverReleased; %d cases emitted" % len(cases))
    if len(cases) < 5000:
        raise vplib.Machinery("generator produced only %d cases" % len(cases))
    cp = os.path.join(vplib.sub("c14"), "cases.ndjson")
    open(cp, "w").write("\n".join(cases) + "\n")
    n = 40000 if thorough else 6000
    res = vplib.vh("ks", ["replay", "--in", cp, "--tier", T, "--seed", str(chk.seed), "--n", str(n)], timeout=3300)
    chk.add_replay(res, "protocol_runs")
    chk.exhaustive = False

def replay(chk, path):
    v = json.load(open(path))
    cp = os.path.join(vplib.sub("c14"), "one.ndjson")
    open(cp, "w").write(json.dumps(v["case"]) + "\n")
    res = vplib.vh("ks", ["replay", "--in", cp, "--seed", str(chk.seed)])
    for x in res["violations"]:
        print("VIOLATION property=C14 replay=%s  # %s" % (path, x["what"]))
    return 1 if res["violations"] else 0
