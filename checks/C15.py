"""C15 - Fiat-Shamir challenge encoding equals its specification (FiatShamirDER.tla)."""
import os, json, vplib


def _gen(chk, thorough):
    cfg = "FiatShamirDER.gen.thorough.cfg" if thorough else "FiatShamirDER.gen.quick.cfg"
    g = vplib.tlc("FiatShamirDERGen", cfg, workers=1, timeout=2400 if thorough else 300, heap="8g",
                  constants={"Seed": str(chk.seed % 10007)})
    return g, cfg


def run(chk):
    T = chk.tier
    thorough = T == "thorough"
    chk.rule = ("TLC (state machine over all pairs of documents (marker, list) with lists of <= 3 boundary values, and over all pairs of single "
                "values of 0..257 bytes): the pre-image SEQUENCE{[BOOLEAN TRUE], INTEGER count, INTEGER values...} written from X.690 on byte "
                "sequences is injective (equal pre-images => same marker, count, order, integers with -0 = 0), no pre-image is a prefix of "
                "another, element encodings are prefix-free; the probe without -0 = 0 must fail. "
                "Generation: TLC prints the pre-image bytes for single values at every byte-length boundary (0..625 bytes, both signs, leading "
                "0x80/0xFF, both markers), SEQUENCE bodies crossing 127/128, 255/256 and 65535/65536 bytes, lists of 0..300 entries (count "
                "127/128/255/256/300), seeded lists of 0..5000-bit entries, the 300 x 5000-bit corner (as segments sliced from the computed "
                "pre-image), the GetHashNumber limb schedule with every limb pre-image, and the IntHashSha256 input. "
                "Replay: crypto/sha256 of TLC's bytes, read as unsigned integer, must equal common.HashCommit / GetHashNumber (sum of limb "
                "hashes shifted by 256*i, no truncation, also recomposed from real HashCommit outputs) / IntHashSha256 on the real code; "
                "perturbed inputs (marker, count, order, one integer) must hash differently on the real code. Real proofs: issuance "
                "(ProofU, ProofS), disclosure proofs, two-proof lists, ProofU+ProofD lists and range-proof disclosures are produced by the "
                "real protocol code for disclosure and signature sessions; what the code reports as context, per-proof ChallengeContribution "
                "in list order and nonce is turned into ChallengePreimage by TLC (FiatShamirDERTrace) and its SHA-256 must be the challenge "
                "inside every proof; reversed proof order / exchanged context and nonce must not. Non-trivial = distinct pre-image with a "
                "marker, a negative, zero or leading-0x80 value, an empty list, or a long-form length; every GetHashNumber case but the "
                "plain one-limb form.")
    chk.assumptions = ["SHA-256 itself is trusted (crypto/sha256 in the harness) and absent from the model",
                       "descriptors of generated values (length, first byte, fill, step, trailing zeros) are expanded to bytes by the same "
                       "formula in TLC and in the harness; for segment-encoded cases TLC asserts that every referenced slice of its pre-image "
                       "equals the magnitude",
                       "injectivity is model-checked on the finite domains named in the rule, not for all lists"]

    # 1. model check
    mc = "FiatShamirDER.mc.thorough.cfg" if thorough else "FiatShamirDER.mc.quick.cfg"
    r = vplib.tlc_mc("FiatShamirDER", mc, timeout=2400 if thorough else 300)
    chk.add_tlc(r, "FiatShamirDER", mc, "TypeOK, Injective, DocPrefixFree, ElemPrefixFree over all pairs of documents")
    r = vplib.tlc_mc("FiatShamirDER", "FiatShamirDER.elems.cfg", timeout=600)
    chk.add_tlc(r, "FiatShamirDER", "FiatShamirDER.elems.cfg", "same invariants over all pairs of single values of 0..257 bytes")
    r = vplib.tlc("FiatShamirDER", "FiatShamirDER.nonvacuous.cfg", timeout=300, allow_fail=True)
    if "InjectiveStrict" not in r.invariant_violated:
        raise vplib.Machinery("vacuity check failed: pre-images of 0 and -0 are not equal in the model")

    # 2. generation
    g, cfg = _gen(chk, thorough)
    chk.add_tlc(g, "FiatShamirDERGen", cfg, "pre-images, limb schedules, IntHashSha256 inputs (Seed=%d)" % (chk.seed % 10007))
    cases = []
    counts = {}
    for tag in ("DER", "GHN", "IH"):
        raw = g.tagged_raw_json(tag)
        counts[tag] = len(raw)
        cases += ['{"t":"%s",' % tag + x[1:] for x in raw]
    need = {"DER": 2000 if thorough else 500, "GHN": 1000 if thorough else 100, "IH": 30}
    for tag in need:
        if counts[tag] < need[tag]:
            raise vplib.Machinery("generator produced only %d %s cases (TLC: %s)" % (counts[tag], tag, g.out[-1500:]))
    chk.extra["generated"] = counts

    # 3. challenges of real proofs: record on the real code, pre-images from TLC
    d = vplib.sub("c15")
    recp = os.path.join(d, "recorded.ndjson")
    rec = vplib.vh("fs", ["record", "--tier", T, "--seed", str(chk.seed), recp], timeout=1200)
    rectext = open(recp).read()
    recs = [json.loads(l) for l in rectext.splitlines() if l.strip()]
    if len(recs) < 30:
        raise vplib.Machinery("only %d challenges of real proofs were recorded" % len(recs))
    t = vplib.tlc("FiatShamirDERTrace", "FiatShamirDER.trace.cfg", workers=1, timeout=900, files={"recorded.ndjson": rectext})
    chk.add_tlc(t, "FiatShamirDERTrace", "FiatShamirDER.trace.cfg", "ChallengePreimage of the recorded real proofs")
    pres = {p["id"]: p for p in t.tagged("PRE")}
    if len(pres) != len(recs):
        raise vplib.Machinery("TLC produced %d pre-images for %d recorded challenges:\n%s" % (len(pres), len(recs), t.out[-2000:]))
    for rc in recs:
        p = pres[rc["id"]]
        cases.append(json.dumps({"t": "PROOF", "id": rc["id"], "what": rc["what"], "marker": rc["marker"], "vals": rc["vals"],
                                 "len": p["len"], "segs": p["segs"], "want": rc["c"], "expect": rc["expect"]}, separators=(",", ":")))
    chk.extra["recorded_challenges"] = rec.get("counts", {})

    # 4. replay on the real code
    cp = os.path.join(d, "cases.ndjson")
    open(cp, "w").write("\n".join(cases) + "\n")
    res = vplib.vh("fs", ["replay", "--in", cp, "--tier", T, "--seed", str(chk.seed)], timeout=1800)
    if res.get("evaluations", 0) != len(cases):
        raise vplib.Machinery("harness executed %d of %d cases" % (res.get("evaluations", 0), len(cases)))
    chk.add_replay(res, "replay")


def replay(chk, path):
    v = json.load(open(path))
    case = v.get("case")
    if not isinstance(case, dict):
        raise vplib.Machinery("replay file holds no complete case (too large); re-run bin/check C15 with VERIF_SEED=%d" % chk.seed)
    d = vplib.sub("c15")
    cp = os.path.join(d, "one.ndjson")
    open(cp, "w").write(json.dumps(case, separators=(",", ":")) + "\n")
    res = vplib.vh("fs", ["replay", "--in", cp, "--seed", str(chk.seed)])
    for x in res["violations"]:
        print("VIOLATION property=C15 replay=%s  # %s" % (path, x["what"]))
    return 1 if res["violations"] else 0
