"""C03 - Linked proofs share one secret key (ProofList.tla, invariant LinkedOK)."""
import C02

def run(chk):
    C02.run_pl(chk, "C03")

replay = C02.replay
