"""C18 - Serialisation round trips preserve meaning; key files stay private (Serial.tla)."""
import os, json, vplib

PARTS = {  # part -> (TLC tag, harness sub-command, minimum number of cases per tier)
    "modes": ("FM", "modes", {"quick": 2000, "thorough": 9000}),
    "messages": ("MSG", "messages", {"quick": 400, "thorough": 400}),
    "keys": ("KEY", "keys", {"quick": 700, "thorough": 3000}),
    "ints": ("INT", "ints", {"quick": 350, "thorough": 450}),
}


def _gen(chk, cfg, tag, note, part):
    """one TLC run per machine: its invariants are checked and its reachable states are printed as cases"""
    g = vplib.tlc_mc("SerialGen", cfg, workers=1, timeout=600)
    chk.add_tlc(g, "SerialGen", cfg, note)
    cases = sorted(set(g.tagged_raw_json(tag)))
    need = PARTS[part][2][chk.tier]
    if len(cases) < need:
        raise vplib.Machinery("generator %s produced only %d cases (expected at least %d)" % (cfg, len(cases), need))
    return cases


def _nonvacuous(cfg, inv, why):
    r = vplib.tlc("Serial", cfg, timeout=300, allow_fail=True)
    if inv not in r.invariant_violated:
        raise vplib.Machinery("vacuity check failed (%s): %s is not violated - %s" % (cfg, inv, why))
    return r


def run(chk):
    T = chk.tier
    chk.rule = (
        "TLC on the four machines of Serial.tla, each explored exhaustively and printed state by state as cases. "
        "(a) WriteToFile of both key types as open(2)/fchmod(2) calls over 9 prior file states (absent; regular or symbolic link to 0644/0666/0400/0600) "
        "x umask 000/022/077 x every sequence of up to MaxOps writes (private/public x overwrite flag): invariant PrivateStaysPrivate, action properties "
        "FailedWriteChangesNothing, NoForceNeverOverwrites; shown non-vacuous by the same model without the fchmod. "
        "(b) every protocol message type x every subset of its optional parts x encoding x {fresh, verified once before sending, one serialised field altered}: "
        "invariants MeaningPreserved, VerdictPreserved, ReceivedStartsBare, HonestAccepted, EverythingDecodes over the classification of not-serialised fields "
        "(restored by verification / recomputed by the decoder / memo); non-vacuous: dropping nonrev.Nu from the restored set violates MeaningPreserved. "
        "(c) key-document grammar: every single mutation leaves the grammar, every error the property demands is a grammar violation. "
        "(d) boundary values through the codecs as transcribed: NonNegativeSurvives, NegativeRefusedByText. "
        "Replay on the real code: (a) each sequence in a fresh temp dir under the case's umask as root, comparing error flag, os.Stat mode bits and kind of content after "
        "every step, and the property itself (private material never group/other accessible); (b) real messages from real issuance/disclosure/revocation runs with the "
        "1024-bit test keys are encoded, decoded into a fresh value, re-encoded (same bytes) and VERIFIED AGAIN: same verdict as the original (also for the altered, rejected "
        "originals) and equal verification-relevant projection incl. the restored fields (Nu, Challenge, alpha, MResponse, accumulator), updates/witnesses/event lists are also "
        "applied (Witness.Update, Update.Prepend) with equal results; (c) documents written by the harness itself from the abstract case go through "
        "New{Public,Private}KeyFrom{XML,Bytes,File}: 'error' => error, no key, no panic; 'ok' => every field equal, and WriteTo/WriteToFile + read back equal again; "
        "(d) every class through JSON string, JSON number, XML, MarshalText, binary and CBOR, byte image cross-checked against the specification's. "
        "Non-trivial = case with an optional part, an alteration, a mutation, a prior file, a boundary value above 1.")
    chk.assumptions = [
        "the process is root (permission checks never fail; the only open(2) error is EEXIST), POSIX semantics of O_EXCL/O_TRUNC/fchmod/umask as transcribed",
        "1024-bit fixed test keys (no smaller SystemParameters exist); keys with more than 6 bases get further bases S^x computed by the harness",
        "an altered message is one assembled from its serialised fields (no stale memo: SignedAccumulator.Accumulator, Nu, Challenge, MResponse cleared)",
        "indices and parent hashes of all but the first event are not serialised; for a chain that does not verify they are compared on the serialised fields only",
        "honest proofs matching the D10 pattern (C11) are redrawn before use",
        "a re-read Witness is verified (Witness.Verify restores SignedAccumulator.Accumulator) before Witness.Update is called on it",
        "what C18 is silent about is not compared: optional elements deleted, '+' signs, negative ExpiryDate, Base_i names out of order (StrictBaseNames = FALSE), "
        "negative values through the byte encodings (MarshalBinary/CBOR carry the magnitude only)",
    ]
    d = vplib.sub("c18")
    results = {}

    # (a) file modes
    cfg = "Serial.a.%s.cfg" % T
    cases = {"modes": _gen(chk, cfg, "FM", "(a) PrivateStaysPrivate, FailedWriteChangesNothing, NoForceNeverOverwrites", "modes")}
    r = _nonvacuous("Serial.a.nofchmod.cfg", "PrivateStaysPrivate", "the invariant does not depend on the fchmod of the overwrite path")
    chk.extra.setdefault("vacuity", {})["a_without_fchmod"] = "PrivateStaysPrivate violated after %d states (expected)" % r.distinct
    # (b) messages
    cases["messages"] = _gen(chk, "Serial.b.cfg", "MSG", "(b) MeaningPreserved, VerdictPreserved, ReceivedStartsBare, HonestAccepted, EverythingDecodes", "messages")
    r = _nonvacuous("Serial.b.norestore.cfg", "MeaningPreserved", "the invariant does not depend on verification restoring the fields that are not serialised")
    chk.extra["vacuity"]["b_without_restoring_Nu"] = "MeaningPreserved violated after %d states (expected)" % r.distinct
    # (c) key documents, (d) integers
    cases["keys"] = _gen(chk, "Serial.c.%s.cfg" % T, "KEY", "(c) UnmutatedConforms, ErrorsAreGrammarViolations, EveryMutationLeavesGrammar", "keys")
    cases["ints"] = _gen(chk, "Serial.d.%s.cfg" % T, "INT", "(d) NonNegativeSurvives, NegativeRefusedByText", "ints")
    chk.exhaustive = True

    observations = {}
    for part in ("modes", "messages", "keys", "ints"):
        path = os.path.join(d, part + ".ndjson")
        open(path, "w").write("\n".join(cases[part]) + "\n")
        res = vplib.vh("ser", [PARTS[part][1], "--in", path, "--tier", T, "--seed", str(chk.seed)], timeout=3000)
        if res.get("evaluations", 0) < len(cases[part]):
            raise vplib.Machinery("harness %s evaluated %d of %d cases" % (part, res.get("evaluations", 0), len(cases[part])))
        chk.add_replay(res, part)
        results[part] = res
        for k, v in (res.get("counts") or {}).items():
            if not k.startswith("violations:"):
                observations["%s/%s" % (part, k)] = v
    if results["messages"].get("counts", {}).get("negative-original", 0) < 100:
        raise vplib.Machinery("fewer than 100 altered originals were rejected: the negative half of the message replay is vacuous")
    # outcomes of what the property is silent about, and observations that are kept out of the verdict
    chk.extra["observations"] = observations
    chk.extra["notes"] = [
        "a Witness re-read from JSON/CBOR has SignedAccumulator.Accumulator = nil; Witness.Update on it dereferences nil (revocation/proof.go:302) "
        "unless Witness.Verify(pk) was called first - API precondition, the replay always verifies first",
        "Bases children are read in document order whatever their names are (xml:\",any\"): Base_1 before Base_0 is accepted and yields swapped bases "
        "(counted under keys/any:pub:misnumber)",
        "big.Int MarshalBinary / CBOR of a negative value carry the magnitude only (counted under ints/negative-bytes:*)",
    ]


def replay(chk, path):
    v = json.load(open(path))
    part = v.get("part")
    if part not in PARTS:
        raise vplib.Machinery("replay file names no part: %s" % path)
    d = vplib.sub("c18")
    cp = os.path.join(d, "one.ndjson")
    open(cp, "w").write(json.dumps(v["case"]) + "\n")
    res = vplib.vh("ser", [PARTS[part][1], "--in", cp, "--tier", chk.tier, "--seed", str(chk.seed)])
    n = 0
    for x in res["violations"]:
        known = any(kf.get("status") == "known" and kf["property"] == "C18" and vplib._match(kf.get("match", {}), x) for kf in vplib.known_findings())
        if known:
            print("KNOWN-FINDING: property=C18 %s" % x["what"][:300])
            continue
        n += 1
        print("VIOLATION property=C18 replay=%s  # %s" % (path, x["what"][:300]))
    return 1 if n else 0
