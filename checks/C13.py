"""C13 - Every true supported inequality is provable (RangeStmt.tla, part a: Complete)."""
import json, os
import vplib
from C12 import probes

PROBES = [("RangeStmt.asis.D7.cfg", "Complete", "sign-unaware three-square rescaling: m = bound unprovable for <= (D7)")]


def run(chk):
    T = chk.tier
    thorough = T == "thorough"
    chk.rule = ("TLC: state machine over the box; invariant Complete - for every statement (both signs, factors 1..AMax with four squares, factor 1 with "
                "three) that holds for m within the splitter's limits: Delta >= 0, Delta = 2 mod 4 for three squares, Delta is a sum of 3|4 squares "
                "(table limit on the scaled value), the descriptor passes ExtractOK, Proves(Desc(stmt), stmt), Proven(Desc(stmt)) = stmt; a false "
                "statement has Delta < 0. Replay: every (statement, m) of the box within a window around the boundary (thorough: the whole box) "
                "goes through Credential.CreateDisclosureProof / ProofD.Verify / Proof.Proves with a SquaresTable of the model's limit and must "
                "behave as the specification says (true and in limits => created, verifies, reported proven; false => error); plus a seeded "
                "volume run on real credentials: dense window of differences around 0 for factors 1..8, both signs, both splitters, 1..4 "
                "statements per proof on 1..3 attributes incl. 2^256-1 and word-boundary values, random differences up to 2^256, false "
                "statements, edge factors (0, 2^62+1, 2^63-1, 2^63, 2^64-1) and signs (0, 2); every entry of the squares tables and every "
                "n below 2^16 (thorough 2^20) through SumFourSquares against sum of squares = n. Non-trivial = boundary, false, out-of-limit "
                "or combined statements.")
    chk.assumptions = ["documented limits: four squares: difference < 2^256 (l_d = 128); three squares: 4*difference + 2 <= table limit (the code's bound, note N1)",
                       "fixed 1024-bit keys (both pairs, chosen by seed parity); attributes are non-negative and at most Lm bits",
                       "a proof whose K is negative exists in memory only (gabi's big.Int does not marshal negative numbers); it is verified in memory"]
    cfg = "RangeStmt.complete.%s.cfg" % T
    r = vplib.tlc_mc("RangeStmt", cfg, timeout=900)
    chk.add_tlc(r, "RangeStmt", cfg, "Complete, RootsFit over the box")
    probes(chk, "RangeStmt", PROBES)

    gcfg = "RangeStmt.gen.stmts.%s.cfg" % T
    g = vplib.tlc("RangeStmtGen", gcfg, workers=1, timeout=900)
    chk.add_tlc(g, "RangeStmtGen", gcfg, "statements of the box with the expected prover outcome")
    stmts = sorted(set(g.tagged_raw_json("STMT")))
    if len(stmts) < 1000:
        raise vplib.Machinery("statement generator produced only %d records" % len(stmts))
    d = vplib.sub("c13")
    sp = os.path.join(d, "stmts.ndjson")
    open(sp, "w").write("\n".join(stmts) + "\n")
    n = 60000 if thorough else 3000
    res = vplib.vh("rp", ["complete", "--in", sp, "--n", str(n), "--tier", T, "--seed", str(chk.seed)], timeout=3600)
    c = res.get("counts", {})
    if c.get("stmt-table", 0) != len(stmts) or c.get("statements", 0) < n or c.get("table-entries", 0) < 60000 or c.get("large-splits", 0) < 1000:
        raise vplib.Machinery("volume run incomplete: %s" % c)
    chk.add_replay(res, "complete")
    if c.get("descriptor-differs-from-specification", 0):
        print("NOTE C13: %d honest descriptors differ from Desc() of RangeStmt.tla (counted only)" % c["descriptor-differs-from-specification"])
    chk.exhaustive = thorough


def replay(chk, path):
    v = json.load(open(path))
    d = vplib.sub("c13")
    one = os.path.join(d, "one.ndjson")
    open(one, "w").write(json.dumps(v["case"]) + "\n" if "case" in v else "")
    n = v.get("job", 0) + 1 if "job" in v else 1
    res = vplib.vh("rp", ["complete", "--in", one, "--n", str(max(n, 400)), "--seed", str(v.get("seed", chk.seed))])
    for x in res["violations"]:
        print("VIOLATION property=C13 replay=%s  # %s" % (path, x["what"][:300]))
    return 1 if res["violations"] else 0
