"""C16 - Generated issuer keys are well-formed; generation terminates and leaves no worker running
(KeyGen.tla, SafePrimeWorkers.tla)."""
import json, os, random, re
from concurrent.futures import ThreadPoolExecutor
import vplib

# as-is switches and vacuity guards: each configuration must violate the named property
PROBES = [("SafePrimeWorkers", "SafePrimeWorkers.asis.D11.cfg", "NoSendAfterAbandon", "bare `ints <- x` after the stop check (code before fix D11): workers stay in the send"),
          ("SafePrimeWorkers", "SafePrimeWorkers.asis.D24.cfg", "NoDoubleClose", "unprotected close(stopped) in monitor and failing workers (code before fix D24)"),
          ("SafePrimeWorkers", "SafePrimeWorkers.vacuity.cfg", "NeverGivesUpInSend", "some worker leaves its send through the stopped case"),
          ("SafePrimeWorkers", "SafePrimeWorkers.vacuity2.cfg", "NeverFullWhenAbandoned", "the consumer can return while ints is full and every worker is about to send"),
          ("KeyGen", "KeyGen.nonvacuous.cfg", "NeverReturns", "some stream makes the consumer return a pair"),
          ("KeyGen", "KeyGen.nonvacuous2.cfg", "NeverStoresTwo", "some stream makes the consumer store two candidates")]

# schedule generators: (cfg, consumer mode, minimum number of states expected, how many to replay in the quick tier; None = all)
GENS = [("SafePrimeWorkers.gen.real2.cfg", "real", 400, None, None),
        ("SafePrimeWorkers.gen.ext2.cfg", "ext", 450, None, None),
        ("SafePrimeWorkers.gen.real3.cfg", "real", 1500, 700, None),
        ("SafePrimeWorkers.gen.ext3.cfg", "ext", 2000, 400, None),
        ("SafePrimeWorkers.gen.realerr2.cfg", "real", 1500, 500, None),
        ("SafePrimeWorkers.gen.exterr2.cfg", "ext", 2500, 500, None),
        ("SafePrimeWorkers.gen.realerr3.cfg", "real", 15000, 0, 10000)]   # last column: cap in the thorough tier


def probes(chk):
    def one(p):
        return vplib.tlc(p[0], p[1], timeout=300, allow_fail=True, workers=2, name="probe-" + p[1])
    with ThreadPoolExecutor(max_workers=len(PROBES)) as ex:
        rs = list(ex.map(one, PROBES))
    for p, r in zip(PROBES, rs):
        if p[2] not in r.invariant_violated + r.property_violated:
            raise vplib.Machinery("probe %s: expected a violation of %s (%s), got %s %s %s" %
                                  (p[1], p[2], p[3], r.invariant_violated, r.property_violated, r.error))
        chk.extra.setdefault("probes", []).append({"cfg": p[1], "violates": p[2], "meaning": p[3], "wall_s": round(r.wall, 1)})


def schedules(chk, T, seed, with_errors):
    """TLC prints one schedule per distinct state of SafePrimeWorkers (shortest path, VIEW vars); choose what is replayed."""
    thorough = T == "thorough"
    gens = [g for g in GENS if thorough or g[3] != 0]
    def one(g):
        return vplib.tlc("SafePrimeWorkersGen", g[0], workers=1, timeout=900, name="gen-" + g[0])
    with ThreadPoolExecutor(max_workers=4) as ex:
        rs = list(ex.map(one, gens))
    rnd = random.Random(seed)
    chosen, info = [], []
    for g, r in zip(gens, rs):
        S = r.tagged("S")
        if len(S) < g[2] or r.distinct != len(S):
            raise vplib.Machinery("schedule generator %s printed %d schedules for %d distinct states (expected at least %d)" %
                                  (g[0], len(S), r.distinct, g[2]))
        if not any(s["leaksetup"] for s in S):
            raise vplib.Machinery("schedule generator %s: no schedule reaches the leak set-up state" % g[0])
        chk.add_tlc(r, "SafePrimeWorkersGen", g[0], "%d schedules (one per distinct state), %s consumer" % (len(S), g[1]))
        for s in S:
            s["mode"] = g[1]
        if not with_errors:
            S = [s for s in S if not any(st["a"] == "GenErr" for st in s["sched"])]
        cap = g[4] if thorough else g[3]
        if cap is not None and len(S) > cap:
            must = [s for s in S if s["leaksetup"]]
            rest = [s for s in S if not s["leaksetup"]]
            S = must + rnd.sample(rest, max(0, cap - len(must)))
        info.append({"cfg": g[0], "consumer": g[1], "states": r.distinct, "replayed": len(S)})
        chosen += S
    chk.extra["schedule_sets"] = info
    return chosen


def run(chk):
    T = chk.tier
    thorough = T == "thorough"
    chk.rule = ("TLC (a) KeyGen.tla: the consumer loop of generateSafePrimePair and findMatch, transcribed, over EVERY stream of candidate safe primes "
                "(16 classes: p' mod 8 x toy magnitude, product lengths exact) up to the bound: a returned pair has the lengths, residues, distinctness "
                "of WellFormed and keyproof.CanProve's condition, comes from >= 2 candidates, and no usable pair is ever overlooked; "
                "(b) SafePrimeWorkers.tla: workers, monitor, consumer of safeprime.GenerateConcurrent, one action per channel operation, all interleavings, "
                "all stop timings (consumer satisfied after 1..k primes, external stop at any moment, failing Generate calls): no deadlock, NoDoubleClose, "
                "NoSendAfterAbandon, StopDiscipline, and under weak fairness Termination and NoLeak. "
                "Replay: one schedule per distinct model state (TLC, shortest path) is established on the real goroutines through the blocking hooks "
                "(what Generate returns - which safe prime, or an error - is dictated through crypto/rand.Reader so that the real consumer decides as the schedule says), "
                "then all gates open and every goroutine of the pool must end; includes the states that leaked before fix D11. "
                "Record: key pairs at 128..512 (1024) bit moduli, 1..20 attributes, sequential and concurrent; every candidate decision (hook) and every key's "
                "WellFormed projection (math/big, private key) is decided by KeyGenTrace.tla; afterwards no pool goroutine may exist. "
                "Error path in child processes with a failing entropy source. Non-trivial = distinct model state established / distinct (length, attributes, residue pattern) of a key.")
    chk.assumptions = ["safe primes are recognised by math/big ProbablyPrime (24 rounds + Baillie-PSW)",
                       "Z, R_i in <S> is decided as: S has order p'q' (so <S> = QR_n) and the base is a square modulo p and q",
                       "gate replays run at 32-bit safe primes; goroutine identity is the id parsed from runtime.Stack",
                       "two ready cases of one select cannot be steered; such runs are counted as diverged and continue unsteered (still leak-checked)",
                       "P-256 ECDSA and crypto/rand are trusted"]
    # 1. model checking
    r = vplib.tlc_mc("KeyGen", "KeyGen.mc.%s.cfg" % T, timeout=900)
    chk.add_tlc(r, "KeyGen", "KeyGen.mc.%s.cfg" % T, "all candidate streams up to MaxLen")
    mcs = (["mc.thorough", "mc4.thorough", "err.thorough", "err4.thorough"] if thorough else ["mc.quick", "mc3.quick", "err.quick", "err3.quick"])
    def mc(c):
        return vplib.tlc_mc("SafePrimeWorkers", "SafePrimeWorkers.%s.cfg" % c, timeout=1500, workers=max(2, vplib.NCPU // 4), name="mc-" + c)
    with ThreadPoolExecutor(max_workers=4) as ex:
        rs = list(ex.map(mc, mcs))
    for c, r in zip(mcs, rs):
        if "Checking temporal properties" not in r.out and "temporal properties" not in r.out:
            raise vplib.Machinery("SafePrimeWorkers.%s.cfg: TLC did not check the temporal properties" % c)
        chk.add_tlc(r, "SafePrimeWorkers", "SafePrimeWorkers.%s.cfg" % c, "deadlock, invariants, Termination + NoLeak under weak fairness")
    probes(chk)

    # 2. error path on the real code (child processes): must return the error, survive, leave nothing behind
    ep = vplib.vh("kg", ["errpath", "--n", "24" if thorough else "8", "--tier", T, "--seed", str(chk.seed)], timeout=900)
    chk.add_replay(ep, "error_path")
    double_close = any(v.get("kind") in ("errpath-double-close", "errpath-panic") for v in ep.get("violations", []))

    # 3. volume: real code -> spec (before the gate replay: if the consumer loop itself deviates from KeyGen.tla, that is said here)
    trace = os.path.join(vplib.sub("c16"), "trace.ndjson")
    nk = 5000 if thorough else 250
    wtrace = os.path.join(vplib.sub("c16"), "wtrace.ndjson")
    # the worker's search step of SafePrimeWorkers.tla ends when the pool is stopped: timed at the sizes of real keys
    sl = vplib.vh("kg", ["stoplat", "--tier", T, "--seed", str(chk.seed)], timeout=600)
    if not sl["violations"] and (sl.get("counts", {}).get("stoplat:pool-gone", 0) != 2 or sl.get("counts", {}).get("stoplat:generate-returned", 0) != 2):
        raise vplib.Machinery("stop latency run incomplete: %s" % sl.get("counts"))
    chk.add_replay(sl, "stop_latency")
    vol = vplib.vh("kg", ["volume", "--n", str(nk), "--tier", T, "--seed", str(chk.seed), trace, wtrace], timeout=3000)
    chk.add_replay(vol, "volume")
    # 3a. every real worker goroutine's hook sequence must be a path of the worker process of SafePrimeWorkers.tla
    wt = vplib.tlc("SafePrimeWorkersTrace", "SafePrimeWorkers.wtrace.cfg", workers=1, timeout=900, xss="1g",
                   files={"wtrace.ndjson": open(wtrace).read()}, allow_fail=True)
    nw = sum(1 for _ in open(wtrace))
    chk.add_tlc(wt, "SafePrimeWorkersTrace", "SafePrimeWorkers.wtrace.cfg", "%d recorded worker goroutines" % nw)
    wrej = "WORKER TRACE REJECTED" in wt.out
    if wt.error and not wrej:
        raise vplib.Machinery("worker trace validation crashed: %s\n%s" % (wt.error, wt.out[-2000:]))
    worker_diverges = False
    if wrej:
        # find the first sequence that is not a path of the worker automaton (same automaton, used only to NAME the culprit)
        D = {("gen", "gen-ok"): "chk", ("gen", "gen-err"): "errsend0", ("chk", "stopped1"): "done", ("chk", "send-before"): "snd",
             ("snd", "send-after"): "gen", ("snd", "stopped2"): "done", ("errsend0", "err-before"): "errsend", ("errsend", "err-close"): "done"}
        culprit = None
        for ln in open(wtrace):
            pc = "gen"
            seq = json.loads(ln)["seq"]
            for k, e in enumerate(seq):
                pc = D.get((pc, e))
                if pc is None:
                    culprit = {"sequence": seq[:k + 1][-8:], "position": k}
                    break
            if culprit:
                break
        worker_diverges = True
        chk.add_violation({"kind": "worker-behaviour-not-in-spec",
                           "what": "a safe-prime worker goroutine took a step that SafePrimeWorkers.tla does not allow (e.g. reached its next Generate call or a send "
                                   "without passing the stop check / the guarded send): %s" % culprit, "culprit": culprit, "seed": chk.seed})
    else:
        chk.traces += nw
    tv = vplib.tlc("KeyGenTrace", "KeyGen.trace.cfg", workers=1, timeout=1500, xss="1g",
                   files={"trace.ndjson": open(trace).read()}, allow_fail=True)
    nev = sum(1 for _ in open(trace))
    chk.add_tlc(tv, "KeyGenTrace", "KeyGen.trace.cfg", "%d recorded events of %d key generations" % (nev, nk))
    rejected = "TRACE REJECTED" in tv.out
    if tv.error and not rejected:
        raise vplib.Machinery("trace validation crashed: %s\n%s" % (tv.error, tv.out[-3000:]))
    if rejected:
        m = re.search(r'"TRACE REJECTED at line",\s*(\d+)', tv.out)
        line = int(m.group(1)) if m else 0
        lines = open(trace).read().splitlines()
        ev = json.loads(lines[line - 1]) if 0 < line <= len(lines) else None
        ctx = [json.loads(x) for x in lines[max(0, line - 8):line]]
        what = "a recorded key generation is not a behaviour of KeyGen.tla"
        if ev and ev.get("ev") == "cand":
            what = ("generateSafePrimePair took a decision KeyGen.tla does not take (or got a candidate safeprime.Generate must not deliver): "
                    "decision %s match %s on candidate p'=%s p=%s mod 8, %s bits, %s stored" % (ev["dec"], ev["match"], ev["pp8"], ev["p8"], ev["bits"], ev["nstored"]))
        elif ev and ev.get("ev") == "key":
            what = "a generated key does not satisfy WellFormed (or is not made of the pair the consumer loop chose): Ln=%s, %s attributes" % (ev["ln"], ev["nAttr"])
        # the harness reports a malformed key with a readable reason as well: one violation record per cause is enough
        if not (ev and ev.get("ev") == "key" and any(v.get("kind") == "not-wellformed" for v in vol.get("violations", []))):
            chk.add_violation({"kind": "recorded-keygen-rejected", "what": what, "event": ev, "events_before": ctx, "line": line,
                               "seed": chk.seed, "trace_cmd": "kg volume --n %d --tier %s --seed %d" % (nk, T, chk.seed), "tlc_tail": tv.out[-1500:]})
    else:
        chk.traces += nk
        chk.evaluations += nev
    # 4. schedules: spec -> real goroutines
    if worker_diverges:
        chk.extra["gate_replay"] = "skipped: the workers' control flow is not the specification's (reported above)"
        return
    S = schedules(chk, T, chk.seed, with_errors=not double_close)
    if len(S) < 1500:
        raise vplib.Machinery("only %d schedules to replay" % len(S))
    sp = vplib.write_ndjson(os.path.join(vplib.sub("c16"), "schedules.ndjson"), S)
    try:
        res = vplib.vh("kg", ["gates", "--in", sp, "--tier", T, "--seed", str(chk.seed)], timeout=3000)
    except vplib.Machinery as e:
        # a schedule that cannot be established is a machinery problem - unless the code has already been shown to deviate
        # from the specification in this run, which explains why the prepared candidates no longer steer it
        if not chk.violations:
            raise
        print("NOTE C16: gate replay abandoned (%s); the run already has violations" % str(e).splitlines()[0][:200])
        chk.extra["gate_replay_abandoned"] = str(e)[-1500:]
        return
    chk.add_replay(res, "gate_replay")
    if "stopped_early_after" not in res.get("notes", {}) and not any(k.startswith("leak-setup") for k in res.get("counts", {})):
        raise vplib.Machinery("gate replay did not run a leak set-up schedule")

    chk.extra["divergences"] = {k: v for k, v in res.get("counts", {}).items() if k.startswith("diverged")}


def replay(chk, path):
    v = json.load(open(path))
    if "case" in v:   # a schedule of the gate replay
        p = vplib.write_ndjson(os.path.join(vplib.sub("c16"), "one.ndjson"), [v["case"]])
        res = vplib.vh("kg", ["gates", "--in", p, "--seed", str(chk.seed)])
    elif v.get("kind", "").startswith("errpath"):
        res = vplib.vh("kg", ["errpath", "--n", "8", "--seed", str(chk.seed)])
    else:
        print("this violation comes from randomised key generation; re-run: VERIF_SEED=%s bin/check C16 --tier %s" % (v.get("seed"), chk.tier))
        return 2
    for x in res["violations"]:
        print("VIOLATION property=C16 replay=%s  # %s" % (path, x["what"][:300]))
    return 1 if res["violations"] else 0
