"""C07 - Proof randomness is never reused (Randomness.tla, NonrevCache.tla)."""
import os, json, vplib, cprngstage

def run(chk):
    T = chk.tier
    thorough = T == "thorough"
    chk.rule = ("TLC: Randomness.tla - all sequences of up to 3 (thorough 5) operations {prepare cache, update witness, prove with/without non-revocation, "
                "two-credential session, issuance commitment} on two credentials with every randomiser a fresh identifier; invariants NoReuse, SingleConsumer, "
                "NotAlsoCached; NonrevCache.tla - every interleaving of 2 preparers and 2 provers on the cache (SingleConsumer, NoSharedHold, NotAlsoCached). "
                "Replay: every emitted sequence (thorough: seeded sample) runs on real credentials (1024-bit keys); through verif accessors the harness collects "
                "every commitment randomiser (e, v, attributes, session secret-key randomiser, v', blind shares, alpha) and randomised element (A', C_r, C_u, U) of every "
                "proof and requires pairwise distinctness, requires each NonRevocationProofBuilder (pointer) to be consumed by one proof only, and runs the "
                "two-transcript extractor over ALL pairs of proofs of a credential ((s1-s2)/(c1-c2) must not be a hidden value). All 1,120 interleavings of the "
                "cache protocol are established on real goroutines through blocking hooks (thorough: 10,080 with 3 provers, sampled) with the outcome of every "
                "step (received from cache / built / stored / discarded, which builder) compared with the spec. CPRNG.tla / CPRNGTrace.tla: concurrent goroutines read "
                "the fast generator (the source of the non-revocation randomisers) with a known seed; the recorded keystream reservations must tile the keystream "
                "without overlap (an overlap = the same randomness handed out twice). Non-trivial = distinct sequence or schedule.")
    chk.assumptions = ["statistical quality of the randomness is not examined, only reuse", "re-using one builder object for two CreateProof calls is API misuse, not explored",
                       "1024-bit keys"]
    cfg = "Randomness.mc.%s.cfg" % T
    g = vplib.tlc_mc("RandomnessGen", cfg, workers=1, timeout=900)
    seqs = sorted(set(g.tagged_raw_json("S")))
    chk.add_tlc(g, "RandomnessGen", cfg, "NoReuse, SingleConsumer, NotAlsoCached; %d sequences" % len(seqs))
    if thorough:
        vplib.coverage_check(chk, "RandomnessGen", "Randomness.mc.quick.cfg", workers=1, timeout=600)
        vplib.coverage_check(chk, "NonrevCache", "NonrevCache.mc.quick.cfg", ignore=("PMake",), timeout=900)
    mc = "NonrevCache.mc.%s.cfg" % T
    r = vplib.tlc_mc("NonrevCache", mc, timeout=1800)
    chk.add_tlc(r, "NonrevCache", mc, "cache protocol, all interleavings")
    if len(seqs) < 1000:
        raise vplib.Machinery("generator produced only %d sequences" % len(seqs))
    d = vplib.sub("c07")
    sp = os.path.join(d, "seqs.ndjson")
    open(sp, "w").write("\n".join(seqs) + "\n")
    n = 4000 if thorough else len(seqs)
    res = vplib.vh("cc", ["reuse", "--in", sp, "--tier", T, "--seed", str(chk.seed), "--n", str(n)], timeout=3000)
    chk.add_replay(res, "operation_sequences")
    gen = "NonrevCacheSched.gen3.cfg" if thorough else "NonrevCacheSched.gen.cfg"
    gs = vplib.tlc_mc("NonrevCacheSched", gen, workers=1, timeout=900)
    scheds = gs.tagged_raw_json("SCHED")
    chk.add_tlc(gs, "NonrevCacheSched", gen, "%d schedules" % len(scheds))
    if len(scheds) < 1000:
        raise vplib.Machinery("schedule generator produced only %d schedules" % len(scheds))
    cp = os.path.join(d, "scheds.ndjson")
    open(cp, "w").write("\n".join(scheds) + "\n")
    n = 2500 if thorough else 400
    res = vplib.vh("cc", ["gates", "--in", cp, "--tier", T, "--seed", str(chk.seed), "--n", str(n)], timeout=3000)
    chk.add_replay(res, "cache_schedules")
    # the fast generator behind the non-revocation randomisers under concurrent readers: no two reads may get the same keystream
    r = vplib.tlc_mc("CPRNG", "CPRNG.mc.cfg", timeout=600)
    chk.add_tlc(r, "CPRNG", "CPRNG.mc.cfg", "NoKeystreamOverlap, GapFree")
    cprngstage.run(chk, d, race=True)

def replay(chk, path):
    print("re-run bin/check C07 with VERIF_SEED=%d to reproduce" % chk.seed)
    return 2
