"""C12 - Range proofs never establish a false inequality (RangeStmt.tla, parts a and b)."""
import json, os
from concurrent.futures import ThreadPoolExecutor
import vplib, zkstage

# as-is switches of RangeStmt.tla: each configuration must violate the named invariant (shows that the
# invariants are not vacuous and that the model sees the defect the switch stands for)
PROBES = [("RangeStmt.asis.D16.cfg", "Sound", "factor >= 2^(W-1) not refused (D16)"),
          ("RangeStmt.asis.D19.cfg", "Sound", "queried factor wraps in ProvesStatement (D19)"),
          ("RangeStmt.asis.D6.cfg", "AttachSound", "range proofs off the hidden indices not refused (D6)"),
          ("RangeStmt.asis.D6p.cfg", "NoPanic", "range proof on a disclosed index below the largest hidden one panics (D6)"),
          ("RangeStmt.asis.D23.cfg", "AttachSound", "structures memoised in a ProofD object survive a change of the carried range proofs (D23)"),
          ("RangeStmt.asis.M.cfg", "AttachSound", "m-response of the range proof not overridden"),
          ("RangeStmt.asis.D27.cfg", "AttachSound", "range proof commitments C_i = 0 mod n not refused (D27)"),
          ("RangeStmt.vacuity.cfg", "NothingAccepted", "some proof is accepted"),
          ("RangeStmt.vacuity2.cfg", "OnlyHonestAccepted", "a benign alteration (l_d) is accepted")]


def probes(chk, module, plist):
    vplib.scratch()
    def one(p):
        return vplib.tlc(module, p[0], timeout=600, allow_fail=True, name="probe-" + p[0])
    with ThreadPoolExecutor(max_workers=len(plist)) as ex:
        rs = list(ex.map(one, plist))
    for p, r in zip(plist, rs):
        if p[1] not in r.invariant_violated:
            raise vplib.Machinery("probe %s: expected a violation of %s (%s), got %s %s" % (p[0], p[1], p[2], r.invariant_violated, r.error))
        chk.extra.setdefault("probes", []).append({"cfg": p[0], "violates": p[1], "meaning": p[2], "wall_s": round(r.wall, 1)})


def warn_divergence(chk, res, label):
    n = res.get("notes", {}).get("divergences", 0)
    if n:
        print("NOTE %s: %d table entries of the real code differ from RangeStmt.tla (counted only: verdicts come from the integer semantics) "
              "- the specification no longer transcribes the code exactly: %s" % (label, n, {k: v for k, v in res["notes"].items() if k.startswith("divergence_")}))


def run(chk):
    T = chk.tier
    chk.rule = ("TLC: (a) state machine over the box (m, K, A incl. word-size edge values, sign in {-1,0,1,2}, 3|4 squares, l_d): invariant Sound - "
                "for every descriptor passing the transcribed ExtractStructure checks and every m for which its own statement is established, "
                "Proven(d) holds for m and Proves(d,q) => Holds(q,m) for every query q (all word values as factors); (b) attachment adversary "
                "(move to hidden/disclosed/non-existent/beyond-largest/negative index, duplicate, drop, reorder, transplant between credentials and "
                "inside one ProofList, cheating prover hashing a range proof for another value, every single-field alteration, the same on a ProofD object "
                "that verified the honest proof before - altered in place or re-used for decoding): invariants AttachSound, NoPanic. "
                "Replay: the complete Proves/Proven/ExtractOK tables are run through rangeproof.Proof.ProvesStatement/ProvenStatement/ExtractStructure "
                "(64-bit values substituted for toy word values) and judged by integer semantics for every m of the box; every attachment case is "
                "materialised on real credentials (1024-bit) and real ProofDs and must get the specification's verdict from ProofD.Verify and "
                "ProofList.Verify (in memory and after JSON); after acceptance ProvenStatement/ProvesStatement are checked against the signed value. "
                "Plus RangeFS.tla: the range proof as a game over small integers with the ORDER of the prover's choices explicit - with the commitments C_i in the hash no first "
                "move lets every challenge be answered with a false statement and a challenge that does not divide the prover's fixed quantity can only be answered with a true one; "
                "without them (D44) TLC finds the forgery. Replay: a prover that hashes T_m, T_i with known exponents, gets c and THEN solves for d_i (C_i = R^d_i) and K builds 14 "
                "false statements ('any bound' and exact bounds, both signs), through JSON, against ProofD.Verify / ProofList.Verify. "
                "Plus ZkProof.tla (Qr variant): the representation-proof engine the range proofs are built on, in a concrete toy group (n = 77) in which TLC does the "
                "arithmetic itself - four statement shapes incl. those of the range proof (C_i = R^d S^v, the m-correctness equation) with prover-supplied bases ranging over "
                "ALL residues incl. 0 and non-units; invariants Complete, Absorbing (a supplied base 0 makes the reconstructed commitment 0 whatever the responses: D27); "
                "every case (13,824) is evaluated by the real zkproof engine and commitment / reconstructed commitments are compared exactly. "
                "Non-trivial = descriptor passing ExtractOK / manipulated proof / engine case.")
    chk.assumptions = ["the Fiat-Shamir hash and the representation proofs are idealised in the model (a reconstructed commitment equals the hashed one iff "
                       "challenge, base, responses and descriptor are the ones it was built with); the harness uses the real ones",
                       "machine words are modelled at W = 9 bits; scale separation (quarter word > every bound of the box) is asserted in the module",
                       "fixed 1024-bit keys; both credentials of a case are under the same public key and secret (strongest transplant position)",
                       "a range proof with negative K cannot be sent as JSON (big.Int refuses negative numbers): such cases are verified in memory only"]
    r = vplib.tlc_mc("RangeStmt", "RangeStmt.sound.%s.cfg" % T, timeout=900)
    chk.add_tlc(r, "RangeStmt", "RangeStmt.sound.%s.cfg" % T, "Sound over the box")
    r = vplib.tlc_mc("RangeStmt", "RangeStmt.att.%s.cfg" % T, timeout=900)
    chk.add_tlc(r, "RangeStmt", "RangeStmt.att.%s.cfg" % T, "AttachSound, NoPanic")
    probes(chk, "RangeStmt", PROBES)

    d = vplib.sub("c12")
    g = vplib.tlc("RangeStmtGen", "RangeStmt.gen.rows.%s.cfg" % T, workers=1, timeout=900)
    chk.add_tlc(g, "RangeStmtGen", "RangeStmt.gen.rows.%s.cfg" % T, "Proves/Proven/ExtractOK tables")
    box, rows = g.tagged_raw_json("BOX"), sorted(set(g.tagged_raw_json("ROW")))
    if len(box) < 1 or len(rows) < 8000:
        raise vplib.Machinery("table generator produced %d rows, %d box records" % (len(rows), len(box)))
    rp = os.path.join(d, "rows.ndjson")
    open(rp, "w").write(box[0] + "\n" + "\n".join(rows) + "\n")
    res = vplib.vh("rp", ["tables", "--in", rp, "--tier", T, "--seed", str(chk.seed)], timeout=1800)
    if res.get("notes", {}).get("comparisons", 0) < 10 ** 7:
        raise vplib.Machinery("table replay made only %s comparisons" % res.get("notes", {}).get("comparisons"))
    chk.add_replay(res, "tables")
    warn_divergence(chk, res, "C12 tables")

    g = vplib.tlc("RangeStmtGen", "RangeStmt.gen.att.%s.cfg" % T, workers=1, timeout=1800)
    chk.add_tlc(g, "RangeStmtGen", "RangeStmt.gen.att.%s.cfg" % T, "attachment cases with verdicts")
    cases = sorted(set(g.tagged_raw_json("CASE")))
    if len(cases) < 5000:
        raise vplib.Machinery("attachment generator produced only %d cases" % len(cases))
    cp = os.path.join(d, "cases.ndjson")
    open(cp, "w").write("\n".join(cases) + "\n")
    res = vplib.vh("rp", ["attach", "--in", cp, "--tier", T, "--seed", str(chk.seed)], timeout=3600)
    skipped = res.get("counts", {}).get("case-skipped-unprovable", 0)
    if skipped * 5 > len(cases):
        raise vplib.Machinery("%d of %d attachment cases could not be set up (honest proof creation failed); see C13" % (skipped, len(cases)))
    if res.get("counts", {}).get("expect:accept", 0) < 100 or res.get("counts", {}).get("expect:reject", 0) < 1000:
        raise vplib.Machinery("attachment replay is vacuous: %s" % res.get("counts"))
    chk.add_replay(res, "attachment")
    # what the challenge covers (RangeFS.tla): a prover that chooses the C_i and the bound after the challenge
    r = vplib.tlc_mc("RangeFSGen", "RangeFS.fixed.cfg", workers=1, timeout=600)
    fs = sorted(set(r.tagged_raw_json("F")))
    chk.add_tlc(r, "RangeFSGen", "RangeFS.fixed.cfg", "NoForgery, BigChallengeSound, Complete with the C_i in the hash")
    r = vplib.tlc("RangeFS", "RangeFS.asis.cfg", timeout=300, allow_fail=True)
    if "NoForgery" not in r.invariant_violated:
        raise vplib.Machinery("RangeFS: without the C_i in the hash NoForgery should be violated (vacuity)")
    fp = os.path.join(vplib.sub("c12"), "fsforge.ndjson")
    open(fp, "w").write("\n".join(fs) + "\n")
    res = vplib.vh("rp", ["fsforge", "--in", fp, "--tier", T, "--seed", str(chk.seed)], timeout=1800)
    if res["evaluations"] < 10:
        raise vplib.Machinery("fsforge replayed only %d forgeries" % res["evaluations"])
    chk.add_replay(res, "challenge_coverage")
    # the representation-proof engine underneath, in a concrete toy group (ZkProof.tla)
    zkstage.run(chk, "qr")
    chk.exhaustive = True


def replay(chk, path):
    v = json.load(open(path))
    d = vplib.sub("c12")
    one = os.path.join(d, "one.ndjson")
    if "box" in v:
        open(one, "w").write(json.dumps(v["box"]) + "\n" + json.dumps(v["case"]) + "\n")
        res = vplib.vh("rp", ["tables", "--in", one, "--seed", str(chk.seed)])
    else:
        open(one, "w").write(json.dumps(v["case"]) + "\n" if "case" in v else "")
        res = vplib.vh("rp", ["attach", "--in", one, "--seed", str(chk.seed)])
    for x in res["violations"]:
        print("VIOLATION property=C12 replay=%s  # %s" % (path, x["what"][:300]))
    return 1 if res["violations"] else 0
