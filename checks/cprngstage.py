"""Shared stage (C20, C07): concurrent reads of the fast generator with a known seed; the recorded keystream reservations must tile the
keystream without gap or overlap (CPRNGTrace.tla) - an overlap is the same randomness handed out twice."""
import os, re, vplib

def run(chk, d, race):
    T = chk.tier
    trace = os.path.join(d, "cprng.ndjson")
    env = {"GORACE": "halt_on_error=0 exitcode=0 log_path=%s" % os.path.join(d, "race-cprng")} if race else None
    res = vplib.vh("cc", ["cprng", "--tier", T, "--seed", str(chk.seed), trace], timeout=1200, race=race, env=env)
    chk.add_replay(res, "cprng_reads")
    tv = vplib.tlc("CPRNGTrace", "CPRNG.trace.cfg", workers=1, timeout=1200, files={"trace.ndjson": open(trace).read()}, allow_fail=True)
    nreads = sum(1 for _ in open(trace))
    chk.add_tlc(tv, "CPRNGTrace", "CPRNG.trace.cfg", "%d recorded reservations" % nreads)
    if "TRACE REJECTED" in tv.out:
        m = re.findall(r"TRACE REJECTED after\", (\d+)", tv.out)
        chk.add_violation({"kind": "keystream-reservations-not-a-tiling", "what": "the recorded CPRNG reservations are not a gap-free, overlap-free tiling (TLC stopped after %s of %d)" % (m[:1], nreads)})
    elif tv.error:
        raise vplib.Machinery("CPRNG trace validation crashed: %s" % tv.error)
    else:
        chk.traces += 1
