"""Shared stage (C10, C11): the life of one SignedAccumulator object (SaccMemo.tla) - signed by an issuer that goes on to change its
accumulator, decoded into while in use, edited in place, its exported field assigned - with every UnmarshalVerify / ensureAccumulator on
the way compared, on the witness of a stored credential, with the outcome the specification owes; and the credential-level entry points
of non-revocation proofs on witnesses that were stored completely or not (RevAPI.tla, scenarios "prove")."""
import os, json, vplib

KINDS = ("genuine-accumulator-refused", "unauthentic-accumulator-accepted", "accumulator-differs-from-signed-bytes",
         "honest-holder-cannot-prove", "memo-panic")
PROBES = (("MemoByKey", "D38"), ("MemoByData", "D40/D54"), ("MemoPrivate", "D60"), ("DataCopied", "D60"), ("EnsureVerifies", "D61"))


def run(chk, d, api_scen=None):
    T = chk.tier
    r = vplib.tlc_mc("SaccMemo", "SaccMemo.mc.cfg", timeout=900)
    chk.add_tlc(r, "SaccMemo", "SaccMemo.mc.cfg", "MemoSound, NoSpuriousFailure, FailLeavesState over every history of 10 operations on the object")
    for c, _ in PROBES:
        pr = vplib.tlc("SaccMemo", "SaccMemo.asis.%s.cfg" % c, timeout=300, allow_fail=True)
        if "MemoSound" not in pr.invariant_violated:
            raise vplib.Machinery("SaccMemo: without %s the invariant MemoSound should be violated (vacuity)" % c)
    cfg = "SaccMemo.gen.6.cfg" if T == "thorough" else "SaccMemo.gen.5.cfg"
    g = vplib.tlc_mc("SaccMemoGen", cfg, workers=1, timeout=1800)
    hs = sorted(set(g.tagged_raw_json("MEMO")))
    chk.add_tlc(g, "SaccMemoGen", cfg, "%d histories ending in Verify / Ensure" % len(hs))
    if len(hs) < 20000:
        raise vplib.Machinery("only %d memo histories" % len(hs))
    hp = os.path.join(d, "memo.ndjson")
    open(hp, "w").write("\n".join(hs) + "\n")
    res = vplib.vh("nr", ["memo", "--in", hp, "--tier", T, "--seed", str(chk.seed)], timeout=3000)
    c = res.get("counts", {})
    if not res["violations"] and (c.get("memo:last=ensure:ok=true", 0) < 1000 or c.get("memo:last=verify:ok=false", 0) < 1000
                                  or sum(v for k, v in c.items() if k.startswith("memo:last=")) != len(hs)):
        raise vplib.Machinery("memo replay is vacuous: %s" % c)
    chk.add_replay(res, "signed_accumulator_object")
    if api_scen is not None:
        ap = os.path.join(d, "witapi.ndjson")
        open(ap, "w").write("\n".join(api_scen) + "\n")
        res = vplib.vh("nr", ["witapi", "--in", ap, "--tier", T, "--seed", str(chk.seed)], timeout=600)
        c = res.get("counts", {})
        if not res["violations"] and (c.get("witapi:ok", 0) < 6 or c.get("witapi:error", 0) < 6):
            raise vplib.Machinery("witapi replay is vacuous: %s" % c)
        chk.add_replay(res, "proof_entry_points_by_witness_origin")


def replay(chk, v, path, d):
    """returns None when the recorded violation is not one of this stage"""
    if v.get("kind") in KINDS and isinstance(v.get("history"), list):
        hp = os.path.join(d, "one-memo.ndjson")
        open(hp, "w").write(json.dumps(v["history"]) + "\n")
        res = vplib.vh("nr", ["memo", "--in", hp, "--seed", str(chk.seed)])
    elif v.get("kind", "").startswith("api-") and isinstance(v.get("scenario"), dict) and v["scenario"].get("call") == "prove":
        hp = os.path.join(d, "one-witapi.ndjson")
        open(hp, "w").write(json.dumps({"s": v["scenario"], "expect": v.get("expected", {})}) + "\n")
        res = vplib.vh("nr", ["witapi", "--in", hp, "--seed", str(chk.seed)])
    else:
        return None
    for x in res["violations"]:
        print("VIOLATION property=%s replay=%s  # %s" % (chk.pid, path, x["what"]))
    return 1 if res["violations"] else 0
