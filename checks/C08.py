"""C08 - Verifying untrusted proofs never panics; malformed proof lists are rejected (Decode.tla)."""
import os, json, random, vplib

GUARDS = ["G3", "G1", "G2", "G6", "G18"]
PAIR_SAMPLE = {"quick": None, "thorough": 280000}  # quick: every pair of the two small templates; thorough: seeded sample of the 632,158 pairs (measured ~2.3 ms per document on 16 cores)


def _generate(chk, cfg, note, timeout, workers=None):
    """one TLC run that model-checks the invariants of Decode.tla and emits every reachable document as a patch list"""
    g = vplib.tlc_mc("DecodeGen", cfg, workers=workers, timeout=timeout, name="DecodeGen-" + cfg)
    chk.add_tlc(g, "DecodeGen", cfg, note)
    docs = g.tagged_raw_json("DOC")
    # one line per distinct state, also with several workers (a torn or lost line shows up here)
    if len(docs) != g.distinct or len(set(docs)) != len(docs):
        raise vplib.Machinery("%s: %d documents emitted for %d distinct states" % (cfg, len(docs), g.distinct))
    tpls = sorted(set(g.tagged_raw_json("TPL")))
    return docs, tpls


def run(chk):
    T = chk.tier
    thorough = T == "thorough"
    chk.rule = ("TLC (Decode.tla): abstract JSON trees of seven real proof lists ([D], [U], [D+nonrev], [D+range], [D+nonrev+range, U], [D, D'+nonrev], and [D0, D'] whose first proof discloses attribute 0 and which must be rejected as unlinkable) "
                "under structural mutation: delete / null / wrong-type / duplicate every node, empty every container, truncate every array to every "
                "shorter length, re-key and copy every map entry to -1, 0, every index in range, len(R), 2^31, a non-number (nonrev responses: the five "
                "names and an unknown one), swap same-named sub-trees between proofs, whole proofs and misplaced sub-proofs, garble the signed "
                "accumulator, other key counter; all single mutations exhaustively, ordered pairs exhaustively in the model (quick: the two small "
                "templates [D] and [U], all replayed; thorough: all templates, a seeded sample of 280,000 of the 632,158 pairs replayed). Invariants: the transcribed guards (validate, VerifyStructure, ExtractStructure, "
                "length and linking rules of ProofList.Verify) never let a use site panic (NoPanic) and reject every document that is not WellFormed "
                "(MalformedRejected, ElementsRejected); constant-level ASSUMEs: every mutation of the property's quantifier is offered on every node "
                "(CoverageComplete) and the templates are WellFormed; each guard is shown load-bearing by a run with the guard off. "
                "Replay: every emitted patch list is applied to the JSON of a REAL proof list built and verified in this run (1024-bit keys), the bytes "
                "go through json.Unmarshal into ProofList and IssueCommitmentMessage, ProofList.Verify (matching keys; too few / too many / nil keys; "
                "keys with 3 bases; keys without revocation part; keyshare-server lists), ProofD.Verify / ProofU.Verify per element. VIOLATION = any "
                "panic, or acceptance of a document the specification marks not WellFormed. Non-trivial = distinct mutated document. "
                "LIMIT: the second half of the property's quantifier, coverage-guided byte-level fuzzing of the decoders, is a different technique "
                "and is not done here; byte-level variety is limited to a fixed list of 12 wrong-typed / undecodable values per big-integer slot (booleans, containers, "
                "fractions, negatives, non-base64, padding-only and badly padded base64 strings), every one of which is replayed for every wrong-type "
                "mutation, and the garbled values the harness draws per seed.")
    chk.assumptions = ["both fixed 1024-bit keys have 6 bases and key counter 0 (checked by the harness)",
                       "the real templates abstract to exactly the trees of Decode.tla (checked by the harness node by node)",
                       "duplicated object members are not mutated further (encoding/json would merge the copies)",
                       "templates whose ordinary hidden responses fall below 2^580 are rebuilt (known finding D10 of C11 makes the revocation index ambiguous)"]

    # 1. single mutations of all templates: model check + emit
    docs, tpls = _generate(chk, "Decode.gen.quick.cfg", "all single mutations of seven templates; invariants NoPanic, MalformedRejected, ElementsRejected, OutcomeRefined, TemplatesWellFormed", 600)
    if len(tpls) != 7:
        raise vplib.Machinery("expected 7 template records, got %d" % len(tpls))
    singles = [d for d in docs if '"n":1,' in d]
    offered = sum(json.loads(t)["npatches"] for t in tpls)
    if len(singles) != offered or len(singles) < 1500:
        raise vplib.Machinery("%d single mutations emitted, %d offered by PatchesOf on the templates" % (len(singles), offered))

    # 2. non-vacuity: every guard off must break an invariant; mutants of both kinds exist
    runs = ["Decode.nonvacuous.%s.cfg" % g for g in (GUARDS if thorough else ["G3", "G6", "G18"])]
    runs += ["Decode.nonvacuous.NoMutantWellFormed.cfg", "Decode.nonvacuous.NoMutantMalformed.cfg"]
    broken = {}
    for cfg in runs:
        r = vplib.tlc("Decode", cfg, timeout=600, allow_fail=True, name=cfg)
        if not r.invariant_violated:
            raise vplib.Machinery("vacuity check failed: %s violates nothing\n%s" % (cfg, r.out[-1500:]))
        broken[cfg.split(".")[2]] = r.invariant_violated[0]
    chk.extra["nonvacuity"] = broken

    # 3. pairs
    rnd = random.Random(chk.seed)
    if thorough:
        pdocs, _ = _generate(chk, "Decode.gen.thorough.cfg", "all ordered pairs of mutations of seven templates, same invariants", 1500)
        pairs = [d for d in pdocs if '"n":2,' in d]
        if len(pairs) < 400000:
            raise vplib.Machinery("only %d pairs" % len(pairs))
        sample = rnd.sample(pairs, PAIR_SAMPLE[T])
    else:
        pdocs, _ = _generate(chk, "Decode.gen.pairs.quick.cfg", "all ordered pairs of mutations of the templates [D] and [U], same invariants", 600)
        pairs = [d for d in pdocs if '"n":2,' in d]
        if len(pairs) < 15000:
            raise vplib.Machinery("only %d pairs" % len(pairs))
        sample = pairs
    chk.extra["space"] = {"single_mutations": len(singles), "pairs_in_model": len(pairs), "pairs_replayed": len(sample),
                          "singles_exhaustive": True, "pairs_exhaustive": len(sample) == len(pairs)}
    chk.exhaustive = False

    d = vplib.sub("c08")
    cp, tp = os.path.join(d, "cases.ndjson"), os.path.join(d, "templates.ndjson")
    open(cp, "w").write("\n".join(docs + sample) + "\n")
    open(tp, "w").write("\n".join(tpls) + "\n")
    res = vplib.vh("dec", ["run", "--in", cp, "--tier", T, "--seed", str(chk.seed), tp], timeout=3000)
    # every document with a wrong-type mutation is replayed once per concrete wrong value, so evaluations >= documents
    if res.get("counts", {}).get("input-case") != len(docs) + len(sample) or res["evaluations"] < len(docs) + len(sample):
        raise vplib.Machinery("harness replayed %s of %d documents" % (res.get("counts", {}).get("input-case"), len(docs) + len(sample)))
    chk.extra["space"]["concrete_replays"] = res["evaluations"]
    c = res.get("counts", {})
    if not c.get("outcome:accept") or not c.get("outcome:reject") or not c.get("outcome:decode-error"):
        raise vplib.Machinery("replay is vacuous: outcome classes %s" % {k: v for k, v in c.items() if k.startswith("outcome:")})
    chk.add_replay(res, "document_replay")


def replay(chk, path):
    v = json.load(open(path))
    g = vplib.tlc("DecodeGen", "Decode.gen.quick.cfg", timeout=600)
    d = vplib.sub("c08")
    cp, tp = os.path.join(d, "one.ndjson"), os.path.join(d, "templates.ndjson")
    open(cp, "w").write(json.dumps(v["case"]) + "\n")
    open(tp, "w").write("\n".join(sorted(set(g.tagged_raw_json("TPL")))) + "\n")
    res = vplib.vh("dec", ["run", "--in", cp, "--seed", str(chk.seed), tp])
    for x in res["violations"]:
        print("VIOLATION property=C08 replay=%s  # %s" % (path, x["what"]))
    return 1 if res["violations"] else 0
