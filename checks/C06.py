"""C06 - Issuance: honest runs succeed, deviations are rejected (Issuance.tla)."""
import os, json, vplib

def run(chk):
    T = chk.tier
    chk.rule = ("TLC: Issuance.tla - the three-message issuance protocol with origin-tagged fields for every configuration (random-blind attribute, witness, keyshare "
                "contribution) and a network adversary applying ONE fault (thorough: every pair of faults): every field of both messages and of the issuer's session view altered / substituted from a "
                "parallel honest run / dropped, whole messages replayed from the parallel run; invariants Integrity, Complete, RejectIsError. Replay: every emitted "
                "case is executed with two real runs (1024-bit keys, real CredentialBuilder, commitment proof incl. keyshare completion, Issuer.IssueSignature, "
                "ConstructCredential) over several concrete layouts (1..4 attributes, random and all-index blind subsets, boundary-sized values); outcome classes "
                "credential / issuer rejects / user rejects (error, never panic) must be the spec's, and a produced credential must verify over exactly "
                "(secret, attributes) with blind attributes >= the issuer's share. Non-trivial = distinct (configuration, fault, layout).")
    chk.assumptions = ["the issuer signs the U of the verified ProofU (message-level icm.U is not used), as the application layer does",
                       "a witness dropped as a whole yields a credential without witness or a rejection (both allowed)",
                       "single faults (thorough: pairs); 1024-bit keys"]
    cfg = "Issuance.mc.thorough.cfg" if T == "thorough" else "Issuance.mc.cfg"
    g = vplib.tlc_mc("IssuanceGen", cfg, workers=1, timeout=600)
    if T == "thorough":
        vplib.coverage_check(chk, "IssuanceGen", "Issuance.mc.cfg", workers=1, timeout=600)
    cases = sorted(set(g.tagged_raw_json("C")))
    chk.add_tlc(g, "IssuanceGen", cfg, "Integrity, Complete, RejectIsError; %d cases" % len(cases))
    if len(cases) < 300:
        raise vplib.Machinery("generator produced only %d cases" % len(cases))
    cp = os.path.join(vplib.sub("c06"), "cases.ndjson")
    open(cp, "w").write("\n".join(cases) + "\n")
    res = vplib.vh("iss", ["replay", "--in", cp, "--tier", T, "--seed", str(chk.seed)], timeout=3300)
    chk.add_replay(res, "protocol_runs")
    chk.exhaustive = True

def replay(chk, path):
    v = json.load(open(path))
    cp = os.path.join(vplib.sub("c06"), "one.ndjson")
    open(cp, "w").write(json.dumps(v["case"]) + "\n")
    res = vplib.vh("iss", ["replay", "--in", cp, "--seed", str(chk.seed)])
    for x in res["violations"]:
        print("VIOLATION property=C06 replay=%s  # %s" % (path, x["what"]))
    return 1 if res["violations"] else 0
