"""C01 - Disclosed attribute values are authentic (Disclosure.tla)."""
import os, json, vplib

def run(chk):
    T = chk.tier
    thorough = T == "thorough"
    chk.rule = ("TLC: Disclosure.tla - symbolic (generic-group, challenge-as-indeterminate) model of ProofD verification; a prover deviates from the "
                "honest proof of any disclosure set by up to MaxDev steps (alter disclosed value, overlap split with compensating hidden remainder incl. "
                "x=0 and x>m, toggle, coefficient shifted by the group order or by one, response at/over/below its bound, drop index, e/v coefficient "
                "shift, e size, other session); invariant Authentic. Replay: a cheating prover written in the harness with math/big (it knows the "
                "credential and the group order) assembles every emitted abstract proof for real on both 1024-bit keys and submits it to "
                "ProofD.Verify and ProofList.Verify; VIOLATION = acceptance of a proof that reports an unsigned value, an index both disclosed and hidden, "
                "or an out-of-range response (decided on the concrete proof by the harness), or rejection of the honest proof. Every proof is judged twice: in a "
                "fresh ProofD object and in an object that held an honest proof of the library's prover, was verified (accepted) and then overwritten field by "
                "field - the verdict must be a function of the content, not of the object's history (memoised validation). Exact size boundaries "
                "are exercised through ProofD.VerifyWithChallenge. Non-trivial = distinct deviating abstract proof.")
    chk.assumptions = ["generic group / random oracle idealisation in the model (strong RSA and SHA-256 not attacked)",
                       "HashCommit is used by the harness' prover to compute challenges (its encoding is C15's subject)",
                       "1024-bit fixed keys; harness arithmetic (math/big) trusted"]
    mc = "Disclosure.mc.thorough.cfg" if thorough else "Disclosure.mc.quick.cfg"
    r = vplib.tlc_mc("Disclosure", mc, timeout=3000)
    chk.add_tlc(r, "Disclosure", mc, "Authentic, HonestComplete")
    r = vplib.tlc("Disclosure", "Disclosure.nonvacuous.cfg", timeout=600, allow_fail=True)
    if "NoDeviantAccepted" not in r.invariant_violated:
        raise vplib.Machinery("vacuity check failed: no deviating proof is accepted in the model")
    if thorough:
        vplib.coverage_check(chk, "Disclosure", "Disclosure.mc.quick.cfg", timeout=900)
    gen = "Disclosure.gen.thorough.cfg" if thorough else "Disclosure.gen.quick.cfg"
    g = vplib.tlc("DisclosureGen", gen, workers=1, timeout=2400)
    cases = sorted(set(g.tagged_raw_json("C")))
    chk.add_tlc(g, "DisclosureGen", gen, "%d abstract proofs" % len(cases))
    if len(cases) < 1000:
        raise vplib.Machinery("generator produced only %d cases" % len(cases))
    cp = os.path.join(vplib.sub("c01"), "cases.ndjson")
    open(cp, "w").write("\n".join(cases) + "\n")
    res = vplib.vh("disc", ["cheat", "--in", cp, "--tier", T, "--seed", str(chk.seed)], timeout=3000)
    chk.add_replay(res, "cheating_prover")
    res = vplib.vh("disc", ["sizes", "--tier", T, "--seed", str(chk.seed)], timeout=600)
    chk.add_replay(res, "size_boundaries")
    chk.exhaustive = True

def replay(chk, path):
    v = json.load(open(path))
    cp = os.path.join(vplib.sub("c01"), "one.ndjson")
    open(cp, "w").write(json.dumps(v["case"]) + "\n")
    res = vplib.vh("disc", ["cheat", "--in", cp, "--seed", str(chk.seed)])
    for x in res["violations"]:
        print("VIOLATION property=C01 replay=%s  # %s" % (path, x["what"]))
    return 1 if res["violations"] else 0
