"""C04 - Selective disclosure is complete and minimal (Disclosure.tla, honest prover)."""
import os, json, vplib

def run(chk):
    T = chk.tier
    chk.rule = ("TLC: Disclosure.tla restricted to honest provers (MaxDev = 0): every credential over the value classes {0, small, Lm-sized, oversize} "
                "with k non-secret attributes and every one of the 2^k disclosure sets; invariant HonestComplete (the honest proof verifies and reports "
                "exactly the chosen set with the true values). Replay: for every emitted (credential, disclosure set) the LIBRARY's prover "
                "(CreateDisclosureProofBuilder + BuildProofList) is run on alternating 1024-bit keys for disclosure and signature sessions; the harness "
                "checks verification (ProofD.Verify and ProofList.Verify), that a_disclosed/a_responses are exactly the chosen set / its complement with "
                "true values, that neither the serialised proof nor the timestamp contribution contains a hidden value (byte search for values >= 64 bits; "
                "zero entries for hidden indices), and that the proof does not verify for the other session kind; credentials with a non-revocation witness are also shown through the wallet's "
                "normal flow (commitment prepared in the background, somebody else revoked, witness updated, proof from the REFRESHED commitment) and every group element of the "
                "non-revocation part must be a reduced residue that is no integer multiple of the holder's witness value (D47). "
                "Plus Builder.tla: the DisclosureProofBuilder life cycle as the caller sees it - the list of indices in ANY order and with repetitions (all lists of "
                "<= 3 (quick) / 4 (thorough) indices), TimestampRequestContributions asked for before the commitment, between commitment and proof, and after the proof "
                "(every placement); invariants Minimal, Exact, action property TRCStable. Replay: every complete life cycle is driven through the real builder "
                "(CreateDisclosureProofBuilder, ProofBuilderList.Challenge, BuildDistributedProofList) for both session kinds, with the same demands after every "
                "call; and the honest prover under constant random streams (all zero bits, all one bits: every randomiser at an end of its range), for ordinary and for maximal "
                "attribute values, must still produce a verifying proof. Non-trivial = distinct (credential, set, session kind) / (list, call sequence, session kind).")
    chk.assumptions = ["statistical hiding of responses is not modelled (only syntactic absence of hidden values)",
                       "1024-bit fixed keys; credentials are minted with SignMessageBlock by the harness"]
    cfg = "Disclosure.honest.%s.cfg" % T
    g = vplib.tlc_mc("DisclosureGen", cfg, workers=1, timeout=2400)
    cases = sorted(set(g.tagged_raw_json("C")))
    chk.add_tlc(g, "DisclosureGen", cfg, "HonestComplete + emission of %d (credential, disclosure set) cases" % len(cases))
    if len(cases) < 500:
        raise vplib.Machinery("generator produced only %d cases" % len(cases))
    cp = os.path.join(vplib.sub("c04"), "cases.ndjson")
    open(cp, "w").write("\n".join(cases) + "\n")
    res = vplib.vh("disc", ["honest", "--in", cp, "--tier", T, "--seed", str(chk.seed)], timeout=3000)
    chk.add_replay(res, "library_prover")
    # the builder's life cycle as the caller sees it (Builder.tla)
    r = vplib.tlc_mc("Builder", "Builder.mc.cfg", timeout=300)
    chk.add_tlc(r, "Builder", "Builder.mc.cfg", "Minimal, Exact, TRCStable over every list of <= 4 indices and every placement of the timestamp contribution")
    gen = "Builder.gen.%s.cfg" % T
    g = vplib.tlc_mc("BuilderGen", gen, workers=1, timeout=600)
    bc = sorted(set(g.tagged_raw_json("B")))
    chk.add_tlc(g, "BuilderGen", gen, "%d complete builder life cycles" % len(bc))
    if len(bc) < 300:
        raise vplib.Machinery("only %d builder life cycles" % len(bc))
    bp = os.path.join(vplib.sub("c04"), "builder.ndjson")
    open(bp, "w").write("\n".join(bc) + "\n")
    res = vplib.vh("disc", ["builder", "--in", bp, "--tier", T, "--seed", str(chk.seed)], timeout=3000)
    if res["evaluations"] != 2 * len(bc) + 4 or (not res["violations"] and res.get("counts", {}).get("extreme-stream-accepted") != 4):
        raise vplib.Machinery("builder replay: %d of %d (%s)" % (res["evaluations"], 2 * len(bc) + 4, res.get("counts")))
    chk.add_replay(res, "builder_life_cycles")
    chk.exhaustive = True

def replay(chk, path):
    print("C04 violations carry the abstract case in the replay file; re-run bin/check C04 to reproduce")
    return 2
