"""C09 - Revocation witnesses track the accumulator through any history (Revocation.tla)."""
import os, vplib

def run(chk):
    T = chk.tier
    thorough = T == "thorough"
    chk.rule = ("TLC: exhaustive exploration of Revocation.tla (accumulator chain, witnesses, update objects with product memo; "
                "actions Revoke/Issue/MakeUpdate/Apply/Prepend) with the C09 invariants and action properties. "
                "Replay: every distinct (pre-state, Apply|Prepend, post-state) transition of the bound is constructed on real "
                "objects (private key held by the harness) and the real Witness.Update / Update.Prepend outcome is compared with the "
                "spec's (error class, index, signed-accumulator time, Witness.Updated, u^e = nu_idx recomputed with math/big, unchanged on error - Updated included); "
                "two-step sequences (a failing call, then Apply, on the same objects); RevocationGen3.tla: every sequence of 3 (thorough: 4) applications of ONE "
                "shared update object to three witnesses lagging behind by different amounts, in every order and with repetition, every window start, witness 1 "
                "possibly revoked - each step compared with the spec, the other witnesses and the update object must be left as they were. "
                "Record: random long histories on long-lived real objects, validated event by event by RevocationTrace.tla. "
                "Non-trivial = distinct transition whose expected result is not 'noop'.")
    chk.assumptions = ["toy keys (64-96 bit moduli): the properties are structural, the arithmetic is the same code path",
                       "ECDSA, SHA-256 and multihash are trusted", "harness projection code (math/big) is trusted"]
    # 1. model check
    mc = "Revocation.mc.thorough.cfg" if thorough else "Revocation.mc.quick.cfg"
    r = vplib.tlc_mc("Revocation", mc, timeout=3000 if thorough else 900, heap="24g" if thorough else None)
    chk.add_tlc(r, "Revocation", mc, "C09 invariants + action properties, VIEW without the output variable")
    if thorough:
        vplib.coverage_check(chk, "Revocation", "Revocation.mc.quick.cfg", timeout=2400)
    # 2. generate distinct transitions
    gen = "Revocation.gen.thorough.cfg" if thorough else "Revocation.gen.quick.cfg"
    g = vplib.tlc("RevocationGen", gen, workers=1, timeout=1500)
    trans = g.tagged("T")
    if len(trans) < 1000:
        raise vplib.Machinery("transition generator produced only %d transitions" % len(trans))
    chk.add_tlc(g, "RevocationGen", gen, "%d transitions emitted" % len(trans))
    gen2 = "Revocation.gen2.thorough.cfg" if thorough else "Revocation.gen2.quick.cfg"
    g2 = vplib.tlc("RevocationGen", gen2, workers=1, timeout=1500)
    seqs = g2.tagged("S")
    if len(seqs) < 1000:
        raise vplib.Machinery("two-step generator produced only %d sequences" % len(seqs))
    chk.add_tlc(g2, "RevocationGen", gen2, "%d two-step sequences (failing call, then Apply)" % len(seqs))
    trans = trans + seqs
    path = vplib.write_ndjson(os.path.join(vplib.sub("c09"), "transitions.ndjson"), trans)
    # 3. replay on the real code
    res = vplib.vh("rev", ["replay", "--in", path, "--tier", T, "--seed", str(chk.seed)], timeout=3000)
    chk.add_replay(res, "transition_replay")
    chk.exhaustive = True
    # 3b. one shared update object applied several times to witnesses lagging behind by different amounts
    gen3 = "Revocation.gen3.%s.cfg" % T
    g3 = vplib.tlc("RevocationGen3", gen3, workers=1, timeout=1500)
    seq3 = sorted(set(g3.tagged_raw_json("Q")))
    if len(seq3) < 10000:
        raise vplib.Machinery("shared-update generator produced only %d sequences" % len(seq3))
    chk.add_tlc(g3, "RevocationGen3", gen3, "%d sequences of Apply on one shared update object" % len(seq3))
    p3 = os.path.join(vplib.sub("c09"), "seq3.ndjson")
    open(p3, "w").write("\n".join(seq3) + "\n")
    res = vplib.vh("rev", ["seq3", "--in", p3, "--tier", T, "--seed", str(chk.seed)], timeout=3000)
    if res["evaluations"] != len(seq3):
        raise vplib.Machinery("seq3 replayed %d of %d" % (res["evaluations"], len(seq3)))
    chk.add_replay(res, "shared_update_sequences")
    # 4. record random histories from the real code and validate them against the spec
    trace = os.path.join(vplib.sub("c09"), "trace.ndjson")
    nh = 300 if thorough else 60
    rec = vplib.vh("rev", ["record", "--n", str(nh), "--tier", T, "--seed", str(chk.seed), trace], timeout=3000)
    for v in rec.get("violations", []):
        chk.add_violation(v)
    tv = vplib.tlc("RevocationTrace", "Revocation.trace.cfg", workers=1, timeout=3000,
                   files={"trace.ndjson": open(trace).read()}, allow_fail=True)
    nev = sum(1 for _ in open(trace))
    chk.add_tlc(tv, "RevocationTrace", "Revocation.trace.cfg", "%d recorded events in %d histories" % (nev, nh))
    bad = tv.invariant_violated or tv.property_violated
    rejected = "TRACE REJECTED" in tv.out
    if tv.error and not rejected and not bad:
        raise vplib.Machinery("trace validation crashed: %s\n%s" % (tv.error, tv.out[-3000:]))
    if rejected or bad:
        import re
        line = re.findall(r'"TRACE REJECTED at line",\s*(\d+),\s*(\[.*?\]|"eof")', tv.out, re.S)
        chk.add_violation({"kind": "recorded-history-rejected",
                           "what": "a history recorded from the real code is not a behaviour of Revocation.tla: %s %s" % (bad, line[:1]),
                           "tlc_tail": tv.out[-2500:], "seed": chk.seed, "trace_cmd": "rev record --n %d --seed %d" % (nh, chk.seed)})
    else:
        chk.traces += nh
        chk.evaluations += nev
        chk.extra["recorded"] = {"histories": nh, "events": nev, "counts": rec.get("counts")}

    # 5. the repository's OWN tests as a trace source (trace points of the revocation package, tag verif)
    rt = os.path.join(vplib.sub("c09"), "revtrace.ndjson")
    rc, out = vplib.gotest(["./revocation/", "."], "Revoc|Witness|Accumulator|Update|Revoked|Keyshare", env={"VERIF_TRACE_REV": rt}, timeout=900)
    if rc != 0 or not os.path.exists(rt):
        chk.extra["repo_test_trace"] = "skipped: the repository's tests did not pass with -tags verif (rc=%d)" % rc
    else:
        txt = open(rt).read()
        nline = txt.count("\n")
        rv = vplib.tlc("RevRepoTrace", "RevRepoTrace.cfg", workers=1, timeout=600, allow_fail=True, files={"revtrace.ndjson": txt})
        chk.add_tlc(rv, "RevRepoTrace", "RevRepoTrace.cfg", "%d events recorded from the repository's own tests" % nline)
        if "TRACE REJECTED" in rv.out:
            import re
            m = re.findall(r'"TRACE REJECTED at line",\s*(\d+),\s*(\[.*?\]|"eof")', rv.out, re.S)
            chk.add_violation({"kind": "repo-test-recording-rejected",
                               "what": "a Witness.Update recorded from the repository's own tests does not leave the witness where Revocation.tla's rule says: %s" % (m[:1],)})
        elif rv.error:
            raise vplib.Machinery("repo test trace validation crashed: %s" % rv.error)
        else:
            chk.traces += 1
            chk.evaluations += nline
            chk.extra["repo_test_trace"] = {"events": nline, "updates": txt.count('"ev":"update"')}

    # 6. witnesses by origin (RevAPI.tla, scenarios witness-update): built in memory, read back from storage, stored without u / e
    ga = vplib.tlc_mc("RevAPIGen", "RevAPI.cfg", workers=1, timeout=300)
    wu = sorted(x for x in set(ga.tagged_raw_json("A")) if '"call":"witness-update"' in x)
    chk.add_tlc(ga, "RevAPIGen", "RevAPI.cfg", "Total, FailLeavesUnchanged; %d witness-update scenarios" % len(wu))
    if len(wu) != 4:
        raise vplib.Machinery("%d witness-update scenarios" % len(wu))
    ap = os.path.join(vplib.sub("c09"), "witapi.ndjson")
    open(ap, "w").write("\n".join(wu) + "\n")
    res = vplib.vh("rev", ["api", "--in", ap, "--tier", T, "--seed", str(chk.seed)], timeout=600)
    if res["evaluations"] != len(wu):
        raise vplib.Machinery("api replay: %d of %d" % (res["evaluations"], len(wu)))
    chk.add_replay(res, "witness_origins")

def replay(chk, path):
    import json
    v = json.load(open(path))
    if "case" not in v:
        print("replay file has no abstract case; re-run the check with VERIF_SEED=%s" % v.get("seed"))
        return 2
    p = vplib.write_ndjson(os.path.join(vplib.sub("c09"), "one.ndjson"), [v["case"]])
    sub = "seq3" if isinstance(v["case"], dict) and "steps" in v["case"] else "replay"     # shared-update sequences have their own command
    res = vplib.vh("rev", [sub, "--in", p, "--seed", str(chk.seed)])
    for x in res["violations"]:
        print("VIOLATION property=C09 replay=%s  # %s" % (path, x["what"]))
    return 1 if res["violations"] else 0
