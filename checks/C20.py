"""C20 - Concurrent use is safe (NonrevCache.tla, CPRNG.tla, SafePrimeWorkers.tla)."""
import os, json, re, subprocess, vplib, cprngstage

def run(chk):
    T = chk.tier
    thorough = T == "thorough"
    chk.rule = ("TLC: NonrevCache.tla (2 preparers + 2 provers restarting freely on one credential, every channel/memory operation one action): NoRace (no two "
                "processes about to touch the plain cache field with one writing), SingleConsumer, NoSharedHold, NotAlsoCached, ProofIndexCurrent; CPRNG.tla "
                "(3 readers x 2 reads): NoKeystreamOverlap, GapFree; the pre-fix variants of both must violate their invariant (vacuity probes). "
                "Binding: (i) TLC-generated interleavings of the cache protocol are established on real goroutines through blocking hooks and every step's outcome "
                "compared with the spec, every prover's proof verified; (ii) concurrent reads (16..64 goroutines, 1..200 bytes) of a CPRNG with a known seed: each "
                "reservation is logged at the atomic add, the harness re-derives the AES-CTR keystream and checks each caller got exactly its blocks, and "
                "CPRNGTrace.tla accepts the reservations as a gap-free overlap-free tiling; (iii) a free-running stress of 2..64 goroutines with varied GOMAXPROCS "
                "(first-time and repeated cache preparation, proofs with/without non-revocation, verification with a shared public key, generator reads) built "
                "with -race: a race report is a violation, every proof must verify. Worker-pool schedules of key generation are C16's. Non-trivial = distinct schedule / read / stress operation.")
    chk.assumptions = ["only the interleavings TLC enumerates (replayed) and those the Go scheduler produced (validated) are covered, not all schedules of 64 goroutines",
                       "the Go race detector is the monitor of the stress run; AES and SHA-256 are trusted",
                       "honest non-revocation proofs matching known finding D10 are discarded and counted"]
    mc = "NonrevCache.mc.%s.cfg" % T
    r = vplib.tlc_mc("NonrevCache", mc, timeout=1800)
    chk.add_tlc(r, "NonrevCache", mc, "NoRace, SingleConsumer, NoSharedHold, NotAlsoCached, ProofIndexCurrent")
    r = vplib.tlc_mc("CPRNG", "CPRNG.mc.cfg", timeout=600)
    chk.add_tlc(r, "CPRNG", "CPRNG.mc.cfg", "NoKeystreamOverlap, GapFree")
    for mod, cfg, inv in [("NonrevCache", "NonrevCache.asis.cfg", "NoRace"), ("CPRNG", "CPRNG.asis.cfg", "NoKeystreamOverlap")]:
        p = vplib.tlc(mod, cfg, timeout=300, allow_fail=True)
        if inv not in p.invariant_violated:
            raise vplib.Machinery("vacuity probe %s did not violate %s" % (cfg, inv))
    if thorough:
        vplib.coverage_check(chk, "CPRNG", "CPRNG.mc.cfg", ignore=("Store",), timeout=600)
    d = vplib.sub("c20")
    # (i) gate replay
    gs = vplib.tlc_mc("NonrevCacheSched", "NonrevCacheSched.gen.cfg", workers=1, timeout=900)
    scheds = gs.tagged_raw_json("SCHED")
    chk.add_tlc(gs, "NonrevCacheSched", "NonrevCacheSched.gen.cfg", "%d schedules" % len(scheds))
    if len(scheds) < 1000:
        raise vplib.Machinery("schedule generator produced only %d schedules" % len(scheds))
    cp = os.path.join(d, "scheds.ndjson")
    open(cp, "w").write("\n".join(scheds) + "\n")
    n = len(scheds) if thorough else 300
    res = vplib.vh("cc", ["gates", "--in", cp, "--tier", T, "--seed", str(chk.seed + 1000), "--n", str(n)], timeout=3000)
    chk.add_replay(res, "cache_schedules")
    # (ii) CPRNG reservations, recorded under the race detector
    cprngstage.run(chk, d, race=True)
    # (ii-b) the repository's OWN tests as a trace source: their cache operations, recorded through the hooks, must be
    # explainable by NonrevCache.tla (TLC searches for an interleaving of the per-goroutine sequences)
    rt = os.path.join(d, "repotrace.ndjson")
    tests = "TestNonrevCacheConcurrent|TestSharedCredentialConcurrentNonrevDisclosure|TestFullIssueAndShowWithRevocation|TestNotRevoked|TestRevoked|TestKeyshareResponse$"
    rc, out = vplib.gotest(["."], tests, env={"VERIF_TRACE": rt}, timeout=900)
    if rc != 0 or not os.path.exists(rt):
        chk.extra["repo_test_trace"] = "skipped: the repository's tests did not pass with -tags verif (rc=%d)" % rc
    else:
        import collections
        bycred = collections.OrderedDict()
        for ln in open(rt):
            e = json.loads(ln)
            bycred.setdefault(e["cred"], []).append(e)
        creds = []
        for cid, es in bycred.items():
            calls, seqno, cur = [], collections.Counter(), {}
            for e in es:
                g, p = e["g"], e["ev"]
                if p in ("prepare.recv.before", "consume.recv.before"):
                    cur[g] = {"g": g, "seq": seqno[g], "kind": "prep" if p.startswith("prepare") else "cons", "got": False, "b": 0, "stored": False}
                    seqno[g] += 1
                elif g not in cur:
                    raise vplib.Machinery("repo test trace: event %s without an open call" % p)
                elif p == "prepare.recv.cached":
                    cur[g]["got"] = True
                elif p == "prepare.send.before":
                    cur[g]["b"] = e["b"]
                elif p in ("prepare.send.stored", "prepare.send.discarded"):
                    cur[g]["stored"] = p.endswith("stored")
                    calls.append(cur.pop(g))
                elif p == "consume.recv.cached":
                    cur[g]["got"], cur[g]["b"] = True, e["b"]
                    calls.append(cur.pop(g))
                elif p == "consume.recv.empty":
                    calls.append(cur.pop(g))
            if len(calls) > 24:
                calls = calls[:24]
            creds.append(calls)
        ncalls = sum(len(c) for c in creds)
        rv = vplib.tlc("NonrevCacheTrace", "NonrevCache.repotrace.cfg", workers=8, timeout=900, allow_fail=True,
                       files={"ctrace.json": json.dumps(creds)})
        chk.add_tlc(rv, "NonrevCacheTrace", "NonrevCache.repotrace.cfg", "%d cache calls on %d credentials recorded from the repository's own tests" % (ncalls, len(creds)))
        bad = [x for x in rv.invariant_violated if x != "NotAccepted"]
        if rv.error:
            raise vplib.Machinery("repo test trace validation crashed: %s" % rv.error)
        if "NotAccepted" not in rv.invariant_violated or bad:
            chk.add_violation({"kind": "repo-test-recording-not-explained",
                               "what": "the cache operations recorded from the repository's own tests are not a behaviour of NonrevCache.tla (%s)" % (bad or "no interleaving consumes all events"),
                               "credentials": len(creds), "calls": ncalls})
        else:
            chk.traces += len(creds)
            chk.evaluations += ncalls
            chk.extra["repo_test_trace"] = {"credentials": len(creds), "calls": ncalls}
    # (ii-c) one SignedAccumulator asked by several goroutines at once (SaccMemoConc.tla); the stress run below exercises its four
    #        initial states under the race detector
    r = vplib.tlc_mc("SaccMemoConc", "SaccMemoConc.mc.cfg", timeout=300)
    chk.add_tlc(r, "SaccMemoConc", "SaccMemoConc.mc.cfg", "NoRace, ReturnsSigned, AllReturn for three goroutines and every initial state of the object")
    pr = vplib.tlc("SaccMemoConc", "SaccMemoConc.asis.cfg", timeout=300, allow_fail=True)
    if "NoRace" not in pr.invariant_violated:
        raise vplib.Machinery("SaccMemoConc: without the lock NoRace should be violated (vacuity)")
    # (iii) stress under the race detector
    res = vplib.vh("cc", ["stress", "--tier", T, "--seed", str(chk.seed)], timeout=3000, race=True, env={"GORACE": "halt_on_error=0 exitcode=0 log_path=%s" % os.path.join(d, "race-stress")})
    chk.add_replay(res, "race_stress")
    reports = []
    for f in os.listdir(d):
        if f.startswith("race-"):
            txt = open(os.path.join(d, f)).read()
            for rep in txt.split("==================")[1::2]:
                reports.append(rep.strip())
    seen = set()
    for rep in reports:
        sites = tuple(re.findall(r"^\s+(\S+\(\))\n\s+(\S+:\d+)", rep, re.M)[:2])
        if sites in seen:
            continue
        seen.add(sites)
        chk.add_violation({"kind": "data-race", "what": "the race detector reported a data race: %s" % (sites,), "report": rep[:3000]})
    chk.extra["race_reports"] = len(reports)

def replay(chk, path):
    print("re-run bin/check C20 with VERIF_SEED=%d to reproduce" % chk.seed)
    return 2
