"""Shared stage: ZkProof.tla (the representation-proof engine in concrete toy groups) checked by TLC and replayed exactly on zkproof/."""
import os, vplib

def _constants():
    """the generators of the toy group as the REAL BuildGroup(23) derives them: constants of the specification"""
    import subprocess, json
    exe = vplib.build_harness("zk", False)
    out = subprocess.run([exe, "group"], stdout=subprocess.PIPE, stderr=subprocess.STDOUT, text=True, timeout=60)
    try:
        gh = json.loads(out.stdout.strip().splitlines()[-1])
        return {"Gg": str(int(gh["g"])), "Hh": str(int(gh["h"]))}
    except Exception:
        raise vplib.Machinery("zk group: %s" % out.stdout[-500:])

def small_groups(chk):
    """BuildGroup on every small safe prime returns, with two different generators of the subgroup of squares or a refusal (D57)"""
    import subprocess, json
    exe = vplib.build_harness("zk", False)
    out = subprocess.run([exe, "smallgroups"], stdout=subprocess.PIPE, stderr=subprocess.STDOUT, text=True, timeout=120)
    rows = [json.loads(l) for l in out.stdout.strip().splitlines() if l.startswith("{")]
    if len(rows) < 8:
        raise vplib.Machinery("zk smallgroups: %s" % out.stdout[-500:])
    for r in rows:
        chk.evaluations += 1
        if r["result"] not in ("ok", "refused"):
            chk.add_violation({"kind": "proof-group-construction", "what": "zkproof.BuildGroup(%d): %s" % (r["p"], r["result"])})
    chk.extra["small_groups"] = rows

def run(chk, variant):
    cfg = "ZkProof.%s.cfg" % variant
    consts = _constants()
    chk.extra["zk_toy_generators"] = consts
    g = vplib.tlc_mc("ZkProofGen", cfg, workers=1, timeout=900, constants=consts)
    cases = sorted(set(g.tagged_raw_json("Z")))
    chk.add_tlc(g, "ZkProofGen", cfg, "Complete, Absorbing, AbsorbingL; %d cases of the %s variant" % (len(cases), variant))
    if len(cases) < 10000:
        raise vplib.Machinery("ZkProof generator produced only %d cases" % len(cases))
    if variant == "group":
        small_groups(chk)
        r = vplib.tlc_mc("ZkProof", "ZkProof.sound.cfg", timeout=900, constants=consts)
        chk.add_tlc(r, "ZkProof", "ZkProof.sound.cfg", "Sound2 (special soundness in the prime-order toy group)")
        for c, inv in (("ZkProof.vacuity1.cfg", "NeverTrue"), ("ZkProof.vacuity2.cfg", "NeverZero")):
            r = vplib.tlc("ZkProof", c, timeout=300, allow_fail=True, constants=consts)
            if inv not in r.invariant_violated:
                raise vplib.Machinery("ZkProof vacuity probe %s not violated" % inv)
    p = os.path.join(vplib.sub("zk-" + variant), "cases.ndjson")
    open(p, "w").write("\n".join(cases) + "\n")
    res = vplib.vh("zk", ["replay", "--in", p, "--seed", str(chk.seed)], timeout=900)
    if res["evaluations"] != len(cases):
        raise vplib.Machinery("zk replay: %d of %d" % (res["evaluations"], len(cases)))
    acc = [k for k in res.get("counts", {}) if k.endswith("true=true:accepts=true")]
    if not acc:
        raise vplib.Machinery("zk replay is vacuous: no true statement accepted")
    chk.add_replay(res, "zkproof_engine_" + variant)
