"""C10 - Only authentic revocation updates are accepted (RevAuth.tla)."""
import os, json, vplib, memostage

def run(chk):
    T = chk.tier
    thorough = T == "thorough"
    chk.rule = ("TLC: all messages the adversary of RevAuth.tla assembles from a genuine update by <= MaxMut mutations (event value/index/"
                "parent hash incl. prefix/extension/other-algorithm variants, delete/insert/swap, accumulator substitution, counter, "
                "foreign or garbage signature, payload fields under an existing signature) followed by optional JSON/CBOR transport; "
                "invariants: transcribed acceptance (Update.Verify, EventList.Verify, Update.Prepend, Hash.Equal) implies Authentic. "
                "Replay: every emitted message is materialised byte for byte (real multihashes, CBOR payloads, ECDSA signatures) and fed to "
                "Update.Verify, Witness.Update (witness at every index), EventList.Verify and Update.Prepend (every genuine target), in memory "
                "and after real JSON and CBOR round trips; a violation is real-code acceptance of a message the spec marks not authentic, a "
                "state change on rejection, or a panic. Mutations include a NEGATED value (the event hash does not see the sign; memory only), a MISSING value, a message without "
                "accumulator; further entry points: the verified object verified again under an UNRELATED key (memo of the signature check), FlattenEventLists of the events cut in "
                "two followed by EventList.Verify. RevAPI.tla: the life cycle of the message objects (updates built / decoded / decoded-and-verified, with and without events; event lists "
                "decoded into fresh or used variables, empty or not, JSON and CBOR; witnesses in memory or read from storage; lists flattened with empty or product-less parts; one "
                "flattened list prepended to two updates; a verified SignedAccumulator object receiving other signed bytes, genuine or garbage, by decoding; a genuine list decoded into a "
                "variable whose previous content failed verification; stored witnesses lacking u or e) - every call returns with the owed outcome class, a failing call changes nothing, bystander objects stay intact. "
                "Non-trivial = distinct mutated message / scenario.")
    chk.assumptions = ["hash and signature are idealised in the model (injective / unforgeable); the harness uses the real SHA-256, multihash and ECDSA",
                       "toy 64-bit moduli", "SignedAccumulator.Accumulator memo is clear on received messages (it is not serialised)"]
    mc = "RevAuth.mc.thorough.cfg" if thorough else "RevAuth.mc.quick.cfg"
    r = vplib.tlc_mc("RevAuth", mc, timeout=3000)
    chk.add_tlc(r, "RevAuth", mc, "AuthVerify, AuthEventList, AuthEventListTwice, AuthPrepend, AuthPrependToMsg, AuthOtherKey, AuthFlatten")
    for v, inv in (("PositiveCheck", "AuthVerify"), ("MemoByKey", "AuthOtherKey"), ("FlattenUnverified", "AuthFlatten")):
        pr = vplib.tlc("RevAuth", "RevAuth.asis.%s.cfg" % v, timeout=600, allow_fail=True)
        if inv not in pr.invariant_violated:
            raise vplib.Machinery("RevAuth: without %s the invariant %s should be violated (vacuity)" % (v, inv))
    r = vplib.tlc_mc("RevAuth", "RevAuth.hash.cfg", timeout=600)
    chk.add_tlc(r, "RevAuth", "RevAuth.hash.cfg", "HashEqIsEquality")
    r = vplib.tlc("RevAuth", "RevAuth.nonvacuous.cfg", timeout=600, allow_fail=True)
    if "NoAcceptAfterMutation" not in r.invariant_violated:
        raise vplib.Machinery("vacuity check failed: no mutated message is accepted in the model")
    if thorough:
        vplib.coverage_check(chk, "RevAuth", "RevAuth.mc.quick.cfg", timeout=1800)
    gen = "RevAuth.gen.thorough.cfg" if thorough else "RevAuth.gen.quick.cfg"
    if thorough:
        # MaxMut = 2: enumerate by simulation-free exhaustive emission would be ~400k messages; sample by seed
        g = vplib.tlc("RevAuthGen", gen, workers=1, timeout=2400, simulate="num=40000", depth=4, seed=chk.seed)
        g1 = vplib.tlc("RevAuthGen", "RevAuth.gen.quick.cfg", workers=1, timeout=900)
        cases = g1.tagged_raw_json("C") + g.tagged_raw_json("C")
        chk.add_tlc(g1, "RevAuthGen", "RevAuth.gen.quick.cfg", "all single mutations")
        chk.add_tlc(g, "RevAuthGen", gen, "seeded sample of double mutations (simulate)")
    else:
        g = vplib.tlc("RevAuthGen", gen, workers=1, timeout=900)
        cases = g.tagged_raw_json("C")
        chk.add_tlc(g, "RevAuthGen", gen, "all single mutations")
        chk.exhaustive = True
    cases = sorted(set(cases))
    if len(cases) < 1000:
        raise vplib.Machinery("generator produced only %d cases" % len(cases))
    gh = vplib.tlc("RevAuthGen", "RevAuth.genhash.cfg", workers=1, timeout=600)
    hcases = sorted(set(gh.tagged_raw_json("H")))
    d = vplib.sub("c10")
    cp, hp = os.path.join(d, "cases.ndjson"), os.path.join(d, "hashes.ndjson")
    open(cp, "w").write("\n".join(cases) + "\n")
    open(hp, "w").write("\n".join(hcases) + "\n")
    res = vplib.vh("rev", ["auth", "--in", cp, "--tier", T, "--seed", str(chk.seed), hp], timeout=3000)
    chk.add_replay(res, "message_replay")
    # life cycle of the message objects (RevAPI.tla): built / decoded into fresh or used variables / verified or not / read from storage
    g = vplib.tlc_mc("RevAPIGen", "RevAPI.cfg", workers=1, timeout=300)
    scen = sorted(set(g.tagged_raw_json("A")))
    chk.add_tlc(g, "RevAPIGen", "RevAPI.cfg", "Total, FailLeavesUnchanged; %d (object state, call) scenarios" % len(scen))
    if len(scen) < 30:
        raise vplib.Machinery("only %d API scenarios" % len(scen))
    ap = os.path.join(vplib.sub("c10"), "api.ndjson")
    open(ap, "w").write("\n".join(scen) + "\n")
    res = vplib.vh("rev", ["api", "--in", ap, "--tier", T, "--seed", str(chk.seed)], timeout=600)
    nrev = sum(1 for x in scen if '"call":"prove"' not in x)
    if res["evaluations"] != nrev:
        raise vplib.Machinery("api replay: %d of %d" % (res["evaluations"], nrev))
    chk.add_replay(res, "object_life_cycle")
    # the SignedAccumulator object under everything a program does to it between two uses (SaccMemo.tla)
    memostage.run(chk, vplib.sub("c10"))

def replay(chk, path):
    v = json.load(open(path))
    d = vplib.sub("c10")
    rc = memostage.replay(chk, v, path, d)
    if rc is not None:
        return rc
    cp = os.path.join(d, "one.ndjson")
    open(cp, "w").write(json.dumps(v["case"]) + "\n")
    res = vplib.vh("rev", ["auth", "--in", cp, "--seed", str(chk.seed)])
    for x in res["violations"]:
        print("VIOLATION property=C10 replay=%s  # %s" % (path, x["what"]))
    return 1 if res["violations"] else 0
