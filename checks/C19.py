"""C19 - Number-theoretic helpers compute what they claim (NumTheory.tla)."""
import json, os, re, vplib

FUNCS = {"leg": "LegendreSymbol (odd prime modulus)", "jac": "LegendreSymbol (odd composite modulus: Jacobi)", "inv": "ModInverse",
         "pow": "ModPow", "crt": "Crt", "sqrt": "PrimeSqrt/ModSqrt", "sq4": "SumFourSquares", "fm": "FastMod.Mod",
         "spt": "safeprime.ProbablySafePrime", "rpir": "RandomPrimeInRange", "spgen": "safeprime.Generate", "gexp": "zkproof.Group.Exp"}


def run(chk):
    T = chk.tier
    thorough = T == "thorough"
    chk.rule = ("NumTheory.tla holds the textbook meaning of every helper, by other algorithms than the code (inverse: a*x mod n = 1 with "
                "existence by search; Legendre: Euler's criterion by a recursive power; Jacobi: product over the prime factors; CRT: the two "
                "congruences; square roots: r*r = a (mod n) with existence by search; four squares: the sum; FastMod: x mod (2^b - c) with floor "
                "semantics for negative x; primes and safe primes: trial division; ModPow: negative exponent = power of the searched inverse, no "
                "value when none exists; Group.Exp: signed power for -Order < e < Order). "
                "(1) TLC checks cross-consistency lemmas between independent definitions for every k up to MaxK. "
                "(2) spec->code: TLC walks a counter over the small domains (primes p < 2^8 quick / 2^12 thorough with all a mod p, all moduli "
                "2^b - c with b <= 9 / 12, all factor lists with product < 2^10 / 2^12, ...) and prints expected-result tables; the harness runs "
                "the real helpers on every entry, on negative/unreduced operands and on aliased-operand variants, and only looks results up. "
                "(3) code->spec: the harness enumerates the same small domains itself (four squares: every n < 2^14 / 2^20), records "
                "(function, args, result) batches from the real code, and NumTheoryTrace.tla decides every record by the mathematical "
                "postcondition (relations only where the result is not unique); a rejected record is a violation. "
                "(4) random operands up to 4096 bits are outside TLC's 32-bit arithmetic: the same relations are evaluated in the harness with "
                "math/big (differential against the stdlib) - a weaker binding, counted separately under large_operand_relations. "
                "Non-trivial = distinct (helper, modulus, case class).")
    chk.assumptions = ["TLC's integer arithmetic (+, *, floor division and modulus on 32-bit values, overflow raises an error) is the reference for the small domains",
                       "math/big is the reference for operands beyond 2^30 (part 4 only)",
                       "domains the property is silent about are not judged: PrimeSqrt/ModSqrt with the factor 2, Group.Exp outside -Order < e < Order "
                       "or with the result aliasing the exponent, RandomPrimeInRange on intervals without a candidate prime, safeprime.Generate below 8 bits (N3)",
                       "safeprime.Generate draws from crypto/rand: its recorded values differ between runs with the same seed"]
    # 0. the groups zkproof.BuildGroup makes of the small safe primes, as found in the tree under check (generators are derived by
    #    hashing since D50): written as module GroupGens for every TLC run below, and held against the contract by TLC
    d = vplib.sub("c19")
    gp = os.path.join(d, "GroupGens.tla")
    import subprocess
    exe = vplib.build_harness("nt", False)
    pr = subprocess.run([exe, "groups", "--n", "4096", "--out", gp], stdout=subprocess.PIPE, stderr=subprocess.STDOUT, text=True, timeout=900, env=vplib.goenv())
    if pr.returncode != 0 or not os.path.exists(gp):
        raise vplib.Machinery("nt groups: %s" % pr.stdout[-1000:])
    gens = {"GroupGens.tla": open(gp).read()}
    gc = "NumTheory.group.%s.cfg" % T
    r = vplib.tlc("NumTheory", gc, timeout=1500, files=gens, allow_fail=True)
    chk.add_tlc(r, "NumTheory", gc, "GroupContract: BuildGroup refuses exactly P = 5 and returns two different elements of order (P-1)/2 otherwise")
    if "GroupContract" in r.invariant_violated:
        m = re.search(r"k = (\d+)", r.out[r.out.find("GroupContract"):])
        P = m.group(1) if m else "?"
        line = re.search(r"\(%s :> <<[^>]*>>\)" % P, gens["GroupGens.tla"])
        chk.add_violation({"kind": "group-contract", "fn": "BuildGroup",
                           "what": "zkproof.BuildGroup(%s) = %s (built, G, H) violates the contract of the specification (refuse exactly P = 5; otherwise two different elements of order (P-1)/2 other than 1)" % (P, line.group(0) if line else "?"),
                           "args": {"P": P}})
        return
    if r.error or r.invariant_violated:
        raise vplib.Machinery("group contract run failed: %s %s" % (r.error, r.invariant_violated))
    # 1. lemmas
    mc = "NumTheory.mc.%s.cfg" % T
    r = vplib.tlc_mc("NumTheory", mc, timeout=1500, files=gens)
    chk.add_tlc(r, "NumTheory", mc, "cross-consistency lemmas of the definitions at every k (16 interleaved chains)")
    # 2. expected-result tables
    gen = "NumTheory.gen.%s.cfg" % T
    g = vplib.tlc("NumTheoryGen", gen, workers=1, timeout=2400 if thorough else 600, heap="8g", files=gens)
    rows = g.tagged_raw_json("T")
    if len(rows) < 1000 or '"t":"end"' not in rows[-1]:
        raise vplib.Machinery("table generator produced %d rows / no end marker" % len(rows))
    chk.add_tlc(g, "NumTheoryGen", gen, "%d table rows (one per modulus and helper)" % len(rows))
    tp = os.path.join(d, "tables.ndjson")
    with open(tp, "w") as f:
        f.write("\n".join(rows) + "\n")
    # 3. replay the tables on the real code
    res = vplib.vh("nt", ["replay", "--in", tp, "--tier", T, "--seed", str(chk.seed)], timeout=3000)
    chk.add_replay(res, "table_replay")
    chk.exhaustive = True
    # 4. records from the real code, validated by TLC
    for v in record_and_validate(chk, T, chk.seed, gens):
        chk.add_violation(v)
    # 5. large operands, math/big only
    lg = vplib.vh("nt", ["large", "--tier", T, "--seed", str(chk.seed)], timeout=3000)
    for v in lg.get("violations", []):  # a mismatch with math/big is a violation all the same
        chk.add_violation(v)
    # not added to evaluations / traces_validated_against_impl: these relations were not decided by TLC
    chk.extra["large_operand_relations"] = {"evaluations": lg.get("evaluations", 0), "violations": len(lg.get("violations", [])),
                                            "decided_by": "math/big in the harness, not TLC (weaker binding)",
                                            "per_helper": {k[6:]: n for k, n in lg.get("counts", {}).items() if k.startswith("large:")},
                                            "notes": lg.get("notes")}
    if lg.get("evaluations", 0) < 1000:
        raise vplib.Machinery("large-operand run evaluated only %d relations" % lg.get("evaluations", 0))

def record_and_validate(chk, T, seed, gens=None):
    """nt record -> one trace file -> NumTheoryTrace; returns the violations (rejected records)."""
    d = vplib.sub("c19")
    trace = os.path.join(d, "trace.ndjson")
    rec = vplib.vh("nt", ["record", "--tier", T, "--seed", str(seed), trace], timeout=3000)
    text = open(trace).read()
    lines = text.splitlines()
    if len(lines) < 500:
        raise vplib.Machinery("recorder produced only %d records" % len(lines))
    tv = vplib.tlc("NumTheoryTrace", "NumTheory.trace.cfg", workers=1, timeout=3000 if T == "thorough" else 900,
                   files=dict(gens or {}, **{"trace.ndjson": text}), allow_fail=True, heap="12g")
    chk.add_tlc(tv, "NumTheoryTrace", "NumTheory.trace.cfg", "%d recorded batches = %d calls of the real helpers" % (len(lines), rec.get("evaluations", 0)))
    if "MALFORMED" in tv.out:
        raise vplib.Machinery("recorder wrote a record outside the domain of the specification:\n%s" % "\n".join(re.findall(r'<<"MALFORMED".*', tv.out)[:5]))
    rejected = [json.loads(vplib._unescape(m)) for m in re.findall(r'^<<"REJECTED", "(.*)">>$', tv.out, re.M)]
    accepted = re.search(r'<<"TRACE ACCEPTED", (\d+)>>', tv.out)
    if not rejected:
        if not accepted or int(accepted.group(1)) != len(lines) or tv.error or tv.invariant_violated:
            raise vplib.Machinery("trace validation did not complete: %s\n%s" % (tv.error, tv.out[-3000:]))
    elif "TRACE REJECTED" not in tv.out:
        raise vplib.Machinery("trace validation crashed after rejecting records:\n%s" % tv.out[-3000:])
    out = []
    for rj in rejected:
        e = json.loads(lines[rj["line"] - 1])
        calls = []
        for i in rj.get("bad", []):
            if i >= 1:  # positions are 1-based; pick the i-th element of every per-call vector of the record
                c = {k: _pick(e, k, v, i) for k, v in e.items() if isinstance(v, list) and k != "fs"}
                for base, arg in (("a0", "a"), ("n0", "n"), ("y0", "y"), ("e0", "e")):
                    if base in e:
                        c[arg] = e[base] + i - 1  # the records enumerate this argument from its base value
                calls.append(c)
        scal = {k: v for k, v in e.items() if not isinstance(v, list) or k == "fs"}
        why = []
        if rj.get("nbad"):
            why.append("%d call(s) contradict the mathematical postcondition" % rj["nbad"])
        if not rj.get("kept", True):
            why.append("an operand was modified")
        if rj.get("panic"):
            why.append("a call panicked")
        out.append({"kind": "record-rejected:" + rj["f"],
                    "what": "%s: record %s rejected by NumTheoryTrace (%s); first failing calls (position, values): %s" % (
                        FUNCS.get(rj["f"], rj["f"]), json.dumps(scal, sort_keys=True), "; ".join(why),
                        json.dumps([{"pos": i, **c} for i, c in zip(rj.get("bad", []), calls)])[:600]),
                    "record": scal, "failing_positions": rj.get("bad", []), "failing_calls": calls, "seed": seed, "tier": T,
                    "trace_cmd": "nt record --tier %s --seed %d" % (T, seed)})
    if not rejected:
        chk.traces += len(lines)
        chk.evaluations += rec.get("evaluations", 0)
        chk.nontrivial += rec.get("distinct_nontrivial", 0)
    chk.extra.setdefault("parts", {})["recorded_calls"] = {"records": len(lines), "calls": rec.get("evaluations", 0), "rejected": len(rejected),
                                                           "counts": rec.get("counts"), "notes": rec.get("notes")}
    if rec.get("samples"):
        chk.samples.append(rec["samples"][0])
    return out


def _pick(e, k, v, i):
    if e["f"] == "crt" and k == "x":
        a, b = divmod(i - 1, e["pb"])
        return {"a": a, "b": b, "x": v[a][b]}
    return v[i - 1] if i - 1 < len(v) else None


def replay(chk, path):
    v = json.load(open(path))
    d = vplib.sub("c19")
    kind = v.get("kind", "")
    if "case" in v:  # one table row of TLC
        p = os.path.join(d, "one.ndjson")
        open(p, "w").write(json.dumps(v["case"]) + "\n" + json.dumps({"t": "end"}) + "\n")
        res = vplib.vh("nt", ["replay", "--in", p, "--seed", str(chk.seed)])
        vs = res["violations"]
    elif kind.startswith("record-rejected"):
        vs = [x for x in record_and_validate(chk, v.get("tier", chk.tier), v.get("seed", chk.seed)) if x["kind"] == kind]
    elif kind.startswith("large-operand"):
        res = vplib.vh("nt", ["large", "--tier", chk.tier, "--seed", str(chk.seed)])
        vs = res["violations"]
    else:
        print("replay file has neither a table row nor a record; re-run the check with VERIF_SEED=%s" % v.get("seed"))
        return 2
    for x in vs:
        print("VIOLATION property=C19 replay=%s  # %s" % (path, str(x["what"])[:300]))
    return 1 if vs else 0
