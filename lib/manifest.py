"""Regenerates MANIFEST.json from the registry below (claimed checks) + properties.jsonl (everything else not_applicable)."""
import json, os, subprocess
V = os.path.dirname(os.path.dirname(os.path.abspath(__file__)))
R = {
 "C09": dict(engine="Revocation.tla", design="5/C09, 13",
   text="TLC explores Revocation.tla (accumulator chain, witnesses, update objects with product memo; Revoke/Issue/MakeUpdate/Apply/Prepend) exhaustively within the bound and checks the C09 invariants and action properties; every distinct Apply/Prepend transition of the bound is replayed on real objects by state construction and compared with the spec's post-state, and long random histories recorded from the real code are validated step by step by RevocationTrace.tla.",
   note="Toy moduli (64-96 bit); bounded histories (quick: 3 revocations, 2 witnesses, 2 update objects, 3 applications; replayed transitions: all pre-states up to 3/5 revocations); ECDSA/SHA-256 trusted; harness projection (math/big) trusted.",
   tech="TLA+ state machine + TLC exhaustive model checking; spec->code transition replay by state construction; code->spec trace validation"),
 "C10": dict(engine="RevAuth.tla", design="5/C10, 13",
   text="TLC explores every update message an adversary can assemble from a genuine one by up to 2 mutations plus JSON/CBOR transport in RevAuth.tla and checks that the transcribed acceptance predicates imply authenticity; every single-mutation message (thorough: plus a seeded sample of double mutations) is materialised byte for byte and fed to Update.Verify, Witness.Update, EventList.Verify, Update.Prepend and Hash.Equal in memory and after real JSON/CBOR round trips.",
   note="Hash injective and signatures unforgeable in the model; chains of 3 events, 2 chains under one key; toy moduli; the unserialised SignedAccumulator.Accumulator memo is clear on received messages.",
   tech="TLA+ symbolic adversary model + TLC exhaustive model checking; generated fault cases replayed on the real code"),
}
def main():
    props = [json.loads(l) for l in open(os.path.join(V, "properties.jsonl"))]
    commits = subprocess.run(["git", "-C", "/repo", "log", "--format=%h %s", "--grep=^verif:", "7ed9736..HEAD"], stdout=subprocess.PIPE, text=True).stdout.strip().splitlines()
    na_reason = json.load(open(os.path.join(V, "lib", "not_applicable.json"))) if os.path.exists(os.path.join(V, "lib", "not_applicable.json")) else {}
    m = {"version": 1, "setup_cmd": "bin/setup",
         "hooks": {"guard": "verif", "enable": "go1.26.8 build -tags verif (GOFLAGS=-mod=mod GOPROXY=off GOTOOLCHAIN=local)",
                   "baseline_off_cmd": "cd /repo && GOFLAGS=-mod=mod GOPROXY=off GOTOOLCHAIN=local go1.26.8 test -vet=off -count=1 -timeout 25m ./...",
                   "source_commits": [c.split()[0] for c in commits], "add_only": True},
         "engines": [], "checks": [], "not_applicable": [],
         "notes": "Every check: bin/check <ID> --tier quick|thorough (seed VERIF_SEED). Exit 0 ok / 1 VIOLATION (real-code behaviour only) / 2 machinery failure. See DESIGN.md."}
    engines = {}
    for p in props:
        pid = p["id"]
        if pid in R:
            r = R[pid]
            engines.setdefault(r["engine"], []).append(pid)
            m["checks"].append({"property_id": pid, "quick_cmd": "bin/check %s --tier quick" % pid,
                                "thorough_cmd": "bin/check %s --tier thorough" % pid,
                                "evidence_file": "/verif/evidence/%s.json" % pid,
                                "replay_cmd_template": "bin/check %s --replay {path}" % pid,
                                "engine": r["engine"],
                                "level_claimed": {"category": "model_checking", "text": r["text"], "design_ref": "DESIGN.md section " + r["design"]},
                                "level_note": r["note"], "technique": r["tech"]})
        else:
            m["not_applicable"].append({"property_id": pid, "reason": na_reason.get(pid, "check not built yet (build in progress, see DESIGN.md section 10)")})
    for e, ps in engines.items():
        m["engines"].append({"name": e, "path": "/verif/spec/" + e, "serves_properties": ps, "kind_free_text": "TLA+ specification checked with TLC, bound to the Go code by the harness under /verif/harness"})
    json.dump(m, open(os.path.join(V, "MANIFEST.json"), "w"), indent=1)
    print("manifest: %d checks, %d not applicable" % (len(m["checks"]), len(m["not_applicable"])))
main()
