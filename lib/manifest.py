"""Regenerates MANIFEST.json from the registry below (claimed checks) + properties.jsonl (everything else not_applicable)."""
import json, os, subprocess
V = os.path.dirname(os.path.dirname(os.path.abspath(__file__)))
R = {
 "C09": dict(engine="Revocation.tla", design="5/C09, 13",
   text="TLC explores Revocation.tla (accumulator chain, witnesses, update objects with product memo; Revoke/Issue/MakeUpdate/Apply/Prepend) exhaustively within the bound and checks the C09 invariants and action properties; every distinct Apply/Prepend transition of the bound is replayed on real objects by state construction and compared with the spec's post-state, and long random histories recorded from the real code are validated step by step by RevocationTrace.tla.",
   note="Toy moduli (64-96 bit); bounded histories (quick: 3 revocations, 2 witnesses, 2 update objects, 3 applications; replayed transitions: all pre-states up to 3/5 revocations); ECDSA/SHA-256 trusted; harness projection (math/big) trusted.",
   tech="TLA+ state machine + TLC exhaustive model checking; spec->code transition replay by state construction; code->spec trace validation"),
 "C01": dict(engine="Disclosure.tla", design="5/C01, 13",
   text="TLC explores Disclosure.tla, a symbolic generic-group model of ProofD verification in which challenges are indeterminates, over every proof a prover can reach from the honest one by up to 2 (thorough 3) deviations, and checks Authentic; every emitted abstract proof is assembled for real by a cheating prover inside the harness (math/big, knows the credential and the group order) and submitted to ProofD.Verify and ProofList.Verify, acceptance being judged on the concrete proof; exact response-size boundaries go through ProofD.VerifyWithChallenge.",
   note="Idealised algebra in the model (strong RSA, SHA-256 not attacked); 2-3 attributes and four value classes in the model; fixed 1024-bit keys in the replay; HashCommit trusted here (C15).",
   tech="TLA+ symbolic adversary model + TLC exhaustive model checking; generated adversarial proofs replayed on the real verifier"),
 "C02": dict(engine="ProofList.tla", design="5/C02, 13",
   text="TLC explores ProofList.tla: a free adversary owning all proofs of two honest sessions assembles attempts proof by proof with arbitrary keys, labels, context, nonce, flag, short key lists; invariant Bound (acceptance implies the attempt is exactly one honest session verified with its own tuple). Every attempt of length <= 2 for selected builder configurations (thorough: plus sampled length 3) is assembled from two real sessions and given to ProofList.Verify.",
   note="Fiat-Shamir hash injective in the model (C15 covers the encoding); lists of <= 2 builders, attempts of <= 2 (3) proofs; 1024-bit keys; nonrev/range-carrying proofs are exercised by C11/C12, not here.",
   tech="TLA+ free-adversary state machine + TLC exhaustive model checking; every generated attempt replayed on the real verifier"),
 "C03": dict(engine="ProofList.tla", design="5/C03, 13",
   text="Same model and replay as C02 with the invariant LinkedOK: acceptance implies all proofs under one label are bound to one effective secret, including the side doors 'disclosure proof that discloses attribute 0' and 'issuance commitment with a second response on base R_0' reached through the public builders.",
   note="Two secrets, two keys; effective secret of an r0 commitment is decided symbolically (the resulting credential is not re-verified); 1024-bit keys.",
   tech="TLA+ free-adversary state machine + TLC exhaustive model checking; every generated attempt replayed on the real verifier"),
 "C04": dict(engine="Disclosure.tla, Builder.tla", design="5/C04, 13",
   text="TLC enumerates every credential over four value classes with up to 4 (thorough 5) attributes and every disclosure subset in the honest fragment of Disclosure.tla and checks HonestComplete; for every emitted case the library's own prover is run for both session kinds and the harness checks verification, exact key sets and values, absence of hidden values from the serialised proof and the timestamp contribution, and rejection for the other session kind.",
   note="Syntactic minimality only (no statistical hiding); 1024-bit keys; byte search only for hidden values of at least 64 bits.",
   tech="TLA+ specification of the honest prover + TLC exhaustive enumeration; every case replayed through the real prover and verifier"),
 "C15": dict(engine="FiatShamirDER.tla", design="5/C15, 13",
   text="FiatShamirDER.tla defines the DER pre-image of the challenge hash from X.690 on byte sequences; TLC checks injectivity and prefix-freeness on a pair state machine, emits expected pre-images for a boundary family of lists, and a trace spec turns inputs recorded from real proofs into the expected pre-image; the harness compares sha256 of every pre-image with HashCommit, GetHashNumber with its limb schedule, IntHashSha256 with sha256, and the challenge inside real proofs with the specification's pre-image.",
   note="SHA-256 trusted (stdlib); injectivity domain bounded (lists <= 3 over 8-13 values, elements up to 257 bytes); large pre-images emitted as segments.",
   tech="TLA+ transcription of the encoding evaluated by TLC (injectivity by exhaustive model checking); generated tables and recorded real-proof inputs compared with the real code"),
 "C17": dict(engine="KeyProof.tla", design="5/C17, 13",
   text="KeyProof.tla part (a) is the toy number theory behind the Gennaro sub-proofs: for every odd N below the bound TLC checks that moduli in each language can answer every challenge and that moduli outside it can answer at most the fraction the code's iteration counts assume; part (b) is the proof tree of ValidKeyProof as a grammar of leaf kinds with the verifier transcribed, explored under single (thorough: pairs of) alterations, contexts (other modulus, other or fewer bases) and transport. The harness builds real key proofs on 48..96-bit safe primes, enumerates the leaves by reflection and applies every (leaf kind, alteration kind, OR branch) case, runs component verifiers against bad moduli of every forbidden shape with best-effort cheating provers, and forges OR-steps.",
   note="Toy sizes (N <= 255 / 1023 in the model, 48..96-bit primes in the replay); cheating provers are best effort (roots by CRT, subgroup search up to 2^22); soundness of the Camenisch-Michels sub-proofs is covered structurally, not number-theoretically; two leads (unlinked multiplier in expStepB, no lower limit on range-proof results) are reported as observations.",
   tech="TLA+ number-theory and proof-tree models checked with TLC; generated alteration and bad-modulus cases replayed on the real provers and verifiers"),
 "C18": dict(engine="Serial.tla", design="5/C18, 13",
   text="Serial.tla has four small machines (file modes of WriteToFile as the syscalls issued, message types with optional parts and unserialised fields, key-document grammar with mutations, big-integer boundary classes); TLC checks PrivateStaysPrivate, MeaningPreserved and EverythingDecodes and emits every case; the harness executes each against the real code (temp dirs and os.Stat, real messages round-tripped and verified again, mutated key XML fed to every constructor, integers through all encodings).",
   note="Runs as root (permission checks do not apply); 1024-bit keys; mutations are single-element; D21 (negative K not serialisable) is a known finding.",
   tech="TLA+ state machines checked with TLC; every generated case replayed on the real code"),
 "C19": dict(engine="NumTheory.tla", design="5/C19, 13",
   text="NumTheory.tla states the mathematical meaning of every helper by different algorithms than the code; TLC checks cross-consistency lemmas, emits expected-result tables over exhaustive small domains that are replayed on the real helpers, and validates call records (incl. aliased-operand variants) streamed from the real code against the postconditions; random large operands are checked by the same relations in math/big and reported separately.",
   note="TLC arithmetic is 32-bit: exhaustive only for p < 2^8..2^12, n < 2^14..2^20, b <= 9..12; large operands (<= 4096 bits) are a weaker differential check against math/big.",
   tech="TLA+ mathematical definitions evaluated by TLC; tables replayed on and call records validated from the real code"),
 "C05": dict(engine="CLSig.tla, CLSign.tla", design="5/C05, 13",
   text="TLC checks Sound and Complete of CLSig.tla over a forger that holds the private key (any exponent class around the toy interval, any block, keyshare contribution and key, one alteration of the checked tuple, randomisation); every emitted case is forged for real with the 1024-bit private keys and given to CLSignature.Verify, the harness deciding interval membership, primality and block equality itself; issuer signatures over random boundary-sized blocks of every length are verified before and after randomisation.",
   note="Generic-group uniqueness of representations assumed; [M]/[H(M)] and trailing zeros are equal blocks by design of the scheme; 1024-bit keys.",
   tech="TLA+ symbolic forger model + TLC exhaustive model checking; generated forgeries replayed on the real verifier"),
 "C12": dict(engine="RangeStmt.tla", design="5/C12, 13",
   text="RangeStmt.tla transcribes the statement logic of range proofs (descriptor construction incl. three-square rescaling, ProvesStatement, ProvenStatement, ExtractStructure checks, machine-word conversion at a toy word size) and the attachment of range proofs to a ProofD; TLC checks Sound and AttachSound over the whole integer box as a state machine; the complete (descriptor, query) tables are replayed on rangeproof.Proof and every attachment case (transplants, disclosed/non-existent/beyond-largest index, duplicates, field alterations, re-verification of a reused object, false statements at the boundary) on real credentials.",
   note="Integer box m<=12 (thorough 24), toy word size 9 bits for the uint->int64 conversion; algebraic soundness of the Sigma protocol itself is assumed; 1024-bit keys.",
   tech="TLA+ transcription checked by TLC on a finite box; generated tables and adversarial cases replayed on the real code"),
 "C13": dict(engine="RangeStmt.tla", design="5/C13, 13",
   text="The Complete invariant of RangeStmt.tla (every true statement in the limits yields a non-negative, correctly shaped difference and a descriptor that proves and reports the statement) is checked by TLC on the box; emitted statements and a dense window around m = bound, factors 1..8, both signs, both splitters, several statements per proof, random differences up to 2^256, every squares-table entry and every n < 2^16 (2^20) through SumFourSquares are executed on the real prover and verifier.",
   note="Documented limit of the squares table taken from the code (scaled value <= table limit); 1024-bit keys.",
   tech="TLA+ transcription checked by TLC on a finite box; generated statements replayed through the real prover and verifier"),
 "C14": dict(engine="Keyshare.tla", design="5/C14, 13",
   text="TLC checks Bound, Complete and AlteredNeverReleased on Keyshare.tla, a message-level model of the user/keyshare-server exchange over every builder list (D, U, D+nonrev, D+range; two participating keys and one not), both flags, default/other context and every single alteration of the second message's challenge inputs; every emitted case (thorough: a seeded sample) is run through the real KeyshareUserCommitmentRequest / NewKeyshareCommitments / KeyshareUserResponseRequest / KeyshareResponse with real credentials: altered inputs must produce an error and no response, honest runs equal challenges and a joint proof list that verifies under the keyshare labelling.",
   note="Commitment hash injective in the model; lists of <= 2 (3) builders; only 1024-bit keys; legacy protocol generation not exercised; honest nonrev proofs matching known finding D10 are discarded and counted.",
   tech="TLA+ protocol model + TLC exhaustive model checking; generated honest and fault cases replayed on the real protocol functions"),
 "C08": dict(engine="Decode.tla", design="5/C08, 13",
   text="Decode.tla describes proof-list documents as trees and every structural mutation of the property's quantifier (delete, null, wrong type, duplicate, empty, truncate, re-key and copy-key to each key class, swap and misplace sub-trees, garbled accumulator) over seven real templates; TLC checks NoPanic, MalformedRejected and refinement of the code's guards and emits every single mutation and all pairs for two templates (thorough: a seeded sample of all pairs); the harness applies each patch list to the JSON of real proof lists and runs decoding and every verification entry point under recover, with matching, short, nil, foreign and revocation-less keys.",
   note="Structural mutations only: byte-level coverage-guided fuzzing of the decoders (second half of the property's quantifier) is a different technique and is not done; 1024-bit keys.",
   tech="TLA+ document/mutation model checked with TLC; every generated document replayed on the real decoders and verifiers"),
 "C16": dict(engine="KeyGen.tla, SafePrimeWorkers.tla", design="5/C16, 13",
   text="KeyGen.tla transcribes the candidate filter, findMatch and CanProve and is checked by TLC over all candidate streams up to length 4 (6); SafePrimeWorkers.tla models every channel operation of GenerateConcurrent's workers, monitor and consumer and is checked for deadlock, double close, send after abandon and, under fairness, termination without leaked workers; TLC-generated schedules are established on the real goroutines through blocking hooks (with a steered entropy source), hundreds to thousands of toy keys are generated sequentially and concurrently, each key's well-formedness projection computed with math/big and each logged candidate decision validated by KeyGenTrace.tla; the error path runs in child processes.",
   note="Toy moduli 128..512 bits (thorough: 10 keys at 1024); 2-3 (4) workers in the model; hooks in /repo under build tag verif; schedules that cannot be steered are counted as diverged, not as violations.",
   tech="TLA+ state machines + TLC (safety, deadlock, liveness under fairness); schedule replay through scheduler-gate hooks; trace validation of recorded decisions"),
 "C06": dict(engine="Issuance.tla", design="5/C06, 13",
   text="TLC checks Integrity, Complete and RejectIsError on Issuance.tla: the issuance protocol with origin-tagged message fields for every configuration (random-blind, witness, keyshare contribution) under a network adversary that alters, substitutes from a parallel run, drops one field, or replays a whole message; every emitted case is executed with two real protocol runs over several attribute layouts, and the outcome class (credential / issuer rejects / user rejects, never a panic) and the content of a produced credential are compared with the specification.",
   note="Single faults; the issuer role is the harness calling ProofList.Verify + IssueSignature on the verified ProofU.U as the application layer does; 1024-bit keys; 1..4 attributes.",
   tech="TLA+ protocol/fault model + TLC exhaustive model checking; generated fault cases replayed on the real protocol code"),
 "C11": dict(engine="NonRev.tla", design="5/C11, 13",
   text="TLC explores all interleavings (depth 4, thorough 6) of prepare-cache / revoke-other / revoke-self / update-witness / prove / attack on one credential in NonRev.tla and checks its invariants; every history is executed on a real credential and accumulator chain: honest proofs must verify and embed the accumulator index the specification says they were made against (also after a cached commitment was refreshed), revocation must be reported, and 14 manipulations of each proof (fields, accumulator substitution, transplant from another holder, stripped part, disclosed witness attribute) must be rejected; known finding D10 is constructed deliberately.",
   note="Sigma-protocol soundness assumed; freshness policy is the application's; same-index accumulators re-signed at another time are don't-care; D10 (map-order ambiguity of the witness attribute) is a known finding.",
   tech="TLA+ state machine + TLC exhaustive exploration; generated histories and attacks replayed on the real code"),
 "C07": dict(engine="Randomness.tla, NonrevCache.tla", design="5/C07, 13",
   text="Randomness.tla gives every commitment randomiser a fresh identifier and TLC checks NoReuse, SingleConsumer and NotAlsoCached over all sequences of up to 3 (5) operations on two credentials; NonrevCache.tla checks the same for every interleaving on the cache. Every emitted sequence runs on real credentials: all randomisers and randomised elements of all proofs (read through verif accessors) must be pairwise distinct, each prepared non-revocation builder consumed once, and the two-transcript extractor must fail on every pair of proofs; TLC-generated interleavings of the cache protocol are established on real goroutines through blocking hooks.",
   note="Reuse only (not statistical quality); builder objects used for one CreateProof each; 1024-bit keys; schedules of 2 preparers + 2 (3) provers.",
   tech="TLA+ state machines + TLC exhaustive model checking; generated sequences and interleavings replayed on the real code (scheduler-gate hooks)"),
 "C20": dict(engine="NonrevCache.tla, CPRNG.tla", design="5/C20, 13",
   text="TLC checks NoRace and the cache invariants on NonrevCache.tla and NoKeystreamOverlap/GapFree on CPRNG.tla (with pre-fix variants as vacuity probes); TLC-generated interleavings of the cache protocol are established on real goroutines through blocking hooks; reservations of concurrent CPRNG reads are logged at the atomic add, checked against the re-derived AES-CTR keystream and validated as a tiling by CPRNGTrace.tla; a free-running stress of 2..64 goroutines with varied GOMAXPROCS is built with the race detector, whose reports are violations, and every concurrently produced proof is verified.",
   note="Bounded interleavings replayed, scheduler-produced ones validated - not all schedules of 64 goroutines; the race detector is the monitor of the stress run; key-generation worker schedules are covered by C16.",
   tech="TLA+ process models + TLC; schedule replay through scheduler-gate hooks; trace validation of recorded reservations; race-detector-monitored stress"),
 "C10": dict(engine="RevAuth.tla", design="5/C10, 13",
   text="TLC explores every update message an adversary can assemble from a genuine one by up to 2 mutations plus JSON/CBOR transport in RevAuth.tla and checks that the transcribed acceptance predicates imply authenticity; every single-mutation message (thorough: plus a seeded sample of double mutations) is materialised byte for byte and fed to Update.Verify, Witness.Update, EventList.Verify, Update.Prepend and Hash.Equal in memory and after real JSON/CBOR round trips.",
   note="Hash injective and signatures unforgeable in the model; chains of 3 (thorough 4) events, 2 chains under one key; toy moduli; the unserialised SignedAccumulator.Accumulator memo is clear on received messages.",
   tech="TLA+ symbolic adversary model + TLC exhaustive model checking; generated fault cases replayed on the real code"),
}
X = {
 "C17": " KeyProofDeps.tla models the statement graph of the proof under a re-proving adversary that sends Pedersen commitments as 0 modulo the group prime (D29, repaired); the scenarios are built by a cheating prover inside the package (tag verif) and given to the unmodified verifier. ZkProof.tla checks the representation-proof engine in a concrete toy group (Complete, Sound2, Absorbing) and is replayed with exact numeric comparison on the real zkproof package.",
 "C01": " Every case is judged in a fresh ProofD object and in one that verified an honest proof before and was overwritten field by field (the verdict must not depend on the object's history).",
 "C04": " Builder.tla adds the caller's view of the DisclosureProofBuilder: the list of indices in any order and with repetitions, and TimestampRequestContributions asked for in every phase of the life cycle; every complete life cycle is driven through the real builder.",
 "C05": " Every forged case is also judged in a CLSignature object that verified a genuine signature before and was overwritten in place. CLSign.tla models the issuer under every scripted random stream (SignerSound, VInRange, FirstPrime); every script is fed to SignMessageBlock through a replaced crypto/rand.Reader.",
 "C09": " ApplyForeign (updates of another accumulator under the same key, D34) and Redecode (a message decoded into a used Update, D35) are actions of the model. Witness.Updated is part of the model's witness and of every comparison; RevocationGen3.tla enumerates every sequence of 3 (4) applications of one shared update object to three witnesses lagging behind by different amounts, each replayed step by step.",
 "C11": " Attacks include degenerate group elements: Cr / Cu replaced by a representative of 0 mod n and a proof built from scratch by a (possibly revoked) holder around Cr = Cu = 0 with zeros hashed (D28, repaired).",
 "C13": " The limit of the three-squares table is the DOCUMENTED one (differences up to and including the table limit; D46, repaired).",
 "C14": " Alterations include fields left out of the second message (null after decoding) and numbers negated in memory (D43, repaired), and re-divisions of adjacent numbers that keep the concatenated bytes.",
 "C10": " Mutations include negated and missing event values and a missing accumulator; entry points include re-verification under an unrelated key and FlattenEventLists; RevAPI.tla replays the life cycle of the message objects (built / decoded into fresh or used variables / verified or not / read from storage). D36-D40, D42 repaired.",
 "C06": " The issuer role of the harness does not validate anything on behalf of the library (D45: IssueSignature without nonce, repaired).",
 "C12": " RangeFS.tla models the range proof as a game with the order of the prover's choices explicit (D44: the challenge did not cover the commitments C_i - repaired); a forging prover replays it. ZkProof.tla (Qr variant) checks the representation-proof engine the range proofs use in a concrete toy group and is replayed exactly on the real zkproof package. The attachment model has range proofs with commitments 0 mod n (switch NonzeroCs, D27, repaired): forge-zero cases are built for real by a prover that hashes zeros.",
 "C08": " Every wrong-type mutation is replayed with all 12 concrete wrong values (other JSON types, fractions, negatives, non-base64, padding-only and badly padded base64).",
}
def main():
    props = [json.loads(l) for l in open(os.path.join(V, "properties.jsonl"))]
    commits = subprocess.run(["git", "-C", "/repo", "log", "--format=%h %s", "--grep=^verif:", "7ed9736..HEAD"], stdout=subprocess.PIPE, text=True).stdout.strip().splitlines()
    na_reason = json.load(open(os.path.join(V, "lib", "not_applicable.json"))) if os.path.exists(os.path.join(V, "lib", "not_applicable.json")) else {}
    m = {"version": 1, "setup_cmd": "bin/setup",
         "hooks": {"guard": "verif", "enable": "go1.26.8 build -tags verif (GOFLAGS=-mod=mod GOPROXY=off GOTOOLCHAIN=local)",
                   "baseline_off_cmd": "cd /repo && GOFLAGS=-mod=mod GOPROXY=off GOTOOLCHAIN=local go1.26.8 test -vet=off -count=1 -timeout 25m ./...",
                   "source_commits": [c.split()[0] for c in commits], "add_only": True},
         "engines": [], "checks": [], "not_applicable": [],
         "notes": "Every check: bin/check <ID> --tier quick|thorough (seed VERIF_SEED). Exit 0 ok / 1 VIOLATION (real-code behaviour only) / 2 machinery failure. See DESIGN.md."}
    engines = {}
    for p in props:
        pid = p["id"]
        if pid in R:
            r = R[pid]
            engines.setdefault(r["engine"], []).append(pid)
            m["checks"].append({"property_id": pid, "quick_cmd": "bin/check %s --tier quick" % pid,
                                "thorough_cmd": "bin/check %s --tier thorough" % pid,
                                "evidence_file": "/verif/evidence/%s.json" % pid,
                                "replay_cmd_template": "bin/check %s --replay {path}" % pid,
                                "engine": r["engine"],
                                "level_claimed": {"category": "model_checking", "text": r["text"] + X.get(pid, ""), "design_ref": "DESIGN.md section " + r["design"]},
                                "level_note": r["note"], "technique": r["tech"]})
        else:
            m["not_applicable"].append({"property_id": pid, "reason": na_reason.get(pid, "check not built yet (build in progress, see DESIGN.md section 10)")})
    for e, ps in engines.items():
        m["engines"].append({"name": e, "path": "/verif/spec/" + e.split(",")[0], "serves_properties": ps, "kind_free_text": "TLA+ specification checked with TLC, bound to the Go code by the harness under /verif/harness"})
    json.dump(m, open(os.path.join(V, "MANIFEST.json"), "w"), indent=1)
    print("manifest: %d checks, %d not applicable" % (len(m["checks"]), len(m["not_applicable"])))
main()
