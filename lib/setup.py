"""Offline setup: parse every spec with SANY, build the harness with hooks enabled (warms the Go build cache)."""
import glob, os, subprocess, sys
sys.path.insert(0, os.path.dirname(os.path.abspath(__file__)))
import vplib

def main():
    bad = 0
    for f in sorted(glob.glob(os.path.join(vplib.SPEC, "*.tla"))):
        p = subprocess.run(["java", "-cp", vplib.TLA_CP, "tla2sany.SANY", os.path.basename(f)], cwd=vplib.SPEC,
                           stdout=subprocess.PIPE, stderr=subprocess.STDOUT, text=True)
        ok = p.returncode == 0 and "Semantic errors" not in p.stdout and "Could not parse" not in p.stdout and "*** Errors" not in p.stdout
        print("sany %-28s %s" % (os.path.basename(f), "ok" if ok else "FAILED"))
        if not ok:
            print(p.stdout[-2000:]); bad += 1
    try:
        for c in sorted(os.listdir(os.path.join(vplib.HARNESS, "cmd"))):
            vplib.build_harness(c)
            print("harness build ok: %s" % c)
    except vplib.Machinery as e:
        print(e); bad += 1
    sys.exit(1 if bad else 0)
main()
