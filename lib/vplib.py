"""Shared machinery of the gabi verification checks.

Pipeline per check (DESIGN.md section 2): TLC model-check -> TLC generate cases -> Go harness replays
them on the real code built from /repo's working tree with -tags verif -> (optionally) record traces
from the real code and validate them with TLC -> verdict + evidence.

Exit codes: 0 property held on everything explored; 1 violation on the real code (VIOLATION line);
2 machinery failure (never a violation).
"""
import atexit, hashlib, json, os, re, shutil, subprocess, sys, tempfile, time

VERIF = os.path.dirname(os.path.dirname(os.path.abspath(__file__)))
REPO = os.environ.get("VERIF_REPO", "/repo")
SPEC = os.path.join(VERIF, "spec")
HARNESS = os.path.join(VERIF, "harness")
GO = os.environ.get("VERIF_GO", "go1.26.8")
TLA_CP = "/opt/veriftools/tla/tla2tools.jar:/opt/veriftools/tla/CommunityModules-deps.jar"
NCPU = os.cpu_count() or 4


class Machinery(Exception):
    """Failure of the checking machinery itself (exit 2)."""


def goenv():
    e = dict(os.environ)
    e.update(GOFLAGS="-mod=mod", GOPROXY="off", GOTOOLCHAIN="local", GONOSUMDB="*", GONOSUMCHECK="1",
             GONOPROXY="", GOPRIVATE="")
    e.pop("GOSUMDB", None)
    e["GOSUMDB"] = "off"
    return e


_scratch = None


def scratch():
    global _scratch
    if _scratch is None:
        base = os.environ.get("VERIF_SCRATCH", tempfile.gettempdir())
        _scratch = tempfile.mkdtemp(prefix="verif-", dir=base)
        if not os.environ.get("VERIF_KEEP"):
            atexit.register(shutil.rmtree, _scratch, True)
    return _scratch


def sub(name):
    d = os.path.join(scratch(), name)
    os.makedirs(d, exist_ok=True)
    return d


# ------------------------------------------------------------------ TLC

class TLCResult:
    def __init__(self, out, rc, wall):
        self.out, self.rc, self.wall = out, rc, wall
        m = re.findall(r"(\d+) states generated, (\d+) distinct states found", out)
        self.generated = int(m[-1][0]) if m else 0
        self.distinct = int(m[-1][1]) if m else 0
        m = re.search(r"The depth of the complete state graph search is (\d+)", out)
        self.depth = int(m.group(1)) if m else 0
        self.invariant_violated = re.findall(r"Invariant (\S+) is violated", out)
        self.property_violated = re.findall(r"(?:Action property|Temporal property|property) (\S+) (?:is|was) violated", out)
        self.deadlock = "Deadlock reached" in out
        self.finished = "Model checking completed" in out or "Finished in" in out
        self.error = None
        m = re.search(r"Error: (.*)", out)
        if m and not self.invariant_violated and not self.deadlock and not self.property_violated:
            self.error = m.group(1)
        self.postcondition_failed = "Evaluating postcondition" in out and "violated" in out or "PostCondition" in out and "failed" in out

    def tagged(self, tag):
        """JSON records printed by PrintT(<<tag, ToJson(x)>>)."""
        res = []
        pre = '<<"%s", "' % tag
        for line in self.out.splitlines():
            if line.startswith(pre) and line.endswith('">>'):
                body = line[len(pre):-3]
                res.append(json.loads(_unescape(body)))
        return res

    def tagged_raw_json(self, tag):
        """like tagged() but returns the un-escaped JSON text of each record (cheap dedup, no parse)."""
        res = []
        pre = '<<"%s", "' % tag
        for line in self.out.splitlines():
            if line.startswith(pre) and line.endswith('">>'):
                res.append(_unescape(line[len(pre):-3]))
        return res

    def tagged_raw(self, tag):
        res = []
        pre = '<<"%s", ' % tag
        for line in self.out.splitlines():
            if line.startswith(pre):
                res.append(line[len(pre):-2])
        return res


def _unescape(s):
    # TLC prints a TLA+ string value with \" and \\ escapes
    out = []
    i = 0
    while i < len(s):
        c = s[i]
        if c == "\\" and i + 1 < len(s):
            n = s[i + 1]
            if n == '"' or n == "\\":
                out.append(n)
            elif n == "n":
                out.append("\n")
            elif n == "t":
                out.append("\t")
            else:
                out.append(c + n)
            i += 2
        else:
            out.append(c)
            i += 1
    return "".join(out)


def tlc(module, cfg, workers=None, timeout=600, simulate=None, depth=None, seed=None, files=None,
        constants=None, dfs=False, coverage=False, heap=None, extra=None, allow_fail=False, name=None, xss="64m"):
    """Run TLC on spec/<module>.tla with config spec/cfg/<cfg> in a scratch copy of spec/.

    files: {name: content} extra files written next to the spec (e.g. recorded traces).
    constants: {NAME: value-text} appended to a copy of the cfg as CONSTANT lines.
    Returns TLCResult. Raises Machinery on crash/timeout/parse error unless allow_fail.
    """
    workers = workers or NCPU
    d = sub("tlc-%s-%d" % (name or module, int(time.time() * 1000) % 10 ** 9))
    for f in os.listdir(SPEC):
        p = os.path.join(SPEC, f)
        if os.path.isfile(p):
            shutil.copy(p, d)
    cfgsrc = os.path.join(SPEC, "cfg", cfg)
    cfgtext = open(cfgsrc).read()
    if constants:
        cfgtext += "\nCONSTANTS\n" + "\n".join("  %s = %s" % kv for kv in constants.items()) + "\n"
    open(os.path.join(d, "run.cfg"), "w").write(cfgtext)
    for k, v in (files or {}).items():
        open(os.path.join(d, k), "w").write(v)
    jopts = ["-XX:+UseParallelGC", "-Xss%s" % xss]
    if heap:
        jopts.append("-Xmx%s" % heap)
    if dfs:
        jopts.append("-Dtlc2.tool.queue.IStateQueue=StateDeque")
    cmd = ["java"] + jopts + ["-cp", TLA_CP, "tlc2.TLC", "-workers", str(workers), "-metadir",
                              os.path.join(d, "meta"), "-config", "run.cfg", "-noGenerateSpecTE"]
    if simulate:
        cmd += ["-simulate", simulate]
    if depth:
        cmd += ["-depth", str(depth)]
    if seed is not None:
        cmd += ["-seed", str(seed)]
    if coverage:
        cmd += ["-coverage", "1"]
    cmd += (extra or []) + [module + ".tla"]
    t0 = time.time()
    try:
        p = subprocess.run(cmd, cwd=d, stdout=subprocess.PIPE, stderr=subprocess.STDOUT, timeout=timeout, text=True)
    except subprocess.TimeoutExpired as e:
        out = e.stdout if isinstance(e.stdout, str) else (e.stdout or b"").decode("utf8", "replace")
        if simulate:  # simulation is bounded by its timeout by design
            r = TLCResult(out, 0, time.time() - t0)
            shutil.rmtree(d, True)
            return r
        shutil.rmtree(d, True)
        raise Machinery("TLC timeout after %ss: %s %s" % (timeout, module, cfg))
    r = TLCResult(p.stdout, p.returncode, time.time() - t0)
    if os.environ.get("VERIF_TLC_LOG"):
        with open(os.path.join(os.environ["VERIF_TLC_LOG"], "%s.%s.log" % (module, cfg)), "w") as f:
            f.write(p.stdout)
    shutil.rmtree(d, True)
    if not allow_fail:
        if r.error or (p.returncode != 0 and not (r.invariant_violated or r.deadlock or r.property_violated)):
            raise Machinery("TLC failed (%s %s rc=%d): %s\n%s" % (module, cfg, p.returncode, r.error, p.stdout[-3000:]))
    return r


def tlc_mc(module, cfg, **kw):
    """Model-check; an invariant violation of the *specification* is a machinery-level lead (exit 2)
    unless the caller handles it (expect_violation)."""
    expect = kw.pop("expect_violation", None)
    r = tlc(module, cfg, **kw)
    bad = r.invariant_violated or r.property_violated or (["Deadlock"] if r.deadlock else [])
    if expect is None and bad:
        raise Machinery("specification %s (%s) violates %s -- a lead, not reproduced on the code:\n%s" %
                        (module, cfg, bad, r.out[-4000:]))
    return r


def coverage_check(chk, module, cfg, ignore=(), **kw):
    """Vacuity guard: run TLC with -coverage 1 and require that every action of the module was taken at least once
    (an action that is never enabled within the bound means its part of the property was never exercised)."""
    r = tlc_mc(module, cfg, coverage=True, **kw)
    never = []
    for m in re.finditer(r"^<(\w+) line \d+, col \d+ to line \d+, col \d+ of module (\w+)[^>]*>: (\d+):(\d+)", r.out, re.M):
        name, mod, distinct, gen = m.group(1), m.group(2), int(m.group(3)), int(m.group(4))
        if gen == 0 and name not in ignore and name != "Init":
            never.append(name)
    chk.extra.setdefault("coverage_runs", []).append({"module": module, "cfg": cfg, "actions_never_taken": never})
    if never:
        raise Machinery("vacuity: action(s) %s of %s are never taken under %s" % (never, module, cfg))
    return r


# ------------------------------------------------------------------ Go harness

_vh = {}


def build_harness(cmd="rev", race=False):
    """Build harness/cmd/<cmd> against /repo's current working tree with hooks enabled."""
    key = cmd + ("-race" if race else "")
    if key in _vh:
        return _vh[key]
    shutil.copy(os.path.join(REPO, "go.sum"), os.path.join(HARNESS, "go.sum"))
    out = os.path.join(sub("bin"), key)
    c = [GO, "build", "-tags", "verif"] + (["-race"] if race else []) + ["-o", out, "./cmd/" + cmd]
    env = goenv()
    if REPO != "/repo":
        # build against another tree (self-tests on scratch worktrees) through a temporary go.mod
        mod = open(os.path.join(HARNESS, "go.mod")).read().replace("=> /repo", "=> " + REPO)
        tmpmod = os.path.join(sub("mod"), "go.mod")
        open(tmpmod, "w").write(mod)
        shutil.copy(os.path.join(REPO, "go.sum"), os.path.join(sub("mod"), "go.sum"))
        c[2:2] = ["-modfile", tmpmod]
    p = subprocess.run(c, cwd=HARNESS, env=env, stdout=subprocess.PIPE, stderr=subprocess.STDOUT, text=True)
    if p.returncode != 0:
        raise Machinery("harness build failed (%s):\n%s" % (cmd, p.stdout[-6000:]))
    _vh[key] = out
    return out


def vh(cmd, args, timeout=3600, race=False, stdin=None, env=None):
    """Run harness binary <cmd> with args; it writes a JSON result to the path given by --out.
    Flags must precede positional arguments (Go flag package), so --out is inserted after the sub-command."""
    exe = build_harness(cmd, race)
    out = os.path.join(sub("res"), "r%d.json" % (int(time.time() * 1e6) % 10 ** 12))
    e = goenv()
    e.update(env or {})
    argv = [exe, args[0], "--out", out] + list(args[1:])
    try:
        p = subprocess.run(argv, stdout=subprocess.PIPE, stderr=subprocess.STDOUT, timeout=timeout, text=True, env=e, input=stdin)
    except subprocess.TimeoutExpired:
        raise Machinery("harness timeout: %s %s" % (cmd, " ".join(args)))
    if p.returncode != 0 or not os.path.exists(out):
        raise Machinery("harness failed (rc=%d): %s %s\n%s" % (p.returncode, cmd, " ".join(args), p.stdout[-6000:]))
    r = json.load(open(out))
    r["_log"] = p.stdout
    return r


def gotest(pkgs, run, env=None, timeout=1800, race=False, tags="verif", cwd=None):
    cmd = [GO, "test", "-tags", tags, "-vet=off", "-count=1"] + (["-race"] if race else []) + ["-run", run] + pkgs
    e = goenv()
    e.update(env or {})
    p = subprocess.run(cmd, cwd=cwd or REPO, env=e, stdout=subprocess.PIPE, stderr=subprocess.STDOUT, text=True, timeout=timeout)
    return p.returncode, p.stdout


def write_ndjson(path, recs):
    with open(path, "w") as f:
        for r in recs:
            f.write(json.dumps(r, separators=(",", ":")) + "\n")
    return path


# ------------------------------------------------------------------ verdict and evidence

def known_findings():
    p = os.path.join(VERIF, "known_findings.json")
    if not os.path.exists(p):
        return []
    return json.load(open(p))["findings"]


class Check:
    def __init__(self, pid, tier, seed):
        self.pid, self.tier, self.seed = pid, tier, seed
        self.t0 = time.time()
        self.states = self.transitions = 0
        self.traces = 0
        self.evaluations = 0
        self.nontrivial = 0
        self.samples = []
        self.violations = []
        self.known_hits = []
        self.tlc_runs = []
        self.extra = {}
        self.rule = ""
        self.assumptions = []
        self.exhaustive = None

    def add_tlc(self, r, module, cfg, note=""):
        self.states += r.distinct
        self.transitions += r.generated
        self.tlc_runs.append({"module": module, "cfg": cfg, "distinct_states": r.distinct, "generated": r.generated,
                              "depth": r.depth, "wall_s": round(r.wall, 1), "note": note})

    def add_replay(self, res, label=""):
        """res: harness result {evaluations, distinct_nontrivial, traces, violations[], samples[], known[]}"""
        self.evaluations += res.get("evaluations", 0)
        self.nontrivial += res.get("distinct_nontrivial", 0)
        self.traces += res.get("traces", res.get("evaluations", 0))
        for s in res.get("samples", [])[:3]:
            if len(self.samples) < 8:
                self.samples.append(s)
        for v in res.get("violations", []):
            self.add_violation(v)
        if label:
            self.extra.setdefault("parts", {})[label] = {k: res[k] for k in res if k not in ("samples", "violations", "_log", "known")}

    def add_violation(self, v):
        """v: {kind, what, case...}. Matched against known_findings.json by (property, kind)."""
        for kf in known_findings():
            if kf.get("status") == "known" and kf["property"] == self.pid and _match(kf.get("match", {}), v):
                self.known_hits.append((kf, v))
                return
        self.violations.append(v)

    def finish(self):
        ev = {
            "property_id": self.pid, "tier": self.tier, "seed": self.seed, "level": "model_checking",
            "coverage": {
                "states": self.states, "transitions": self.transitions,
                "traces_validated_against_impl": self.traces,
                "samples": self.samples or [{"note": "no sample recorded"}],
                "evaluations": self.evaluations, "distinct_nontrivial": self.nontrivial,
                "rule": self.rule, "tlc_runs": self.tlc_runs,
            },
            "assumptions": self.assumptions,
            "wall_s": round(time.time() - self.t0, 1),
            "violations": len(self.violations),
        }
        if self.exhaustive is not None:
            ev["coverage"]["exhaustive"] = self.exhaustive
        ev["coverage"].update(self.extra)
        if self.known_hits:
            ev["coverage"]["known_findings_hit"] = len(self.known_hits)
        # runs against a scratch tree (self-tests on seeded changes) must not overwrite the evidence of /repo
        evdir = os.path.join(VERIF, "evidence") if REPO == "/repo" else os.path.join(tempfile.gettempdir(), "verif-selftest-evidence")
        os.makedirs(evdir, exist_ok=True)
        with open(os.path.join(evdir, self.pid + ".json"), "w") as f:
            json.dump(ev, f, indent=1, default=str)
        seen = set()
        for kf, v in self.known_hits:
            if kf["id"] not in seen:
                seen.add(kf["id"])
                n = sum(1 for k, _ in self.known_hits if k["id"] == kf["id"])
                print("KNOWN-FINDING: property=%s %s (%s; %d occurrence(s) in this run)" % (self.pid, kf["what"], kf["id"], n))
        if self.violations:
            d = os.path.join(VERIF if REPO == "/repo" else os.path.join(tempfile.gettempdir(), "verif-selftest-evidence"), "replays", self.pid)
            shutil.rmtree(d, True)
            os.makedirs(d, exist_ok=True)
            shown = set()
            firsts, rest, kinds = [], [], set()
            for v in self.violations:
                (rest if v.get("kind", "") in kinds else firsts).append(v)
                kinds.add(v.get("kind", ""))
            for v in (firsts + rest)[:25]:
                blob = json.dumps(v, sort_keys=True, default=str)
                h = hashlib.sha256(blob.encode()).hexdigest()[:12]
                path = os.path.join(d, h + ".json")
                with open(path, "w") as f:
                    json.dump(v, f, indent=1, default=str)
                k = v.get("kind", "")
                if k in shown and len(shown) > 0 and len(self.violations) > 20:
                    continue
                shown.add(k)
                print("VIOLATION property=%s replay=%s  # %s" % (self.pid, path, str(v.get("what", ""))[:300]))
            print("%s: %d violation(s) on the real code" % (self.pid, len(self.violations)))
            return 1
        print("%s %s ok: states=%d transitions=%d replayed/validated=%d evaluations=%d nontrivial=%d wall=%.0fs" % (
            self.pid, self.tier, self.states, self.transitions, self.traces, self.evaluations, self.nontrivial,
            time.time() - self.t0))
        return 0


def _match(pat, v):
    for k, want in pat.items():
        got = v.get(k)
        if isinstance(want, dict) and isinstance(got, dict):
            if not _match(want, got):
                return False
        elif got != want:
            return False
    return True
