module verifharness

go 1.26.4

require (
	github.com/fxamacker/cbor v1.5.1
	github.com/privacybydesign/gabi v0.0.0
	github.com/sirupsen/logrus v1.9.4
)

require (
	github.com/bwesterb/go-exptable v1.0.0 // indirect
	github.com/go-errors/errors v1.5.1 // indirect
	github.com/klauspost/cpuid/v2 v2.3.0 // indirect
	github.com/mr-tron/base58 v1.3.0 // indirect
	github.com/multiformats/go-multihash v0.2.3 // indirect
	github.com/multiformats/go-varint v0.1.0 // indirect
	github.com/spaolacci/murmur3 v1.1.0 // indirect
	github.com/x448/float16 v0.8.4 // indirect
	golang.org/x/crypto v0.53.0 // indirect
	golang.org/x/sys v0.46.0 // indirect
	lukechampine.com/blake3 v1.4.1 // indirect
)

replace github.com/privacybydesign/gabi => /repo
