package main

import (
	"bufio"
	"encoding/json"
	"fmt"
	"os"

	"verifharness/hx"

	"github.com/privacybydesign/gabi/big"
	"github.com/privacybydesign/gabi/revocation"
)

// record runs random long histories on real objects (no state construction: update objects and
// witnesses live through the whole history, so the real memoisation and aliasing is exercised) and
// logs one event per abstract action with the projected outcome. RevocationTrace.tla validates it.
func record(a *hx.Args, res *hx.Result) {
	const nw, nu = 3, 4
	tracePath := a.Rest[0]
	f, err := os.Create(tracePath)
	if err != nil {
		hx.Fatal("create trace: %v", err)
	}
	defer f.Close()
	out := bufio.NewWriter(f)
	defer out.Flush()
	emit := func(m hx.M) {
		b, _ := json.Marshal(m)
		out.Write(b)
		out.WriteByte('\n')
	}
	rng := hx.Rng(a.Seed, "rev-record")
	kp := hx.ToyRevocationKey(32, 0)
	maxRev := 10
	steps := 60
	if a.Tier == "thorough" {
		steps = 200
	}
	events := 0
	for h := 0; h < a.N; h++ {
		w := newWorld(kp)
		w2 := newWorld(kp) // a second accumulator chain under the same key, grown in lockstep (source of foreign event lists)
		emit(hx.M{"ev": "reset"})
		events++
		var wprime [nw + 1]*big.Int
		seen := map[string]bool{}
		fresh := func() *big.Int {
			for {
				p, _ := gobigPrime(rng, 40)
				if !seen[p.String()] {
					seen[p.String()] = true
					return big.Convert(p)
				}
			}
		}
		for i := 1; i <= nw; i++ {
			wprime[i] = fresh()
		}
		wits := map[int]*revocation.Witness{}
		revoked := map[int]bool{}
		upds := map[int]*revocation.Update{}
		n := func() int { return len(w.accs) - 1 }
		for s := 0; s < steps; s++ {
			switch op := rng.Intn(12); {
			case op == 0 && n() < maxRev: // revoke somebody else
				if err := w.revoke(fresh()); err != nil {
					hx.Fatal("revoke: %v", err)
				}
				w2.revoke(fresh())
				emit(hx.M{"ev": "revoke", "id": nw + 1})
			case op == 1 && n() < maxRev: // revoke a witness
				i := 1 + rng.Intn(nw)
				if wits[i] == nil || revoked[i] {
					continue
				}
				if err := w.revoke(wprime[i]); err != nil {
					hx.Fatal("revoke: %v", err)
				}
				w2.revoke(fresh())
				revoked[i] = true
				emit(hx.M{"ev": "revoke", "id": i})
			case op == 2: // issue
				i := 1 + rng.Intn(nw)
				if wits[i] != nil {
					continue
				}
				good := rng.Intn(8) != 0
				wits[i] = w.witness(wprime[i], n(), 0, good)
				emit(hx.M{"ev": "issue", "w": i, "good": good})
			case op == 3 || op == 4: // make update (through the real constructor when it has events)
				k := 1 + rng.Intn(nu)
				if upds[k] != nil {
					if rng.Intn(3) != 0 {
						continue
					}
					delete(upds, k)
					emit(hx.M{"ev": "discard", "k": k})
					events++
				}
				first := rng.Intn(n() + 2)
				t := rng.Intn(2)
				var u *revocation.Update
				if first <= n() && t == 0 && rng.Intn(2) == 0 {
					u, err = revocation.NewUpdate(kp.SK, w.accs[n()], append([]*revocation.Event{}, w.events[first:]...))
					if err != nil {
						res.Violation("newupdate-failed", fmt.Sprintf("NewUpdate on genuine events failed: %v", err), hx.M{"first": first, "n": n()})
						continue
					}
					// the accumulator signed by NewUpdate carries wall-clock time; normalise to abstract time 0
					u.SignedAccumulator = w.sacc(n(), 0)
				} else {
					u = w.update(first, n(), t, -1)
				}
				upds[k] = u
				emit(hx.M{"ev": "mkupd", "k": k, "f": first, "t": t})
			case op >= 5 && op <= 9: // apply
				i, k := 1+rng.Intn(nw), 1+rng.Intn(nu)
				if wits[i] == nil || upds[k] == nil {
					continue
				}
				before := snap(wits[i])
				var uerr error
				panicked, msg := hx.Try(func() { uerr = wits[i].Update(kp.PK, upds[k]) })
				if panicked {
					res.Violation("apply-panic", "Witness.Update panicked: "+msg, hx.M{"history": h, "step": s})
					continue
				}
				after := snap(wits[i])
				if uerr != nil && before != after {
					res.Violation("failed-update-changed-witness", fmt.Sprintf("Witness.Update returned %v but changed the witness", uerr), hx.M{"history": h, "step": s})
				}
				emit(hx.M{"ev": "apply", "w": i, "k": k, "class": errClass(uerr), "idx": after.idx, "t": after.t, "valid": w.valid(wits[i]), "up": after.up})
				res.Count("rec-apply:" + errClass(uerr))
			default: // prepend
				k := 1 + rng.Intn(nu)
				if upds[k] == nil || len(upds[k].Events) == 0 {
					continue
				}
				g := rng.Intn(n() + 1)
				hh := g + rng.Intn(n()+1-g)
				p := rng.Intn(2) == 0
				if hh >= 1 && rng.Intn(3) == 0 { // a list of the other chain: must be refused and leave the update as it was
					el := w2.eventlist(g, hh, p)
					var perr error
					panicked, msg := hx.Try(func() { perr = upds[k].Prepend(el) })
					if panicked {
						res.Violation("prepend-panic", "Update.Prepend panicked: "+msg, hx.M{"history": h, "step": s, "g": g, "h": hh, "foreign": true})
						continue
					}
					first, last := -1, -1
					if ev := upds[k].Events; len(ev) > 0 {
						first, last = int(ev[0].Index), int(ev[len(ev)-1].Index)
					}
					cls := "nil"
					if perr != nil {
						cls = "error"
					}
					emit(hx.M{"ev": "prependforeign", "k": k, "g": g, "h": hh, "p": p, "class": cls, "first": first, "last": last})
					res.Count("rec-prependforeign:" + cls)
					events++
					continue
				}
				el := w.eventlist(g, hh, p)
				var perr error
				panicked, msg := hx.Try(func() { perr = upds[k].Prepend(el) })
				if panicked {
					res.Violation("prepend-panic", "Update.Prepend panicked: "+msg, hx.M{"history": h, "step": s, "g": g, "h": hh})
					continue
				}
				first, last := -1, -1
				if ev := upds[k].Events; len(ev) > 0 {
					first, last = int(ev[0].Index), int(ev[len(ev)-1].Index)
				}
				cls := "nil"
				if perr != nil {
					cls = "error"
				}
				emit(hx.M{"ev": "prepend", "k": k, "g": g, "h": hh, "p": p, "class": cls, "first": first, "last": last})
				res.Count("rec-prepend:" + cls)
			}
			events++
		}
		res.Eval(fmt.Sprintf("history-%d", h))
	}
	res.Notes["events"] = events
	res.Sample(hx.M{"recorded_histories": a.N, "steps_each": steps, "trace": tracePath})
}
