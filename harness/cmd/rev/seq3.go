package main

import (
	"encoding/json"
	"fmt"
	"sync"

	"verifharness/hx"

	"github.com/privacybydesign/gabi/big"
	"github.com/privacybydesign/gabi/revocation"
)

// rev seq3 --in sequences.ndjson
//
// RevocationGen3.tla: ONE real Update object applied several times to up to three real witnesses lagging behind by
// different amounts. Every step must give the outcome, index and Updated value the specification computes, leave a
// witness that is valid for the accumulator it holds, and leave every witness it is not applied to, and on failure the
// witness itself, exactly as it was.
type step3 struct {
	W   int    `json:"w"`
	Pre int    `json:"pre"`
	Res string `json:"res"`
	Idx int    `json:"idx"`
	Up  int    `json:"up"`
}
type seq3case struct {
	Rev   []int   `json:"rev"`
	First int     `json:"first"`
	Last  int     `json:"last"`
	Steps []step3 `json:"steps"`
}

func seq3(a *hx.Args, res *hx.Result) {
	rng := hx.Rng(a.Seed, "rev-seq3")
	bits := 32
	if a.Tier == "thorough" {
		bits = 48
	}
	kp := hx.ToyRevocationKey(bits, uint(rng.Intn(3)))
	var pool []*big.Int
	seen := map[string]bool{}
	for len(pool) < 16 {
		p, _ := gobigPrime(rng, 40)
		if !seen[p.String()] {
			seen[p.String()] = true
			pool = append(pool, big.Convert(p))
		}
	}
	const other = 4 // prime id of "somebody else" for NW = 3
	worlds := map[string]*world{}
	var wmu sync.Mutex
	getWorld := func(rev []int) *world {
		key := fmt.Sprint(rev)
		wmu.Lock()
		defer wmu.Unlock()
		if w, ok := worlds[key]; ok {
			return w
		}
		w := newWorld(kp)
		for i, id := range rev {
			e := pool[id]
			if id == other {
				e = pool[4+i]
			}
			if err := w.revoke(e); err != nil {
				hx.Fatal("Remove: %v", err)
			}
		}
		worlds[key] = w
		return w
	}
	var cases []seq3case
	for _, l := range hx.ReadNDJSON(a.In) {
		var c seq3case
		if err := json.Unmarshal(l, &c); err != nil {
			hx.Fatal("bad sequence: %v", err)
		}
		cases = append(cases, c)
	}
	hx.Parallel(len(cases), func(ci int) {
		c := cases[ci]
		w := getWorld(c.Rev)
		upd := w.update(c.First, c.Last, 0, -1)
		wits := map[int]*revocation.Witness{}
		b, _ := json.Marshal(c)
		res.Eval(hx.Digest(b))
		for si, st := range c.Steps {
			if wits[st.W] == nil {
				wits[st.W] = w.witness(pool[st.W], st.Pre, 0, true)
			}
			wit := wits[st.W]
			before := map[int]witSnap{}
			for id, x := range wits {
				before[id] = snap(x)
			}
			if before[st.W].idx != st.Pre {
				hx.Fatal("sequence %d step %d: witness %d is at index %d, the specification has it at %d", ci, si, st.W, before[st.W].idx, st.Pre)
			}
			var err error
			panicked, msg := hx.Try(func() { err = wit.Update(w.kp.PK, upd) })
			res.Count("seq3:" + st.Res)
			if panicked {
				res.Violation("apply-panic", "Witness.Update panicked: "+msg, hx.M{"case": c, "step": si})
				return
			}
			after := snap(wit)
			got := hx.M{"class": errClass(err), "idx": after.idx, "updated": after.up, "valid": w.valid(wit)}
			want := hx.M{"class": specClass(st.Res), "idx": st.Idx, "updated": st.Up, "valid": true}
			if got["class"] != want["class"] || got["idx"] != want["idx"] || got["updated"] != want["updated"] || got["valid"] != want["valid"] {
				res.Violation("shared-update-sequence-diverges", fmt.Sprintf("step %d of a sequence on one shared update object: spec %s -> %v, code -> %v (err=%v)", si+1, st.Res, want, got, err),
					hx.M{"case": c, "step": si, "observed": got, "expected": want})
				return
			}
			if err != nil && before[st.W] != after {
				res.Violation("failed-update-changed-witness", fmt.Sprintf("Witness.Update returned %v but changed the witness", err), hx.M{"case": c, "step": si})
				return
			}
			for id, x := range wits {
				if id != st.W && snap(x) != before[id] {
					res.Violation("update-changed-another-witness", fmt.Sprintf("updating witness %d changed witness %d", st.W, id), hx.M{"case": c, "step": si})
					return
				}
			}
			if _, verr := upd.Verify(w.kp.PK); verr != nil || len(upd.Events) != max(0, c.Last-c.First+1) {
				res.Violation("apply-changed-update", fmt.Sprintf("the update object no longer verifies / changed its window after being applied (%v)", verr), hx.M{"case": c, "step": si})
				return
			}
		}
		if ci < 2 {
			res.Sample(hx.M{"sequence": c})
		}
	})
	res.Notes["key_bits"] = 2 * bits
	res.Notes["chains"] = len(worlds)
}
