package main

import (
	"encoding/json"
	"fmt"

	"verifharness/hx"

	"github.com/fxamacker/cbor"
	"github.com/privacybydesign/gabi/big"
	"github.com/privacybydesign/gabi/revocation"
)

// rev api --in scenarios.ndjson
//
// RevAPI.tla: objects of the revocation package as an application meets them - built locally, decoded into fresh or used
// variables, verified or not, read back from storage - and the calls it makes on them. Every scenario is set up on real
// objects of a genuine chain; the call must return with the outcome class of the specification, leave the object it fails
// on unchanged and leave bystander objects alone. A panic is a violation.
type apiScen struct {
	S struct {
		Call    string `json:"call"`
		Upd     string `json:"upd"`
		Events  string `json:"events"`
		List    string `json:"list"`
		Data    string `json:"data"`
		Payload string `json:"payload"`
		Enc     string `json:"enc"`
		Wit     string `json:"wit"`
		Parts   string `json:"parts"`
		Second  string `json:"second"`
	} `json:"s"`
	Expect struct {
		Class string `json:"class"`
		Post  string `json:"post"`
	} `json:"expect"`
}

func viaJSONUpdate(u *revocation.Update) *revocation.Update {
	b, err := json.Marshal(u)
	if err != nil {
		hx.Fatal("marshal update: %v", err)
	}
	out := new(revocation.Update)
	if err := json.Unmarshal(b, out); err != nil {
		hx.Fatal("unmarshal update: %v", err)
	}
	return out
}

func api(a *hx.Args, res *hx.Result) {
	rng := hx.Rng(a.Seed, "rev-api")
	kp := hx.ToyRevocationKey(32, uint(rng.Intn(3)))
	seen := map[string]bool{}
	fresh := func() *big.Int {
		for {
			p, _ := gobigPrime(rng, 40)
			if !seen[p.String()] {
				seen[p.String()] = true
				return big.Convert(p)
			}
		}
	}
	w, w2 := newWorld(kp), newWorld(kp)
	for i := 0; i < 7; i++ {
		if err := w.revoke(fresh()); err != nil {
			hx.Fatal("revoke: %v", err)
		}
		if err := w2.revoke(fresh()); err != nil {
			hx.Fatal("revoke: %v", err)
		}
	}
	witE := fresh()
	n := len(w.accs) - 1
	for _, l := range hx.ReadNDJSON(a.In) {
		var sc apiScen
		if err := json.Unmarshal(l, &sc); err != nil {
			hx.Fatal("bad scenario: %v", err)
		}
		if sc.S.Call == "prove" {
			continue // credential level: replayed by `nr witapi`
		}
		label := string(l)
		res.Eval(label)
		det := hx.M{"scenario": sc.S, "expected": sc.Expect}
		var err error
		bad := ""
		panicked, msg := hx.Try(func() {
			switch sc.S.Call {
			case "prepend":
				var u *revocation.Update
				first := 4
				if sc.S.Events == "none" {
					first = n + 1
				}
				u = w.update(first, n, 0, -1)
				switch sc.S.Upd {
				case "decoded":
					u = viaJSONUpdate(u)
				case "decoded-verified":
					u = viaJSONUpdate(u)
					if _, verr := u.Verify(kp.PK); verr != nil {
						hx.Fatal("genuine update does not verify: %v", verr)
					}
				}
				before := len(u.Events)
				err = u.Prepend(w.eventlist(2, 3, true))
				if err != nil && len(u.Events) != before {
					bad = "a failed Prepend changed the update"
				}
				if err == nil && (len(u.Events) != before+2 || u.Events[0].Index != 2) {
					bad = "Prepend succeeded but the update does not start at the prepended events"
				}
				if err == nil {
					if _, verr := u.Verify(kp.PK); verr != nil {
						bad = fmt.Sprintf("the update does not verify after a successful Prepend: %v", verr)
					}
				}
			case "decode-list":
				el := &revocation.EventList{}
				if sc.S.List == "used" { // the variable held another list before
					el = w.eventlist(1, 4, false)
				}
				if sc.S.List == "failed" { // ... whose verification failed
					broken := append([]*revocation.Event{}, w.events[1:5]...)
					ev := *broken[2]
					ev.ParentHash = w.events[0].ParentHash
					broken[2] = &ev
					el = revocation.NewEventList(broken...)
					if el.Verify(w.accs[4]) == nil {
						hx.Fatal("a broken chain verified")
					}
				}
				src := revocation.NewEventList()
				want := 0
				if sc.S.Payload == "some" {
					src, want = w.eventlist(2, 3, false), 2
				}
				if sc.S.Enc == "json" {
					var b []byte
					if b, err = json.Marshal(src); err == nil {
						err = json.Unmarshal(b, el)
					}
				} else {
					var b []byte
					if b, err = cbor.Marshal(src, cbor.EncOptions{}); err == nil {
						err = cbor.Unmarshal(b, el)
					}
				}
				if err == nil && len(el.Events) != want {
					bad = fmt.Sprintf("after decoding a list of %d events the variable holds %d", want, len(el.Events))
				}
				if err == nil && want > 0 {
					if verr := el.Verify(w.accs[3]); verr != nil {
						bad = fmt.Sprintf("the genuine list does not verify after being decoded into the %s variable: %v", sc.S.List, verr)
					}
				}
			case "witness-update":
				wit := w.witness(witE, 2, 0, true)
				if sc.S.Wit != "built" {
					b, merr := json.Marshal(wit)
					if merr != nil {
						hx.Fatal("marshal witness: %v", merr)
					}
					if sc.S.Wit == "decoded-no-u" || sc.S.Wit == "decoded-no-e" { // stored incompletely
						var m map[string]json.RawMessage
						if uerr := json.Unmarshal(b, &m); uerr != nil {
							hx.Fatal("unmarshal: %v", uerr)
						}
						delete(m, map[string]string{"decoded-no-u": "u", "decoded-no-e": "e"}[sc.S.Wit])
						b, _ = json.Marshal(m)
					}
					wit = new(revocation.Witness)
					if uerr := json.Unmarshal(b, wit); uerr != nil {
						hx.Fatal("unmarshal witness: %v", uerr)
					}
				}
				err = wit.Update(kp.PK, w.update(0, n, 0, -1))
				if err == nil && (!w.valid(wit) || int(wit.SignedAccumulator.Accumulator.Index) != n) {
					bad = "Witness.Update succeeded but the witness is not valid at the new index"
				}
			case "redecode-accumulator":
				// an update variable that was decoded and verified (accumulator of index 3) receives another message
				u := viaJSONUpdate(w.update(2, 3, 0, -1))
				if _, verr := u.Verify(kp.PK); verr != nil {
					hx.Fatal("genuine update does not verify: %v", verr)
				}
				next := w.update(2, n, 0, -1)
				if sc.S.Data == "garbage" {
					next.SignedAccumulator = &revocation.SignedAccumulator{Data: []byte{0, 1, 2, 3}, PKCounter: kp.PK.Counter}
				}
				var b []byte
				if sc.S.Enc == "json" {
					if b, err = json.Marshal(next.SignedAccumulator); err == nil {
						err = json.Unmarshal(b, u.SignedAccumulator) // into the used object: unserialised fields survive
					}
				} else {
					if b, err = cbor.Marshal(next.SignedAccumulator, cbor.EncOptions{}); err == nil {
						err = cbor.Unmarshal(b, u.SignedAccumulator)
					}
				}
				if err != nil {
					hx.Fatal("decoding into the used object failed: %v", err)
				}
				var acc *revocation.Accumulator
				acc, err = u.SignedAccumulator.UnmarshalVerify(kp.PK)
				if err == nil && int(acc.Index) != n {
					bad = fmt.Sprintf("the object now carries the signed bytes of accumulator %d, UnmarshalVerify answers with accumulator %d", n, acc.Index)
				}
			case "flatten":
				lists := []*revocation.EventList{w.eventlist(0, 2, true), w.eventlist(3, n, true)}
				switch sc.S.Parts {
				case "with-empty":
					empty := &revocation.EventList{ComputeProduct: true}
					b, _ := json.Marshal(revocation.NewEventList())
					if uerr := json.Unmarshal(b, empty); uerr != nil {
						hx.Fatal("unmarshal empty list: %v", uerr)
					}
					lists = append(lists, empty)
				case "without-product":
					lists = []*revocation.EventList{w.eventlist(0, 2, false), w.eventlist(3, n, false)}
				}
				var flat *revocation.EventList
				if flat, err = revocation.FlattenEventLists(lists); err == nil {
					err = flat.Verify(w.accs[n])
					if err == nil && len(flat.Events) != n+1 {
						bad = "the flattened list does not hold all events"
					}
				}
			case "prepend-shared-list":
				parts := []*revocation.EventList{w.eventlist(0, 1, true), w.eventlist(2, 2, true), w.eventlist(3, 4, true)}
				flat, ferr := revocation.FlattenEventLists(parts)
				if ferr != nil {
					hx.Fatal("flatten: %v", ferr)
				}
				u1 := w.update(5, n, 0, -1)
				if perr := u1.Prepend(flat); perr != nil {
					hx.Fatal("genuine Prepend failed: %v", perr)
				}
				var u2 *revocation.Update
				if sc.S.Second == "fails" {
					u2 = w2.update(5, n, 0, -1) // an unrelated chain: the call has to fail
				} else {
					u2 = w.update(5, n, 1, -1)
				}
				err = u2.Prepend(flat)
				if _, verr := u1.Verify(kp.PK); verr != nil {
					bad = fmt.Sprintf("Prepend of the same list to another update damaged the first update: %v", verr)
				} else if wit := w.witness(witE, 0, 0, true); wit.Update(kp.PK, u1) != nil || !w.valid(wit) {
					bad = "the first update no longer updates a witness after the same list was prepended to another update"
				}
			default:
				hx.Fatal("unknown call %s", sc.S.Call)
			}
		})
		class := "ok"
		if err != nil {
			class = "error"
		}
		res.Count("api:" + sc.S.Call + ":" + class)
		switch {
		case panicked:
			res.Violation("revocation-api-panic", sc.S.Call+" panicked: "+msg, det)
		case bad != "":
			res.Violation("revocation-api-damage", bad, det)
		case class != sc.Expect.Class:
			res.Violation("revocation-api-outcome", fmt.Sprintf("%s: the specification owes the caller %q, the code returned err=%v", sc.S.Call, sc.Expect.Class, err), det)
		}
	}
}
