// Command rev binds Revocation.tla / RevAuth.tla to the real revocation package (C09, C10).
//
//	rev replay   --in transitions.ndjson   one implementation test per abstract transition (state construction)
//	rev record   --n <histories>           random long histories on real objects, logged for trace validation
//	rev auth     --in cases.ndjson         C10: adversarial update messages (see auth.go)
package main

import (
	"encoding/json"
	"fmt"
	gobig "math/big"
	"os"
	"sync"

	"verifharness/hx"

	"github.com/privacybydesign/gabi/big"
	"github.com/privacybydesign/gabi/revocation"
)

const timeBase = 1_700_000_000

type Wit struct {
	Issued bool `json:"issued"`
	Idx    int  `json:"idx"`
	T      int  `json:"t"`
	Good   bool `json:"good"`
	Up     int  `json:"up"` // Witness.Updated as abstract time; -1: never updated
}
type Upd struct {
	Made  bool `json:"made"`
	First int  `json:"first"`
	Last  int  `json:"last"`
	T     int  `json:"t"`
	Memo  int  `json:"memo"`
}
type Act struct {
	Op  string `json:"op"`
	W   int    `json:"w"`
	K   int    `json:"k"`
	Res string `json:"res"`
	G   int    `json:"g"`
	H   int    `json:"h"`
	P   bool   `json:"p"`
}
type Trans struct {
	Rev  []int `json:"rev"`
	Wit  Wit   `json:"wit"`
	Upd  Upd   `json:"upd"`
	Act1 *Act  `json:"act1,omitempty"` // two-step sequences: a failing first call on the same objects
	Act  Act   `json:"act"`
	Pwit Wit   `json:"pwit"`
	Pupd Upd   `json:"pupd"`
}

// world is one genuine revocation chain on a toy key, with everything the harness needs to mint
// witnesses and update objects for any abstract state (it holds the private key).
type world struct {
	kp     hx.KeyPair
	accs   []*revocation.Accumulator // accs[i]: accumulator with index i
	events []*revocation.Event       // events[i]: event with index i (0 = initial event)
	nus    []*gobig.Int              // nu_i, recomputed by the harness with math/big
	primes []*big.Int                // primes[i]: value removed by event i (i >= 1)
	mu     sync.Mutex
	saccs  map[[2]int]*revocation.SignedAccumulator
}

func newWorld(kp hx.KeyPair) *world {
	u, err := revocation.NewAccumulator(kp.SK)
	if err != nil {
		hx.Fatal("NewAccumulator: %v", err)
	}
	acc, err := u.SignedAccumulator.UnmarshalVerify(kp.PK)
	if err != nil {
		hx.Fatal("UnmarshalVerify: %v", err)
	}
	return &world{kp: kp, accs: []*revocation.Accumulator{acc}, events: []*revocation.Event{u.Events[0]},
		nus: []*gobig.Int{new(gobig.Int).Set(acc.Nu.Go())}, primes: []*big.Int{nil},
		saccs: map[[2]int]*revocation.SignedAccumulator{}}
}

// root computes x^(1/e) mod N with the group order (math/big only).
func (w *world) root(x, e *gobig.Int) *gobig.Int {
	inv := new(gobig.Int).ModInverse(e, w.kp.SK.Order.Go())
	if inv == nil {
		hx.Fatal("prime not invertible modulo the group order")
	}
	return new(gobig.Int).Exp(x, inv, w.kp.PK.N.Go())
}

func (w *world) revoke(e *big.Int) error {
	n := len(w.accs) - 1
	acc, ev, err := w.accs[n].Remove(w.kp.SK, e, w.events[n])
	if err != nil {
		return err
	}
	w.accs = append(w.accs, acc)
	w.events = append(w.events, ev)
	w.primes = append(w.primes, e)
	w.nus = append(w.nus, w.root(w.nus[n], e.Go()))
	return nil
}

// sacc returns a fresh copy of the signed accumulator of index i signed at abstract time t.
func (w *world) sacc(i, t int) *revocation.SignedAccumulator {
	w.mu.Lock()
	defer w.mu.Unlock()
	k := [2]int{i, t}
	s, ok := w.saccs[k]
	if !ok {
		a := *w.accs[i]
		a.Time = timeBase + int64(t)
		var err error
		s, err = a.Sign(w.kp.SK)
		if err != nil {
			hx.Fatal("Sign: %v", err)
		}
		w.saccs[k] = s
	}
	c := *s
	ac := *s.Accumulator
	c.Accumulator = &ac
	return &c
}

func (w *world) witness(e *big.Int, idx, t int, good bool) *revocation.Witness {
	u := w.root(w.nus[idx], e.Go())
	if !good {
		u.Mul(u, gobig.NewInt(4)).Mod(u, w.kp.PK.N.Go())
	}
	return &revocation.Witness{U: big.Convert(u), E: e, SignedAccumulator: w.sacc(idx, t)}
}

func (w *world) update(first, last, t, memo int) *revocation.Update {
	u := &revocation.Update{SignedAccumulator: w.sacc(last, t), Events: []*revocation.Event{}}
	if first <= last {
		u.Events = append(u.Events, w.events[first:last+1]...)
	}
	if memo >= 0 {
		u.Product(uint64(memo))
	}
	return u
}

func (w *world) eventlist(g, h int, withProduct bool) *revocation.EventList {
	el := revocation.NewEventList(append([]*revocation.Event{}, w.events[g:h+1]...)...)
	if !withProduct {
		return el
	}
	b, err := json.Marshal(el)
	if err != nil {
		hx.Fatal("marshal eventlist: %v", err)
	}
	el2 := &revocation.EventList{ComputeProduct: true}
	if err := json.Unmarshal(b, el2); err != nil {
		hx.Fatal("unmarshal eventlist: %v", err)
	}
	return el2
}

func (w *world) valid(wit *revocation.Witness) bool {
	idx := int(wit.SignedAccumulator.Accumulator.Index)
	if idx >= len(w.nus) {
		return false
	}
	return new(gobig.Int).Exp(wit.U.Go(), wit.E.Go(), w.kp.PK.N.Go()).Cmp(w.nus[idx]) == 0
}

func errClass(err error) string {
	switch {
	case err == nil:
		return "nil"
	case err == revocation.ErrorRevoked:
		return "revoked"
	default:
		return "error"
	}
}

func specClass(res string) string {
	switch res {
	case "noop", "ok", "oktime":
		return "nil"
	case "revoked":
		return "revoked"
	default:
		return "error"
	}
}

type witSnap struct {
	u, e       string
	idx, t, up int
}

// Witness.Updated as abstract time (-1: zero value)
func upOf(w *revocation.Witness) int {
	if w.Updated.IsZero() {
		return -1
	}
	return int(w.Updated.Unix() - timeBase)
}

func snap(w *revocation.Witness) witSnap {
	return witSnap{w.U.String(), w.E.String(), int(w.SignedAccumulator.Accumulator.Index), int(w.SignedAccumulator.Accumulator.Time - timeBase), upOf(w)}
}

func main() {
	if len(os.Args) < 2 {
		hx.Fatal("usage: rev replay|record|auth ...")
	}
	cmd := os.Args[1]
	os.Args = append(os.Args[:1], os.Args[2:]...)
	a := hx.ParseArgs()
	res := hx.NewResult()
	switch cmd {
	case "replay":
		replay(a, res)
	case "seq3":
		seq3(a, res)
	case "api":
		api(a, res)
	case "record":
		record(a, res)
	case "auth":
		auth(a, res)
	default:
		hx.Fatal("unknown subcommand %s", cmd)
	}
	res.Write(a.Out)
}

// ---------------------------------------------------------------- replay of abstract transitions

func replay(a *hx.Args, res *hx.Result) {
	lines := hx.ReadNDJSON(a.In)
	rng := hx.Rng(a.Seed, "rev-replay")
	bits := 32
	if a.Tier == "thorough" {
		bits = 48
	}
	kp := hx.ToyRevocationKey(bits, uint(rng.Intn(3)))
	// distinct primes: one for the witness, one per position for "somebody else"
	var pool []*big.Int
	seen := map[string]bool{}
	for len(pool) < 16 {
		p, err := gobigPrime(rng, 40)
		if err != nil {
			hx.Fatal("prime: %v", err)
		}
		if !seen[p.String()] {
			seen[p.String()] = true
			pool = append(pool, big.Convert(p))
		}
	}
	pool2 := pool[8:]
	pool = pool[:8]
	worlds := map[string]*world{}
	var wmu sync.Mutex
	getWorld := func(rev []int) *world {
		key := fmt.Sprint(rev)
		wmu.Lock()
		defer wmu.Unlock()
		if w, ok := worlds[key]; ok {
			return w
		}
		w := newWorld(kp)
		for i, id := range rev {
			e := pool[0]
			if id != 1 {
				e = pool[1+i]
			}
			if err := w.revoke(e); err != nil {
				hx.Fatal("Remove: %v", err)
			}
			// the library's accumulator value must be the e-th root the abstract model assumes
			if w.accs[i+1].Nu.Go().Cmp(w.nus[i+1]) != 0 {
				res.Violation("remove-wrong-value", "Accumulator.Remove did not produce nu^(1/e)", hx.M{"rev": rev, "i": i + 1})
			}
		}
		worlds[key] = w
		return w
	}
	worlds2 := map[string]*world{}
	getWorld2 := func(rev []int) *world { // another accumulator chain of the same length under the same key
		key := fmt.Sprint(len(rev))
		wmu.Lock()
		defer wmu.Unlock()
		if w, ok := worlds2[key]; ok {
			return w
		}
		w := newWorld(kp)
		for i := 0; i < len(rev) || i < 6; i++ { // (at least six events: foreign updates of every index are needed)
			if err := w.revoke(pool2[i]); err != nil {
				hx.Fatal("Remove: %v", err)
			}
		}
		worlds2[key] = w
		return w
	}
	dedup := map[string]bool{}
	var cases []Trans
	for _, l := range lines {
		var t Trans
		if err := json.Unmarshal(l, &t); err != nil {
			hx.Fatal("bad transition: %v", err)
		}
		key := string(l)
		if t.Act1 == nil && t.Act.Op == "prepend" { // independent of the witness
			t.Wit, t.Pwit = Wit{}, Wit{}
			b, _ := json.Marshal(t)
			key = string(b)
		}
		if dedup[key] {
			continue
		}
		dedup[key] = true
		cases = append(cases, t)
	}
	hx.Parallel(len(cases), func(i int) {
		t := cases[i]
		w := getWorld(t.Rev)
		if t.Act1 != nil {
			replaySeq(w, getWorld2(t.Rev), pool[0], t, res)
			return
		}
		switch t.Act.Op {
		case "applyforeign":
			replayApplyForeign(w, getWorld2(t.Rev), pool[0], t, res)
		case "apply":
			replayApply(w, pool[0], t, res)
		case "prepend":
			replayPrepend(w, t, res)
		}
	})
	res.Notes["key_bits"] = 2 * bits
	res.Notes["chains"] = len(worlds)
}

func gobigPrime(rng interface{ Int63() int64 }, bits int) (*gobig.Int, error) {
	for {
		x := new(gobig.Int).SetInt64(rng.Int63() >> (63 - uint(bits)))
		x.SetBit(x, bits-1, 1).SetBit(x, 0, 1)
		if x.ProbablyPrime(30) {
			return x, nil
		}
	}
}

func replayApply(w *world, e *big.Int, t Trans, res *hx.Result) {
	wit := w.witness(e, t.Wit.Idx, t.Wit.T, t.Wit.Good)
	upd := w.update(t.Upd.First, t.Upd.Last, t.Upd.T, t.Upd.Memo)
	before := snap(wit)
	var err error
	panicked, msg := hx.Try(func() { err = wit.Update(w.kp.PK, upd) })
	nontrivial := ""
	if t.Act.Res != "noop" {
		nontrivial = fmt.Sprintf("apply/%v/%v/%v/%s", t.Rev, t.Wit, t.Upd, t.Act.Res)
	}
	res.Eval(nontrivial)
	res.Count("apply:" + t.Act.Res)
	if panicked {
		res.Violation("apply-panic", "Witness.Update panicked: "+msg, hx.M{"case": t})
		return
	}
	after := snap(wit)
	got := hx.M{"class": errClass(err), "idx": after.idx, "t": after.t, "valid": w.valid(wit), "updated": after.up}
	want := hx.M{"class": specClass(t.Act.Res), "idx": t.Pwit.Idx, "t": t.Pwit.T, "valid": t.Pwit.Good, "updated": t.Pwit.Up}
	res.Sample(hx.M{"transition": t, "observed": got})
	if got["class"] != want["class"] || got["idx"] != want["idx"] || got["t"] != want["t"] || got["valid"] != want["valid"] || got["updated"] != want["updated"] {
		res.Violation("apply-diverges", fmt.Sprintf("Witness.Update: spec %s -> %v, code -> %v (err=%v)", t.Act.Res, want, got, err),
			hx.M{"case": t, "observed": got, "expected": want})
		return
	}
	if err != nil && before != after {
		res.Violation("failed-update-changed-witness", fmt.Sprintf("Witness.Update returned %v but changed the witness", err), hx.M{"case": t})
	}
}

// replayApplyForeign: Witness.Update with a genuinely signed update of another accumulator chain under the same key
func replayApplyForeign(w, foreign *world, e *big.Int, t Trans, res *hx.Result) {
	wit := w.witness(e, t.Wit.Idx, t.Wit.T, t.Wit.Good)
	upd := foreign.update(0, t.Act.G, t.Act.H, -1)
	before := snap(wit)
	var err error
	panicked, msg := hx.Try(func() { err = wit.Update(w.kp.PK, upd) })
	res.Eval(fmt.Sprintf("applyforeign/%v/%v/%d/%d", t.Rev, t.Wit, t.Act.G, t.Act.H))
	res.Count("applyforeign:" + t.Act.Res)
	if panicked {
		res.Violation("apply-panic", "Witness.Update panicked: "+msg, hx.M{"case": t})
		return
	}
	if wantNil := t.Act.Res == "noop"; (err == nil) != wantNil {
		res.Violation("apply-diverges", fmt.Sprintf("Witness.Update with an update of another accumulator (index %d, time %d): spec %s, code err=%v", t.Act.G, t.Act.H, t.Act.Res, err), hx.M{"case": t})
		return
	}
	if snap(wit) != before {
		res.Violation("foreign-update-changed-witness", fmt.Sprintf("Witness.Update with an update of another accumulator (index %d, time %d, err=%v) changed the witness", t.Act.G, t.Act.H, err), hx.M{"case": t})
		return
	}
	if w.valid(wit) != t.Wit.Good {
		res.Violation("foreign-update-changed-witness", "the witness is no longer valid for the accumulator it holds", hx.M{"case": t})
	}
}

func replayPrepend(w *world, t Trans, res *hx.Result) {
	upd := w.update(t.Upd.First, t.Upd.Last, t.Upd.T, t.Upd.Memo)
	el := w.eventlist(t.Act.G, t.Act.H, t.Act.P)
	var err error
	panicked, msg := hx.Try(func() { err = upd.Prepend(el) })
	res.Eval(fmt.Sprintf("prepend/%v/%v/%d-%d/%v", t.Rev, t.Upd, t.Act.G, t.Act.H, t.Act.P))
	res.Count("prepend:" + t.Act.Res)
	if panicked {
		res.Violation("prepend-panic", "Update.Prepend panicked: "+msg, hx.M{"case": t})
		return
	}
	first, last := -1, -1
	if len(upd.Events) > 0 {
		first, last = int(upd.Events[0].Index), int(upd.Events[len(upd.Events)-1].Index)
	}
	wantNil := t.Act.Res == "ok"
	if (err == nil) != wantNil || first != t.Pupd.First || last != t.Pupd.Last {
		res.Violation("prepend-diverges", fmt.Sprintf("Update.Prepend: spec %s -> window %d..%d, code -> err=%v window %d..%d",
			t.Act.Res, t.Pupd.First, t.Pupd.Last, err, first, last), hx.M{"case": t})
		return
	}
	if _, verr := upd.Verify(w.kp.PK); verr != nil {
		res.Violation("prepend-broke-update", fmt.Sprintf("update does not verify after Prepend (err=%v): %v", err, verr), hx.M{"case": t})
	}
}

// replaySeq: a failing first call (Apply, Prepend or Prepend of a foreign list) and then Apply, on the same real objects.
func replaySeq(w, foreign *world, e *big.Int, t Trans, res *hx.Result) {
	wit := w.witness(e, t.Wit.Idx, t.Wit.T, t.Wit.Good)
	upd := w.update(t.Upd.First, t.Upd.Last, t.Upd.T, t.Upd.Memo)
	before := snap(wit)
	var err1 error
	panicked, msg := hx.Try(func() {
		switch t.Act1.Op {
		case "apply":
			err1 = wit.Update(w.kp.PK, upd)
		case "prepend":
			err1 = upd.Prepend(w.eventlist(t.Act1.G, t.Act1.H, t.Act1.P))
		case "prependforeign":
			err1 = upd.Prepend(foreign.eventlist(t.Act1.G, t.Act1.H, t.Act1.P))
		case "applyforeign":
			err1 = wit.Update(w.kp.PK, foreign.update(0, t.Act1.G, t.Act1.H, -1))
		case "redecode":
			// another genuine message of the chain is decoded into the used update object
			var bts []byte
			if bts, err1 = json.Marshal(w.update(t.Act1.G, len(w.accs)-1, t.Act1.H, -1)); err1 == nil {
				err1 = json.Unmarshal(bts, upd)
			}
		}
	})
	res.Eval(fmt.Sprintf("seq/%v/%v/%v/%v/%s", t.Rev, t.Wit, t.Upd, *t.Act1, t.Act.Res))
	res.Count("seq:" + t.Act1.Op + ":" + t.Act1.Res + ":" + t.Act.Res)
	if panicked {
		res.Violation("seq-panic", "first call panicked: "+msg, hx.M{"case": t})
		return
	}
	if wantOK := t.Act1.Res == "ok" || t.Act1.Res == "noop"; (err1 == nil) != wantOK {
		res.Violation("seq-first-call-diverges", fmt.Sprintf("spec: %s -> %s, code: err=%v", t.Act1.Op, t.Act1.Res, err1), hx.M{"case": t})
		return
	}
	if snap(wit) != before {
		res.Violation("failed-update-changed-witness", fmt.Sprintf("%s returned %v but changed the witness", t.Act1.Op, err1), hx.M{"case": t})
		return
	}
	var err error
	panicked, msg = hx.Try(func() { err = wit.Update(w.kp.PK, upd) })
	if panicked {
		res.Violation("apply-panic", "Witness.Update panicked after a failed call: "+msg, hx.M{"case": t})
		return
	}
	after := snap(wit)
	got := hx.M{"class": errClass(err), "idx": after.idx, "t": after.t, "valid": w.valid(wit), "updated": after.up}
	want := hx.M{"class": specClass(t.Act.Res), "idx": t.Pwit.Idx, "t": t.Pwit.T, "valid": t.Pwit.Good, "updated": t.Pwit.Up}
	if got["class"] != want["class"] || got["idx"] != want["idx"] || got["t"] != want["t"] || got["valid"] != want["valid"] || got["updated"] != want["updated"] {
		res.Violation("state-left-by-first-call", fmt.Sprintf("after %s (%v) Witness.Update: spec %s -> %v, code -> %v (err=%v)",
			t.Act1.Op, err1, t.Act.Res, want, got, err), hx.M{"case": t, "observed": got, "expected": want})
	}
}
