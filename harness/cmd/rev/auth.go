package main

import (
	"bytes"
	"crypto/ecdsa"
	"crypto/sha256"
	"crypto/sha512"
	"encoding/binary"
	"encoding/json"
	"fmt"
	gobig "math/big"
	"sync"

	"verifharness/hx"

	"github.com/fxamacker/cbor"
	"github.com/privacybydesign/gabi/big"
	"github.com/privacybydesign/gabi/revocation"
	"github.com/privacybydesign/gabi/signed"
)

// ---- abstract message of RevAuth.tla

type aHash struct {
	Alg string          `json:"alg"`
	Cut string          `json:"cut"`
	Of  json.RawMessage `json:"of"`
}
type aEvent struct {
	Idx int    `json:"idx"`
	E   [2]any `json:"e"`
	Ph  aHash  `json:"ph"`
	Sh  int    `json:"sh"` // 1: on the wire the leading byte of the value sits at the end of the parent hash
	Neg int    `json:"neg"` // 1: the value is negated (in memory)
}
type aPtm struct {
	C  string `json:"c"`
	G  int    `json:"g"`
	H  int    `json:"h"`
	Ok bool   `json:"ok"`
}
type aAcc struct {
	Nu   [2]any `json:"nu"`
	Idx  int    `json:"idx"`
	Time int    `json:"time"`
	Eh   aHash  `json:"eh"`
}
type aSacc struct {
	Key     int  `json:"key"`
	Over    aAcc `json:"over"`
	Ctr     int  `json:"ctr"`
	Payload aAcc `json:"payload"`
}
type aMsg struct {
	Sacc        aSacc    `json:"sacc"`
	Events      []aEvent `json:"events"`
	Transported string   `json:"transported"`
}
type aPrep struct {
	F2    int  `json:"f2"`
	A2    int  `json:"a2"`
	Ok    bool `json:"ok"`
	First int  `json:"first"`
}
type aCase struct {
	Msg      aMsg           `json:"msg"`
	Nmut     int            `json:"nmut"`
	Base     map[string]int `json:"base"`
	Genuine  *aMsg          `json:"genuine"`
	Auth     bool           `json:"auth"`
	Verify   bool           `json:"verify"`
	ElAuth   bool           `json:"elauth"`
	ElVerify bool           `json:"elverify"`
	OtherKey bool           `json:"otherkey"`
	Flatten  bool           `json:"flatten"`
	Prep     []aPrep        `json:"prep"`
	Ptm      []aPtm         `json:"ptm"`
}

// ---- concretisation

type authWorld struct {
	kp     hx.KeyPair
	other  *ecdsa.PrivateKey
	chains map[string]*world
	fresh  *big.Int
	mu     sync.Mutex
	hcache map[string][]byte
}

func (aw *authWorld) val(v [2]any) *big.Int {
	c := v[0].(string)
	i := int(v[1].(float64))
	if i >= 100 { // the value without its leading byte
		full := aw.val([2]any{c, float64(i - 100)}).Go().Bytes()
		return big.Convert(new(gobig.Int).SetBytes(full[1:]))
	}
	switch c {
	case "nil":
		return nil // a missing value
	case "one":
		return big.NewInt(1)
	case "fresh":
		return aw.fresh
	default:
		return aw.chains[c].primes[i]
	}
}

// multihash bytes: code, length, digest (single-byte varints for the codes used here)
func mh(code byte, digest []byte) []byte {
	return append([]byte{code, byte(len(digest))}, digest...)
}

func (aw *authWorld) hash(h aHash) revocation.Hash {
	var of map[string]json.RawMessage
	if err := json.Unmarshal(h.Of, &of); err != nil {
		hx.Fatal("bad hash.of: %v", err)
	}
	var data []byte
	isZero := false
	if _, ok := of["zero"]; ok {
		isZero = true
	} else {
		var ev aEvent
		if err := json.Unmarshal(h.Of, &ev); err != nil {
			hx.Fatal("bad hash.of event: %v", err)
		}
		data = aw.eventBytes(ev)
	}
	var code byte
	var digest []byte
	switch h.Alg {
	case "sha256":
		code = 0x12
		if isZero {
			digest = make([]byte, 32)
		} else {
			d := sha256.Sum256(data)
			digest = d[:]
		}
	default: // another, known multihash algorithm over the same bytes
		code = 0x13
		d := sha512.Sum512(data)
		digest = d[:]
	}
	full := mh(code, digest)
	switch h.Cut {
	case "full":
		return full
	case "rawpre":
		return full[:10]
	case "lenpre":
		return mh(code, digest[:8])
	case "rawext":
		return append(append([]byte{}, full...), 0)
	case "lenext":
		return mh(code, append(append([]byte{}, digest...), 0))
	case "empty":
		return revocation.Hash{}
	}
	hx.Fatal("unknown cut %s", h.Cut)
	return nil
}

// eventBytes is the pre-image of an event hash as the protocol defines it (index, parent hash, value).
func (aw *authWorld) eventBytes(ev aEvent) []byte {
	b := make([]byte, 8)
	binary.BigEndian.PutUint64(b, uint64(ev.Idx))
	b = append(b, aw.hash(ev.Ph)...)
	if v := aw.val(ev.E); v != nil {
		b = append(b, v.Go().Bytes()...)
	}
	return b
}

func (aw *authWorld) event(ev aEvent) *revocation.Event {
	e, ph := aw.val(ev.E), aw.hash(ev.Ph)
	if ev.Sh == 1 {
		b := e.Go().Bytes()
		ph = append(append(revocation.Hash{}, ph...), b[0])
		e = big.Convert(new(gobig.Int).SetBytes(b[1:]))
	}
	if ev.Neg == 1 && e != nil {
		e = new(big.Int).Neg(e)
	}
	return &revocation.Event{Index: uint64(ev.Idx), E: e, ParentHash: ph}
}

func (aw *authWorld) acc(a aAcc) *revocation.Accumulator {
	c := a.Nu[0].(string)
	i := int(a.Nu[1].(float64))
	return &revocation.Accumulator{Nu: big.Convert(new(gobig.Int).Set(aw.chains[c].nus[i])), Index: uint64(a.Idx),
		Time: timeBase + int64(a.Time), EventHash: aw.hash(a.Eh)}
}

type sigTuple struct{ Msg, Sig []byte }

func (aw *authWorld) sacc(s aSacc) *revocation.SignedAccumulator {
	if s.Key == 3 {
		return nil // the message carries no accumulator at all
	}
	overBytes, err := cbor.Marshal(aw.acc(s.Over), cbor.EncOptions{})
	if err != nil {
		hx.Fatal("cbor: %v", err)
	}
	payBytes, err := cbor.Marshal(aw.acc(s.Payload), cbor.EncOptions{})
	if err != nil {
		hx.Fatal("cbor: %v", err)
	}
	var sig []byte
	switch s.Key {
	case 0:
		sig, err = signed.Sign(aw.kp.SK.ECDSA, overBytes)
	case 1:
		sig, err = signed.Sign(aw.other, overBytes)
	default:
		sig = []byte{0x30, 0x03, 0x02, 0x01, 0x01}
	}
	if err != nil {
		hx.Fatal("sign: %v", err)
	}
	data, err := cbor.Marshal(&sigTuple{payBytes, sig}, cbor.EncOptions{})
	if err != nil {
		hx.Fatal("cbor: %v", err)
	}
	return &revocation.SignedAccumulator{Data: signed.Message(data), PKCounter: aw.kp.PK.Counter + uint(s.Ctr)}
}

func (aw *authWorld) update(m aMsg) *revocation.Update {
	u := &revocation.Update{SignedAccumulator: aw.sacc(m.Sacc), Events: []*revocation.Event{}}
	for _, ev := range m.Events {
		u.Events = append(u.Events, aw.event(ev))
	}
	return u
}

func sameEvents(a []*revocation.Event, b []*revocation.Event) bool {
	if len(a) != len(b) {
		return false
	}
	for i := range a {
		if a[i].Index != b[i].Index || (a[i].E == nil) != (b[i].E == nil) || (a[i].E != nil && a[i].E.Cmp(b[i].E) != 0) || !bytes.Equal(a[i].ParentHash, b[i].ParentHash) {
			return false
		}
	}
	return true
}

func auth(a *hx.Args, res *hx.Result) {
	lines := hx.ReadNDJSON(a.In)
	L := 0
	dedup := map[string]bool{}
	var cases []aCase
	var hcases []json.RawMessage
	if len(a.Rest) > 0 {
		hcases = hx.ReadNDJSON(a.Rest[0])
	}
	for _, l := range lines {
		if dedup[string(l)] {
			continue
		}
		dedup[string(l)] = true
		var c aCase
		if err := json.Unmarshal(l, &c); err != nil {
			hx.Fatal("bad case: %v", err)
		}
		for _, p := range c.Prep {
			if p.A2 > L {
				L = p.A2
			}
		}
		cases = append(cases, c)
	}
	if L == 0 {
		L = 3
	}
	rng := hx.Rng(a.Seed, "rev-auth")
	kp := hx.ToyRevocationKey(32, uint(rng.Intn(3)))
	other, err := signed.GenerateKey()
	if err != nil {
		hx.Fatal("ecdsa: %v", err)
	}
	aw := &authWorld{kp: kp, other: other, chains: map[string]*world{}, hcache: map[string][]byte{}}
	seen := map[string]bool{}
	fresh := func() *big.Int {
		for {
			p, _ := gobigPrime(rng, 40)
			if !seen[p.String()] {
				seen[p.String()] = true
				return big.Convert(p)
			}
		}
	}
	aw.fresh = fresh()
	for _, c := range []string{"A", "B"} {
		w := newWorld(kp)
		for i := 0; i < L; i++ {
			if err := w.revoke(fresh()); err != nil {
				hx.Fatal("revoke: %v", err)
			}
		}
		aw.chains[c] = w
	}
	wA := aw.chains["A"]
	witE := fresh()

	hx.Parallel(len(cases), func(i int) {
		c := cases[i]
		key := ""
		if c.Nmut > 0 {
			b, _ := json.Marshal(c.Msg)
			key = hx.Digest(b)
		}
		res.Eval(key)
		runAuthCase(aw, wA, witE, L, c, res)
	})
	// Hash.Equal table
	for _, l := range hcases {
		var hc struct {
			H1, H2   aHash
			Eq, Same bool
		}
		if err := json.Unmarshal(l, &hc); err != nil {
			hx.Fatal("bad hash case: %v", err)
		}
		h1, h2 := aw.hash(hc.H1), aw.hash(hc.H2)
		if bytes.Equal(h1, h2) != hc.Same {
			hx.Fatal("concretisation of hashes is not injective: %v %v", hc.H1, hc.H2)
		}
		got := h1.Equal(h2)
		k := ""
		if !hc.Same {
			k = "heq/" + hx.Digest(l)
		}
		res.Eval(k)
		if got != hc.Same {
			res.Violation("hash-equal-not-equality", fmt.Sprintf("Hash.Equal(%x, %x) = %v but the hashes are %s", []byte(h1), []byte(h2), got,
				map[bool]string{true: "equal", false: "different"}[hc.Same]), hx.M{"h1": hc.H1, "h2": hc.H2})
		}
	}
	res.Notes["hash_pairs"] = len(hcases)
	res.Notes["messages"] = len(cases)
}

func runAuthCase(aw *authWorld, wA *world, witE *big.Int, L int, c aCase, res *hx.Result) {
	pk := aw.kp.PK
	type variant struct {
		name string
		u    *revocation.Update
	}
	var variants []variant
	if c.Msg.Transported == "no" {
		variants = append(variants, variant{"memory", aw.update(c.Msg)})
	} else {
		// the abstract message is already the result of transport; sending its concretisation through
		// JSON and CBOR must give the same message again
		for _, enc := range []string{c.Msg.Transported} {
			u := aw.update(c.Msg)
			var bts []byte
			var err error
			u2 := &revocation.Update{}
			if enc == "json" {
				if bts, err = json.Marshal(u); err == nil {
					err = json.Unmarshal(bts, u2)
				}
			} else {
				if bts, err = cbor.Marshal(u, cbor.EncOptions{}); err == nil {
					err = cbor.Unmarshal(bts, u2)
				}
			}
			if err != nil {
				res.Count("transport-decode-error")
				continue // undecodable = rejected
			}
			variants = append(variants, variant{enc, u2})
		}
	}
	for _, v := range variants {
		// 1. Update.Verify
		var err error
		panicked, msg := hx.Try(func() { _, err = v.u.Verify(pk) })
		if panicked {
			res.Violation("verify-panic", "Update.Verify panicked: "+msg, hx.M{"case": c, "variant": v.name})
			continue
		}
		res.Count(fmt.Sprintf("verify:%s:code=%v:spec=%v:auth=%v", v.name, err == nil, c.Verify, c.Auth))
		if err != nil { // a rejected message stays rejected when the same object is verified again
			var err2 error
			hx.Try(func() { _, err2 = v.u.Verify(pk) })
			if err2 == nil {
				err = nil
				res.Count("verify-accepts-on-retry")
			}
		}
		if err == nil && !c.Auth {
			res.Violation("unauthentic-update-verified", "Update.Verify accepted an update that is not a genuine signed chain segment ("+v.name+")",
				hx.M{"case": c, "variant": v.name})
		}
		// 1a. the same object, verified under the issuer's key before, is now verified under an unrelated key (other ECDSA key, other counter)
		if err == nil {
			pk2 := *pk
			pk2.ECDSA, pk2.Counter = &aw.other.PublicKey, pk.Counter+7
			var kerr error
			if panicked, msg := hx.Try(func() { _, kerr = v.u.Verify(&pk2) }); panicked {
				res.Violation("verify-panic", "Update.Verify under another key panicked: "+msg, hx.M{"case": c, "variant": v.name})
			} else if kerr == nil {
				res.Violation("update-verified-under-unrelated-key", "an update that was verified under the issuer's key is accepted under an unrelated public key afterwards (same object)",
					hx.M{"case": c, "variant": v.name})
			}
			res.Count("otherkey-checked")
			// restore the memo for what follows
			hx.Try(func() { _, _ = v.u.Verify(pk) })
		}
		// 1c. the same content reached by IN-PLACE alteration of a received message: the genuine message is decoded, verified
		// (accepted), and the decoded objects are overwritten with this case's content - the slice of events stays the same
		// when the lengths agree. The verdict is a function of the content
		if v.name == "memory" && c.Genuine != nil && c.Nmut > 0 && v.u.SignedAccumulator != nil {
			for _, enc := range []string{"json", "cbor"} {
				g := aw.update(*c.Genuine)
				rcv := &revocation.Update{}
				var derr error
				if enc == "json" {
					var bts []byte
					if bts, derr = json.Marshal(g); derr == nil {
						derr = json.Unmarshal(bts, rcv)
					}
				} else {
					var bts []byte
					if bts, derr = cbor.Marshal(g, cbor.EncOptions{}); derr == nil {
						derr = cbor.Unmarshal(bts, rcv)
					}
				}
				if derr != nil {
					hx.Fatal("the genuine message does not survive %s: %v", enc, derr)
				}
				var gerr, aerr error
				if panicked, msg := hx.Try(func() { _, gerr = rcv.Verify(pk) }); panicked || gerr != nil {
					if len(rcv.Events) > 0 || panicked { // (an update without events is refused by design)
						res.Violation("genuine-update-rejected", fmt.Sprintf("the genuine update does not verify after %s transport: %v %s", enc, gerr, msg), hx.M{"case": c})
					}
					continue
				}
				want := aw.update(c.Msg)
				if len(want.Events) == len(rcv.Events) {
					for i := range want.Events {
						*rcv.Events[i] = *want.Events[i]
					}
				} else {
					rcv.Events = want.Events
				}
				rcv.SignedAccumulator.Data, rcv.SignedAccumulator.PKCounter = want.SignedAccumulator.Data, want.SignedAccumulator.PKCounter
				if panicked, msg := hx.Try(func() { _, aerr = rcv.Verify(pk) }); panicked {
					res.Violation("verify-panic", "Update.Verify on an update altered in place panicked: "+msg, hx.M{"case": c, "variant": "altered-in-place/" + enc})
					continue
				}
				res.Count(fmt.Sprintf("altered-in-place:%s:code=%v:auth=%v", enc, aerr == nil, c.Auth))
				if aerr == nil && !c.Auth {
					res.Violation("unauthentic-update-verified", "Update.Verify accepted an update that is not a genuine signed chain segment: the genuine message was received ("+enc+"), verified, and then altered in place",
						hx.M{"case": c, "variant": "altered-in-place/" + enc})
				}
				if (aerr == nil) != (err == nil) {
					res.Violation("verdict-depends-on-object-history", fmt.Sprintf("the same update content is judged %v in a fresh object and %v in an object that was received (%s), verified and then altered in place", err == nil, aerr == nil, enc),
						hx.M{"case": c, "variant": "altered-in-place/" + enc})
				}
			}
		}
		// 1b. Update.Prepend of GENUINE event lists to this (possibly tampered) update, once the receiver holds its accumulator
		if v.u.SignedAccumulator != nil && v.u.SignedAccumulator.Accumulator != nil && len(v.u.Events) > 0 {
			chain := aw.chains[c.Msg.Sacc.Payload.Nu[0].(string)]
			accIdx := c.Msg.Sacc.Payload.Idx
			for _, pt := range c.Ptm {
				src := aw.chains[pt.C]
				for _, mode := range []string{"memory", "json", "cbor+product"} {
					var el *revocation.EventList
					switch mode {
					case "memory":
						el = src.eventlist(pt.G, pt.H, false)
					case "json":
						b, _ := json.Marshal(src.eventlist(pt.G, pt.H, false))
						el = &revocation.EventList{}
						if json.Unmarshal(b, el) != nil {
							continue
						}
					default:
						el = src.eventlist(pt.G, pt.H, true)
					}
					tgt := &revocation.Update{SignedAccumulator: v.u.SignedAccumulator, Events: append([]*revocation.Event{}, v.u.Events...)}
					before := append([]*revocation.Event{}, tgt.Events...)
					var perr error
					panicked, msg := hx.Try(func() { perr = tgt.Prepend(el) })
					if panicked {
						res.Violation("prepend-panic", "Update.Prepend panicked: "+msg, hx.M{"case": c, "variant": v.name, "list": pt, "mode": mode})
						continue
					}
					res.Count(fmt.Sprintf("prepend-to-msg:code=%v:spec=%v", perr == nil, pt.Ok))
					if perr != nil {
						if !sameEvents(tgt.Events, before) {
							res.Violation("rejected-prepend-changed-update", fmt.Sprintf("Update.Prepend returned %v but changed the update", perr),
								hx.M{"case": c, "variant": v.name, "list": pt, "mode": mode})
						}
						continue
					}
					genuine := len(tgt.Events) > 0 && int(tgt.Events[len(tgt.Events)-1].Index) == accIdx && accIdx < len(chain.events)
					if genuine {
						g := int(tgt.Events[0].Index)
						genuine = g >= 0 && g <= accIdx && sameEvents(tgt.Events, chain.events[g:accIdx+1])
					}
					if !genuine {
						res.Violation("unauthentic-prepend-accepted", "Update.Prepend of a genuine list succeeded on an update whose own events are not a genuine chain segment",
							hx.M{"case": c, "variant": v.name, "list": pt, "mode": mode})
					}
				}
			}
		}
		// 2. Witness.Update for genuine witnesses of chain A at every index
		for o := 0; o <= L; o++ {
			wit := wA.witness(witE, o, 0, true)
			u := v.u
			if o > 0 && v.u.SignedAccumulator != nil { // fresh object per application (Witness.Update memoises inside the update)
				u = &revocation.Update{SignedAccumulator: &revocation.SignedAccumulator{Data: v.u.SignedAccumulator.Data, PKCounter: v.u.SignedAccumulator.PKCounter},
					Events: append([]*revocation.Event{}, v.u.Events...)}
			}
			before := snap(wit)
			var uerr error
			panicked, msg := hx.Try(func() { uerr = wit.Update(pk, u) })
			if panicked {
				res.Violation("update-panic", "Witness.Update panicked: "+msg, hx.M{"case": c, "variant": v.name, "witness_index": o})
				continue
			}
			after := snap(wit)
			if uerr == nil && !c.Auth {
				res.Violation("unauthentic-update-applied", "Witness.Update succeeded with an update that is not a genuine signed chain segment",
					hx.M{"case": c, "variant": v.name, "witness_index": o})
			}
			if uerr != nil && before != after {
				res.Violation("rejected-update-changed-witness", fmt.Sprintf("Witness.Update returned %v but changed the witness", uerr),
					hx.M{"case": c, "variant": v.name, "witness_index": o})
			}
			if uerr == nil && !wA.validAny(aw, wit) {
				res.Violation("update-left-invalid-witness", "Witness.Update succeeded but the witness is not valid against the accumulator it now holds",
					hx.M{"case": c, "variant": v.name, "witness_index": o})
			}
		}
	}
	// 3. the public EventList.Verify against the accumulator of the payload
	{
		evs := []*revocation.Event{}
		for _, ev := range c.Msg.Events {
			evs = append(evs, aw.event(ev))
		}
		els := map[string]*revocation.EventList{}
		switch c.Msg.Transported {
		case "no":
			els["memory"] = revocation.NewEventList(evs...)
		case "json":
			b, err := json.Marshal(revocation.NewEventList(evs...))
			el := &revocation.EventList{}
			if err == nil && json.Unmarshal(b, el) == nil {
				els["json"] = el
			}
		case "cbor":
			b, err := cbor.Marshal(revocation.NewEventList(evs...), cbor.EncOptions{})
			el2 := &revocation.EventList{ComputeProduct: true}
			if err == nil && cbor.Unmarshal(b, el2) == nil {
				els["cbor"] = el2
			}
		}
		acc := aw.acc(c.Msg.Sacc.Payload)
		for name, el := range els {
			var err error
			panicked, msg := hx.Try(func() { err = el.Verify(acc) })
			if panicked {
				res.Violation("eventlist-verify-panic", "EventList.Verify panicked: "+msg, hx.M{"case": c, "variant": name})
				continue
			}
			res.Count(fmt.Sprintf("elverify:code=%v:spec=%v:auth=%v", err == nil, c.ElVerify, c.ElAuth))
			if err != nil { // second call on the same list object (exercises the verified/validationErr memo)
				var err2 error
				hx.Try(func() { err2 = el.Verify(acc) })
				if err2 == nil {
					err = nil
					res.Count("elverify-accepts-on-retry")
				}
			}
			if err == nil && !c.ElAuth {
				res.Violation("unauthentic-eventlist-verified", "EventList.Verify accepted events that are not a genuine chain segment ending in the accumulator's event hash ("+name+")",
					hx.M{"case": c, "variant": name})
			}
			// 4. Update.Prepend of this list to genuine updates of chain A
			for _, p := range c.Prep {
				tgt := wA.update(p.F2, p.A2, 0, -1)
				tgtEvents := append([]*revocation.Event{}, tgt.Events...)
				var perr error
				panicked, msg := hx.Try(func() { perr = tgt.Prepend(el) })
				if panicked {
					res.Violation("prepend-panic", "Update.Prepend panicked: "+msg, hx.M{"case": c, "variant": name, "target": p})
					continue
				}
				res.Count(fmt.Sprintf("prepend:code=%v:spec=%v", perr == nil, p.Ok))
				if perr != nil {
					if !sameEvents(tgt.Events, tgtEvents) {
						res.Violation("rejected-prepend-changed-update", fmt.Sprintf("Update.Prepend returned %v but changed the update", perr),
							hx.M{"case": c, "variant": name, "target": p})
					} else if p.F2 >= 1 {
						// behaviourally unchanged too: the update still brings a witness at index f2-1 to its accumulator
						wit := wA.witness(witE, p.F2-1, 0, true)
						var uerr error
						hx.Try(func() { uerr = wit.Update(pk, tgt) })
						if uerr != nil || !wA.valid(wit) || int(wit.SignedAccumulator.Accumulator.Index) != p.A2 {
							res.Violation("rejected-prepend-changed-update", fmt.Sprintf("after a rejected Prepend (%v) the genuine update no longer updates a witness (err=%v)", perr, uerr),
								hx.M{"case": c, "variant": name, "target": p})
						}
					}
					continue
				}
				// success: the update must now hold a genuine window of chain A ending at a2
				okGenuine := len(tgt.Events) > 0 && int(tgt.Events[len(tgt.Events)-1].Index) == p.A2
				if okGenuine {
					g := int(tgt.Events[0].Index)
					okGenuine = g >= 0 && g <= p.A2 && sameEvents(tgt.Events, wA.events[g:p.A2+1])
				}
				if !okGenuine {
					res.Violation("unauthentic-prepend-accepted", "Update.Prepend succeeded but the update no longer holds a genuine chain segment",
						hx.M{"case": c, "variant": name, "target": p})
				}
			}
		}
	}
	// 5. FlattenEventLists of the events cut into two lists (in memory), then EventList.Verify of the result
	if c.Msg.Transported == "no" && len(c.Msg.Events) >= 2 {
		var evs []*revocation.Event
		for _, ev := range c.Msg.Events {
			evs = append(evs, aw.event(ev))
		}
		acc := aw.acc(c.Msg.Sacc.Payload)
		for cut := 1; cut < len(evs); cut++ {
			if evs[0].Index >= evs[cut].Index {
				continue // FlattenEventLists sorts the lists by their first index: only cuts that keep the order are the message's event sequence
			}
			var ferr error
			panicked, msg := hx.Try(func() {
				var flat *revocation.EventList
				flat, ferr = revocation.FlattenEventLists([]*revocation.EventList{revocation.NewEventList(evs[:cut]...), revocation.NewEventList(evs[cut:]...)})
				if ferr == nil {
					ferr = flat.Verify(acc)
				}
			})
			// (sorting by first index may reorder the two halves when indices were tampered with: the result is what it is)
			if panicked {
				res.Violation("flatten-panic", "FlattenEventLists / EventList.Verify panicked: "+msg, hx.M{"case": c, "cut": cut})
				break
			}
			res.Count(fmt.Sprintf("flatten:code=%v:spec=%v", ferr == nil, c.Flatten))
			if ferr == nil && !c.ElAuth {
				res.Violation("unauthentic-eventlist-verified", "EventList.Verify accepted the result of FlattenEventLists although the events are not a genuine chain segment ending in the accumulator's event hash",
					hx.M{"case": c, "cut": cut})
				break
			}
		}
	}
	res.Sample(hx.M{"nmut": c.Nmut, "base": c.Base, "transported": c.Msg.Transported, "auth": c.Auth, "spec_verify": c.Verify,
		"events": len(c.Msg.Events), "sacc": hx.M{"key": c.Msg.Sacc.Key, "ctr": c.Msg.Sacc.Ctr, "payload_idx": c.Msg.Sacc.Payload.Idx}})
}

// validAny: the witness is valid against the accumulator value of the index it holds, in whichever chain that accumulator is
func (w *world) validAny(aw *authWorld, wit *revocation.Witness) bool {
	x := new(gobig.Int).Exp(wit.U.Go(), wit.E.Go(), aw.kp.PK.N.Go())
	return x.Cmp(wit.SignedAccumulator.Accumulator.Nu.Go()) == 0
}
