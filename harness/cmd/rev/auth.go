package main

import "verifharness/hx"

func auth(a *hx.Args, res *hx.Result) { hx.Fatal("not built yet") }
