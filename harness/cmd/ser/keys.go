package main

import (
	"bytes"
	"encoding/base64"
	"encoding/json"
	"fmt"
	gobig "math/big"
	mrand "math/rand"
	"os"
	"path/filepath"
	"strconv"
	"strings"

	"verifharness/hx"

	"github.com/privacybydesign/gabi/big"
	"github.com/privacybydesign/gabi/gabikeys"
	"github.com/privacybydesign/gabi/signed"
)

// case of Serial.tla part (c)
type keyCase struct {
	Kind string `json:"kind"`
	Nb   int    `json:"nb"`
	Rev  bool   `json:"rev"`
	Demo bool   `json:"demo"`
	Op   string `json:"op"`
	El   struct {
		Name string `json:"name"`
		I    int    `json:"i"`
	} `json:"el"`
	Expect string `json:"expect"` // ok | error | any
}

// ---- key documents written by the harness itself (not by the marshaller under test)

type elem struct {
	present bool
	text    string
}
type baseElem struct{ name, text string }
type keyDoc struct {
	kind                          string
	counter, expiry, epoch, ecdsa elem
	n, z, s, g, h                 elem
	p, q, pPrime, qPrime          elem
	basesPresent                  bool
	num                           string
	bases                         []baseElem
}

func (e elem) xml(indent, name string) string {
	if !e.present {
		return ""
	}
	return fmt.Sprintf("%s<%s>%s</%s>\n", indent, name, e.text, name)
}

func (d *keyDoc) String() string {
	var b strings.Builder
	b.WriteString("<?xml version=\"1.0\" encoding=\"UTF-8\" standalone=\"no\"?>\n")
	if d.kind == "pub" {
		b.WriteString("<IssuerPublicKey xmlns=\"http://www.zurich.ibm.com/security/idemix\">\n")
		b.WriteString(d.counter.xml("   ", "Counter") + d.expiry.xml("   ", "ExpiryDate"))
		b.WriteString("   <Elements>\n")
		b.WriteString(d.n.xml("      ", "n") + d.z.xml("      ", "Z") + d.s.xml("      ", "S") + d.g.xml("      ", "G") + d.h.xml("      ", "H"))
		if d.basesPresent {
			fmt.Fprintf(&b, "      <Bases num=\"%s\">\n", d.num)
			for _, x := range d.bases {
				fmt.Fprintf(&b, "         <%s>%s</%s>\n", x.name, x.text, x.name)
			}
			b.WriteString("      </Bases>\n")
		}
		b.WriteString("   </Elements>\n")
		if d.epoch.present {
			fmt.Fprintf(&b, "   <Features>\n      <Epoch length=\"%s\"></Epoch>\n   </Features>\n", d.epoch.text)
		}
		b.WriteString(d.ecdsa.xml("   ", "ECDSA"))
		b.WriteString("</IssuerPublicKey>")
	} else {
		b.WriteString("<IssuerPrivateKey xmlns=\"http://www.zurich.ibm.com/security/idemix\">\n")
		b.WriteString(d.counter.xml("   ", "Counter") + d.expiry.xml("   ", "ExpiryDate"))
		b.WriteString("   <Elements>\n")
		b.WriteString(d.p.xml("      ", "p") + d.q.xml("      ", "q") + d.pPrime.xml("      ", "pPrime") + d.qPrime.xml("      ", "qPrime"))
		b.WriteString("   </Elements>\n")
		b.WriteString(d.ecdsa.xml("   ", "ECDSA"))
		b.WriteString("</IssuerPrivateKey>")
	}
	return b.String()
}

func dec(x *big.Int) elem { return elem{true, x.Go().String()} }

// expected content of an unmutated key
type keyWant struct {
	counter      uint
	expiry       int64
	n, z, s      *gobig.Int
	g, h         *gobig.Int
	bases        []*gobig.Int
	p, q, pp, qp *gobig.Int
	rev          bool
}

func pubDoc(kp hx.KeyPair, nb int, rev bool, rng *mrand.Rand) (*keyDoc, *keyWant) {
	pk := kp.PK
	d := &keyDoc{kind: "pub", counter: elem{true, "3"}, expiry: elem{true, "1900000000"}, epoch: elem{true, "432000"},
		n: dec(pk.N), z: dec(pk.Z), s: dec(pk.S), basesPresent: true, num: strconv.Itoa(nb)}
	w := &keyWant{counter: 3, expiry: 1900000000, n: pk.N.Go(), z: pk.Z.Go(), s: pk.S.Go(), rev: rev}
	for i := 0; i < nb; i++ {
		var r *gobig.Int
		if i < len(pk.R) {
			r = pk.R[i].Go()
		} else {
			// further bases: powers of S, as the key generator makes them (computed with math/big)
			e := new(gobig.Int).Rand(rng, new(gobig.Int).Lsh(gobig.NewInt(1), 500))
			r = new(gobig.Int).Exp(pk.S.Go(), e.Add(e, gobig.NewInt(3)), pk.N.Go())
		}
		d.bases = append(d.bases, baseElem{"Base_" + strconv.Itoa(i), r.String()})
		w.bases = append(w.bases, r)
	}
	if rev {
		d.g, d.h, d.ecdsa = dec(pk.G), dec(pk.H), elem{true, pk.ECDSAString}
		w.g, w.h = pk.G.Go(), pk.H.Go()
	}
	return d, w
}

func privDoc(kp hx.KeyPair, rev bool) (*keyDoc, *keyWant) {
	sk := kp.SK
	d := &keyDoc{kind: "priv", counter: elem{true, "3"}, expiry: elem{true, "1900000000"},
		p: dec(sk.P), q: dec(sk.Q), pPrime: dec(sk.PPrime), qPrime: dec(sk.QPrime)}
	w := &keyWant{counter: 3, expiry: 1900000000, p: sk.P.Go(), q: sk.Q.Go(), pp: sk.PPrime.Go(), qp: sk.QPrime.Go(), rev: rev}
	if rev {
		d.ecdsa = elem{true, sk.ECDSAString}
	}
	return d, w
}

func garble(s string) string {
	if len(s) < 4 {
		return "x" + s + "z"
	}
	m := len(s) / 2
	return s[:m] + "x7f" + s[m+1:]
}

func mutateElem(e *elem, op, name string) {
	switch op {
	case "delete":
		e.present = false
	case "negate":
		e.text = "-" + e.text
	case "plus":
		e.text = "+" + e.text
	case "garble":
		if name == "ECDSA" {
			e.text = e.text[:len(e.text)/2] + "!*" + e.text[len(e.text)/2:]
		} else {
			e.text = garble(e.text)
		}
	case "empty":
		e.text = ""
	default:
		hx.Fatal("unknown element mutation %q", op)
	}
}

// smallComposite returns the first odd composite >= x + 2 together with (it-1)/2
func compositeNear(x *gobig.Int) (*gobig.Int, *gobig.Int) {
	c := new(gobig.Int).Add(x, gobig.NewInt(2))
	for c.ProbablyPrime(30) {
		c.Add(c, gobig.NewInt(2))
	}
	h := new(gobig.Int).Rsh(new(gobig.Int).Sub(c, gobig.NewInt(1)), 1)
	return c, h
}

// primeNotSafe returns a prime of the bit length of x whose (p-1)/2 is composite, and that half
func primeNotSafe(x *gobig.Int, rng *mrand.Rand) (*gobig.Int, *gobig.Int) {
	for {
		c := new(gobig.Int).Rand(rng, new(gobig.Int).Lsh(gobig.NewInt(1), uint(x.BitLen()-2)))
		c.SetBit(c, x.BitLen()-1, 1).SetBit(c, 0, 1)
		if !c.ProbablyPrime(30) {
			continue
		}
		h := new(gobig.Int).Rsh(new(gobig.Int).Sub(c, gobig.NewInt(1)), 1)
		if !h.ProbablyPrime(30) {
			return c, h
		}
	}
}

func (d *keyDoc) element(name string, i int) *elem {
	switch name {
	case "Counter":
		return &d.counter
	case "ExpiryDate":
		return &d.expiry
	case "Epoch":
		return &d.epoch
	case "ECDSA":
		return &d.ecdsa
	case "n":
		return &d.n
	case "Z":
		return &d.z
	case "S":
		return &d.s
	case "G":
		return &d.g
	case "H":
		return &d.h
	case "p":
		return &d.p
	case "q":
		return &d.q
	case "pPrime":
		return &d.pPrime
	case "qPrime":
		return &d.qPrime
	}
	hx.Fatal("unknown element %q", name)
	return nil
}

func mutate(d *keyDoc, w *keyWant, c keyCase, rng *mrand.Rand) {
	switch c.Op {
	case "none":
	case "delete", "negate", "plus", "garble", "empty":
		switch c.El.Name {
		case "Bases":
			d.basesPresent = false
		case "Base":
			if c.Op == "delete" {
				d.bases = append(d.bases[:c.El.I:c.El.I], d.bases[c.El.I+1:]...)
			} else {
				e := elem{true, d.bases[c.El.I].text}
				mutateElem(&e, c.Op, "Base")
				d.bases[c.El.I].text = e.text
			}
		default:
			mutateElem(d.element(c.El.Name, c.El.I), c.Op, c.El.Name)
		}
	case "numplus":
		d.num = strconv.Itoa(c.Nb + 1)
	case "numminus":
		d.num = strconv.Itoa(c.Nb - 1)
	case "shortmod": // 1023 bits
		d.n.text = new(gobig.Int).Rsh(w.n, 1).String()
	case "halfmod": // 512 bits
		d.n.text = new(gobig.Int).Rsh(w.n, uint(w.n.BitLen()-512)).String()
	case "misnumber":
		d.bases[0].name, d.bases[1].name = d.bases[1].name, d.bases[0].name
	case "inconsistent_p":
		d.pPrime.text = new(gobig.Int).Add(w.pp, gobig.NewInt(1)).String()
	case "inconsistent_q":
		d.qPrime.text = new(gobig.Int).Add(w.qp, gobig.NewInt(1)).String()
	case "composite_p":
		x, h := compositeNear(w.p)
		d.p.text, d.pPrime.text = x.String(), h.String()
	case "composite_q":
		x, h := compositeNear(w.q)
		d.q.text, d.qPrime.text = x.String(), h.String()
	case "notsafe_p":
		x, h := primeNotSafe(w.p, rng)
		d.p.text, d.pPrime.text = x.String(), h.String()
	case "notsafe_q":
		x, h := primeNotSafe(w.q, rng)
		d.q.text, d.qPrime.text = x.String(), h.String()
	default:
		hx.Fatal("unknown document mutation %q", c.Op)
	}
}

func eq(a *big.Int, b *gobig.Int) bool {
	if a == nil || b == nil {
		return a == nil && b == nil
	}
	return a.Go().Cmp(b) == 0
}

// samePub lists the fields in which the key differs from what the document says
func samePub(pk *gabikeys.PublicKey, w *keyWant) []string {
	var bad []string
	chk := func(ok bool, name string) {
		if !ok {
			bad = append(bad, name)
		}
	}
	chk(pk.Counter == w.counter, "Counter")
	chk(pk.ExpiryDate == w.expiry, "ExpiryDate")
	chk(eq(pk.N, w.n), "n")
	chk(eq(pk.Z, w.z), "Z")
	chk(eq(pk.S, w.s), "S")
	chk(eq(pk.G, w.g), "G")
	chk(eq(pk.H, w.h), "H")
	chk(int(pk.EpochLength) == 432000, "Epoch")
	chk(len(pk.R) == len(w.bases), "Bases.num")
	for i := 0; i < len(pk.R) && i < len(w.bases); i++ {
		chk(eq(pk.R[i], w.bases[i]), "Base_"+strconv.Itoa(i))
	}
	chk(pk.Params != nil && int(pk.Params.Ln) == w.n.BitLen(), "Params")
	chk((pk.ECDSA != nil) == w.rev, "ECDSA")
	chk(pk.RevocationSupported() == w.rev, "RevocationSupported")
	return bad
}

func samePriv(sk *gabikeys.PrivateKey, w *keyWant) []string {
	var bad []string
	chk := func(ok bool, name string) {
		if !ok {
			bad = append(bad, name)
		}
	}
	chk(sk.Counter == w.counter, "Counter")
	chk(sk.ExpiryDate == w.expiry, "ExpiryDate")
	chk(eq(sk.P, w.p), "p")
	chk(eq(sk.Q, w.q), "q")
	chk(eq(sk.PPrime, w.pp), "pPrime")
	chk(eq(sk.QPrime, w.qp), "qPrime")
	chk(eq(sk.N, new(gobig.Int).Mul(w.p, w.q)), "N")
	chk(eq(sk.Order, new(gobig.Int).Mul(w.pp, w.qp)), "Order")
	chk((sk.ECDSA != nil) == w.rev, "ECDSA")
	return bad
}

func keys(a *hx.Args, res *hx.Result) {
	lines := hx.ReadNDJSON(a.In)
	kps := hx.Keys1024()
	which := []int{int(a.Seed) % 2}
	if a.Tier == "thorough" {
		which = []int{0, 1}
	}
	// sanity of the material: the ECDSA strings are what the harness thinks they are
	for _, kp := range kps {
		b, err := base64.StdEncoding.DecodeString(kp.PK.ECDSAString)
		if err != nil {
			hx.Fatal("fixed key ECDSA string: %v", err)
		}
		if _, err := signed.UnmarshalPublicKey(b); err != nil {
			hx.Fatal("fixed key ECDSA key: %v", err)
		}
	}
	tmp, err := os.MkdirTemp("", "ser-keys-")
	if err != nil {
		hx.Fatal("tempdir: %v", err)
	}
	defer os.RemoveAll(tmp)

	type job struct {
		c   keyCase
		raw json.RawMessage
		ki  int
	}
	var jobs []job
	for _, l := range lines {
		var c keyCase
		if err := json.Unmarshal(l, &c); err != nil {
			hx.Fatal("bad KEY case: %v", err)
		}
		for _, ki := range which {
			jobs = append(jobs, job{c, l, ki})
		}
	}
	hx.Parallel(len(jobs), func(n int) {
		j := jobs[n]
		c := j.c
		kp := kps[j.ki]
		rng := hx.Rng(a.Seed, fmt.Sprintf("ser-keys-%d", n))
		var d *keyDoc
		var w *keyWant
		if c.Kind == "pub" {
			d, w = pubDoc(kp, c.Nb, c.Rev, rng)
		} else {
			d, w = privDoc(kp, c.Rev)
		}
		mutate(d, w, c, rng)
		doc := d.String()
		path := filepath.Join(tmp, fmt.Sprintf("k%d.xml", n))
		if err := os.WriteFile(path, []byte(doc), 0o600); err != nil {
			hx.Fatal("write %s: %v", path, err)
		}
		type outcome struct {
			api      string
			err      error
			isNil    bool
			panicked bool
			msg      string
			diff     []string
			pk       *gabikeys.PublicKey
			sk       *gabikeys.PrivateKey
		}
		var outs []outcome
		if c.Kind == "pub" {
			for _, api := range []string{"NewPublicKeyFromXML", "NewPublicKeyFromBytes", "NewPublicKeyFromFile"} {
				o := outcome{api: api}
				o.panicked, o.msg = hx.Try(func() {
					switch api {
					case "NewPublicKeyFromXML":
						o.pk, o.err = gabikeys.NewPublicKeyFromXML(doc)
					case "NewPublicKeyFromBytes":
						o.pk, o.err = gabikeys.NewPublicKeyFromBytes([]byte(doc))
					default:
						o.pk, o.err = gabikeys.NewPublicKeyFromFile(path)
					}
				})
				o.isNil = o.pk == nil
				outs = append(outs, o)
			}
		} else {
			for _, api := range []string{"NewPrivateKeyFromXML", "NewPrivateKeyFromFile"} {
				o := outcome{api: api}
				o.panicked, o.msg = hx.Try(func() {
					if api == "NewPrivateKeyFromXML" {
						o.sk, o.err = gabikeys.NewPrivateKeyFromXML(doc, c.Demo)
					} else {
						o.sk, o.err = gabikeys.NewPrivateKeyFromFile(path, c.Demo)
					}
				})
				o.isNil = o.sk == nil
				outs = append(outs, o)
			}
		}
		for _, o := range outs {
			key := ""
			if c.Op != "none" {
				key = fmt.Sprintf("%s/%d/%v/%v/%s/%s/%d/%s", c.Kind, c.Nb, c.Rev, c.Demo, c.Op, c.El.Name, c.El.I, o.api)
			}
			res.Eval(key)
			det := hx.M{"part": "keys", "case": c, "api": o.api, "key": j.ki, "document": doc}
			what := fmt.Sprintf("%s key document (%d bases, revocation=%v) with %s %s", c.Kind, c.Nb, c.Rev, c.Op, elName(c))
			if o.panicked {
				res.Violation("key-parse-panic", fmt.Sprintf("%s panicked on a %s: %s", o.api, what, o.msg), det)
				continue
			}
			switch c.Expect {
			case "error":
				if o.err == nil || !o.isNil {
					res.Violation("malformed-key-accepted", fmt.Sprintf("%s accepted a %s (err=%v, key returned=%v)", o.api, what, o.err, !o.isNil), det)
				}
			case "ok":
				if o.err != nil || o.isNil {
					res.Violation("wellformed-key-refused", fmt.Sprintf("%s refused an unmutated %s: %v", o.api, what, o.err), det)
					continue
				}
				var diff []string
				if c.Kind == "pub" {
					diff = samePub(o.pk, w)
				} else {
					diff = samePriv(o.sk, w)
				}
				if len(diff) > 0 {
					res.Violation("key-fields-differ", fmt.Sprintf("%s read a %s but fields %v differ from the document", o.api, what, diff), det)
					continue
				}
				// written by the code and read back: identical in every field
				writeReadBack(res, c, o.pk, o.sk, w, tmp, n, o.api, det)
			default:
				acc := "error"
				if o.err == nil {
					acc = "accepted"
				}
				res.Count(fmt.Sprintf("any:%s:%s:%s:%s", c.Kind, c.Op, c.El.Name, acc))
			}
		}
		if n%97 == 0 && c.Op != "none" {
			res.Sample(hx.M{"part": "keys", "case": c})
		}
	})
	res.Notes["key_cases"] = len(lines)
	res.Notes["key_pairs"] = len(which)
}

func elName(c keyCase) string {
	switch {
	case c.El.Name == "-":
		return ""
	case c.El.Name == "Base":
		return "of Base_" + strconv.Itoa(c.El.I)
	}
	return "of " + c.El.Name
}

func writeReadBack(res *hx.Result, c keyCase, pk *gabikeys.PublicKey, sk *gabikeys.PrivateKey, w *keyWant, tmp string, n int, api string, det hx.M) {
	var buf bytes.Buffer
	path := filepath.Join(tmp, fmt.Sprintf("w%d-%s.xml", n, api))
	var diffW, diffF []string
	var err1, err2, err3, err4 error
	panicked, msg := hx.Try(func() {
		if c.Kind == "pub" {
			_, err1 = pk.WriteTo(&buf)
			var pk2, pk3 *gabikeys.PublicKey
			if pk2, err2 = gabikeys.NewPublicKeyFromBytes(buf.Bytes()); err2 == nil {
				diffW = samePub(pk2, w)
			}
			_, err3 = pk.WriteToFile(path, false)
			if pk3, err4 = gabikeys.NewPublicKeyFromFile(path); err4 == nil {
				diffF = samePub(pk3, w)
			}
		} else {
			_, err1 = sk.WriteTo(&buf)
			var sk2, sk3 *gabikeys.PrivateKey
			if sk2, err2 = gabikeys.NewPrivateKeyFromXML(buf.String(), c.Demo); err2 == nil {
				diffW = samePriv(sk2, w)
			}
			_, err3 = sk.WriteToFile(path, false)
			if sk3, err4 = gabikeys.NewPrivateKeyFromFile(path, c.Demo); err4 == nil {
				diffF = samePriv(sk3, w)
			}
		}
	})
	res.Eval("")
	switch {
	case panicked:
		res.Violation("key-write-panic", "writing a key and reading it back panicked: "+msg, det)
	case err1 != nil || err2 != nil || err3 != nil || err4 != nil:
		res.Violation("key-write-read-error", fmt.Sprintf("a %s key with %d bases written as XML is not read back: WriteTo=%v read=%v WriteToFile=%v FromFile=%v",
			c.Kind, c.Nb, err1, err2, err3, err4), det)
	case len(diffW)+len(diffF) > 0:
		res.Violation("key-write-read-differs", fmt.Sprintf("a %s key with %d bases written as XML and read back differs in %v %v", c.Kind, c.Nb, diffW, diffF), det)
	}
}
