package main

import (
	crand "crypto/rand"
	"encoding/hex"
	"encoding/json"
	"fmt"
	mrand "math/rand"
	"sort"
	"strings"
	"time"

	"verifharness/hx"

	"github.com/fxamacker/cbor"
	"github.com/privacybydesign/gabi"
	"github.com/privacybydesign/gabi/big"
	"github.com/privacybydesign/gabi/gabikeys"
	"github.com/privacybydesign/gabi/rangeproof"
	"github.com/privacybydesign/gabi/revocation"
	"github.com/privacybydesign/gabi/signed"
)

// case of Serial.tla part (b)
type msgCase struct {
	T        string   `json:"t"`
	Parts    []string `json:"parts"`
	Enc      string   `json:"enc"`
	Alt      string   `json:"alt"`
	Used     bool     `json:"used"`
	Verdict  string   `json:"verdict"`
	Decodes  bool     `json:"decodes"`
	Restored []string `json:"restored"`
	Memo     []string `json:"memo"`
}

func (c msgCase) has(p string) bool {
	for _, x := range c.Parts {
		if x == p {
			return true
		}
	}
	return false
}

// ---- small helpers

func randBits(n uint) *big.Int {
	x, err := big.RandInt(crand.Reader, new(big.Int).Lsh(big.NewInt(1), n))
	if err != nil {
		hx.Fatal("rand: %v", err)
	}
	return x
}
func inc(x *big.Int, d int64) *big.Int { return new(big.Int).Add(x, big.NewInt(d)) }
func flip(b []byte) []byte {
	c := append([]byte{}, b...)
	c[len(c)/2] ^= 0x01
	return c
}
func must(err error, what string) {
	if err != nil {
		hx.Fatal("%s: %v", what, err)
	}
}

// meaning is the verification-relevant projection of a message, flattened to name -> value text.
type meaning map[string]string

func (m meaning) num(k string, x *big.Int) {
	if x == nil {
		m[k] = "nil"
	} else {
		m[k] = x.Go().Text(16)
	}
}
func (m meaning) nums(k string, xs []*big.Int) {
	m[k+".len"] = fmt.Sprint(len(xs))
	for i, x := range xs {
		m.num(fmt.Sprintf("%s[%d]", k, i), x)
	}
}
func (m meaning) imap(k string, xs map[int]*big.Int) { // nil and empty mean the same: no entries
	for i, x := range xs {
		m.num(fmt.Sprintf("%s[%d]", k, i), x)
	}
}
func (m meaning) smap(k string, xs map[string]*big.Int) {
	for i, x := range xs {
		m.num(fmt.Sprintf("%s[%s]", k, i), x)
	}
}
func (m meaning) acc(k string, a *revocation.Accumulator) {
	if a == nil {
		m[k] = "nil"
		return
	}
	m.num(k+".Nu", a.Nu)
	m[k+".Index"] = fmt.Sprint(a.Index)
	m[k+".Time"] = fmt.Sprint(a.Time)
	m[k+".EventHash"] = hex.EncodeToString(a.EventHash)
}
func (m meaning) sacc(k string, s *revocation.SignedAccumulator) {
	if s == nil {
		m[k] = "nil"
		return
	}
	m[k+".data"] = hex.EncodeToString(s.Data)
	m[k+".pk"] = fmt.Sprint(s.PKCounter)
	m.acc(k+".Accumulator", s.Accumulator) // restored by UnmarshalVerify
}

// events: the serialised content of a chain is the index and parent hash of its first event and all values;
// indices and parent hashes of the later events are recomputed by the decoder (EventList.uncompress). They are
// compared when the chain verified (derived = true); a chain altered in memory still carries the old ones.
func (m meaning) events(k string, evs []*revocation.Event, derived bool) {
	m[k+".len"] = fmt.Sprint(len(evs))
	for i, e := range evs {
		if e == nil {
			m[fmt.Sprintf("%s[%d]", k, i)] = "nil"
			continue
		}
		m.num(fmt.Sprintf("%s[%d].e", k, i), e.E)
		if i == 0 || derived {
			m[fmt.Sprintf("%s[%d].i", k, i)] = fmt.Sprint(e.Index)
			m[fmt.Sprintf("%s[%d].ph", k, i)] = hex.EncodeToString(e.ParentHash)
		}
	}
}
func (m meaning) witness(k string, w *revocation.Witness) {
	if w == nil {
		m[k] = "nil"
		return
	}
	m.num(k+".u", w.U)
	m.num(k+".e", w.E)
	m.sacc(k+".sacc", w.SignedAccumulator)
	if w.Updated.IsZero() {
		m[k+".Updated"] = "zero"
	} else {
		m[k+".Updated"] = fmt.Sprint(w.Updated.UnixNano())
	}
}
func (m meaning) proofD(k string, p *gabi.ProofD) {
	m.num(k+".c", p.C)
	m.num(k+".A", p.A)
	m.num(k+".e_response", p.EResponse)
	m.num(k+".v_response", p.VResponse)
	m.imap(k+".a_responses", p.AResponses)
	m.imap(k+".a_disclosed", p.ADisclosed)
	if nr := p.NonRevocationProof; nr != nil {
		m.num(k+".nonrev.C_r", nr.Cr)
		m.num(k+".nonrev.C_u", nr.Cu)
		m.smap(k+".nonrev.responses", nr.Responses) // alpha is restored by SetExpected
		m.sacc(k+".nonrev.sacc", nr.SignedAccumulator)
		m.num(k+".nonrev.Nu", nr.Nu)               // restored
		m.num(k+".nonrev.Challenge", nr.Challenge) // restored
	} else {
		m[k+".nonrev"] = "absent"
	}
	n := 0
	for idx, l := range p.RangeProofs {
		for i, rp := range l {
			n++
			kk := fmt.Sprintf("%s.range[%d][%d]", k, idx, i)
			if rp == nil {
				m[kk] = "nil"
				continue
			}
			m.nums(kk+".Cs", rp.Cs)
			m.nums(kk+".ds", rp.DResponses)
			m.nums(kk+".vs", rp.VResponses)
			m.num(kk+".v5", rp.V5Response)
			m.num(kk+".MResponse", rp.MResponse) // restored
			m[kk+".struct"] = fmt.Sprintf("ld=%d sign=%d a=%d", rp.Ld, rp.Sign, rp.A)
			m.num(kk+".k", rp.K)
			if rp.K != nil {
				typ, f, b := rp.ProvenStatement()
				m[kk+".proven"] = fmt.Sprintf("%d %d %s", typ, f, b)
			}
		}
	}
	m[k+".range.count"] = fmt.Sprint(n)
}
func (m meaning) proofU(k string, p *gabi.ProofU) {
	m.num(k+".U", p.U)
	m.num(k+".c", p.C)
	m.num(k+".v_prime_response", p.VPrimeResponse)
	m.num(k+".s_response", p.SResponse)
	m.imap(k+".m_user_responses", p.MUserResponses)
}
func (m meaning) proofList(k string, pl gabi.ProofList) {
	m[k+".len"] = fmt.Sprint(len(pl))
	for i, p := range pl {
		kk := fmt.Sprintf("%s[%d]", k, i)
		switch x := p.(type) {
		case *gabi.ProofD:
			m[kk] = "ProofD"
			m.proofD(kk, x)
		case *gabi.ProofU:
			m[kk] = "ProofU"
			m.proofU(kk, x)
		default:
			m[kk] = fmt.Sprintf("%T", p)
		}
	}
}

func diffMeaning(a, b meaning) []string {
	var d []string
	for k, v := range a {
		if w, ok := b[k]; !ok {
			d = append(d, k+" (missing after the round trip)")
		} else if w != v {
			d = append(d, k)
		}
	}
	for k := range b {
		if _, ok := a[k]; !ok {
			d = append(d, k+" (only after the round trip)")
		}
	}
	sort.Strings(d)
	if len(d) > 12 {
		d = append(d[:12], "...")
	}
	return d
}

// ---- real material

type revWorld struct {
	kp     hx.KeyPair
	first  *revocation.Update
	accs   []*revocation.Accumulator
	events []*revocation.Event
}

func newRevWorld(kp hx.KeyPair, revocations int) *revWorld {
	u, err := revocation.NewAccumulator(kp.SK)
	must(err, "NewAccumulator")
	acc, err := u.SignedAccumulator.UnmarshalVerify(kp.PK)
	must(err, "UnmarshalVerify")
	w := &revWorld{kp: kp, first: u, accs: []*revocation.Accumulator{acc}, events: []*revocation.Event{u.Events[0]}}
	for i := 0; i < revocations; i++ {
		other, err := revocation.RandomWitness(kp.SK, w.accs[len(w.accs)-1])
		must(err, "RandomWitness")
		acc, ev, err := w.accs[len(w.accs)-1].Remove(kp.SK, other.E, w.events[len(w.events)-1])
		must(err, "Remove")
		w.accs = append(w.accs, acc)
		w.events = append(w.events, ev)
	}
	return w
}

// witness against accumulator 0, as setupRevocation in gabi_test.go makes it
func (w *revWorld) witness() *revocation.Witness {
	wit, err := revocation.RandomWitness(w.kp.SK, w.accs[0])
	must(err, "RandomWitness")
	wit.SignedAccumulator = w.first.SignedAccumulator
	return wit
}
func copyEvents(evs []*revocation.Event) []*revocation.Event {
	out := make([]*revocation.Event, len(evs))
	for i, e := range evs {
		out[i] = &revocation.Event{Index: e.Index, E: new(big.Int).Set(e.E), ParentHash: append(revocation.Hash{}, e.ParentHash...)}
	}
	return out
}
func (w *revWorld) update(from int) *revocation.Update {
	var evs []*revocation.Event
	if from >= 0 {
		evs = copyEvents(w.events[from:])
	}
	u, err := revocation.NewUpdate(w.kp.SK, w.accs[len(w.accs)-1], evs)
	must(err, "NewUpdate")
	return u
}
func copyWitness(w *revocation.Witness, acc *revocation.Accumulator) *revocation.Witness {
	return &revocation.Witness{U: new(big.Int).Set(w.U), E: new(big.Int).Set(w.E), Updated: w.Updated,
		SignedAccumulator: &revocation.SignedAccumulator{Data: append(signed.Message{}, w.SignedAccumulator.Data...),
			PKCounter: w.SignedAccumulator.PKCounter, Accumulator: acc}}
}
func bareSacc(s *revocation.SignedAccumulator) *revocation.SignedAccumulator {
	return &revocation.SignedAccumulator{Data: append(signed.Message{}, s.Data...), PKCounter: s.PKCounter}
}

type issuance struct {
	kp                              hx.KeyPair
	context, secret, nonce1, nonce2 *big.Int
	attrs                           []*big.Int
	blind                           []int
	builder                         *gabi.CredentialBuilder
	icm                             *gabi.IssueCommitmentMessage
	ism                             *gabi.IssueSignatureMessage
	cred                            *gabi.Credential
	witness                         *revocation.Witness
}

const rangeAttr = 2 // credential index of the attribute the range statements are about

func newIssuance(kp hx.KeyPair, context, secret *big.Int, witness *revocation.Witness, blind bool) *issuance {
	return newIssuanceWith(kp, context, secret, witness, blind, inc(randBits(32), 1000))
}

// newIssuanceWith: m is the value of the attribute the range statements are about
func newIssuanceWith(kp hx.KeyPair, context, secret *big.Int, witness *revocation.Witness, blind bool, m *big.Int) *issuance {
	is := &issuance{kp: kp, context: context, secret: secret, nonce1: randBits(80), nonce2: randBits(80), witness: witness}
	is.attrs = []*big.Int{randBits(200), m, randBits(255), randBits(64)}
	if blind {
		is.attrs[3] = nil
		is.blind = []int{3}
	}
	if witness != nil {
		is.attrs = append(is.attrs, witness.E)
	}
	var err error
	is.builder, err = gabi.NewCredentialBuilder(kp.PK, context, secret, is.nonce2, nil, is.blind)
	must(err, "NewCredentialBuilder")
	is.icm, err = is.builder.CommitToSecretAndProve(is.nonce1)
	must(err, "CommitToSecretAndProve")
	return is
}
func (is *issuance) issue() {
	var err error
	is.ism, err = gabi.NewIssuer(is.kp.SK, is.kp.PK, is.context).IssueSignature(is.icm.U, is.attrs, is.witness, is.nonce2, is.blind)
	must(err, "IssueSignature")
}
func (is *issuance) construct() {
	var err error
	is.cred, err = is.builder.ConstructCredential(is.ism, is.attrs)
	must(err, "ConstructCredential")
}

func rangeStatements(cred *gabi.Credential, rng *mrand.Rand, table rangeproof.SquareSplitter) map[int][]*rangeproof.Statement {
	m := cred.Attributes[rangeAttr]
	var sts []*rangeproof.Statement
	ge, err := rangeproof.NewStatement(rangeproof.GreaterOrEqual, new(big.Int).Sub(m, big.NewInt(int64(rng.Intn(64)))))
	must(err, "NewStatement")
	le, err := rangeproof.NewStatement(rangeproof.LesserOrEqual, new(big.Int).Add(m, big.NewInt(int64(rng.Intn(64)))))
	must(err, "NewStatement")
	switch rng.Intn(3) {
	case 0:
		sts = []*rangeproof.Statement{ge}
	case 1:
		sts = []*rangeproof.Statement{le}
	default:
		sts = []*rangeproof.Statement{le, ge}
	}
	if table != nil && rng.Intn(2) == 0 {
		for _, s := range sts {
			s.Splitter = table
		}
	}
	return map[int][]*rangeproof.Statement{rangeAttr: sts}
}

// negativeKStatements: true statements whose proof carries a negative K (known finding D21):
// three squares with bound 0 (K = 4*0 - 2), or four squares with a negative bound (K = bound).
func negativeKStatements(rng *mrand.Rand, table rangeproof.SquareSplitter) []*rangeproof.Statement {
	if rng.Intn(2) == 0 {
		st, err := rangeproof.NewStatement(rangeproof.GreaterOrEqual, big.NewInt(0))
		must(err, "NewStatement")
		st.Splitter = table
		return []*rangeproof.Statement{st}
	}
	st, err := rangeproof.NewStatement(rangeproof.GreaterOrEqual, big.NewInt(-1-int64(rng.Intn(1000))))
	must(err, "NewStatement")
	return []*rangeproof.Statement{st}
}

// d10 is the classifier of known finding D10 (C11): an honest proof with a non-revocation part in which a
// hidden response other than the witness response is below 2^(195+256+128+1) may fail to verify.
func d10(p *gabi.ProofD, revIdx int) bool {
	for i, r := range p.AResponses {
		if i != revIdx && r.BitLen() <= 195+256+128+1 {
			return true
		}
	}
	return false
}

// ---- subjects: one per message type

type subject struct {
	obj    any
	fresh  func() any
	verify func(x any) (bool, string, meaning) // accept?, detail, meaning projection after verification
	alter  func(site string)
	bare   func() // drop every restored field (an altered message is one assembled from serialised fields)
}

type mctx struct {
	kps   []hx.KeyPair
	rng   *mrand.Rand
	table rangeproof.SquareSplitter
	res   *hx.Result
}

func tryVerify(f func() (bool, string)) (ok bool, detail string) {
	panicked, msg := hx.Try(func() { ok, detail = f() })
	if panicked {
		return false, "PANIC " + msg
	}
	return
}

func alterProofD(p *gabi.ProofD, site string) {
	rp := func() *rangeproof.Proof { return p.RangeProofs[rangeAttr][0] }
	switch site {
	case "c":
		p.C = inc(p.C, 1)
	case "A":
		p.A = inc(p.A, 1)
	case "e_response":
		p.EResponse = inc(p.EResponse, 1)
	case "v_response":
		p.VResponse = inc(p.VResponse, 1)
	case "a_responses":
		p.AResponses[3] = inc(p.AResponses[3], 1)
	case "a_disclosed":
		p.ADisclosed[1] = inc(p.ADisclosed[1], 1)
	case "nonrev.C_r":
		p.NonRevocationProof.Cr = inc(p.NonRevocationProof.Cr, 1)
	case "nonrev.C_u":
		p.NonRevocationProof.Cu = inc(p.NonRevocationProof.Cu, 1)
	case "nonrev.responses":
		p.NonRevocationProof.Responses["beta"] = inc(p.NonRevocationProof.Responses["beta"], 1)
	case "nonrev.sacc":
		p.NonRevocationProof.SignedAccumulator.Data = flip(p.NonRevocationProof.SignedAccumulator.Data)
	case "range.Cs":
		rp().Cs[0] = inc(rp().Cs[0], 1)
	case "range.ds":
		rp().DResponses[0] = inc(rp().DResponses[0], 1)
	case "range.vs":
		rp().VResponses[0] = inc(rp().VResponses[0], 1)
	case "range.v5":
		rp().V5Response = inc(rp().V5Response, 1)
	case "range.k":
		rp().K = inc(rp().K, 1)
	default:
		hx.Fatal("unknown ProofD site %q", site)
	}
}
func bareProofD(p *gabi.ProofD) {
	if nr := p.NonRevocationProof; nr != nil {
		nr.Nu, nr.Challenge = nil, nil
		delete(nr.Responses, "alpha")
		nr.SignedAccumulator = bareSacc(nr.SignedAccumulator)
	}
	for _, l := range p.RangeProofs {
		for _, rp := range l {
			rp.MResponse = nil
		}
	}
}

// disclosure builder / proof over a credential, with the optional parts asked for
func (mc *mctx) disclosureBuilder(cred *gabi.Credential, nonrev, rng bool) *gabi.DisclosureProofBuilder {
	var st map[int][]*rangeproof.Statement
	if rng {
		st = rangeStatements(cred, mc.rng, mc.table)
	}
	b, err := cred.CreateDisclosureProofBuilder([]int{1}, st, nonrev)
	must(err, "CreateDisclosureProofBuilder")
	return b
}

func (mc *mctx) subjectProofD(c msgCase) *subject {
	kp := mc.kps[0]
	context, secret, nonce := randBits(256), randBits(255), randBits(80)
	var wit *revocation.Witness
	if c.has("nonrev") {
		wit = newRevWorld(kp, 0).witness()
	}
	m := inc(randBits(32), 1000)
	if c.has("rangeneg") {
		m = inc(randBits(12), 1000) // 4m+2 must be within the squares table
	}
	is := newIssuanceWith(kp, context, secret, wit, false, m)
	is.issue()
	is.construct()
	var p *gabi.ProofD
	for try := 0; ; try++ {
		var st map[int][]*rangeproof.Statement
		if c.has("range") {
			st = rangeStatements(is.cred, mc.rng, mc.table)
		}
		if c.has("rangeneg") {
			if st == nil {
				st = map[int][]*rangeproof.Statement{}
			}
			st[rangeAttr] = append(st[rangeAttr], negativeKStatements(mc.rng, mc.table)...)
		}
		var err error
		p, err = is.cred.CreateDisclosureProof([]int{1}, st, c.has("nonrev"), context, nonce)
		must(err, "CreateDisclosureProof")
		if !c.has("nonrev") || !d10(p, 5) {
			break
		}
		mc.res.Count("d10-pattern-redrawn")
		if try > 20 {
			hx.Fatal("cannot draw a proof outside the D10 pattern")
		}
	}
	return &subject{obj: p, fresh: func() any { return &gabi.ProofD{} },
		verify: func(x any) (bool, string, meaning) {
			q := x.(*gabi.ProofD)
			ok, det := tryVerify(func() (bool, string) {
				v1 := q.Verify(kp.PK, context, nonce, false)
				v2 := gabi.ProofList{q}.Verify([]*gabikeys.PublicKey{kp.PK}, context, nonce, false, nil)
				return v1 && v2, fmt.Sprintf("Verify=%v ProofList.Verify=%v", v1, v2)
			})
			m := meaning{}
			m.proofD("D", q)
			return ok, det, m
		},
		alter: func(site string) { alterProofD(p, site) },
		bare:  func() { bareProofD(p) }}
}

func (mc *mctx) subjectProofU(c msgCase) *subject {
	kp := mc.kps[0]
	is := newIssuance(kp, randBits(256), randBits(255), nil, c.has("muser"))
	p := is.icm.Proofs[0].(*gabi.ProofU)
	return &subject{obj: p, fresh: func() any { return &gabi.ProofU{} },
		verify: func(x any) (bool, string, meaning) {
			q := x.(*gabi.ProofU)
			ok, det := tryVerify(func() (bool, string) { return q.Verify(kp.PK, is.context, is.nonce1), "" })
			m := meaning{}
			m.proofU("U", q)
			return ok, det, m
		},
		alter: func(site string) {
			switch site {
			case "U":
				p.U = inc(p.U, 1)
			case "c":
				p.C = inc(p.C, 1)
			case "v_prime_response":
				p.VPrimeResponse = inc(p.VPrimeResponse, 1)
			case "s_response":
				p.SResponse = inc(p.SResponse, 1)
			case "m_user_responses":
				p.MUserResponses[4] = inc(p.MUserResponses[4], 1)
			default:
				hx.Fatal("unknown ProofU site %q", site)
			}
		},
		bare: func() {}}
}

func (mc *mctx) subjectICM(c msgCase) *subject {
	kp, kp2 := mc.kps[0], mc.kps[1]
	context, secret := randBits(256), randBits(255)
	is := newIssuance(kp, context, secret, nil, false)
	icm := is.icm
	pks := []*gabikeys.PublicKey{kp.PK}
	if c.has("proofD") {
		// issuance bound to a disclosure from an earlier credential of the same secret (other issuer)
		old := newIssuance(kp2, context, secret, nil, false)
		old.issue()
		old.construct()
		db := mc.disclosureBuilder(old.cred, false, false)
		pl, err := gabi.ProofBuilderList{db, is.builder}.BuildProofList(context, is.nonce1, false)
		must(err, "BuildProofList")
		icm = is.builder.CreateIssueCommitmentMessage(pl)
		pks = []*gabikeys.PublicKey{kp2.PK, kp.PK}
	}
	u := icm.U
	if !c.has("U") {
		icm.U = nil
	}
	if c.has("jwt") {
		icm.ProofPjwt = "eyJhbGciOiJSUzI1NiJ9." + hex.EncodeToString(randBits(128).Bytes()) + ".c2ln"
	}
	if c.has("jwts") {
		icm.ProofPjwts = map[string]string{"test.kss": "eyJhbGciOiJSUzI1NiJ9.e30.c2ln", "other.kss": hex.EncodeToString(randBits(64).Bytes())}
	}
	issuer := gabi.NewIssuer(kp.SK, kp.PK, context)
	return &subject{obj: icm, fresh: func() any { return &gabi.IssueCommitmentMessage{} },
		verify: func(x any) (bool, string, meaning) {
			q := x.(*gabi.IssueCommitmentMessage)
			ok, det := tryVerify(func() (bool, string) {
				v := q.Proofs.Verify(pks, context, is.nonce1, false, nil)
				// the issuer answers on U and n_2; the holder must be able to finish
				uu := q.U
				if uu == nil {
					uu = u
				}
				done := false
				if q.Nonce2 != nil {
					if ism, err := issuer.IssueSignature(uu, is.attrs, nil, q.Nonce2, nil); err == nil {
						_, err = is.builder.ConstructCredential(ism, is.attrs)
						done = err == nil
					}
				}
				return v && done, fmt.Sprintf("proofs=%v issuance=%v", v, done)
			})
			m := meaning{}
			m.num("U", q.U)
			m.num("n_2", q.Nonce2)
			m["proofPJwt"] = q.ProofPjwt
			for k, v := range q.ProofPjwts {
				m["proofPJwts["+k+"]"] = v
			}
			m.proofList("combinedProofs", q.Proofs)
			return ok, det, m
		},
		alter: func(site string) {
			switch site {
			case "n_2":
				icm.Nonce2 = inc(icm.Nonce2, 1)
			case "U":
				icm.U = inc(icm.U, 1)
			case "combinedProofs":
				pu, err := icm.Proofs.GetFirstProofU()
				must(err, "GetFirstProofU")
				pu.C = inc(pu.C, 1)
			default:
				hx.Fatal("unknown IssueCommitmentMessage site %q", site)
			}
		},
		bare: func() {}}
}

func (mc *mctx) subjectISM(c msgCase) *subject {
	kp := mc.kps[0]
	var wit *revocation.Witness
	if c.has("nonrev") {
		wit = newRevWorld(kp, 0).witness()
	}
	is := newIssuance(kp, randBits(256), randBits(255), wit, c.has("missuer"))
	is.issue()
	ism := is.ism
	return &subject{obj: ism, fresh: func() any { return &gabi.IssueSignatureMessage{} },
		verify: func(x any) (bool, string, meaning) {
			q := x.(*gabi.IssueSignatureMessage)
			var cred *gabi.Credential
			ok, det := tryVerify(func() (bool, string) {
				var err error
				cred, err = is.builder.ConstructCredential(q, is.attrs)
				return err == nil, fmt.Sprint(err)
			})
			m := meaning{}
			if q.Proof != nil {
				m.num("proof.c", q.Proof.C)
				m.num("proof.e_response", q.Proof.EResponse)
			} else {
				m["proof"] = "nil"
			}
			if q.Signature != nil {
				m.num("signature.A", q.Signature.A)
				m.num("signature.e", q.Signature.E)
				m.num("signature.v", q.Signature.V)
				m.num("signature.KeyshareP", q.Signature.KeyshareP)
			} else {
				m["signature"] = "nil"
			}
			m.imap("m_issuer", q.MIssuer)
			if q.NonRevocationWitness != nil {
				m.witness("nonrev", q.NonRevocationWitness)
			} else {
				m["nonrev"] = "absent"
			}
			if ok && cred != nil {
				m.nums("credential.attributes", cred.Attributes)
				m.num("credential.signature.v", cred.Signature.V)
				m.num("credential.signature.A", cred.Signature.A)
				m.num("credential.signature.e", cred.Signature.E)
			}
			return ok, det, m
		},
		alter: func(site string) {
			switch site {
			case "proof.c":
				ism.Proof.C = inc(ism.Proof.C, 1)
			case "proof.e_response":
				ism.Proof.EResponse = inc(ism.Proof.EResponse, 1)
			case "signature.A":
				ism.Signature.A = inc(ism.Signature.A, 1)
			case "signature.e":
				ism.Signature.E = inc(ism.Signature.E, 2)
			case "signature.v":
				ism.Signature.V = inc(ism.Signature.V, 1)
			case "m_issuer":
				ism.MIssuer[4] = inc(ism.MIssuer[4], 1)
			case "nonrev.u":
				ism.NonRevocationWitness.U = inc(ism.NonRevocationWitness.U, 1)
			case "nonrev.e":
				ism.NonRevocationWitness.E = inc(ism.NonRevocationWitness.E, 2)
			case "nonrev.sacc":
				ism.NonRevocationWitness.SignedAccumulator.Data = flip(ism.NonRevocationWitness.SignedAccumulator.Data)
			default:
				hx.Fatal("unknown IssueSignatureMessage site %q", site)
			}
		},
		bare: func() {
			if w := ism.NonRevocationWitness; w != nil {
				ism.NonRevocationWitness = &revocation.Witness{U: w.U, E: w.E, Updated: w.Updated, SignedAccumulator: bareSacc(w.SignedAccumulator)}
			}
		}}
}

func applyToWitness(kp hx.KeyPair, w *revocation.Witness, u *revocation.Update, m meaning) string {
	var err error
	panicked, msg := hx.Try(func() { err = w.Update(kp.PK, u) })
	switch {
	case panicked:
		m["apply"] = "PANIC " + msg
	case err == revocation.ErrorRevoked:
		m["apply"] = "revoked"
	case err != nil:
		m["apply"] = "error"
	default:
		m["apply"] = "ok"
	}
	m.num("apply.u", w.U)
	if w.SignedAccumulator != nil && w.SignedAccumulator.Accumulator != nil {
		m["apply.index"] = fmt.Sprint(w.SignedAccumulator.Accumulator.Index)
	}
	return m["apply"]
}

func (mc *mctx) subjectUpdate(c msgCase) *subject {
	kp := mc.kps[0]
	rw := newRevWorld(kp, 1+mc.rng.Intn(3))
	wit := rw.witness()
	from := -1
	if c.has("events") {
		from = mc.rng.Intn(3)
		if from >= len(rw.events) {
			from = len(rw.events) - 1
		}
	}
	u := rw.update(from)
	return &subject{obj: u, fresh: func() any { return &revocation.Update{} },
		verify: func(x any) (bool, string, meaning) {
			q := x.(*revocation.Update)
			m := meaning{}
			var acc *revocation.Accumulator
			ok, det := tryVerify(func() (bool, string) {
				var err error
				acc, err = q.Verify(kp.PK)
				return err == nil, fmt.Sprint(err)
			})
			m.sacc("sacc", q.SignedAccumulator)
			m.events("events", q.Events, ok)
			if ok {
				m.acc("verified", acc)
				det += " apply=" + applyToWitness(kp, copyWitness(wit, rw.accs[0]), q, m)
			}
			return ok, det, m
		},
		alter: func(site string) {
			switch site {
			case "sacc.data":
				u.SignedAccumulator.Data = flip(u.SignedAccumulator.Data)
			case "sacc.pk":
				u.SignedAccumulator.PKCounter++
			case "e.i":
				u.Events[0].Index++
			case "e.hash":
				u.Events[0].ParentHash[7] ^= 0x40
			case "e.e":
				u.Events[0].E = inc(u.Events[0].E, 2)
			default:
				hx.Fatal("unknown Update site %q", site)
			}
		},
		bare: func() { u.SignedAccumulator = bareSacc(u.SignedAccumulator) }}
}

func (mc *mctx) subjectWitness(c msgCase) *subject {
	kp := mc.kps[0]
	rw := newRevWorld(kp, 1+mc.rng.Intn(2))
	w := copyWitness(rw.witness(), rw.accs[0])
	if c.has("updated") {
		w.Updated = time.Unix(rw.accs[0].Time, 0)
	}
	return &subject{obj: w, fresh: func() any { return &revocation.Witness{} },
		verify: func(x any) (bool, string, meaning) {
			q := x.(*revocation.Witness)
			m := meaning{}
			ok, det := tryVerify(func() (bool, string) {
				if q.SignedAccumulator == nil {
					return false, "no accumulator"
				}
				err := q.Verify(kp.PK)
				return err == nil, fmt.Sprint(err)
			})
			m.witness("w", q)
			if ok {
				// a verified witness follows the next genuine update
				wc := copyWitness(q, q.SignedAccumulator.Accumulator)
				det += " apply=" + applyToWitness(kp, wc, rw.update(mc0(len(rw.events))), m)
			}
			return ok, det, m
		},
		alter: func(site string) {
			switch site {
			case "u":
				w.U = inc(w.U, 1)
			case "e":
				w.E = inc(w.E, 2)
			case "sacc.data":
				w.SignedAccumulator.Data = flip(w.SignedAccumulator.Data)
			case "sacc.pk":
				w.SignedAccumulator.PKCounter++
			default:
				hx.Fatal("unknown Witness site %q", site)
			}
		},
		bare: func() { w.SignedAccumulator = bareSacc(w.SignedAccumulator) }}
}

// mc0: updates for a witness at accumulator 0 start at event 0 or 1
func mc0(n int) int {
	if n > 1 {
		return 1
	}
	return 0
}

func (mc *mctx) subjectEventList(c msgCase) *subject {
	kp := mc.kps[0]
	rw := newRevWorld(kp, 3)
	from, to := 0, -1
	var el *revocation.EventList
	if c.has("events") {
		from = mc.rng.Intn(2)
		to = from + mc.rng.Intn(3-from)
		el = revocation.NewEventList(copyEvents(rw.events[from : to+1])...)
	} else {
		el = revocation.NewEventList()
	}
	computeProduct := mc.rng.Intn(2) == 0
	return &subject{obj: el, fresh: func() any { return &revocation.EventList{ComputeProduct: computeProduct} },
		verify: func(x any) (bool, string, meaning) {
			q := x.(*revocation.EventList)
			m := meaning{}
			ok, det := tryVerify(func() (bool, string) {
				acc := rw.accs[0]
				if to >= 0 {
					acc = rw.accs[to]
				}
				err := q.Verify(acc)
				return err == nil, fmt.Sprint(err)
			})
			m.events("events", q.Events, ok)
			if ok {
				// prepend the list to the genuine update that continues it
				tgt := rw.update(to + 1)
				var err error
				panicked, msg := hx.Try(func() { err = tgt.Prepend(q) })
				switch {
				case panicked:
					m["prepend"] = "PANIC " + msg
				case err != nil:
					m["prepend"] = "error"
				default:
					m["prepend"] = "ok"
					_, verr := tgt.Verify(kp.PK)
					m["prepend.verify"] = fmt.Sprint(verr == nil)
				}
				m.events("prepend.events", tgt.Events, true)
				det += " prepend=" + m["prepend"]
			}
			return ok, det, m
		},
		alter: func(site string) {
			switch site {
			case "i":
				el.Events[0].Index++
			case "hash":
				el.Events[0].ParentHash[7] ^= 0x40
			case "e":
				el.Events[0].E = inc(el.Events[0].E, 2)
			default:
				hx.Fatal("unknown EventList site %q", site)
			}
		},
		bare: func() {}}
}

func (mc *mctx) subjectSacc(c msgCase) *subject {
	kp := mc.kps[0]
	rw := newRevWorld(kp, mc.rng.Intn(2))
	s, err := rw.accs[len(rw.accs)-1].Sign(kp.SK)
	must(err, "Sign")
	return &subject{obj: s, fresh: func() any { return &revocation.SignedAccumulator{} },
		verify: func(x any) (bool, string, meaning) {
			q := x.(*revocation.SignedAccumulator)
			m := meaning{}
			var acc *revocation.Accumulator
			ok, det := tryVerify(func() (bool, string) {
				var err error
				acc, err = q.UnmarshalVerify(kp.PK)
				return err == nil, fmt.Sprint(err)
			})
			m.sacc("sacc", q)
			if ok {
				m.acc("verified", acc)
			}
			return ok, det, m
		},
		alter: func(site string) {
			switch site {
			case "data":
				s.Data = flip(s.Data)
			case "pk":
				s.PKCounter++
			default:
				hx.Fatal("unknown SignedAccumulator site %q", site)
			}
		},
		bare: func() { s.Accumulator = nil }}
}

func (mc *mctx) subjectProofList(c msgCase) *subject {
	kp, kp2 := mc.kps[0], mc.kps[1]
	context, secret, nonce := randBits(256), randBits(255), randBits(80)
	var wit *revocation.Witness
	if c.has("nonrev") {
		wit = newRevWorld(kp, 0).witness()
	}
	first := newIssuance(kp, context, secret, wit, false)
	first.issue()
	first.construct()
	var second, third *issuance
	if c.has("secondD") {
		second = newIssuance(kp2, context, secret, nil, false)
		second.issue()
		second.construct()
	}
	if c.has("U") {
		third = newIssuance(kp2, context, secret, nil, c.has("muser"))
	}
	var pl gabi.ProofList
	var pks []*gabikeys.PublicKey
	dIdx, d2Idx, uIdx := -1, -1, -1
	for try := 0; ; try++ {
		var builders gabi.ProofBuilderList
		pks = nil
		if third != nil && c.has("Ufirst") {
			// a fresh builder per attempt: Commit stores the randomizer
			third = newIssuance(kp2, context, secret, nil, c.has("muser"))
			uIdx = len(builders)
			builders = append(builders, third.builder)
			pks = append(pks, kp2.PK)
		}
		dIdx = len(builders)
		builders = append(builders, mc.disclosureBuilder(first.cred, c.has("nonrev"), c.has("range")))
		pks = append(pks, kp.PK)
		if second != nil {
			d2Idx = len(builders)
			builders = append(builders, mc.disclosureBuilder(second.cred, false, false))
			pks = append(pks, kp2.PK)
		}
		if third != nil && !c.has("Ufirst") {
			third = newIssuance(kp2, context, secret, nil, c.has("muser"))
			uIdx = len(builders)
			builders = append(builders, third.builder)
			pks = append(pks, kp2.PK)
		}
		var err error
		pl, err = builders.BuildProofList(context, nonce, false)
		must(err, "BuildProofList")
		if !c.has("nonrev") || !d10(pl[dIdx].(*gabi.ProofD), 5) {
			break
		}
		mc.res.Count("d10-pattern-redrawn")
		if try > 20 {
			hx.Fatal("cannot draw a proof list outside the D10 pattern")
		}
	}
	return &subject{obj: &pl, fresh: func() any { return &gabi.ProofList{} },
		verify: func(x any) (bool, string, meaning) {
			q := *(x.(*gabi.ProofList))
			ok, det := tryVerify(func() (bool, string) { return q.Verify(pks, context, nonce, false, nil), "" })
			m := meaning{}
			m.proofList("list", q)
			return ok, det, m
		},
		alter: func(site string) {
			switch site {
			case "D.c":
				d := pl[dIdx].(*gabi.ProofD)
				d.C = inc(d.C, 1)
			case "D.a_responses": // the secret-key response: breaks the link to the other proofs
				d := pl[dIdx].(*gabi.ProofD)
				d.AResponses[0] = inc(d.AResponses[0], 1)
			case "D2.c":
				d := pl[d2Idx].(*gabi.ProofD)
				d.C = inc(d.C, 1)
			case "U.c":
				u := pl[uIdx].(*gabi.ProofU)
				u.C = inc(u.C, 1)
			case "U.s_response":
				u := pl[uIdx].(*gabi.ProofU)
				u.SResponse = inc(u.SResponse, 1)
			default:
				hx.Fatal("unknown ProofList site %q", site)
			}
		},
		bare: func() {
			for _, p := range pl {
				if d, ok := p.(*gabi.ProofD); ok {
					bareProofD(d)
				}
			}
		}}
}

func (mc *mctx) subject(c msgCase) *subject {
	switch c.T {
	case "ProofD":
		return mc.subjectProofD(c)
	case "ProofU":
		return mc.subjectProofU(c)
	case "IssueCommitmentMessage":
		return mc.subjectICM(c)
	case "IssueSignatureMessage":
		return mc.subjectISM(c)
	case "Update":
		return mc.subjectUpdate(c)
	case "Witness":
		return mc.subjectWitness(c)
	case "EventList":
		return mc.subjectEventList(c)
	case "SignedAccumulator":
		return mc.subjectSacc(c)
	case "ProofList":
		return mc.subjectProofList(c)
	}
	hx.Fatal("unknown message type %q", c.T)
	return nil
}

func encodeMsg(enc string, v any) (b []byte, err error) {
	panicked, msg := hx.Try(func() {
		if enc == "json" {
			b, err = json.Marshal(v)
		} else {
			b, err = cbor.Marshal(v, cbor.EncOptions{})
		}
	})
	if panicked {
		return nil, fmt.Errorf("PANIC %s", msg)
	}
	return
}
func decodeMsg(enc string, b []byte, v any) (err error) {
	panicked, msg := hx.Try(func() {
		if enc == "json" {
			err = json.Unmarshal(b, v)
		} else {
			err = cbor.Unmarshal(b, v)
		}
	})
	if panicked {
		return fmt.Errorf("PANIC %s", msg)
	}
	return
}

func messages(a *hx.Args, res *hx.Result) {
	lines := hx.ReadNDJSON(a.In)
	reps := 2
	if a.Tier == "thorough" {
		reps = 20
	}
	table := rangeproof.GenerateSquaresTable(65535)
	kps := hx.Keys1024()
	type job struct {
		c   msgCase
		rep int
	}
	var jobs []job
	for _, l := range lines {
		var c msgCase
		if err := json.Unmarshal(l, &c); err != nil {
			hx.Fatal("bad MSG case: %v", err)
		}
		for r := 0; r < reps; r++ {
			jobs = append(jobs, job{c, r})
		}
	}
	hx.Parallel(len(jobs), func(n int) {
		c := jobs[n].c
		rng := hx.Rng(a.Seed, fmt.Sprintf("ser-msg-%d", n))
		order := []hx.KeyPair{kps[0], kps[1]}
		if rng.Intn(2) == 1 {
			order = []hx.KeyPair{kps[1], kps[0]}
		}
		mc := &mctx{kps: order, rng: rng, table: table, res: res}
		runMsgCase(mc, c, jobs[n].rep, res)
	})
	res.Notes["message_cases"] = len(lines)
	res.Notes["repetitions"] = reps
}

func runMsgCase(mc *mctx, c msgCase, rep int, res *hx.Result) {
	s := mc.subject(c)
	name := fmt.Sprintf("%s{%s} %s alt=%s used=%v", c.T, strings.Join(c.Parts, ","), c.Enc, c.Alt, c.Used)
	key := ""
	if len(c.Parts) > 0 || c.Alt != "none" || c.Used {
		key = name
	}
	res.Eval(key)
	det := hx.M{"part": "messages", "case": c, "rep": rep}
	if c.Used {
		// verified locally before it is sent: every derived field and memo is populated
		if ok, d, _ := s.verify(s.obj); !ok {
			hx.Fatal("honest %s does not verify before sending: %s", name, d)
		}
	}
	if c.Alt != "none" {
		s.alter(c.Alt)
		s.bare()
	}
	wire, err := encodeMsg(c.Enc, s.obj)
	if !c.Decodes {
		// the known gap of the specification (KnownFinding_NegativeK, known finding D21): the message verifies
		// but the encoder refuses it. Reported under its own kind; everything else stays an ordinary violation.
		if ok, d, _ := s.verify(s.obj); !ok {
			hx.Fatal("honest %s does not verify: %s", name, d)
		}
		if err != nil && strings.Contains(err.Error(), "negative") {
			ks := []string{}
			for _, rp := range s.obj.(*gabi.ProofD).RangeProofs[rangeAttr] {
				ks = append(ks, rp.K.String())
			}
			det["K"] = ks
			if rep > 0 { // one report per abstract case
				res.Count("known-gap:negative-K")
				return
			}
			res.Violation("negative-K-rangeproof-unserialisable", fmt.Sprintf("%s verifies but cannot be encoded (range proof K = %v): %v", name, ks, err), det)
			return
		}
		if err == nil {
			res.Count("known-gap-closed:negative-K")
		}
	}
	if err != nil {
		res.Violation("message-not-encodable", fmt.Sprintf("%s cannot be encoded: %v", name, err), det)
		return
	}
	det["wire_bytes"] = len(wire)
	if c.Enc == "json" && len(wire) < 6000 {
		det["wire"] = string(wire)
	}
	fresh := s.fresh()
	derr := decodeMsg(c.Enc, wire, fresh)
	// the original, verified where it is
	ok0, det0, m0 := s.verify(s.obj)
	det["original"] = hx.M{"accepted": ok0, "detail": det0}
	if c.Alt == "none" && !ok0 {
		hx.Fatal("honest %s does not verify: %s", name, det0)
	}
	if c.Alt != "none" {
		if ok0 {
			res.Count("altered-original-accepted:" + c.T + ":" + c.Alt)
		} else {
			res.Count("negative-original")
		}
	}
	if derr != nil {
		if strings.HasPrefix(derr.Error(), "PANIC") {
			res.Violation("message-decode-panic", fmt.Sprintf("decoding %s panicked: %v", name, derr), det)
			return
		}
		if ok0 {
			res.Violation("message-not-decodable", fmt.Sprintf("%s verifies but its encoding is refused by the decoder: %v", name, derr), det)
		} else {
			res.Count("negative-refused-at-decode")
		}
		return
	}
	// re-encoding the re-read message gives the same bytes (nothing was lost or invented)
	if wire2, err := encodeMsg(c.Enc, fresh); err != nil || string(wire2) != string(wire) {
		res.Violation("message-reencoding-differs", fmt.Sprintf("%s: encoding the re-read message differs from the first encoding (err=%v)", name, err), det)
		return
	}
	ok1, det1, m1 := s.verify(fresh)
	det["reread"] = hx.M{"accepted": ok1, "detail": det1}
	if strings.HasPrefix(det1, "PANIC") && !strings.HasPrefix(det0, "PANIC") {
		res.Violation("message-reread-panic", fmt.Sprintf("verifying the re-read %s panicked: %s", name, det1), det)
		return
	}
	if ok0 != ok1 {
		res.Violation("message-verdict-changed", fmt.Sprintf("%s: the original is %s, the re-read message is %s (%s / %s)", name, acc(ok0), acc(ok1), det0, det1), det)
		return
	}
	if d := diffMeaning(m0, m1); len(d) > 0 {
		det["differs"] = d
		res.Violation("message-meaning-changed", fmt.Sprintf("%s: after the round trip the verification-relevant fields %v differ", name, d), det)
		return
	}
	if rep == 0 && c.Alt == "none" && len(c.Parts) >= 2 {
		res.Sample(hx.M{"part": "messages", "case": name, "wire_bytes": len(wire), "accepted": ok0, "fields_compared": len(m0)})
	}
}

func acc(ok bool) string {
	if ok {
		return "accepted"
	}
	return "rejected"
}
