package main

import (
	"bytes"
	"encoding/base64"
	"encoding/json"
	"encoding/xml"
	"fmt"
	gobig "math/big"

	"verifharness/hx"

	"github.com/fxamacker/cbor"
	"github.com/privacybydesign/gabi/big"
)

// case of Serial.tla part (d)
type intCase struct {
	Cls   string `json:"cls"`
	K     int    `json:"k"`
	Neg   bool   `json:"neg"`
	Enc   string `json:"enc"`
	Lz    int    `json:"lz"`
	Bytes struct {
		Len  int `json:"len"`
		Top  int `json:"top"`
		Fill int `json:"fill"`
	} `json:"bytes"`
	Expect string `json:"expect"` // same | refuse | any
}

type xmlInt struct {
	XMLName xml.Name `xml:"T"`
	X       *big.Int `xml:"X"`
}

// roundTrip sends v through one encoding of big.Int. input != nil replaces the encoder's output
// (forms with leading zeros). Returns the decoded value or the error of either direction.
func intRoundTrip(enc string, v *gobig.Int, lz int) (out *gobig.Int, encoded string, err error) {
	x := big.Convert(new(gobig.Int).Set(v))
	y := new(big.Int)
	mag := new(gobig.Int).Abs(v).Bytes()
	padded := append(make([]byte, lz), mag...)
	switch enc {
	case "json":
		var b []byte
		if b, err = json.Marshal(x); err != nil {
			return nil, "", fmt.Errorf("encode: %w", err)
		}
		if lz > 0 {
			b = []byte(`"` + base64.StdEncoding.EncodeToString(padded) + `"`)
		}
		encoded = string(b)
		err = json.Unmarshal(b, y)
	case "text":
		var b []byte
		if b, err = x.MarshalText(); err != nil {
			return nil, "", fmt.Errorf("encode: %w", err)
		}
		if lz > 0 {
			b = []byte(base64.StdEncoding.EncodeToString(padded))
		}
		encoded = string(b)
		err = y.UnmarshalJSON([]byte(`"` + string(b) + `"`))
	case "jsonnum":
		encoded = v.String()
		err = json.Unmarshal([]byte(encoded), y)
	case "xml":
		var b []byte
		if b, err = xml.Marshal(&xmlInt{X: x}); err != nil {
			return nil, "", fmt.Errorf("encode: %w", err)
		}
		if lz > 0 {
			b = []byte("<T><X>" + string(bytes.Repeat([]byte("0"), lz)) + v.String() + "</X></T>")
		}
		encoded = string(b)
		var t xmlInt
		err = xml.Unmarshal(b, &t)
		if err == nil {
			if t.X == nil {
				return nil, encoded, fmt.Errorf("decode: element missing")
			}
			y = t.X
		}
	case "binary":
		var b []byte
		if b, err = x.MarshalBinary(); err != nil {
			return nil, "", fmt.Errorf("encode: %w", err)
		}
		if lz > 0 {
			b = padded
		}
		encoded = fmt.Sprintf("%x", b)
		err = y.UnmarshalBinary(b)
	case "cbor":
		var b []byte
		if b, err = cbor.Marshal(x, cbor.EncOptions{}); err != nil {
			return nil, "", fmt.Errorf("encode: %w", err)
		}
		if lz > 0 {
			if b, err = cbor.Marshal(padded, cbor.EncOptions{}); err != nil {
				hx.Fatal("cbor of a byte string: %v", err)
			}
		}
		encoded = fmt.Sprintf("%x", b)
		err = cbor.Unmarshal(b, y)
	default:
		hx.Fatal("unknown integer encoding %q", enc)
	}
	if err != nil {
		return nil, encoded, fmt.Errorf("decode: %w", err)
	}
	return new(gobig.Int).Set(y.Go()), encoded, nil
}

func intValue(c intCase) *gobig.Int {
	v := new(gobig.Int)
	switch c.Cls {
	case "zero":
	case "one":
		v.SetInt64(1)
	case "pow":
		v.Lsh(gobig.NewInt(1), uint(c.K))
	case "powm1":
		v.Lsh(gobig.NewInt(1), uint(c.K)).Sub(v, gobig.NewInt(1))
	default:
		hx.Fatal("unknown class %q", c.Cls)
	}
	// the byte image the specification computed must be the one math/big computes
	b := v.Bytes()
	ok := len(b) == c.Bytes.Len
	for i := 0; ok && i < len(b); i++ {
		want := c.Bytes.Fill
		if i == 0 {
			want = c.Bytes.Top
		}
		ok = int(b[i]) == want
	}
	if !ok {
		hx.Fatal("byte image of %s/%d in the specification (%+v) differs from math/big (%x)", c.Cls, c.K, c.Bytes, b)
	}
	if c.Neg {
		v.Neg(v)
	}
	return v
}

func ints(a *hx.Args, res *hx.Result) {
	lines := hx.ReadNDJSON(a.In)
	rng := hx.Rng(a.Seed, "ser-ints")
	extra := 0
	if a.Tier == "thorough" {
		extra = 25
	}
	for _, l := range lines {
		var c intCase
		if err := json.Unmarshal(l, &c); err != nil {
			hx.Fatal("bad INT case: %v", err)
		}
		vals := []*gobig.Int{intValue(c)}
		// thorough: random values of the same byte-length class (same bit length)
		if vals[0].BitLen() > 1 {
			for i := 0; i < extra; i++ {
				r := new(gobig.Int).Rand(rng, new(gobig.Int).Lsh(gobig.NewInt(1), uint(vals[0].BitLen()-1)))
				r.SetBit(r, vals[0].BitLen()-1, 1)
				if c.Neg {
					r.Neg(r)
				}
				vals = append(vals, r)
			}
		}
		for vi, v := range vals {
			key := ""
			if v.BitLen() > 1 || c.Neg || c.Lz > 0 {
				key = fmt.Sprintf("%s/%d/%v/%s/%d/%d", c.Cls, c.K, c.Neg, c.Enc, c.Lz, vi)
			}
			res.Eval(key)
			var got *gobig.Int
			var encoded string
			var err error
			panicked, msg := hx.Try(func() { got, encoded, err = intRoundTrip(c.Enc, v, c.Lz) })
			det := hx.M{"part": "ints", "case": c, "value": v.String(), "encoded": encoded}
			if panicked {
				res.Violation("int-codec-panic", fmt.Sprintf("big.Int %s codec panicked on %s: %s", c.Enc, v, msg), det)
				continue
			}
			if err != nil {
				det["error"] = err.Error()
			} else {
				det["decoded"] = got.String()
			}
			switch c.Expect {
			case "same":
				if err != nil {
					res.Violation("int-roundtrip-error", fmt.Sprintf("non-negative %s does not survive %s (lz=%d): %v", v, c.Enc, c.Lz, err), det)
				} else if got.Cmp(v) != 0 {
					res.Violation("int-roundtrip-altered", fmt.Sprintf("%s came back as %s through %s (lz=%d)", v, got, c.Enc, c.Lz), det)
				}
			case "refuse":
				if err == nil {
					res.Violation("negative-int-not-refused", fmt.Sprintf("negative %s went through the text encoding %s without error and came back as %s", v, c.Enc, got), det)
				}
				res.Count("negative-refused:" + c.Enc)
			default: // the property is silent (byte encodings of negative values): record what happens
				switch {
				case err != nil:
					res.Count("negative-bytes:" + c.Enc + ":error")
				case got.Cmp(v) == 0:
					res.Count("negative-bytes:" + c.Enc + ":kept")
				default:
					res.Count("negative-bytes:" + c.Enc + ":magnitude-only")
				}
			}
			if vi == 0 && (c.Cls == "pow" && c.K == 64 && c.Lz == 1) {
				res.Sample(hx.M{"part": "ints", "case": c, "encoded": encoded})
			}
		}
	}
	res.Notes["int_cases"] = len(lines)
}
