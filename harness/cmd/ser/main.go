// Command ser binds Serial.tla to the real serialisation code (property C18).
//
//	ser modes    --in cases.ndjson   (a) PrivateKey/PublicKey.WriteToFile in a temp dir: error flag, mode bits, content per step
//	ser messages --in cases.ndjson   (b) real protocol messages: encode, decode into a fresh value, verify again, compare meaning
//	ser keys     --in cases.ndjson   (c) key documents and their mutations through New{Public,Private}KeyFrom{XML,Bytes,File}
//	ser ints     --in cases.ndjson   (d) big.Int boundary classes through JSON, XML, text, binary and CBOR
//
// The cases are the reachable states of the four machines of spec/Serial.tla as printed by SerialGen.tla.
package main

import (
	"fmt"
	"os"

	"verifharness/hx"
)

func main() {
	if len(os.Args) < 2 {
		fmt.Fprintln(os.Stderr, "usage: ser modes|messages|keys|ints --in cases.ndjson --out res.json [--tier T] [--seed N]")
		os.Exit(3)
	}
	sub := os.Args[1]
	os.Args = append(os.Args[:1], os.Args[2:]...)
	a := hx.ParseArgs()
	if a.In == "" || a.Out == "" {
		hx.Fatal("--in and --out are required")
	}
	res := hx.NewResult()
	switch sub {
	case "modes":
		modes(a, res)
	case "messages":
		messages(a, res)
	case "keys":
		keys(a, res)
	case "ints":
		ints(a, res)
	default:
		hx.Fatal("unknown sub-command %q", sub)
	}
	res.Write(a.Out)
}
