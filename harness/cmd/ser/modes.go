package main

import (
	"encoding/json"
	"fmt"
	"os"
	"path/filepath"
	"strings"
	"syscall"

	"verifharness/hx"
)

// case of Serial.tla part (a)
type fmOp struct {
	Kind    string `json:"kind"`
	Force   bool   `json:"force"`
	Err     bool   `json:"err"`
	Mode    int    `json:"mode"`
	Content string `json:"content"`
}
type fmCase struct {
	Prior struct {
		Ex   bool `json:"ex"`
		Link bool `json:"link"`
		Mode int  `json:"mode"`
	} `json:"prior"`
	Umask int    `json:"umask"`
	Ops   []fmOp `json:"ops"`
}

const permMask = 0o666 // the model tracks read/write bits only

// contentKind classifies what the path holds (the process is root: it can always read).
func contentKind(path string) string {
	b, err := os.ReadFile(path)
	if err != nil {
		if os.IsNotExist(err) {
			return "none"
		}
		hx.Fatal("read %s: %v", path, err)
	}
	s := string(b)
	switch {
	case strings.Contains(s, "IssuerPrivateKey") || strings.Contains(s, "<pPrime>"):
		return "priv"
	case strings.Contains(s, "IssuerPublicKey"):
		return "pub"
	case s == "other":
		return "other"
	case s == "":
		return "empty"
	}
	return "unknown"
}

func modes(a *hx.Args, res *hx.Result) {
	if os.Geteuid() != 0 {
		hx.Fatal("the file-mode model assumes the process is root (euid %d)", os.Geteuid())
	}
	kp := hx.Keys1024()[0]
	lines := hx.ReadNDJSON(a.In)
	base, err := os.MkdirTemp("", "ser-modes-")
	if err != nil {
		hx.Fatal("tempdir: %v", err)
	}
	defer os.RemoveAll(base)
	old := syscall.Umask(0)
	defer syscall.Umask(old)

	// syscall.Umask is process-wide: the cases run one after the other
	for n, l := range lines {
		var c fmCase
		if err := json.Unmarshal(l, &c); err != nil {
			hx.Fatal("bad FM case: %v", err)
		}
		dir := filepath.Join(base, fmt.Sprintf("c%d", n))
		syscall.Umask(0)
		if err := os.Mkdir(dir, 0o700); err != nil {
			hx.Fatal("mkdir: %v", err)
		}
		path := filepath.Join(dir, "key.xml")
		target := path
		if c.Prior.Ex {
			if c.Prior.Link {
				target = filepath.Join(dir, "target.xml")
			}
			if err := os.WriteFile(target, []byte("other"), 0o600); err != nil {
				hx.Fatal("prior file: %v", err)
			}
			if err := os.Chmod(target, os.FileMode(c.Prior.Mode)); err != nil {
				hx.Fatal("chmod prior: %v", err)
			}
			if c.Prior.Link {
				if err := os.Symlink(target, path); err != nil {
					hx.Fatal("symlink: %v", err)
				}
			}
		}
		key := ""
		if c.Prior.Ex || len(c.Ops) > 1 || c.Umask != 0o022 {
			key = hx.Digest(l)
		}
		res.Eval(key)
		syscall.Umask(c.Umask)
		for i, op := range c.Ops {
			var werr error
			panicked, msg := hx.Try(func() {
				if op.Kind == "priv" {
					_, werr = kp.SK.WriteToFile(path, op.Force)
				} else {
					_, werr = kp.PK.WriteToFile(path, op.Force)
				}
			})
			det := hx.M{"part": "modes", "case": c, "step": i}
			if panicked {
				res.Violation("writetofile-panic", "WriteToFile panicked: "+msg, det)
				break
			}
			// observe
			var mode int
			st, serr := os.Stat(path) // follows the link: the inode that holds the content
			if serr == nil {
				mode = int(st.Mode().Perm()) & permMask
			} else if !os.IsNotExist(serr) {
				hx.Fatal("stat: %v", serr)
			}
			kind := contentKind(path)
			det["observed"] = hx.M{"err": fmt.Sprint(werr), "mode": fmt.Sprintf("%04o", mode), "content": kind}
			det["expected"] = hx.M{"err": op.Err, "mode": fmt.Sprintf("%04o", op.Mode), "content": op.Content}
			// the property itself, independent of the step-by-step expectation
			if kind == "priv" && mode&0o077 != 0 {
				res.Violation("private-key-file-exposed", fmt.Sprintf("after %s.WriteToFile(force=%v) a file with private-key material has mode %04o (prior %+v, umask %03o)",
					op.Kind, op.Force, mode, c.Prior, c.Umask), det)
				break
			}
			if (werr != nil) != op.Err {
				res.Violation("writetofile-error-flag", fmt.Sprintf("%s.WriteToFile(force=%v) returned %v, the model expects error=%v (prior %+v, umask %03o)",
					op.Kind, op.Force, werr, op.Err, c.Prior, c.Umask), det)
				break
			}
			if mode != op.Mode {
				res.Violation("writetofile-mode", fmt.Sprintf("after %s.WriteToFile(force=%v) the mode is %04o, the model expects %04o (prior %+v, umask %03o)",
					op.Kind, op.Force, mode, op.Mode, c.Prior, c.Umask), det)
				break
			}
			if kind != op.Content {
				res.Violation("writetofile-content", fmt.Sprintf("after %s.WriteToFile(force=%v) the file holds %q, the model expects %q",
					op.Kind, op.Force, kind, op.Content), det)
				break
			}
			if c.Prior.Link {
				if lst, err := os.Lstat(path); err != nil || lst.Mode()&os.ModeSymlink == 0 {
					res.Violation("writetofile-link-replaced", "the symbolic link was replaced, the model keeps it", det)
					break
				}
			}
		}
		syscall.Umask(0)
		if n < 3 {
			res.Sample(hx.M{"part": "modes", "case": c})
		}
		os.RemoveAll(dir)
	}
	res.Notes["mode_cases"] = len(lines)
}
