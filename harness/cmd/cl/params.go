package main

import (
	"encoding/json"
	"fmt"
	gobig "math/big"

	"verifharness/hx"

	"github.com/privacybydesign/gabi/gabikeys"
)

// cl params --in params.ndjson
//
// SysParams.tla: for every base parameter set TLC walked (the three in use and a toy grid) the derived lengths must be the
// ones gabikeys.MakeDerivedParameters computes; the sets marked default must be exactly gabikeys.DefaultSystemParameters.
// For the defaults the size bounds are also evaluated with the real numbers: largest honest response <= the verifier's bound.
type prec struct {
	Base struct {
		LePrime, Lh, Lm, Ln, Lstatzk uint
	} `json:"base"`
	Derived struct {
		Le, LeCommit, LmCommit, LRA, LsCommit, Lv, LvCommit, LvPrime, LvPrimeCommit uint
	} `json:"derived"`
	Admissible bool `json:"admissible"`
	Default    bool `json:"default"`
}

func params(a *hx.Args, res *hx.Result) {
	ndef := 0
	for _, l := range hx.ReadNDJSON(a.In) {
		var p prec
		if err := json.Unmarshal(l, &p); err != nil {
			hx.Fatal("bad record: %v", err)
		}
		base := gabikeys.BaseParameters{LePrime: p.Base.LePrime, Lh: p.Base.Lh, Lm: p.Base.Lm, Ln: p.Base.Ln, Lstatzk: p.Base.Lstatzk}
		got := gabikeys.MakeDerivedParameters(base)
		want := gabikeys.DerivedParameters{Le: p.Derived.Le, LeCommit: p.Derived.LeCommit, LmCommit: p.Derived.LmCommit, LRA: p.Derived.LRA,
			LsCommit: p.Derived.LsCommit, Lv: p.Derived.Lv, LvCommit: p.Derived.LvCommit, LvPrime: p.Derived.LvPrime, LvPrimeCommit: p.Derived.LvPrimeCommit}
		res.Eval(fmt.Sprintf("params/%v", base))
		if got != want {
			res.Violation("derived-parameters-diverge", fmt.Sprintf("MakeDerivedParameters(%+v) = %+v, the specification derives %+v", base, got, want), hx.M{"base": base})
			continue
		}
		if !p.Default {
			continue
		}
		ndef++
		sp := gabikeys.DefaultSystemParameters[int(base.Ln)]
		if sp == nil || sp.BaseParameters != base || sp.DerivedParameters != want {
			res.Violation("default-parameters-diverge", fmt.Sprintf("DefaultSystemParameters[%d] is not the parameter set of the specification", base.Ln), hx.M{"base": base})
			continue
		}
		if !p.Admissible {
			res.Violation("default-parameters-not-admissible", fmt.Sprintf("the parameter set for %d-bit keys violates a constraint", base.Ln), hx.M{"base": base})
		}
		// the bounds with real numbers: largest randomiser + largest challenge * largest secret <= 2^(XCommit+1) - 1
		room := func(commit, secretBits uint) bool {
			r := new(gobig.Int).Sub(pow2(commit), one)
			c := new(gobig.Int).Sub(pow2(base.Lh), one)
			s := new(gobig.Int).Sub(pow2(secretBits), one)
			r.Add(r, c.Mul(c, s))
			return r.Cmp(new(gobig.Int).Sub(pow2(commit+1), one)) <= 0
		}
		if !room(got.LmCommit, base.Lm) || !room(got.LeCommit, base.LePrime-1) || !room(got.LvPrimeCommit, got.LvPrime) || !room(got.LsCommit, base.Lm) {
			res.Violation("no-room-for-honest-response", fmt.Sprintf("%d-bit keys: a response bound is smaller than the largest honest response", base.Ln), hx.M{"base": base})
		}
	}
	if ndef != len(gabikeys.DefaultSystemParameters) {
		res.Violation("default-parameters-diverge", fmt.Sprintf("the library has %d default parameter sets, the specification %d", len(gabikeys.DefaultSystemParameters), ndef), hx.M{})
	}
	res.Notes["default_sets"] = ndef
}
