// Command cl binds CLSig.tla to the real CL signature code (C05).
//
//	cl forge  --in cases.ndjson   signatures forged with the private key so that the equation holds, checked against altered tuples
//	cl honest                     SignMessageBlock + Randomize + Verify over blocks of every length with boundary-sized entries
package main

import (
	"sync"
	"crypto/sha256"
	"encoding/json"
	"fmt"
	gobig "math/big"
	mrand "math/rand"
	"os"

	"verifharness/hx"

	"github.com/privacybydesign/gabi"
	"github.com/privacybydesign/gabi/big"
	"github.com/privacybydesign/gabi/gabikeys"
)

type aSig struct {
	E   int   `json:"e"`
	Blk []int `json:"blk"`
	Ksp int   `json:"ksp"`
	Key int   `json:"key"`
}
type aChk struct {
	Blk []int `json:"blk"`
	Ksp int   `json:"ksp"`
	Key int   `json:"key"`
}
type aCase struct {
	Sig    aSig `json:"sig"`
	Chk    aChk `json:"chk"`
	Nrand  int  `json:"nrand"`
	Verify bool `json:"verify"`
	Valid  bool `json:"valid"`
	Eq     bool `json:"eq"`
}

var one = gobig.NewInt(1)

func pow2(n uint) *gobig.Int { return new(gobig.Int).Lsh(one, n) }

func randBits(rng *mrand.Rand, bits uint) *gobig.Int {
	b := make([]byte, (bits+7)/8)
	rng.Read(b)
	x := new(gobig.Int).SetBytes(b)
	return x.Rsh(x, uint(len(b))*8-bits)
}

func rep(pk *gabikeys.PublicKey, x *gobig.Int) *gobig.Int {
	if x.BitLen() > int(pk.Params.Lm) {
		h := sha256.Sum256(x.Bytes())
		return new(gobig.Int).SetBytes(h[:])
	}
	return x
}

type world struct {
	kps  []hx.KeyPair
	vals [8]map[int]*gobig.Int // per position: concrete value of each abstract class
	ksp  [2][2]*gobig.Int      // per key: keyshare contributions
	es   [2]map[int]*gobig.Int // per key: concrete exponent of each abstract exponent
}

func nextPrime(x *gobig.Int, dir int64) *gobig.Int {
	y := new(gobig.Int).Set(x)
	for !y.ProbablyPrime(40) {
		y.Add(y, gobig.NewInt(dir))
	}
	return y
}

func (w *world) exps(k int, rng *mrand.Rand) map[int]*gobig.Int {
	P := w.kps[k].PK.Params
	order := w.kps[k].SK.Order.Go()
	lo := pow2(P.Le - 1)
	hi := new(gobig.Int).Add(lo, pow2(P.LePrime-1))
	mid := new(gobig.Int).Add(lo, randBits(rng, P.LePrime-2))
	composite := func(x *gobig.Int, dir int64) *gobig.Int { // nearest composite coprime to the order
		y := new(gobig.Int).Set(x)
		for y.ProbablyPrime(40) || new(gobig.Int).GCD(nil, nil, y, order).Cmp(one) != 0 {
			y.Add(y, gobig.NewInt(dir))
		}
		return y
	}
	p1, p2 := nextPrime(randBits(rng, (P.Le-1)/2+1).SetBit(randBits(rng, (P.Le-1)/2+1), int((P.Le-1)/2), 1), 1), gobig.NewInt(0)
	// odd composite inside the interval: p1 * p2 with p2 chosen so that the product lands inside
	p2.Div(new(gobig.Int).Add(lo, pow2(P.LePrime-2)), p1)
	p2 = nextPrime(p2, 1)
	odd := new(gobig.Int).Mul(p1, p2)
	if odd.Cmp(lo) < 0 || odd.Cmp(hi) > 0 {
		odd = composite(new(gobig.Int).Or(mid, one), 2)
	}
	m := map[int]*gobig.Int{
		2: gobig.NewInt(2), 3: gobig.NewInt(3), 5: gobig.NewInt(65537), 7: nextPrime(randBits(rng, 17).SetBit(randBits(rng, 17), 16, 1), 1),
		11: nextPrime(pow2(P.Le-40), 1),
		13: nextPrime(new(gobig.Int).Sub(lo, one), -1),             // largest prime below the interval
		14: composite(new(gobig.Int).Sub(lo, gobig.NewInt(2)), -1), // composite just below
		15: composite(new(gobig.Int).Sub(lo, one), -1),
		16: lo,                                   // lower end itself (even)
		17: nextPrime(new(gobig.Int).Set(lo), 1), // smallest prime inside
		18: composite(new(gobig.Int).Add(lo, gobig.NewInt(2)), 1),
		19: nextPrime(new(gobig.Int).Or(mid, one), 2), // prime in the middle
		20: composite(new(gobig.Int).Set(mid), 1),
		21: odd, // odd composite inside
		22: composite(new(gobig.Int).Sub(hi, gobig.NewInt(2)), -1),
		23: nextPrime(new(gobig.Int).Set(hi), -1), // largest prime inside
		24: hi,                                    // upper end itself (even)
		25: composite(new(gobig.Int).Add(hi, one), 1),
		26: composite(new(gobig.Int).Add(hi, gobig.NewInt(2)), 1),
		27: composite(new(gobig.Int).Add(hi, gobig.NewInt(3)), 1),
		28: composite(new(gobig.Int).Add(hi, gobig.NewInt(4)), 1),
		29: nextPrime(new(gobig.Int).Add(hi, one), 1), // smallest prime above the interval
		31: nextPrime(pow2(P.Le+5), 1),
	}
	for a, e := range m {
		if new(gobig.Int).GCD(nil, nil, e, order).Cmp(one) != 0 {
			hx.Fatal("exponent class %d not invertible modulo the group order", a)
		}
	}
	return m
}

func newWorld(rng *mrand.Rand) *world {
	w := &world{kps: hx.Keys1024()}
	lm := w.kps[0].PK.Params.Lm
	for i := range w.vals {
		x9 := randBits(rng, lm)
		x9.SetBit(x9, int(lm)-1, 1)
		if i == 0 {
			x9 = new(gobig.Int).Sub(pow2(lm), one) // exactly 2^Lm - 1
		}
		x40 := randBits(rng, lm+70)
		x40.SetBit(x40, int(lm)+69, 1)
		if i == 1 {
			x40 = pow2(lm) // exactly 2^Lm: the smallest value that is hashed
		}
		small := new(gobig.Int).Add(randBits(rng, 100), one)
		if i == 0 {
			small = gobig.NewInt(1)
		}
		w.vals[i] = map[int]*gobig.Int{0: gobig.NewInt(0), 1: small, 9: x9, 40: x40}
	}
	for k := 0; k < 2; k++ {
		n := w.kps[k].PK.N.Go()
		for j := 0; j < 2; j++ {
			w.ksp[k][j] = new(gobig.Int).Exp(w.kps[k].PK.R[0].Go(), randBits(rng, 255), n)
		}
		w.es[k] = w.exps(k, rng)
	}
	return w
}

func (w *world) block(abs []int) []*big.Int {
	var out []*big.Int
	for i, a := range abs {
		out = append(out, big.Convert(new(gobig.Int).Set(w.vals[i][a])))
	}
	return out
}

// forge makes (A, e, v) with A^e * S^v * prod R_i^Rep(m_i) * ksp = Z using the private key.
func (w *world) forge(k int, e *gobig.Int, blk []*big.Int, ksp *gobig.Int, rng *mrand.Rand) *gabi.CLSignature {
	pk, sk := w.kps[k].PK, w.kps[k].SK
	n := pk.N.Go()
	v := randBits(rng, pk.Params.Lv-1)
	v.Add(v, pow2(pk.Params.Lv-1))
	den := new(gobig.Int).Exp(pk.S.Go(), v, n)
	for i, m := range blk {
		den.Mul(den, new(gobig.Int).Exp(pk.R[i].Go(), rep(pk, m.Go()), n)).Mod(den, n)
	}
	if ksp != nil {
		den.Mul(den, ksp).Mod(den, n)
	}
	inv := new(gobig.Int).ModInverse(den, n)
	q := new(gobig.Int).Mul(pk.Z.Go(), inv)
	q.Mod(q, n)
	d := new(gobig.Int).ModInverse(e, sk.Order.Go())
	if d == nil {
		hx.Fatal("exponent not invertible")
	}
	return &gabi.CLSignature{A: big.Convert(new(gobig.Int).Exp(q, d, n)), E: big.Convert(new(gobig.Int).Set(e)), V: big.Convert(v)}
}

func normBlock(pk *gabikeys.PublicKey, blk []*big.Int) string {
	s := ""
	last := -1
	reps := make([]*gobig.Int, len(blk))
	for i, m := range blk {
		reps[i] = rep(pk, m.Go())
		if reps[i].Sign() != 0 {
			last = i
		}
	}
	for i := 0; i <= last; i++ {
		s += reps[i].String() + ","
	}
	return s
}

func main() {
	if len(os.Args) < 2 {
		hx.Fatal("usage: cl forge|honest ...")
	}
	cmd := os.Args[1]
	os.Args = append(os.Args[:1], os.Args[2:]...)
	a := hx.ParseArgs()
	res := hx.NewResult()
	rng := hx.Rng(a.Seed, "cl")
	w := newWorld(rng)
	switch cmd {
	case "forge":
		forge(a, w, rng, res)
	case "honest":
		honest(a, w, rng, res)
	case "streams":
		streams(a, w, rng, res)
	case "params":
		params(a, res)
	default:
		hx.Fatal("unknown subcommand")
	}
	res.Write(a.Out)
}

var (
	hostMu   sync.Mutex
	hostSigs = map[string]*gabi.CLSignature{}
)

// a fresh CLSignature object holding a genuine signature of key k on the block (signed once per key and block, copied per use)
func hostSignature(w *world, k int, blkID any, blk []*big.Int) *gabi.CLSignature {
	key := fmt.Sprint(k, "/", blkID)
	hostMu.Lock()
	t := hostSigs[key]
	if t == nil {
		var err error
		if t, err = gabi.SignMessageBlock(w.kps[k].SK, w.kps[k].PK, blk); err != nil {
			hx.Fatal("host signature: %v", err)
		}
		hostSigs[key] = t
	}
	hostMu.Unlock()
	return &gabi.CLSignature{A: new(big.Int).Set(t.A), E: new(big.Int).Set(t.E), V: new(big.Int).Set(t.V)}
}

func forge(a *hx.Args, w *world, rng *mrand.Rand, res *hx.Result) {
	lines := hx.ReadNDJSON(a.In)
	seen := map[string]bool{}
	var cases []aCase
	for _, l := range lines {
		if seen[string(l)] {
			continue
		}
		seen[string(l)] = true
		var c aCase
		if err := json.Unmarshal(l, &c); err != nil {
			hx.Fatal("bad case: %v", err)
		}
		cases = append(cases, c)
	}
	seeds := make([]int64, len(cases))
	for i := range seeds {
		seeds[i] = rng.Int63()
	}
	hx.Parallel(len(cases), func(i int) {
		c := cases[i]
		r := mrand.New(mrand.NewSource(seeds[i]))
		ks, kc := c.Sig.Key-1, c.Chk.Key-1
		e := w.es[ks][c.Sig.E]
		if e == nil {
			hx.Fatal("no concretisation for exponent class %d", c.Sig.E)
		}
		sblk, cblk := w.block(c.Sig.Blk), w.block(c.Chk.Blk)
		var sksp, cksp *gobig.Int
		if c.Sig.Ksp == 1 {
			sksp = w.ksp[ks][0]
		}
		if c.Chk.Ksp == 1 {
			cksp = w.ksp[kc][0]
			if kc != ks {
				cksp = w.ksp[kc][1]
			}
		}
		sig := w.forge(ks, e, sblk, sksp, r)
		var ok bool
		var final *gabi.CLSignature
		panicked, msg := hx.Try(func() {
			s := sig
			for j := 0; j < c.Nrand; j++ {
				var err error
				if s, err = s.Randomize(w.kps[ks].PK); err != nil {
					hx.Fatal("Randomize: %v", err)
				}
			}
			if cksp != nil {
				s.KeyshareP = big.Convert(cksp)
			}
			ok = s.Verify(w.kps[kc].PK, cblk)
			final = s
		})
		b, _ := json.Marshal(c)
		res.Eval(hx.Digest(b))
		if panicked {
			res.Violation("verify-panic", "CLSignature.Verify panicked: "+msg, hx.M{"case": c})
			return
		}
		// the same content in an object with a history: a genuine signature of the checking key on the checked block is
		// verified (accepted), then changed field by field (big integers in place) into this case's signature and verified again
		{
			var okHost, okReused bool
			panicked, msg = hx.Try(func() {
				host := hostSignature(w, kc, c.Chk.Blk, cblk)
				okHost = host.Verify(w.kps[kc].PK, cblk)
				hx.Overwrite(host, final)
				okReused = host.Verify(w.kps[kc].PK, cblk)
			})
			res.Count(fmt.Sprintf("reused-object:agrees=%v", okReused == ok))
			switch {
			case panicked:
				res.Violation("verify-panic", "CLSignature.Verify on an object that was verified before panicked: "+msg, hx.M{"case": c})
				return
			case !okHost:
				hx.Fatal("the host signature of the object-history replay does not verify")
			case okReused != ok:
				res.Violation("verdict-depends-on-object-history", fmt.Sprintf("the same signature content is judged %v in a fresh CLSignature object but %v in an object that was verified before (accepted, then overwritten in place)", ok, okReused), hx.M{"case": c})
				return
			}
		}
		// the facts, established by the harness itself
		P := w.kps[ks].PK.Params
		lo := pow2(P.Le - 1)
		hi := new(gobig.Int).Add(lo, pow2(P.LePrime-1))
		valid := e.Cmp(lo) >= 0 && e.Cmp(hi) <= 0 && e.ProbablyPrime(64)
		same := ks == kc && c.Sig.Ksp == c.Chk.Ksp && normBlock(w.kps[ks].PK, sblk) == normBlock(w.kps[kc].PK, cblk)
		res.Count(fmt.Sprintf("code=%v:spec=%v:valid=%v:same=%v", ok, c.Verify, valid, same))
		if valid != c.Valid || same != c.Eq {
			hx.Fatal("concretisation disagrees with the abstract case: valid %v/%v same %v/%v (%v)", valid, c.Valid, same, c.Eq, c)
		}
		switch {
		case ok && !valid:
			res.Violation("invalid-exponent-accepted", fmt.Sprintf("signature with exponent class %d (e outside its interval or composite) verifies although the equation holds only through the private key", c.Sig.E), hx.M{"case": c, "e": e.String()})
		case ok && !same:
			res.Violation("signature-verifies-for-other-tuple", "signature verifies against a different message block, keyshare contribution or public key", hx.M{"case": c})
		case !ok && valid && same:
			res.Violation("valid-signature-rejected", "a valid signature (also after randomisation) does not verify", hx.M{"case": c})
		}
		if ok {
			res.Sample(hx.M{"accepted": c})
		}
	})
}

func honest(a *hx.Args, w *world, rng *mrand.Rand, res *hx.Result) {
	classes := []int{0, 1, 9, 40}
	n := 150
	if a.Tier == "thorough" {
		n = 2000
	}
	seeds := make([]int64, n)
	for i := range seeds {
		seeds[i] = rng.Int63()
	}
	hx.Parallel(n, func(i int) {
		r := mrand.New(mrand.NewSource(seeds[i]))
		k := i % 2
		pk, sk := w.kps[k].PK, w.kps[k].SK
		length := 1 + i%len(pk.R)
		var abs []int
		for j := 0; j < length; j++ {
			abs = append(abs, classes[r.Intn(4)])
		}
		blk := w.block(append([]int{}, abs[:min(len(abs), 8)]...))
		var ok0, ok1, ok2, okOther bool
		var err error
		panicked, msg := hx.Try(func() {
			var sig *gabi.CLSignature
			sig, err = gabi.SignMessageBlock(sk, pk, blk)
			if err != nil {
				return
			}
			ok0 = sig.Verify(pk, blk)
			s1, e1 := sig.Randomize(pk)
			s2, e2 := s1.Randomize(pk)
			if e1 != nil || e2 != nil {
				err = fmt.Errorf("randomize: %v %v", e1, e2)
				return
			}
			ok1, ok2 = s1.Verify(pk, blk), s2.Verify(pk, blk)
			other := append([]*big.Int{}, blk...)
			other[r.Intn(len(other))] = big.Convert(randBits(r, 120).Add(randBits(r, 120), gobig.NewInt(2)))
			okOther = s2.Verify(pk, other) && normBlock(pk, other) != normBlock(pk, blk)
		})
		res.Eval(fmt.Sprintf("honest/%d/%v", k, abs))
		d := hx.M{"block": abs, "key": pk.Issuer}
		switch {
		case panicked:
			res.Violation("sign-panic", "signing or verifying panicked: "+msg, d)
		case err != nil:
			res.Violation("sign-error", fmt.Sprintf("issuer cannot sign block: %v", err), d)
		case !ok0 || !ok1 || !ok2:
			res.Violation("valid-signature-rejected", fmt.Sprintf("issuer signature does not verify (fresh %v, randomised once %v, twice %v)", ok0, ok1, ok2), d)
		case okOther:
			res.Violation("signature-verifies-for-other-tuple", "randomised signature verifies for an altered block", d)
		}
	})
	res.Sample(hx.M{"honest_blocks": n})
}
