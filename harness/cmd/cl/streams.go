package main

import (
	crand "crypto/rand"
	"encoding/json"
	"fmt"
	"io"
	gobig "math/big"
	mrand "math/rand"

	"verifharness/hx"

	"github.com/privacybydesign/gabi"
	"github.com/privacybydesign/gabi/big"
)

// cl streams --in scripts.ndjson
//
// CLSign.tla: the issuer signs under a scripted random stream. crypto/rand.Reader is replaced for the duration of one
// SignMessageBlock call by a reader that serves the script (one chunk for vTilde, then one chunk per prime candidate)
// and real randomness once the script is used up. The harness recomputes the candidates the script leads to and
// demands what SignerSound / VInRange / FirstPrime demand of the model: e is a prime of its interval, v lies in
// [2^(lv-1), 2^lv), the signer returns the first scripted candidate that is prime, and the signature verifies.
// (Serial: the reader is process-global.)

type script struct {
	V     string `json:"v"`
	Reads []int  `json:"reads"`
	E     int    `json:"e"`
}

type scripted struct {
	chunks [][]byte // served in order, one per Read call
	pos    int
	real   io.Reader
	lens   []int
}

func (s *scripted) Read(p []byte) (int, error) {
	s.lens = append(s.lens, len(p))
	if s.pos < len(s.chunks) {
		c := s.chunks[s.pos]
		s.pos++
		if len(c) != len(p) {
			hx.Fatal("scripted reader: read %d asks for %d bytes, the script holds %d", s.pos, len(p), len(c))
		}
		copy(p, c)
		return len(p), nil
	}
	return s.real.Read(p)
}

func fill(n int, v byte) []byte {
	b := make([]byte, n)
	for i := range b {
		b[i] = v
	}
	return b
}

func streams(a *hx.Args, w *world, rng *mrand.Rand, res *hx.Result) {
	var scripts []script
	for _, l := range hx.ReadNDJSON(a.In) {
		var s script
		if err := json.Unmarshal(l, &s); err != nil {
			hx.Fatal("bad script: %v", err)
		}
		scripts = append(scripts, s)
	}
	orig := crand.Reader
	defer func() { crand.Reader = orig }()
	for si, sc := range scripts {
		k := si % 2
		pk, sk := w.kps[k].PK, w.kps[k].SK
		P := pk.Params
		start, length := P.Le-1, P.LePrime-1
		vb := int(P.Lv-1+7) / 8
		eb := int(length+7) / 8
		topBits := length % 8
		if topBits == 0 {
			topBits = 8
		}
		rd := &scripted{real: orig}
		switch sc.V {
		case "zeros":
			rd.chunks = append(rd.chunks, fill(vb, 0))
		case "ones":
			rd.chunks = append(rd.chunks, fill(vb, 0xff))
		default:
			c := make([]byte, vb)
			rng.Read(c)
			rd.chunks = append(rd.chunks, c)
		}
		// a toy chunk c in 0..7 fixes the three most significant bits of the offset; 0 and 7 are all zeros / all ones
		var cands []*gobig.Int
		lastOrdinary := -1
		for ci, c := range sc.Reads {
			if c != 0 && c != 7 {
				lastOrdinary = ci
			}
		}
		for ci, c := range sc.Reads {
			var chunk []byte
			switch c {
			case 0:
				chunk = fill(eb, 0)
			case 7:
				chunk = fill(eb, 0xff)
			default:
				// every third script gets a PRIME as its last ordinary candidate (found by search; a random candidate of this
				// size is prime once in about 200 times, too rarely to rely on): the signer must take the first prime it is offered
				wantPrime := si%3 == 0 && ci == lastOrdinary
				for tries := 0; ; tries++ {
					chunk = make([]byte, eb)
					rng.Read(chunk)
					chunk[0] &= byte(1<<topBits - 1)
					chunk[0] &^= 7 << (topBits - 3)
					chunk[0] |= byte(c) << (topBits - 3)
					if !wantPrime || tries > 20000 {
						break
					}
					off := new(gobig.Int).SetBytes(chunk)
					off.And(off, new(gobig.Int).Sub(pow2(length), one)).SetBit(off, 0, 1)
					if off.Add(off, pow2(start)).ProbablyPrime(20) {
						break
					}
				}
			}
			rd.chunks = append(rd.chunks, chunk)
			off := new(gobig.Int).SetBytes(chunk)
			off.And(off, new(gobig.Int).Sub(pow2(length), one)).SetBit(off, 0, 1)
			cands = append(cands, off.Add(off, pow2(start)))
		}
		blk := w.block([]int{1, 9, 40}[:1+si%3])
		var sig *gabi.CLSignature
		var err error
		var ok bool
		crand.Reader = rd
		panicked, msg := hx.Try(func() {
			sig, err = gabi.SignMessageBlock(sk, pk, blk)
		})
		crand.Reader = orig
		res.Eval(fmt.Sprintf("stream/%d/%s/%v", k, sc.V, sc.Reads))
		d := hx.M{"script": sc, "key": pk.Issuer, "read_lengths": rd.lens}
		if panicked {
			res.Violation("sign-panic", "signing under a scripted random stream panicked: "+msg, d)
			continue
		}
		if err != nil {
			res.Violation("sign-error", fmt.Sprintf("issuer cannot sign under a scripted random stream: %v", err), d)
			continue
		}
		if len(rd.lens) < 2 || rd.lens[0] != vb || rd.lens[1] != eb {
			hx.Fatal("the signer does not read its randomness as CLSign.tla says (vTilde chunk, then candidates): %v", rd.lens)
		}
		hx.Try(func() { ok = sig.Verify(pk, blk) })
		lo := pow2(P.Le - 1)
		hi := new(gobig.Int).Add(lo, pow2(P.LePrime-1))
		e, v := sig.E.Go(), sig.V.Go()
		var want *gobig.Int
		consumed := 0
		for i, c := range cands {
			consumed = i + 1
			if big.Convert(c).ProbablyPrime(40) {
				want = c
				break
			}
		}
		res.Count(fmt.Sprintf("scripted-prime=%v", want != nil))
		switch {
		case e.Cmp(lo) < 0 || e.Cmp(hi) > 0 || !e.ProbablyPrime(64):
			res.Violation("issuer-exponent-outside-interval", fmt.Sprintf("the issuer signed with e = 2^(le-1) + %v, which is not a prime of [2^(le-1), 2^(le-1)+2^(le'-1)]", new(gobig.Int).Sub(e, lo)), d)
		case v.Cmp(pow2(P.Lv-1)) < 0 || v.Cmp(pow2(P.Lv)) >= 0:
			res.Violation("issuer-v-outside-interval", "the issuer signed with v outside [2^(lv-1), 2^lv)", d)
		case !ok:
			res.Violation("valid-signature-rejected", "a signature made under a scripted random stream does not verify", d)
		case want != nil && e.Cmp(want) != 0:
			res.Violation("signer-diverges-from-model", fmt.Sprintf("candidate %d of the script is a prime of the interval but the signer returned another exponent", consumed), d)
		case want != nil && rd.pos != 1+consumed:
			res.Violation("signer-diverges-from-model", fmt.Sprintf("the signer consumed %d chunks where the model consumes %d", rd.pos, 1+consumed), d)
		}
		if sc.V == "zeros" && v.Cmp(pow2(P.Lv-1)) != 0 || sc.V == "ones" && v.Cmp(new(gobig.Int).Sub(pow2(P.Lv), one)) != 0 {
			res.Violation("signer-diverges-from-model", "v is not 2^(lv-1) + the scripted vTilde", d)
		}
	}
}
