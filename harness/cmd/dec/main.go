// Command dec binds Decode.tla to the real decoding and verification code (C08).
//
//	dec run  --in cases.ndjson [--tier T] [--seed N] templates.ndjson
//	dec dump                                           (debugging aid: prints the real template documents)
//
// The real templates (proof lists that verify) are built once per run with the fixed 1024-bit keys. Every case of the
// generator (DecodeGen.tla) is a PATCH LIST against one template; the harness applies it to the JSON tree of the real
// template, re-marshals and feeds the bytes to json.Unmarshal into gabi.ProofList and into gabi.IssueCommitmentMessage,
// then to ProofList.Verify / ProofD.Verify / ProofU.Verify, everything under hx.Try.
//
// Verdict: a panic anywhere is a violation; so is acceptance of a document the specification marks not WellFormed.
// Everything else (which error, decode error versus rejection) is only counted.
//
// The tree is an ordered one with repeatable keys rather than map[string]any / []any: "duplicate a member" is one of
// the mutations. keyshare.go has no entry point that takes an untrusted ProofD / ProofU (KeyshareResponse consumes
// commitments and a response, MergeProofP works on the client's own proofs), so nothing of it is driven here.
package main

import (
	"bytes"
	"encoding/json"
	"fmt"
	gobig "math/big"
	mrand "math/rand"
	"os"
	"strconv"
	"strings"

	"verifharness/hx"

	"github.com/privacybydesign/gabi"
	"github.com/privacybydesign/gabi/big"
	"github.com/privacybydesign/gabi/gabikeys"
	"github.com/privacybydesign/gabi/rangeproof"
	"github.com/privacybydesign/gabi/revocation"
)

func main() {
	if len(os.Args) < 2 {
		hx.Fatal("usage: dec run|dump ...")
	}
	cmd := os.Args[1]
	os.Args = append(os.Args[:1], os.Args[2:]...)
	a := hx.ParseArgs()
	res := hx.NewResult()
	switch cmd {
	case "run":
		run(a, res)
	case "dump":
		for _, t := range buildTemplates(hx.Rng(a.Seed, "dec-templates")) {
			fmt.Printf("%s\n%s\n", t.name, t.tree.marshal())
		}
		return
	default:
		hx.Fatal("unknown subcommand %s", cmd)
	}
	res.Write(a.Out)
}

// ---------------------------------------------------------------- ordered JSON tree

// node is a JSON value. Objects keep the order of their members and may hold the same key twice: "duplicate a
// field" is one of the mutations, and encoding/json would merge such members, which map[string]any cannot express.
type node struct {
	kind  byte // 'o' object, 'a' array, 's' string, 'n' number, 'b' bool, 'z' null
	keys  []string
	vals  []*node
	elems []*node
	raw   string // the JSON text of a scalar
}

func parseTree(b []byte) *node {
	dec := json.NewDecoder(bytes.NewReader(b))
	dec.UseNumber()
	n := parseValue(dec)
	if _, err := dec.Token(); err == nil {
		hx.Fatal("trailing data after JSON value")
	}
	return n
}

func parseValue(dec *json.Decoder) *node {
	tok, err := dec.Token()
	if err != nil {
		hx.Fatal("parse: %v", err)
	}
	switch t := tok.(type) {
	case json.Delim:
		switch t {
		case '{':
			n := &node{kind: 'o'}
			for dec.More() {
				k, err := dec.Token()
				if err != nil {
					hx.Fatal("parse: %v", err)
				}
				n.keys = append(n.keys, k.(string))
				n.vals = append(n.vals, parseValue(dec))
			}
			dec.Token()
			return n
		case '[':
			n := &node{kind: 'a'}
			for dec.More() {
				n.elems = append(n.elems, parseValue(dec))
			}
			dec.Token()
			return n
		}
	case string:
		b, _ := json.Marshal(t)
		return &node{kind: 's', raw: string(b)}
	case json.Number:
		return &node{kind: 'n', raw: t.String()}
	case bool:
		return &node{kind: 'b', raw: strconv.FormatBool(t)}
	case nil:
		return &node{kind: 'z', raw: "null"}
	}
	hx.Fatal("parse: unexpected token %v", tok)
	return nil
}

func (n *node) write(w *bytes.Buffer) {
	switch n.kind {
	case 'o':
		w.WriteByte('{')
		for i, k := range n.keys {
			if i > 0 {
				w.WriteByte(',')
			}
			kb, _ := json.Marshal(k)
			w.Write(kb)
			w.WriteByte(':')
			n.vals[i].write(w)
		}
		w.WriteByte('}')
	case 'a':
		w.WriteByte('[')
		for i, e := range n.elems {
			if i > 0 {
				w.WriteByte(',')
			}
			e.write(w)
		}
		w.WriteByte(']')
	default:
		w.WriteString(n.raw)
	}
}

func (n *node) marshal() []byte {
	var w bytes.Buffer
	n.write(&w)
	return w.Bytes()
}

func (n *node) clone() *node {
	c := &node{kind: n.kind, raw: n.raw}
	c.keys = append([]string(nil), n.keys...)
	for _, v := range n.vals {
		c.vals = append(c.vals, v.clone())
	}
	for _, e := range n.elems {
		c.elems = append(c.elems, e.clone())
	}
	return c
}

// member returns the position of the LAST member with key k (the one encoding/json lets win), or -1.
func (n *node) member(k string) int {
	for i := len(n.keys) - 1; i >= 0; i-- {
		if n.keys[i] == k {
			return i
		}
	}
	return -1
}

func (n *node) removeKey(k string) {
	var ks []string
	var vs []*node
	for i := range n.keys {
		if n.keys[i] != k {
			ks = append(ks, n.keys[i])
			vs = append(vs, n.vals[i])
		}
	}
	n.keys, n.vals = ks, vs
}

// get follows a path; nil when it does not exist.
func (n *node) get(p []string) *node {
	cur := n
	for _, s := range p {
		switch cur.kind {
		case 'o':
			i := cur.member(s)
			if i < 0 {
				return nil
			}
			cur = cur.vals[i]
		case 'a':
			i, err := strconv.Atoi(s)
			if err != nil || i < 0 || i >= len(cur.elems) {
				return nil
			}
			cur = cur.elems[i]
		default:
			return nil
		}
	}
	return cur
}

// set replaces (or, in an object, adds) the node at path p; the parent must exist.
func (n *node) set(p []string, x *node) error {
	if len(p) == 0 {
		*n = *x
		return nil
	}
	par := n.get(p[:len(p)-1])
	last := p[len(p)-1]
	if par == nil {
		return fmt.Errorf("no parent for %v", p)
	}
	switch par.kind {
	case 'o':
		if i := par.member(last); i >= 0 {
			par.vals[i] = x
		} else {
			par.keys = append(par.keys, last)
			par.vals = append(par.vals, x)
		}
		return nil
	case 'a':
		i, err := strconv.Atoi(last)
		if err != nil || i < 0 || i >= len(par.elems) {
			return fmt.Errorf("no element %v", p)
		}
		par.elems[i] = x
		return nil
	}
	return fmt.Errorf("parent of %v is a scalar", p)
}

func (n *node) del(p []string) error {
	par := n.get(p[:len(p)-1])
	last := p[len(p)-1]
	if par == nil {
		return fmt.Errorf("no parent for %v", p)
	}
	switch par.kind {
	case 'o':
		if par.member(last) < 0 {
			return fmt.Errorf("no member %v", p)
		}
		par.removeKey(last)
		return nil
	case 'a':
		i, err := strconv.Atoi(last)
		if err != nil || i < 0 || i >= len(par.elems) {
			return fmt.Errorf("no element %v", p)
		}
		par.elems = append(par.elems[:i:i], par.elems[i+1:]...)
		return nil
	}
	return fmt.Errorf("parent of %v is a scalar", p)
}

// ---------------------------------------------------------------- templates

type template struct {
	name    string
	tree    *node
	keys    []*gabikeys.PublicKey
	context *big.Int
	nonce   *big.Int
	u, n2   *big.Int // wrapper fields of the IssueCommitmentMessage
	accepts bool     // ProofList.Verify accepts the unmutated template
}

func randBits(rng *mrand.Rand, bits uint) *gobig.Int {
	b := make([]byte, (bits+7)/8)
	rng.Read(b)
	x := new(gobig.Int).SetBytes(b)
	x.Rsh(x, uint(len(b))*8-bits)
	return x.SetBit(x, int(bits)-1, 1)
}

var squares = rangeproof.GenerateSquaresTable(65535)

// newCredential signs (secret, 1000, v2, v3, e) where e is the value of a fresh non-revocation witness.
func newCredential(kp hx.KeyPair, secret *big.Int, rng *mrand.Rand) *gabi.Credential {
	upd, err := revocation.NewAccumulator(kp.SK)
	if err != nil {
		hx.Fatal("NewAccumulator: %v", err)
	}
	acc, err := upd.SignedAccumulator.UnmarshalVerify(kp.PK)
	if err != nil {
		hx.Fatal("accumulator: %v", err)
	}
	w, err := revocation.RandomWitness(kp.SK, acc)
	if err != nil {
		hx.Fatal("witness: %v", err)
	}
	w.SignedAccumulator = upd.SignedAccumulator
	attrs := []*big.Int{secret, big.NewInt(1000), big.Convert(randBits(rng, 200)), big.Convert(randBits(rng, 200)), w.E}
	sig, err := gabi.SignMessageBlock(kp.SK, kp.PK, attrs)
	if err != nil {
		hx.Fatal("SignMessageBlock: %v", err)
	}
	return &gabi.Credential{Signature: sig, Pk: kp.PK, Attributes: attrs, NonRevocationWitness: w}
}

func rangeStatements() map[int][]*rangeproof.Statement {
	return map[int][]*rangeproof.Statement{1: {
		{Sign: 1, Factor: 1, Bound: big.NewInt(937)},                      // four squares
		{Sign: -1, Factor: 1, Bound: big.NewInt(1063), Splitter: squares}, // three squares
	}}
}

func buildTemplates(rng *mrand.Rand) []*template {
	kps := hx.Keys1024()
	for _, kp := range kps {
		if kp.PK.Counter != 0 || len(kp.PK.R) != 6 {
			hx.Fatal("the specification assumes key counter 0 and 6 bases (got %d, %d)", kp.PK.Counter, len(kp.PK.R))
		}
	}
	secret := big.Convert(randBits(rng, 250))
	credA := newCredential(kps[0], secret, rng)
	credB := newCredential(kps[1], secret, rng)
	pk0, pk1 := kps[0].PK, kps[1].PK
	// revocationAttrIndex recognises the revocation response by its size; an ordinary response is that small with
	// probability 2^-12 (known finding D10 of C11). Templates are rebuilt until no ordinary response is ambiguous.
	small := new(gobig.Int).Lsh(gobig.NewInt(1), 195+256+128+1)
	type spec struct {
		name  string
		build func() (gabi.ProofBuilderList, []*gabikeys.PublicKey)
	}
	dBuilder := func(c *gabi.Credential, disclosed []int, nonrev, rp bool) gabi.ProofBuilder {
		var st map[int][]*rangeproof.Statement
		if rp {
			st = rangeStatements()
		}
		b, err := c.CreateDisclosureProofBuilder(disclosed, st, nonrev)
		if err != nil {
			hx.Fatal("CreateDisclosureProofBuilder: %v", err)
		}
		return b
	}
	var lastCB *gabi.CredentialBuilder
	uBuilder := func(ctx *big.Int) gabi.ProofBuilder {
		cb, err := gabi.NewCredentialBuilder(pk1, ctx, secret, big.Convert(randBits(rng, 80)), nil, []int{2})
		if err != nil {
			hx.Fatal("NewCredentialBuilder: %v", err)
		}
		lastCB = cb
		return cb
	}
	var out []*template
	for _, name := range []string{"D", "U", "Dn", "Dr", "DnrU", "DD", "D0D"} {
		for attempt := 0; ; attempt++ {
			if attempt > 50 {
				hx.Fatal("cannot build template %s", name)
			}
			ctx, nonce := big.Convert(randBits(rng, 256)), big.Convert(randBits(rng, 80))
			lastCB = nil
			var bl gabi.ProofBuilderList
			var keys []*gabikeys.PublicKey
			switch name {
			case "D":
				bl, keys = gabi.ProofBuilderList{dBuilder(credA, []int{2}, false, false)}, []*gabikeys.PublicKey{pk0}
			case "U":
				bl, keys = gabi.ProofBuilderList{uBuilder(ctx)}, []*gabikeys.PublicKey{pk1}
			case "Dn":
				bl, keys = gabi.ProofBuilderList{dBuilder(credA, []int{2}, true, false)}, []*gabikeys.PublicKey{pk0}
			case "Dr":
				bl, keys = gabi.ProofBuilderList{dBuilder(credA, []int{2}, false, true)}, []*gabikeys.PublicKey{pk0}
			case "DnrU":
				bl, keys = gabi.ProofBuilderList{dBuilder(credA, []int{2}, true, true), uBuilder(ctx)}, []*gabikeys.PublicKey{pk0, pk1}
			case "DD":
				bl, keys = gabi.ProofBuilderList{dBuilder(credA, []int{2}, false, false), dBuilder(credB, []int{1, 3}, true, false)}, []*gabikeys.PublicKey{pk0, pk1}
			case "D0D": // the first proof discloses attribute 0: sound proofs, but not linkable -> rejected as a list
				bl, keys = gabi.ProofBuilderList{dBuilder(credA, []int{0, 2}, false, false), dBuilder(credB, []int{1, 3}, false, false)}, []*gabikeys.PublicKey{pk0, pk1}
			}
			list, err := bl.BuildProofList(ctx, nonce, false)
			if err != nil {
				hx.Fatal("BuildProofList(%s): %v", name, err)
			}
			ambiguous := false
			for _, p := range list {
				if d, ok := p.(*gabi.ProofD); ok {
					for i, r := range d.AResponses {
						if i != 4 && r.Go().Cmp(small) < 0 {
							ambiguous = true
						}
					}
				}
			}
			if ambiguous {
				continue
			}
			js, err := json.Marshal(list)
			if err != nil {
				hx.Fatal("marshal template: %v", err)
			}
			t := &template{name: name, tree: parseTree(js), keys: keys, context: ctx, nonce: nonce, n2: big.Convert(randBits(rng, 80)), accepts: name != "D0D"}
			if lastCB != nil {
				t.u = lastCB.CreateIssueCommitmentMessage(nil).U
			}
			// an accepting template must verify, in memory and after transport (a panic here is left to the replay of the
			// unmutated document, which reports it; so is the verdict on the unlinkable template)
			if t.accepts {
				verdict := func(l gabi.ProofList) (ok, panicked bool) {
					panicked, _ = hx.Try(func() { ok = l.Verify(keys, ctx, nonce, false, nil) })
					return
				}
				if ok, p := verdict(list); !ok && !p {
					hx.Fatal("template %s does not verify", name)
				}
				var back gabi.ProofList
				if err := json.Unmarshal(t.tree.marshal(), &back); err != nil {
					hx.Fatal("template %s cannot be decoded again: %v", name, err)
				}
				if ok, p := verdict(back); !ok && !p {
					hx.Fatal("template %s does not verify after JSON transport", name)
				}
			}
			out = append(out, t)
			break
		}
	}
	return out
}

// ---------------------------------------------------------------- abstraction of the real templates

// flatten lists every node of a real JSON tree as "path|t|tag" in the vocabulary of Decode.tla.
func flatten(n *node, path []string, last string, out map[string]bool) {
	t, tag := "", ""
	switch n.kind {
	case 'o':
		t = "obj"
	case 'a':
		t = "arr"
	case 'z':
		t = "null"
	case 's':
		t, tag = "v", "big"
		if last == "data" {
			tag = "sig"
		}
	case 'n':
		t, tag = "v", "int"
		if n.raw == "0" {
			tag = "zero"
		} else if last == "a" && n.raw == "4" {
			tag = "four"
		}
	default:
		t = "wrong"
	}
	out[strings.Join(path, "/")+"|"+t+"|"+tag] = true
	for i, k := range n.keys {
		flatten(n.vals[i], append(append([]string(nil), path...), k), k, out)
	}
	for i, e := range n.elems {
		flatten(e, append(append([]string(nil), path...), strconv.Itoa(i)), last, out)
	}
}

type tplRec struct {
	T     string `json:"t"`
	Nodes []struct {
		P   []string `json:"p"`
		T   string   `json:"t"`
		Tag string   `json:"tag"`
	} `json:"nodes"`
	NPatches int `json:"npatches"`
}

func checkTemplates(path string, tpls map[string]*template) {
	seen := 0
	for _, l := range hx.ReadNDJSON(path) {
		var r tplRec
		if err := json.Unmarshal(l, &r); err != nil {
			hx.Fatal("bad template record: %v", err)
		}
		t, ok := tpls[r.T]
		if !ok {
			hx.Fatal("specification has a template %q the harness does not build", r.T)
		}
		want := map[string]bool{}
		for _, n := range r.Nodes {
			want[strings.Join(n.P, "/")+"|"+n.T+"|"+n.Tag] = true
		}
		got := map[string]bool{}
		flatten(t.tree, nil, "", got)
		for k := range want {
			if !got[k] {
				hx.Fatal("template %s: the specification has node %q, the real document does not", r.T, k)
			}
		}
		for k := range got {
			if !want[k] {
				hx.Fatal("template %s: the real document has node %q, the specification does not", r.T, k)
			}
		}
		seen++
	}
	if seen != len(tpls) {
		hx.Fatal("expected %d template records, got %d", len(tpls), seen)
	}
}

// ---------------------------------------------------------------- patches

type patch struct {
	Op  string   `json:"op"`
	P   []string `json:"p"`
	Arg string   `json:"arg"`
	Q   []string `json:"q"`
}

type acase struct {
	T   string  `json:"t"`
	H   []patch `json:"h"`
	N   int     `json:"n"`
	WF  bool    `json:"wf"`
	Dec bool    `json:"dec"`
	Exp string  `json:"exp"`
	WFE []bool  `json:"wfe"`
	Variant int `json:"-"` // which concrete "wrong" value to use (-1: seeded choice)
}

// number of concrete variants every case with a "wrong" patch is run with
const wrongVariants = 12

func lit(s string) *node {
	switch s[0] {
	case '{':
		return &node{kind: 'o'}
	case '[':
		return &node{kind: 'a'}
	case '"':
		return &node{kind: 's', raw: s}
	case 't', 'f':
		return &node{kind: 'b', raw: s}
	case 'n':
		return &node{kind: 'z', raw: s}
	}
	return &node{kind: 'n', raw: s}
}

// slotKind tells, from the position of a node alone, which Go type the decoder has for it:
// 'B' *big.Int, 'Y' []byte, 'U' uint, 'I' int, 'O' struct or map, 'A' slice, '?' a member the decoder ignores.
func slotKind(p []string) byte {
	intMaps := map[string]bool{"a_responses": true, "a_disclosed": true, "m_user_responses": true}
	scalars := map[string]bool{"c": true, "A": true, "e_response": true, "v_response": true, "U": true, "v_prime_response": true, "s_response": true}
	switch len(p) {
	case 0:
		return 'A'
	case 1:
		return 'O'
	case 2:
		switch {
		case scalars[p[1]]:
			return 'B'
		case intMaps[p[1]] || p[1] == "rangeproofs" || p[1] == "nonrev_proof":
			return 'O'
		}
	case 3:
		switch {
		case intMaps[p[1]]:
			return 'B'
		case p[1] == "rangeproofs":
			return 'A'
		case p[1] == "nonrev_proof" && (p[2] == "C_r" || p[2] == "C_u"):
			return 'B'
		case p[1] == "nonrev_proof" && (p[2] == "responses" || p[2] == "sacc"):
			return 'O'
		}
	case 4:
		switch {
		case p[1] == "nonrev_proof" && p[2] == "responses":
			return 'B'
		case p[1] == "nonrev_proof" && p[2] == "sacc" && p[3] == "data":
			return 'Y'
		case p[1] == "nonrev_proof" && p[2] == "sacc" && p[3] == "pk":
			return 'U'
		case p[1] == "rangeproofs":
			return 'O'
		}
	case 5:
		if p[1] == "rangeproofs" {
			switch p[4] {
			case "Cs", "ds", "vs":
				return 'A'
			case "v5", "k":
				return 'B'
			case "l_d", "a":
				return 'U'
			case "sign":
				return 'I'
			}
		}
	case 6:
		if p[1] == "rangeproofs" && (p[4] == "Cs" || p[4] == "ds" || p[4] == "vs") {
			return 'B'
		}
	}
	return '?'
}

// wrongFor picks a JSON value of a type the slot at path p cannot decode (the choice varies with the seed).
func wrongFor(p []string, rng *mrand.Rand, variant int) *node {
	c := []string{`true`}
	switch slotKind(p) {
	case 'B':
		// "!": not base64; 1.5 / -1: not a non-negative integer; strings of padding only, a lone character, broken padding
		c = []string{`true`, `{}`, `[]`, `1.5`, `"!"`, `-1`, `"="`, `"=="`, `"===="`, `"A"`, `"A==="`, `" "`}
	case 'Y':
		c = []string{`true`, `{}`, `1.5`, `"!"`, `7`}
	case 'U':
		c = []string{`true`, `{}`, `[]`, `"x"`, `1.5`, `-1`}
	case 'I':
		c = []string{`true`, `{}`, `[]`, `"x"`, `1.5`}
	case 'O':
		c = []string{`true`, `[]`, `"x"`, `7`}
	case 'A':
		c = []string{`true`, `{}`, `"x"`, `7`}
	}
	if variant >= 0 {
		return lit(c[variant%len(c)])
	}
	return lit(c[rng.Intn(len(c))])
}

func garble(n *node, rng *mrand.Rand) *node {
	var s string
	if n == nil || n.kind != 's' || json.Unmarshal([]byte(n.raw), &s) != nil {
		hx.Fatal("garble: not a string")
	}
	var b []byte
	if err := json.Unmarshal([]byte(n.raw), &b); err != nil || len(b) < 8 {
		hx.Fatal("garble: not base64 data")
	}
	switch rng.Intn(4) {
	case 0:
		b[len(b)/2] ^= 1 // inside the signature or the message
	case 1:
		b[len(b)-1] ^= 0x80
	case 2:
		b = b[:len(b)/2]
	default:
		rng.Read(b)
	}
	out, _ := json.Marshal(b)
	return &node{kind: 's', raw: string(out)}
}

// apply performs one patch on the tree and keeps `keys` (the public key of every list element) aligned.
func apply(root *node, keys *[]*gabikeys.PublicKey, pt patch, rng *mrand.Rand, variant int) error {
	p := pt.P
	cur := root.get(p)
	last := ""
	if len(p) > 0 {
		last = p[len(p)-1]
	}
	elem := len(p) == 1 && root.kind == 'a' // the patch addresses a whole proof of the list
	idx := -1
	if elem {
		idx, _ = strconv.Atoi(p[0])
	}
	switch pt.Op {
	case "del":
		if cur == nil {
			return fmt.Errorf("del: no node at %v", p)
		}
		if err := root.del(p); err != nil {
			return err
		}
		if elem {
			*keys = append((*keys)[:idx:idx], (*keys)[idx+1:]...)
		}
	case "null":
		if cur == nil {
			return fmt.Errorf("null: no node at %v", p)
		}
		return root.set(p, lit("null"))
	case "wrong":
		if cur == nil {
			return fmt.Errorf("wrong: no node at %v", p)
		}
		return root.set(p, wrongFor(p, rng, variant))
	case "empty":
		if cur == nil || (cur.kind != 'o' && cur.kind != 'a') {
			return fmt.Errorf("empty: no container at %v", p)
		}
		if len(p) == 0 && cur.kind == 'a' {
			*keys = nil
		}
		return root.set(p, &node{kind: cur.kind})
	case "trunc":
		k, err := strconv.Atoi(pt.Arg)
		if cur == nil || cur.kind != 'a' || err != nil || k >= len(cur.elems) {
			return fmt.Errorf("trunc: bad target %v %s", p, pt.Arg)
		}
		cur.elems = cur.elems[:k]
		if len(p) == 0 {
			*keys = (*keys)[:k]
		}
	case "dup":
		if cur == nil {
			return fmt.Errorf("dup: no node at %v", p)
		}
		par := root.get(p[:len(p)-1])
		if par.kind == 'a' {
			i, _ := strconv.Atoi(last)
			par.elems = append(par.elems[:i+1], append([]*node{cur.clone()}, par.elems[i+1:]...)...)
			if elem {
				*keys = append((*keys)[:idx+1], append([]*gabikeys.PublicKey{(*keys)[idx]}, (*keys)[idx+1:]...)...)
			}
		} else { // the same member twice, with the same value
			par.keys = append(par.keys, last)
			par.vals = append(par.vals, cur.clone())
		}
	case "rekey", "copykey":
		par := root.get(p[:len(p)-1])
		if cur == nil || par == nil || par.kind != 'o' {
			return fmt.Errorf("%s: no member at %v", pt.Op, p)
		}
		if pt.Op == "copykey" {
			if par.member(pt.Arg) >= 0 {
				return fmt.Errorf("copykey: %s exists in %v", pt.Arg, p)
			}
			par.keys = append(par.keys, pt.Arg)
			par.vals = append(par.vals, cur.clone())
			return nil
		}
		if pt.Arg != last {
			par.removeKey(pt.Arg)
			par.keys[par.member(last)] = pt.Arg
		}
	case "garble":
		return root.set(p, garble(cur, rng))
	case "ctr":
		if cur == nil || cur.kind != 'n' {
			return fmt.Errorf("ctr: no number at %v", p)
		}
		return root.set(p, lit("1"))
	case "swap":
		x, y := root.get(pt.P), root.get(pt.Q)
		switch {
		case x != nil && y != nil:
			xc, yc := x.clone(), y.clone()
			if err := root.set(pt.P, yc); err != nil {
				return err
			}
			if err := root.set(pt.Q, xc); err != nil {
				return err
			}
		case x != nil:
			if err := root.set(pt.Q, x.clone()); err != nil {
				return err
			}
			if err := root.del(pt.P); err != nil {
				return err
			}
		case y != nil:
			if err := root.set(pt.P, y.clone()); err != nil {
				return err
			}
			if err := root.del(pt.Q); err != nil {
				return err
			}
		default:
			return fmt.Errorf("swap: neither %v nor %v exists", pt.P, pt.Q)
		}
		if len(pt.P) == 1 && len(pt.Q) == 1 {
			i, _ := strconv.Atoi(pt.P[0])
			j, _ := strconv.Atoi(pt.Q[0])
			(*keys)[i], (*keys)[j] = (*keys)[j], (*keys)[i]
		}
	default:
		return fmt.Errorf("unknown op %q", pt.Op)
	}
	return nil
}

// ---------------------------------------------------------------- replay

const (
	oDecode = "decode-error"
	oReject = "reject"
	oAccept = "accept"
	oPanic  = "panic"
)

// site reduces a panic message of hx.Try to the innermost frame inside the library.
func site(msg string) string {
	if i := strings.Index(msg, " @ "); i >= 0 {
		msg = msg[i+3:]
	}
	parts := strings.Split(msg, " | ")
	for _, f := range parts {
		if i := strings.Index(f, ".go:"); i >= 0 && !strings.Contains(f, "/harness/") && !strings.Contains(f, "hx.go") {
			j := strings.LastIndex(f[:i], "/")
			e := strings.IndexAny(f[i+4:], " +")
			if e < 0 {
				e = len(f) - i - 4
			}
			return f[j+1 : i+4+e]
		}
	}
	// a tree outside /repo (self-tests on scratch worktrees): hx.Try keeps the function lines only
	for _, f := range parts {
		if i := strings.Index(f, "privacybydesign/gabi"); i >= 0 {
			f = f[i+len("privacybydesign/"):]
			if j := strings.LastIndex(f, "("); j > 0 && strings.HasSuffix(f, ")") {
				f = f[:j]
			}
			return f
		}
	}
	return "?"
}

func run(a *hx.Args, res *hx.Result) {
	if len(a.Rest) < 1 {
		hx.Fatal("usage: dec run --in cases.ndjson templates.ndjson")
	}
	rng := hx.Rng(a.Seed, "dec-templates")
	tpls := map[string]*template{}
	for _, t := range buildTemplates(rng) {
		tpls[t.name] = t
	}
	checkTemplates(a.Rest[0], tpls)
	lines := hx.ReadNDJSON(a.In)
	cases := make([]acase, len(lines))
	for i, l := range lines {
		if err := json.Unmarshal(l, &cases[i]); err != nil {
			hx.Fatal("bad case: %v", err)
		}
		if tpls[cases[i].T] == nil {
			hx.Fatal("case for unknown template %q", cases[i].T)
		}
	}
	// every case with a "wrong" patch is run once per concrete wrong value
	{
		var exp []acase
		var expLines []json.RawMessage
		for i, c := range cases {
			res.Count("input-case")
			hasWrong := false
			for _, pt := range c.H {
				hasWrong = hasWrong || pt.Op == "wrong"
			}
			if !hasWrong {
				c.Variant = -1
				exp, expLines = append(exp, c), append(expLines, lines[i])
				continue
			}
			for v := 0; v < wrongVariants; v++ {
				c2 := c
				c2.Variant = v
				exp, expLines = append(exp, c2), append(expLines, lines[i])
			}
		}
		cases, lines = exp, expLines
	}
	seeds := make([]int64, len(cases))
	for i := range seeds {
		seeds[i] = rng.Int63()
	}
	// keys that are well formed but do not fit the proofs: fewer bases; no revocation part
	alt := map[*gabikeys.PublicKey][2]*gabikeys.PublicKey{}
	for _, kp := range hx.Keys1024() {
		short := *kp.PK
		short.R = short.R[:3]
		norev := *kp.PK
		norev.ECDSA, norev.G, norev.H = nil, nil, nil
		alt[kp.PK] = [2]*gabikeys.PublicKey{&short, &norev}
	}
	hx.Parallel(len(cases), func(i int) {
		replayCase(cases[i], lines[i], tpls[cases[i].T], alt, mrand.New(mrand.NewSource(seeds[i])), res, a.Tier)
	})
	res.Notes["templates"] = len(tpls)
}

func replayCase(c acase, raw json.RawMessage, t *template, alt map[*gabikeys.PublicKey][2]*gabikeys.PublicKey, rng *mrand.Rand, res *hx.Result, tier string) {
	tree := t.tree.clone()
	keys := append([]*gabikeys.PublicKey(nil), t.keys...)
	for _, pt := range c.H {
		if err := apply(tree, &keys, pt, rng, c.Variant); err != nil {
			hx.Fatal("patch %+v of case %s cannot be applied: %v", pt, raw, err)
		}
	}
	doc := tree.marshal()
	key := ""
	if c.N > 0 {
		key = hx.Digest(raw)
	}
	res.Eval(key)
	detail := func(extra hx.M) hx.M {
		d := hx.M{"case": json.RawMessage(raw), "document": string(doc), "template": t.name}
		for k, v := range extra {
			d[k] = v
		}
		return d
	}
	panicV := func(where, msg string) {
		res.Violation("verify-panic", fmt.Sprintf("%s panicked at %s on an untrusted proof list (%s)", where, site(msg), describe(c.H)),
			detail(hx.M{"entry": where, "site": site(msg), "panic": msg}))
	}

	// decode: as a bare ProofList and wrapped in an IssueCommitmentMessage
	decode := func() (gabi.ProofList, error) {
		var pl gabi.ProofList
		err := json.Unmarshal(doc, &pl)
		return pl, err
	}
	var pl gabi.ProofList
	var derr error
	if p, msg := hx.Try(func() { pl, derr = decode() }); p {
		res.Count("outcome:" + oPanic)
		panicV("json.Unmarshal into ProofList", msg)
		return
	}
	ub, _ := json.Marshal(t.u)
	nb, _ := json.Marshal(t.n2)
	wrapped := []byte(`{"U":` + string(ub) + `,"n_2":` + string(nb) + `,"combinedProofs":` + string(doc) + `}`)
	var icm gabi.IssueCommitmentMessage
	var werr error
	if p, msg := hx.Try(func() { werr = json.Unmarshal(wrapped, &icm) }); p {
		res.Count("outcome:" + oPanic)
		panicV("json.Unmarshal into IssueCommitmentMessage", msg)
		return
	}
	if (derr == nil) != (werr == nil) {
		res.Count("info:bare-and-wrapped-decoding-differ")
	}
	if c.Dec != (derr == nil) {
		res.Count(fmt.Sprintf("info:spec-decodes=%v/code-decodes=%v", c.Dec, derr == nil))
		if os.Getenv("VERIF_C08_DEBUG") != "" {
			res.Count("decode-divergence:" + t.name + ": " + describe(c.H) + " :: " + fmt.Sprint(derr))
		}
	}
	if derr != nil {
		res.Count("outcome:" + oDecode)
		res.Count("spec=" + c.Exp + "/code=" + oDecode)
		return
	}

	// ProofList.Verify with the keys, context and nonce of the template (the list of the wrapped message)
	outcome := oReject
	var ok bool
	if p, msg := hx.Try(func() { ok = icm.Proofs.Verify(keys, t.context, t.nonce, false, nil) }); p {
		outcome = oPanic
		panicV("ProofList.Verify", msg)
	} else if ok {
		outcome = oAccept
	}
	res.Count("outcome:" + outcome)
	res.Count("spec=" + c.Exp + "/code=" + outcome)
	if outcome == oAccept && c.N > 0 {
		ops := make([]string, len(c.H))
		for j, pt := range c.H {
			ops[j] = pt.Op
		}
		res.Count("accepted-after:" + strings.Join(ops, "+")) // identity-equivalent mutations
		if os.Getenv("VERIF_C08_DEBUG") != "" {
			res.Count("accepted-doc:" + t.name + ": " + describe(c.H))
		}
	}
	if outcome == oAccept && !c.WF {
		res.Violation("malformed-accepted", "ProofList.Verify accepted a proof list the specification marks malformed ("+describe(c.H)+")",
			detail(hx.M{"entry": "ProofList.Verify"}))
	}
	if c.N == 0 && t.accepts && outcome == oReject {
		hx.Fatal("unmutated template %s: %s", t.name, outcome)
	}
	if outcome == oPanic {
		return
	}

	// the same list once more (verification writes into the proofs), on its own elements, and with unfit arguments
	variant := func(name string, f func(pl gabi.ProofList) bool, mayAccept bool) {
		fresh, err := decode()
		if err != nil {
			hx.Fatal("second decoding failed: %v", err)
		}
		var got bool
		if p, msg := hx.Try(func() { got = f(fresh) }); p {
			res.Count("variant-panic:" + name)
			panicV(name, msg)
			return
		}
		if got && !mayAccept {
			res.Violation("malformed-accepted", name+" accepted ("+describe(c.H)+")", detail(hx.M{"entry": name}))
		}
	}
	if outcome == oAccept {
		// verifying an accepted list again must give the same answer
		variant("ProofList.Verify (second time, same objects)", func(gabi.ProofList) bool {
			return !icm.Proofs.Verify(keys, t.context, t.nonce, false, nil)
		}, false)
	}
	n := len(pl)
	for i := 0; i < n && i < len(keys); i++ {
		i := i
		wfe := i < len(c.WFE) && c.WFE[i]
		variant(fmt.Sprintf("Proof.Verify on element %d", i), func(f gabi.ProofList) bool {
			switch p := f[i].(type) {
			case *gabi.ProofD:
				return p.Verify(keys[i], t.context, t.nonce, false)
			case *gabi.ProofU:
				return p.Verify(keys[i], t.context, t.nonce)
			}
			return false
		}, wfe)
		variant(fmt.Sprintf("Proof.Verify on element %d with a key of 3 bases", i), func(f gabi.ProofList) bool {
			k := alt[keys[i]][0]
			switch p := f[i].(type) {
			case *gabi.ProofD:
				return p.Verify(k, t.context, t.nonce, false)
			case *gabi.ProofU:
				return p.Verify(k, t.context, t.nonce)
			}
			return false
		}, wfe)
	}
	if n > 0 && n == len(keys) {
		variant("ProofList.Verify with too few keys", func(f gabi.ProofList) bool { return f.Verify(keys[:n-1], t.context, t.nonce, false, nil) }, false)
		variant("ProofList.Verify with too many keys", func(f gabi.ProofList) bool {
			return f.Verify(append(keys[:n:n], keys[0]), t.context, t.nonce, false, nil)
		}, false)
		variant("ProofList.Verify with a nil key", func(f gabi.ProofList) bool {
			ks := append([]*gabikeys.PublicKey(nil), keys...)
			ks[rng.Intn(n)] = nil
			return f.Verify(ks, t.context, t.nonce, false, nil)
		}, false)
		variant("ProofList.Verify with too few keyshare servers", func(f gabi.ProofList) bool {
			return f.Verify(keys, t.context, t.nonce, false, make([]string, n+1))
		}, false)
		variant("ProofList.Verify with keys of 3 bases", func(f gabi.ProofList) bool {
			ks := make([]*gabikeys.PublicKey, n)
			for j := range ks {
				ks[j] = alt[keys[j]][0]
			}
			return f.Verify(ks, t.context, t.nonce, false, nil)
		}, c.WF)
		variant("ProofList.Verify with keys without a revocation part", func(f gabi.ProofList) bool {
			ks := make([]*gabikeys.PublicKey, n)
			for j := range ks {
				ks[j] = alt[keys[j]][1]
			}
			return f.Verify(ks, t.context, t.nonce, false, nil)
		}, c.WF)
		variant("ProofList.Verify as a signature session with distinct keyshare servers", func(f gabi.ProofList) bool {
			kss := make([]string, n)
			for j := range kss {
				kss[j] = strconv.Itoa(j)
			}
			return f.Verify(keys, t.context, t.nonce, true, kss)
		}, c.WF)
	}
	if len(c.H) > 0 {
		res.Sample(hx.M{"template": t.name, "patches": c.H, "spec_wellformed": c.WF, "code": outcome})
	}
}

func describe(h []patch) string {
	if len(h) == 0 {
		return "the unmutated template"
	}
	var s []string
	for _, p := range h {
		x := p.Op + " /" + strings.Join(p.P, "/")
		if p.Arg != "" {
			x += " -> " + p.Arg
		}
		if len(p.Q) > 0 {
			x += " <-> /" + strings.Join(p.Q, "/")
		}
		s = append(s, x)
	}
	return strings.Join(s, "; ")
}
