// Command rp binds RangeStmt.tla to the real range-proof code (properties C12 and C13).
//
//	rp tables   --in rows.ndjson    C12 (i): the complete (descriptor, query) -> Proves and descriptor -> Proven tables
//	                                emitted by TLC, replayed on rangeproof.Proof.ProvesStatement / ProvenStatement /
//	                                ExtractStructure and judged by the integer semantics on every m of the box
//	rp attach   --in cases.ndjson   C12 (ii): attachment cases of RangeStmt.tla part (b), materialised on real
//	                                credentials and real ProofDs; verdict must equal the specification's
//	rp complete --n N               C13: volume run: true statements must be provable, verify and be reported proven;
//	                                false ones must fail with an error; splitters against sum of squares = n
//
// Word-size substitution.  The specification models machine words at the toy size W.  A toy word value x is
// replayed as  h*2^62 + l  where x = h*2^(W-2) + l with |l| <= 2^(W-3)  (values up to 2^(W-3) are themselves);
// RangeStmt.tla explains why both behave alike on the box.
package main

import (
	"encoding/json"
	"fmt"
	gobig "math/big"
	"os"
	"sort"
	"sync"

	"verifharness/hx"

	"github.com/privacybydesign/gabi"
	"github.com/privacybydesign/gabi/big"
	"github.com/privacybydesign/gabi/gabikeys"
	"github.com/privacybydesign/gabi/rangeproof"
	"github.com/privacybydesign/gabi/verifx"
)

func main() {
	if len(os.Args) < 2 {
		hx.Fatal("usage: rp tables|attach|complete ...")
	}
	cmd := os.Args[1]
	os.Args = append(os.Args[:1], os.Args[2:]...)
	a := hx.ParseArgs()
	res := hx.NewResult()
	switch cmd {
	case "tables":
		tables(a, res)
	case "attach":
		attach(a, res)
	case "complete":
		complete(a, res)
	case "fsforge":
		fsforge(a, res)
	default:
		hx.Fatal("unknown subcommand %s", cmd)
	}
	res.Write(a.Out)
}

// ---------------------------------------------------------------- integer semantics (math/big only)

func bi(x int64) *gobig.Int { return gobig.NewInt(x) }

// holds: sign*(factor*m - bound) >= 0 over the integers
func holds(sign int, factor uint64, bound, m *gobig.Int) bool {
	t := new(gobig.Int).Mul(new(gobig.Int).SetUint64(factor), m)
	t.Sub(t, bound)
	t.Mul(t, bi(int64(sign)))
	return t.Sign() >= 0
}

func typSign(t rangeproof.StatementType) int {
	if t == rangeproof.LesserOrEqual {
		return -1
	}
	return 1
}

// phi maps a toy word value to the 64-bit value it stands for; q = 2^(W-2) (or 2^(W-4) with e = 60 for shifted values).
func phi(x, q int, e uint) uint64 {
	if x <= q/2 {
		return uint64(x)
	}
	h := (x + q/2) / q
	l := x - h*q
	return uint64(h)<<e + uint64(int64(l))
}

// ---------------------------------------------------------------- tables

type desc struct {
	Sign, A, K, N, Ld int
}

func (d *desc) UnmarshalJSON(b []byte) error {
	var r struct {
		Sign, A, K, Ld int
		N              int `json:"n"`
	}
	if err := json.Unmarshal(b, &r); err != nil {
		return err
	}
	*d = desc{r.Sign, r.A, r.K, r.N, r.Ld}
	return nil
}

type stmt struct {
	Sign   int `json:"sign"`
	Factor int `json:"factor"`
	Bound  int `json:"bound"`
	N      int `json:"n"`
}

type row struct {
	D   desc  `json:"d"`
	Ok  bool  `json:"ok"`
	Est []int `json:"est"`
	Pv  stmt  `json:"pv"`
	T   []struct {
		S int   `json:"s"`
		F int   `json:"f"`
		B []int `json:"b"`
	} `json:"t"`
}

type box struct {
	MMax, KOff, KMax, AMax, W int
	Qsigns                    []int `json:"qsigns"`
	Qfactors                  []int `json:"qfactors"`
}

func realProof(d desc, q int) *rangeproof.Proof {
	p := &rangeproof.Proof{Sign: d.Sign, A: uint(phi(d.A, q, 62)), K: big.NewInt(int64(d.K)), Ld: 128}
	for i := 0; i < d.N; i++ {
		p.Cs = append(p.Cs, big.NewInt(1))
		p.DResponses = append(p.DResponses, big.NewInt(1))
		p.VResponses = append(p.VResponses, big.NewInt(1))
	}
	p.V5Response = big.NewInt(1)
	return p
}

func tables(a *hx.Args, res *hx.Result) {
	lines := hx.ReadNDJSON(a.In)
	if len(lines) < 2 {
		hx.Fatal("tables: no rows")
	}
	var bx box
	if err := json.Unmarshal(lines[0], &bx); err != nil || bx.W == 0 {
		hx.Fatal("tables: first line must be the BOX record: %v", err)
	}
	if uint64(^uint(0)) != ^uint64(0) {
		hx.Fatal("tables: the substitution assumes a 64-bit uint")
	}
	q := 1 << (bx.W - 2)
	pk := hx.Keys1024()[0].PK
	rows := lines[1:]
	var mu sync.Mutex
	div := map[string]int{}
	var comparisons int64
	hx.Parallel(len(rows), func(i int) {
		var r row
		if err := json.Unmarshal(rows[i], &r); err != nil {
			hx.Fatal("row %d: %v", i, err)
		}
		p := realProof(r.D, q)
		detail := hx.M{"case": json.RawMessage(rows[i]), "box": json.RawMessage(lines[0]), "real_A": fmt.Sprint(p.A)}
		var okReal bool
		if pan, msg := hx.Try(func() {
			_, err := p.ExtractStructure(1, pk)
			okReal = err == nil
		}); pan {
			res.Violation("panic", "ExtractStructure panics: "+msg, detail)
			return
		}
		local := map[string]int{}
		if okReal != r.Ok {
			local["extract"]++
		}
		if okReal && r.D.Sign != 1 && r.D.Sign != -1 {
			res.Violation("bad-sign-accepted", fmt.Sprintf("ExtractStructure accepts a descriptor with sign %d", r.D.Sign), detail)
		}
		est := make([]*gobig.Int, len(r.Est))
		for k, m := range r.Est {
			est[k] = bi(int64(m))
		}
		// Proven
		var typ rangeproof.StatementType
		var pf uint
		var pb *big.Int
		if pan, msg := hx.Try(func() { typ, pf, pb = p.ProvenStatement() }); pan {
			res.Violation("panic", "ProvenStatement panics: "+msg, detail)
			return
		}
		wantF := phi(r.Pv.Factor, q, 62)
		if r.D.N == 3 {
			wantF = phi(r.Pv.Factor, q/4, 60)
		}
		if typSign(typ) != r.Pv.Sign || uint64(pf) != wantF || pb.Go().Cmp(bi(int64(r.Pv.Bound))) != 0 {
			local["proven"]++
		}
		if okReal {
			for _, m := range est {
				if !holds(typSign(typ), uint64(pf), pb.Go(), m) {
					res.Violation("proven-false-statement", fmt.Sprintf(
						"descriptor {Sign %d, A %d, K %d, %d squares} passes ExtractStructure and its own statement holds for m = %v, but ProvenStatement() = (%d, %d, %v) is false for that m",
						r.D.Sign, p.A, r.D.K, r.D.N, m, typSign(typ), pf, pb), detail)
					break
				}
			}
		}
		// Proves
		want := map[[3]int]bool{}
		for _, t := range r.T {
			for _, b := range t.B {
				want[[3]int{t.S, t.F, b}] = true
			}
		}
		n := 0
		bad := false
		for _, s := range bx.Qsigns {
			for _, f := range bx.Qfactors {
				rf := phi(f, q, 62)
				for b := -bx.KOff; b <= bx.KMax; b++ {
					n++
					var got bool
					if pan, msg := hx.Try(func() { got = p.ProvesStatement(s, uint(rf), big.NewInt(int64(b))) }); pan {
						res.Violation("panic", "ProvesStatement panics: "+msg, detail)
						return
					}
					if got != want[[3]int{s, f, b}] {
						if got {
							local["proves-more"]++
						} else {
							local["proves-less"]++
						}
					}
					if got && okReal && !bad {
						for _, m := range est {
							if !holds(s, rf, bi(int64(b)), m) {
								bad = true
								res.Violation("proves-false-statement", fmt.Sprintf(
									"descriptor {Sign %d, A %d, K %d, %d squares} passes ExtractStructure and its own statement holds for m = %v, but ProvesStatement(%d, %d, %d) = true although %d*(%d*%v - %d) < 0",
									r.D.Sign, p.A, r.D.K, r.D.N, m, s, rf, b, s, rf, m, b), detail)
								break
							}
						}
					}
				}
			}
		}
		key := ""
		if r.Ok {
			key = fmt.Sprintf("%d/%d/%d/%d", r.D.Sign, r.D.A, r.D.K, r.D.N)
		}
		res.Eval(key)
		mu.Lock()
		comparisons += int64(n) + 2
		for k, v := range local {
			div[k] += v
		}
		mu.Unlock()
		if i%2000 == 0 {
			res.Sample(hx.M{"descriptor": r.D, "extract_ok": okReal, "proven": []any{typSign(typ), pf, pb.String()}, "queries": n})
		}
	})
	res.Notes["comparisons"] = comparisons
	res.Notes["rows"] = len(rows)
	total := 0
	for k, v := range div {
		res.Notes["divergence_"+k] = v
		total += v
	}
	res.Notes["divergences"] = total
}

// ---------------------------------------------------------------- real credentials

type world struct {
	kp      hx.KeyPair
	context *big.Int
	secret  *big.Int
	mu      sync.Mutex
	creds   map[string]*gabi.Credential
}

func newWorld(kp hx.KeyPair) *world {
	w := &world{kp: kp, creds: map[string]*gabi.Credential{}}
	var err error
	if w.context, err = verifx.RandomBigInt(kp.PK.Params.Lh); err != nil {
		hx.Fatal("rand: %v", err)
	}
	if w.secret, err = verifx.RandomBigInt(kp.PK.Params.Lm - 1); err != nil {
		hx.Fatal("rand: %v", err)
	}
	return w
}

func (w *world) nonce() *big.Int {
	n, err := verifx.RandomBigInt(w.kp.PK.Params.Lstatzk)
	if err != nil {
		hx.Fatal("rand: %v", err)
	}
	return n
}

// issue runs the real issuance protocol (as gabi_test.go's createCredential does) for the attribute list.
func (w *world) issue(attrs []*big.Int) *gabi.Credential {
	nonce1, nonce2 := w.nonce(), w.nonce()
	cb, err := gabi.NewCredentialBuilder(w.kp.PK, w.context, w.secret, nonce2, nil, nil)
	if err != nil {
		hx.Fatal("NewCredentialBuilder: %v", err)
	}
	cm, err := cb.CommitToSecretAndProve(nonce1)
	if err != nil {
		hx.Fatal("CommitToSecretAndProve: %v", err)
	}
	ism, err := gabi.NewIssuer(w.kp.SK, w.kp.PK, w.context).IssueSignature(cm.U, attrs, nil, nonce2, nil)
	if err != nil {
		hx.Fatal("IssueSignature: %v", err)
	}
	cred, err := cb.ConstructCredential(ism, attrs)
	if err != nil {
		hx.Fatal("ConstructCredential: %v", err)
	}
	return cred
}

func (w *world) cred(vals []int) *gabi.Credential {
	key := fmt.Sprint(vals)
	w.mu.Lock()
	c := w.creds[key]
	w.mu.Unlock()
	if c != nil {
		return c
	}
	attrs := make([]*big.Int, len(vals))
	for i, v := range vals {
		attrs[i] = big.NewInt(int64(v))
	}
	c = w.issue(attrs)
	w.mu.Lock()
	w.creds[key] = c
	w.mu.Unlock()
	return c
}

var table65535 = sync.OnceValue(func() *rangeproof.SquaresTable { return rangeproof.GenerateSquaresTable(65535) })

func (s stmt) real() *rangeproof.Statement {
	r := &rangeproof.Statement{Sign: s.Sign, Factor: uint(s.Factor), Bound: big.NewInt(int64(s.Bound))}
	if s.N == 3 {
		r.Splitter = table65535()
	}
	return r
}

// ---------------------------------------------------------------- attach

type alt struct {
	F string `json:"f"`
	V int    `json:"v"`
}
type entry struct {
	At  int    `json:"at"`
	Src string `json:"src"`
	Alt alt    `json:"alt"`
}
type acase struct {
	Op     string  `json:"op"`
	L      int     `json:"L"`
	Hidden []int   `json:"hidden"`
	T      int     `json:"t"`
	U      int     `json:"u"`
	M      int     `json:"m"`
	M2     int     `json:"m2"`
	Vals1  []int   `json:"vals1"`
	Vals2  []int   `json:"vals2"`
	S      stmt    `json:"S"`
	S2     stmt    `json:"S2"`
	S1b    stmt    `json:"S1b"`
	Two    int     `json:"two"`
	Host   string  `json:"host"`
	Re     int     `json:"re"`
	Cs     []entry `json:"cs"`
	Cs2    []entry `json:"cs2"`
	W      int     `json:"W"`
	LmT    int     `json:"LmT"`
	Expect string  `json:"expect"`
}

func cpInt(x *big.Int) *big.Int {
	if x == nil {
		return nil
	}
	return new(big.Int).Set(x)
}
func cpInts(l []*big.Int) []*big.Int {
	if l == nil {
		return nil
	}
	r := make([]*big.Int, len(l))
	for i, x := range l {
		r[i] = cpInt(x)
	}
	return r
}
func cpRP(p *rangeproof.Proof) *rangeproof.Proof {
	return &rangeproof.Proof{Cs: cpInts(p.Cs), DResponses: cpInts(p.DResponses), VResponses: cpInts(p.VResponses),
		V5Response: cpInt(p.V5Response), MResponse: cpInt(p.MResponse), Ld: p.Ld, Sign: p.Sign, A: p.A, K: cpInt(p.K)}
}

// cpPD copies a ProofD without its range proofs and without the verifier's memo of extracted structures.
func cpPD(p *gabi.ProofD) *gabi.ProofD {
	r := &gabi.ProofD{C: cpInt(p.C), A: cpInt(p.A), EResponse: cpInt(p.EResponse), VResponse: cpInt(p.VResponse),
		AResponses: map[int]*big.Int{}, ADisclosed: map[int]*big.Int{}}
	for k, v := range p.AResponses {
		r.AResponses[k] = cpInt(v)
	}
	for k, v := range p.ADisclosed {
		r.ADisclosed[k] = cpInt(v)
	}
	return r
}

// cpFull copies a ProofD with its range proofs (fresh object for a second in-memory verification).
func cpFull(p *gabi.ProofD) *gabi.ProofD {
	r := cpPD(p)
	for k, l := range p.RangeProofs {
		if r.RangeProofs == nil {
			r.RangeProofs = map[int][]*rangeproof.Proof{}
		}
		for _, x := range l {
			r.RangeProofs[k] = append(r.RangeProofs[k], cpRP(x))
		}
	}
	return r
}

// viaJSON sends a ProofD through JSON; nil when it cannot travel (gabi's big.Int refuses to marshal negative
// numbers, so a range proof with a negative K exists in memory only).
func viaJSON(p *gabi.ProofD) *gabi.ProofD {
	b, err := json.Marshal(p)
	if err != nil {
		return nil
	}
	r := &gabi.ProofD{}
	if err := json.Unmarshal(b, r); err != nil {
		return nil
	}
	return r
}

func disclosedOf(hidden []int) []int {
	h := map[int]bool{}
	for _, i := range hidden {
		h[i] = true
	}
	var d []int
	for i := 1; i <= 3; i++ {
		if !h[i] {
			d = append(d, i)
		}
	}
	return d
}

// forger is a cheating prover: an honest disclosure proof builder whose challenge additionally covers the
// commitments of a range proof built for a value (fake) of the prover's choice with a randomiser of its own.
type forger struct {
	*gabi.DisclosureProofBuilder
	idx    int
	st     *rangeproof.ProofStructure
	fake   *big.Int
	commit *rangeproof.ProofCommit
	zero   *big.Int // non-nil: the commitments C_i of the range proof are this representative of 0 mod n, and zeros are hashed
	nsq    int      // number of squares of the statement
}

func (f *forger) Commit(r map[string]*big.Int) ([]*big.Int, error) {
	l, err := f.DisclosureProofBuilder.Commit(r)
	if err != nil {
		return nil, err
	}
	pk := f.PublicKey()
	mr, err := verifx.RandomBigInt(pk.Params.LmCommit)
	if err != nil {
		return nil, err
	}
	contrib, commit, err := f.st.CommitmentsFromSecrets(pk, f.fake, mr)
	if err != nil {
		return nil, err
	}
	f.commit = commit
	if f.zero != nil {
		// every commitment the verifier reconstructs from a range proof with C_i = 0 mod n is 0; if the challenge also covers the
		// C_i themselves (2n+1 contributions instead of n+1), they are hashed as they are sent
		nsq := (len(contrib) - 1) / 2
		for i := range contrib {
			if len(contrib) > f.nsq+1 && i < nsq {
				l = append(l, new(big.Int).Set(f.zero))
			} else {
				l = append(l, big.NewInt(0))
			}
		}
		return l, nil
	}
	return append(l, contrib...), nil
}

func (f *forger) CreateProof(c *big.Int) gabi.Proof {
	pd := f.DisclosureProofBuilder.CreateProof(c).(*gabi.ProofD)
	rp := f.st.BuildProof(f.commit, c)
	if f.zero != nil {
		for i := range rp.Cs {
			rp.Cs[i] = new(big.Int).Set(f.zero)
		}
	}
	pd.RangeProofs = map[int][]*rangeproof.Proof{f.idx: {rp}}
	return pd
}

func applyAlt(p *rangeproof.Proof, a alt, q, lmT int, lm uint) {
	one := big.NewInt(1)
	huge := new(big.Int).Lsh(one, 3000)
	switch a.F {
	case "none":
	case "Cs":
		p.Cs[a.V].Add(p.Cs[a.V], one)
	case "ds":
		p.DResponses[a.V].Add(p.DResponses[a.V], one)
	case "vs":
		p.VResponses[a.V].Add(p.VResponses[a.V], one)
	case "v5":
		p.V5Response.Add(p.V5Response, one)
	case "Knil":
		p.K = nil
	case "K":
		p.K.Add(p.K, big.NewInt(int64(a.V)))
	case "Khuge": // BitLen = Lm + IntSize + 1: one more than ExtractStructure tolerates
		p.K = new(big.Int).Lsh(one, lm+64)
		if a.V < 0 {
			p.K.Neg(p.K)
		}
	case "Klim": // the largest size ExtractStructure tolerates
		p.K = new(big.Int).Lsh(one, lm+64)
		p.K.Sub(p.K, one)
		if a.V < 0 {
			p.K.Neg(p.K)
		}
	case "A":
		p.A = uint(phi(a.V, q, 62))
	case "Sign":
		p.Sign = a.V
	case "Ld":
		switch {
		case a.V == 0:
			p.Ld = 0
		case a.V <= lmT:
			p.Ld = lm
		default:
			p.Ld = lm + 1
		}
	case "big":
		switch a.V {
		case 0:
			p.V5Response = huge
		case 1:
			p.DResponses[0] = huge
		default:
			p.VResponses[0] = huge
		}
	case "nC":
		p.Cs = p.Cs[:len(p.Cs)-1]
	case "nAll":
		if len(p.Cs) == 4 {
			p.Cs, p.DResponses, p.VResponses = p.Cs[:3], p.DResponses[:3], p.VResponses[:3]
		} else {
			p.Cs = append(p.Cs, cpInt(p.Cs[2]))
			p.DResponses = append(p.DResponses, cpInt(p.DResponses[2]))
			p.VResponses = append(p.VResponses, cpInt(p.VResponses[2]))
		}
	default:
		hx.Fatal("unknown alteration %q", a.F)
	}
}

type group struct {
	key   string
	cases []int
}

func attach(a *hx.Args, res *hx.Result) {
	lines := hx.ReadNDJSON(a.In)
	cases := make([]acase, len(lines))
	byKey := map[string]*group{}
	var groups []*group
	for i, l := range lines {
		if err := json.Unmarshal(l, &cases[i]); err != nil {
			hx.Fatal("case %d: %v", i, err)
		}
		c := &cases[i]
		k := fmt.Sprint(c.L, c.M, c.S, c.Two)
		g := byKey[k]
		if g == nil {
			g = &group{key: k}
			byKey[k] = g
			groups = append(groups, g)
		}
		g.cases = append(g.cases, i)
	}
	sort.Slice(groups, func(i, j int) bool { return len(groups[i].cases) > len(groups[j].cases) })
	w := newWorld(hx.Keys1024()[0])
	hx.Parallel(len(groups), func(gi int) {
		g := groups[gi]
		c0 := cases[g.cases[0]]
		cred1 := w.cred(c0.Vals1)
		disclosed := disclosedOf(c0.Hidden)
		stmts := map[int][]*rangeproof.Statement{c0.T: {c0.S.real()}}
		switch c0.Two {
		case 1:
			stmts[c0.T] = append(stmts[c0.T], c0.S1b.real())
		case 2:
			stmts[c0.U] = []*rangeproof.Statement{c0.S1b.real()}
		}
		nonce1 := w.nonce()
		var pd1 *gabi.ProofD
		var err error
		if pan, msg := hx.Try(func() { pd1, err = cred1.CreateDisclosureProof(disclosed, stmts, false, w.context, nonce1) }); pan {
			res.Violation("panic", "CreateDisclosureProof panics: "+msg, hx.M{"case": lines[g.cases[0]]})
			return
		}
		if err != nil {
			// a true statement that cannot be proven is C13's business; here the group cannot be attacked
			res.Count("group-unprovable")
			for range g.cases {
				res.Count("case-skipped-unprovable")
			}
			return
		}
		memo := map[string]*auxProofs{}
		for _, ci := range g.cases {
			runAttach(w, res, &cases[ci], lines[ci], cred1, pd1, nonce1, disclosed, memo)
		}
	})
	edges(w, res, false)
}

// auxProofs: honest or forged material next to the proof of credential 1, shared by the cases of one group
type auxProofs struct {
	h1, h2 *gabi.ProofD
	nonce  *big.Int
	failed bool
}

// source range proofs of one case
type sources struct {
	r1, r1b, r2, rf, rz *rangeproof.Proof
}

func runAttach(w *world, res *hx.Result, c *acase, raw json.RawMessage, cred1 *gabi.Credential, pd1 *gabi.ProofD, nonce1 *big.Int, disclosed []int, memo map[string]*auxProofs) {
	pk := w.kp.PK
	q := 1 << (c.W - 2)
	detail := hx.M{"case": raw}
	var src sources
	src.r1 = pd1.RangeProofs[c.T][0]
	switch c.Two {
	case 1:
		src.r1b = pd1.RangeProofs[c.T][1]
	case 2:
		src.r1b = pd1.RangeProofs[c.U][0]
	}
	needs2 := c.Host == "pd2" || c.Host == "bare2" || c.Host == "list"
	for _, e := range append(append([]entry{}, c.Cs...), c.Cs2...) {
		if e.Src == "R2" {
			needs2 = true
		}
	}
	nonce := nonce1
	host1 := pd1 // proof of credential 1 the adversary starts from
	var host2 *gabi.ProofD
	// auxiliary honest material is made once per (group, m2, S2) and only ever copied afterwards
	forging := c.Host == "forge" || c.Host == "forgez"
	zat := c.T
	if c.Host == "forgez" {
		zat = c.Cs[0].At // the index the zero-commitment range proof is made for
	}
	mk := fmt.Sprint(c.Host == "list", c.Host, zat, c.Host == "bare2", c.M2, c.S2)
	aux, have := memo[mk]
	if !have && (needs2 || forging) {
		aux = &auxProofs{nonce: nonce1}
		memo[mk] = aux
		var err error
		switch {
		case c.Host == "list":
			// both proofs are made together: one challenge
			cred2 := w.cred(c.Vals2)
			b1, e1 := cred1.CreateDisclosureProofBuilder(disclosed, map[int][]*rangeproof.Statement{c.T: {c.S.real()}}, false)
			b2, e2 := cred2.CreateDisclosureProofBuilder(disclosed, map[int][]*rangeproof.Statement{c.T: {c.S2.real()}}, false)
			if e1 != nil || e2 != nil {
				aux.failed = true
				break
			}
			aux.nonce = w.nonce()
			var pl gabi.ProofList
			if pan, msg := hx.Try(func() { pl, err = gabi.ProofBuilderList{b1, b2}.BuildProofList(w.context, aux.nonce, false) }); pan {
				res.Violation("panic", "BuildProofList panics: "+msg, detail)
				aux.failed = true
				break
			}
			if err != nil {
				aux.failed = true
				break
			}
			aux.h1, aux.h2 = pl[0].(*gabi.ProofD), pl[1].(*gabi.ProofD)
		case forging:
			inner, e1 := cred1.CreateDisclosureProofBuilder(disclosed, nil, false)
			st, e2 := c.S2.real().ProofStructure(zat)
			if e1 != nil || e2 != nil {
				aux.failed = true
				break
			}
			f := &forger{DisclosureProofBuilder: inner, idx: zat, st: st, fake: big.NewInt(int64(c.M2)), nsq: c.S2.N}
			if c.Host == "forgez" {
				// representatives of 0 mod n: 0, n, -n, 2n
				f.zero = []*big.Int{big.NewInt(0), pk.N, new(big.Int).Neg(pk.N), new(big.Int).Lsh(pk.N, 1)}[(c.M2+zat+c.S2.N)%4]
			}
			aux.nonce = w.nonce()
			var pl gabi.ProofList
			if pan, msg := hx.Try(func() { pl, err = gabi.ProofBuilderList{f}.BuildProofList(w.context, aux.nonce, false) }); pan {
				res.Violation("panic", "forging prover panics: "+msg, detail)
				aux.failed = true
				break
			}
			if err != nil {
				hx.Fatal("forging prover failed although its statement holds for its fake value: %v (%s)", err, raw)
			}
			aux.h1 = pl[0].(*gabi.ProofD)
		default:
			// same session as the proof of credential 1: the strongest position for a transplant
			cred2 := w.cred(c.Vals2)
			var st2 map[int][]*rangeproof.Statement
			if c.Host != "bare2" {
				st2 = map[int][]*rangeproof.Statement{c.T: {c.S2.real()}}
			}
			if pan, msg := hx.Try(func() { aux.h2, err = cred2.CreateDisclosureProof(disclosed, st2, false, w.context, nonce1) }); pan {
				res.Violation("panic", "CreateDisclosureProof panics: "+msg, detail)
				aux.failed = true
				break
			}
			if err != nil {
				aux.failed = true
			}
		}
	}
	if aux != nil {
		if aux.failed {
			res.Count("case-skipped-unprovable")
			return
		}
		nonce = aux.nonce
		switch {
		case c.Host == "list":
			host1, host2 = aux.h1, aux.h2
			src.r1, src.r2 = host1.RangeProofs[c.T][0], host2.RangeProofs[c.T][0]
		case forging:
			host1 = aux.h1
			src.rf = host1.RangeProofs[zat][0]
			src.rz = src.rf
		default:
			host2 = aux.h2
			if l := host2.RangeProofs[c.T]; len(l) > 0 {
				src.r2 = l[0]
			}
		}
	}
	build := func(base *gabi.ProofD, cs []entry) *gabi.ProofD {
		p := cpPD(base)
		for _, e := range cs {
			var s *rangeproof.Proof
			switch e.Src {
			case "R1":
				s = src.r1
			case "R1b":
				s = src.r1b
			case "R2":
				s = src.r2
			case "RF":
				s = src.rf
			case "RZ":
				s = src.rz
			}
			if s == nil {
				hx.Fatal("case needs source %s which does not exist: %s", e.Src, raw)
			}
			r := cpRP(s)
			applyAlt(r, e.Alt, q, c.LmT, pk.Params.Lm)
			if p.RangeProofs == nil {
				p.RangeProofs = map[int][]*rangeproof.Proof{}
			}
			p.RangeProofs[e.At] = append(p.RangeProofs[e.At], r)
		}
		return p
	}
	type subject struct {
		pd   *gabi.ProofD
		vals []int
	}
	var subs []subject
	switch c.Host {
	case "pd1", "forge", "forgez":
		subs = []subject{{build(host1, c.Cs), c.Vals1}}
	case "pd2", "bare2":
		subs = []subject{{build(host2, c.Cs), c.Vals2}}
	case "list":
		subs = []subject{{build(host1, c.Cs), c.Vals1}, {build(host2, c.Cs2), c.Vals2}}
	default:
		hx.Fatal("unknown host %q", c.Host)
	}
	// ---- run the real verifier: in memory and after JSON transport, as single proof and as list
	accepted := []string{}
	panicked := ""
	nruns := 0
	var seen []subject // what accepting verifiers saw, for the semantic check
	run := func(label string, objs []subject, f func() bool) {
		var ok bool
		nruns++
		if pan, msg := hx.Try(func() { ok = f() }); pan {
			panicked = label + ": " + msg
		} else if ok {
			accepted = append(accepted, label)
			seen = append(seen, objs...)
		}
	}
	if len(subs) == 1 && c.Re != 0 {
		// the verifier's ProofD object has verified the honest proof before; then the manipulated proof arrives in the
		// same object: altered in place (re = 1) or decoded from JSON into the same variable (re = 2)
		manip := subs[0].pd
		prep := func() *gabi.ProofD {
			obj := cpFull(host1)
			if !obj.Verify(pk, w.context, nonce, false) {
				res.Violation("honest-rejected", "honest proof does not verify (before "+c.Op+")", detail)
			}
			var bts []byte
			var err error
			if c.Re == 2 {
				bts, err = json.Marshal(manip)
			}
			if c.Re == 2 && err == nil {
				if err := json.Unmarshal(bts, obj); err != nil {
					hx.Fatal("decode into the used object: %v", err)
				}
			} else {
				m := cpFull(manip)
				obj.RangeProofs = m.RangeProofs
			}
			return obj
		}
		o1, o2 := prep(), prep()
		run("ProofD.Verify(reused object)", []subject{{o1, subs[0].vals}}, func() bool { return o1.Verify(pk, w.context, nonce, false) })
		run("ProofList.Verify(reused object)", []subject{{o2, subs[0].vals}}, func() bool {
			return gabi.ProofList{o2}.Verify([]*gabikeys.PublicKey{pk}, w.context, nonce, false, nil)
		})
	} else if len(subs) == 1 {
		mem := subs[0].pd
		jp := viaJSON(mem)
		run("ProofD.Verify", subs, func() bool { return mem.Verify(pk, w.context, nonce, false) })
		if jp != nil {
			run("ProofList.Verify(json)", []subject{{jp, subs[0].vals}}, func() bool {
				return gabi.ProofList{jp}.Verify([]*gabikeys.PublicKey{pk}, w.context, nonce, false, nil)
			})
		}
	} else {
		j1, j2 := viaJSON(subs[0].pd), viaJSON(subs[1].pd)
		run("ProofList.Verify", subs, func() bool {
			return gabi.ProofList{subs[0].pd, subs[1].pd}.Verify([]*gabikeys.PublicKey{pk, pk}, w.context, nonce, false, nil)
		})
		if j1 != nil && j2 != nil {
			run("ProofList.Verify(json)", []subject{{j1, c.Vals1}, {j2, c.Vals2}}, func() bool {
				return gabi.ProofList{j1, j2}.Verify([]*gabikeys.PublicKey{pk, pk}, w.context, nonce, false, nil)
			})
		}
	}
	nt := ""
	if c.Expect != "accept" || (c.Op != "honest" && c.Op != "honest2" && c.Op != "list-honest" && c.Op != "reverify-honest") {
		nt = string(raw)
	}
	res.Eval(nt)
	res.Count("op:" + c.Op)
	res.Count("expect:" + c.Expect)
	what := fmt.Sprintf("%s on layout hidden=%v target=%d, m=%d, statement %+v", c.Op, c.Hidden, c.T, c.M, c.S)
	if panicked != "" {
		res.Violation("panic", "verification panics ("+what+"): "+panicked, detail)
		return
	}
	switch {
	case c.Expect == "accept" && len(accepted) != nruns:
		res.Violation("honest-rejected", fmt.Sprintf("the specification accepts but the code rejects (%s); accepted by %v", what, accepted), detail)
	case c.Expect != "accept" && len(accepted) > 0:
		res.Violation("accepted-manipulated", fmt.Sprintf("accepted by %v although the specification rejects: %s, carried %+v %+v", accepted, what, c.Cs, c.Cs2), detail)
	}
	if len(accepted) > 0 {
		hidden := map[int]bool{}
		for _, i := range c.Hidden {
			hidden[i] = true
		}
		for _, f := range seen {
			semantic(res, f.pd, f.vals, hidden, w.secret, what, detail)
		}
	}
	if len(res.Samples) < 5 && c.Expect == "reject" {
		res.Sample(hx.M{"op": c.Op, "hidden": c.Hidden, "m": c.M, "statement": c.S, "carried": c.Cs, "expect": c.Expect, "accepted_by": accepted})
	}
}

// semantic: what an accepted ProofD says through its range proofs must be true of the signed values.
func semantic(res *hx.Result, pd *gabi.ProofD, vals []int, hidden map[int]bool, secret *big.Int, what string, detail hx.M) {
	for idx, l := range pd.RangeProofs {
		for _, rp := range l {
			if !hidden[idx] || idx < 0 || idx > len(vals) {
				res.Violation("untied-accepted", fmt.Sprintf("accepted ProofD carries a range proof at index %d which is not a hidden attribute of the credential (%s)", idx, what), detail)
				continue
			}
			var v *gobig.Int
			if idx == 0 {
				v = secret.Go()
			} else {
				v = bi(int64(vals[idx-1]))
			}
			if rp == nil || rp.K == nil {
				res.Violation("untied-accepted", "accepted ProofD carries an empty range proof ("+what+")", detail)
				continue
			}
			typ, f, b := rp.ProvenStatement()
			if !holds(typSign(typ), uint64(f), b.Go(), v) {
				res.Violation("false-statement-accepted", fmt.Sprintf(
					"accepted ProofD: range proof at index %d reports %d*(%d*m - %v) >= 0 but the signed value is %v (%s)", idx, typSign(typ), f, b, v, what), detail)
			}
			for _, s := range []int{1, -1} {
				for ff := uint64(1); ff <= 3; ff++ {
					base := new(gobig.Int).Mul(v, new(gobig.Int).SetUint64(ff))
					for dlt := int64(-3); dlt <= 3; dlt++ {
						qb := new(gobig.Int).Add(base, bi(dlt))
						if rp.ProvesStatement(s, uint(ff), big.Convert(qb)) && !holds(s, ff, qb, v) {
							res.Violation("false-statement-accepted", fmt.Sprintf(
								"accepted ProofD: range proof at index %d answers ProvesStatement(%d, %d, %v) = true but the signed value is %v (%s)", idx, s, ff, qb, v, what), detail)
						}
					}
				}
			}
		}
	}
}

// ---------------------------------------------------------------- edge descriptors at creation (C12 and C13)

func edges(w *world, res *hx.Result, completeness bool) {
	pk := w.kp.PK
	type ed struct {
		sign   int
		factor uint64
	}
	var list []ed
	for _, s := range []int{1, -1, 0, 2} {
		for _, f := range []uint64{0, 1, 1<<62 + 1, 1<<63 - 1, 1 << 63, 1<<63 + 1, ^uint64(0)} {
			list = append(list, ed{s, f})
		}
	}
	ms := []int{0, 1, 5}
	type job struct {
		e     ed
		m     int
		bound *gobig.Int
		three bool
	}
	var jobs []job
	for _, e := range list {
		for _, m := range ms {
			fm := new(gobig.Int).Mul(new(gobig.Int).SetUint64(e.factor), bi(int64(m)))
			for _, d := range []int64{-1, 0, 1} {
				jobs = append(jobs, job{e, m, new(gobig.Int).Add(fm, bi(d)), false})
			}
			// the wrapped reading of the factor (int64(a)*m) is what an unguarded implementation would prove
			wr := new(gobig.Int).Mul(bi(int64(e.factor)), bi(int64(m)))
			if wr.Cmp(fm) != 0 {
				for _, d := range []int64{-1, 0, 1} {
					jobs = append(jobs, job{e, m, new(gobig.Int).Add(wr, bi(d)), false})
				}
			}
			if e.factor == 1 {
				for _, d := range []int64{-1, 0, 1} {
					jobs = append(jobs, job{e, m, new(gobig.Int).Add(fm, bi(d)), true})
				}
			}
		}
	}
	hx.Parallel(len(jobs), func(i int) {
		j := jobs[i]
		cred := w.cred([]int{j.m, 31, 32})
		st := &rangeproof.Statement{Sign: j.e.sign, Factor: uint(j.e.factor), Bound: big.Convert(new(gobig.Int).Set(j.bound))}
		if j.three {
			st.Splitter = table65535()
		}
		what := fmt.Sprintf("edge statement sign %d, factor %d, bound %v, %v squares, m = %d", j.e.sign, j.e.factor, j.bound, map[bool]int{true: 3, false: 4}[j.three], j.m)
		detail := hx.M{"edge": hx.M{"sign": j.e.sign, "factor": fmt.Sprint(j.e.factor), "bound": j.bound.String(), "m": j.m, "three": j.three}}
		nonce := w.nonce()
		var pd *gabi.ProofD
		var err error
		if pan, msg := hx.Try(func() {
			pd, err = cred.CreateDisclosureProof([]int{2}, map[int][]*rangeproof.Statement{1: {st}}, false, w.context, nonce)
		}); pan {
			res.Violation("panic", "CreateDisclosureProof panics on "+what+": "+msg, detail)
			return
		}
		res.Eval("edge/" + what)
		signOK := j.e.sign == 1 || j.e.sign == -1
		truth := signOK && holds(j.e.sign, j.e.factor, j.bound, bi(int64(j.m)))
		supported := signOK && j.e.factor <= 1<<63-1
		if err != nil {
			res.Count("edge-refused")
			if completeness && truth && supported {
				res.Violation("true-statement-unprovable", what+": "+err.Error(), detail)
			}
			return
		}
		var ok bool
		if pan, msg := hx.Try(func() {
			ok = cpFull(pd).Verify(pk, w.context, nonce, false)
			if jp := viaJSON(pd); jp != nil {
				ok2 := gabi.ProofList{jp}.Verify([]*gabikeys.PublicKey{pk}, w.context, nonce, false, nil)
				if ok != ok2 {
					res.Violation("verdict-differs-after-json", what, detail)
				}
			} else {
				res.Count("edge-not-json-transportable")
			}
		}); pan {
			res.Violation("panic", "Verify panics on "+what+": "+msg, detail)
			return
		}
		if !ok {
			res.Count("edge-created-not-verifying")
			if completeness && truth && supported {
				res.Violation("true-statement-not-verifying", what, detail)
			}
			return
		}
		res.Count("edge-verified")
		rp := pd.RangeProofs[1][0]
		if !signOK {
			res.Violation("bad-sign-accepted", "a proof verifies for "+what, detail)
			return
		}
		typ, f, b := rp.ProvenStatement()
		v := bi(int64(j.m))
		if !holds(typSign(typ), uint64(f), b.Go(), v) {
			res.Violation("false-statement-accepted", fmt.Sprintf("%s: proof created, verified, and ProvenStatement() = (%d, %d, %v) is false for m", what, typSign(typ), f, b), detail)
		}
		if rp.ProvesStatement(j.e.sign, uint(j.e.factor), big.Convert(j.bound)) != truth {
			if !truth {
				res.Violation("false-statement-accepted", what+": proof created, verified, and ProvesStatement(statement) = true although the statement is false", detail)
			} else if completeness {
				res.Violation("true-statement-not-reported", what, detail)
			}
		}
	})
}

// ---------------------------------------------------------------- complete (C13)

// srec is one STMT record of RangeStmtGen.tla: a statement of the box about an attribute value m with the
// specification's expectation for the prover.
type srec struct {
	Sign   int  `json:"sign"`
	Factor int  `json:"factor"`
	Bound  int  `json:"bound"`
	N      int  `json:"n"`
	M      int  `json:"m"`
	Holds  bool `json:"holds"`
	Inlim  bool `json:"inlim"`
	Delta  int  `json:"delta"`
	D      desc `json:"d"`
	Limit  int  `json:"limit"`
}

func stmtTable(a *hx.Args, w *world, res *hx.Result) {
	lines := hx.ReadNDJSON(a.In)
	pk := w.kp.PK
	var tmu sync.Mutex
	tabs := map[int]*rangeproof.SquaresTable{}
	table := func(limit int) *rangeproof.SquaresTable {
		tmu.Lock()
		defer tmu.Unlock()
		if tabs[limit] == nil {
			tabs[limit] = rangeproof.GenerateSquaresTable(int64(limit))
		}
		return tabs[limit]
	}
	hx.Parallel(len(lines), func(i int) {
		var r srec
		if err := json.Unmarshal(lines[i], &r); err != nil {
			hx.Fatal("stmt %d: %v", i, err)
		}
		st := &rangeproof.Statement{Sign: r.Sign, Factor: uint(r.Factor), Bound: big.NewInt(int64(r.Bound))}
		if r.N == 3 {
			st.Splitter = table(r.Limit)
		}
		cred := w.cred([]int{r.M, 31, 32})
		nonce := w.nonce()
		detail := hx.M{"case": json.RawMessage(lines[i])}
		what := fmt.Sprintf("statement %d*(%d*m - %d) >= 0, %d squares (table limit %d), m = %d", r.Sign, r.Factor, r.Bound, r.N, r.Limit, r.M)
		var pd *gabi.ProofD
		var err error
		if pan, msg := hx.Try(func() {
			pd, err = cred.CreateDisclosureProof([]int{2}, map[int][]*rangeproof.Statement{1: {st}}, false, w.context, nonce)
		}); pan {
			res.Violation("panic", "CreateDisclosureProof panics: "+what+": "+msg, detail)
			return
		}
		key := ""
		if !r.Holds || !r.Inlim || r.Delta <= 1 {
			key = what
		}
		res.Eval(key)
		res.Count("stmt-table")
		verify := func() (ok bool, pan bool) {
			p, msg := hx.Try(func() { ok = cpFull(pd).Verify(pk, w.context, nonce, false) })
			if p {
				res.Violation("panic", "Verify panics: "+what+": "+msg, detail)
			}
			return ok, p
		}
		switch {
		case !r.Holds:
			if err == nil {
				if ok, _ := verify(); ok {
					res.Violation("false-statement-proven", "a proof for a false statement was created and verifies: "+what, detail)
				} else {
					res.Violation("false-statement-not-refused", "CreateDisclosureProof returned a proof (not an error) for a false statement: "+what, detail)
				}
			}
		case err != nil:
			if r.Inlim {
				res.Violation("true-statement-unprovable", "CreateDisclosureProof fails for a true statement within the limits: "+err.Error()+": "+what, detail)
			} else {
				res.Count("stmt-beyond-table-refused")
			}
		default:
			ok, pan := verify()
			if pan {
				return
			}
			rp := pd.RangeProofs[1][0]
			if !ok {
				res.Violation("true-statement-not-verifying", "honest proof does not verify: "+what, detail)
				return
			}
			if !rp.Proves(st) {
				res.Violation("true-statement-not-reported", "verified proof does not report its statement as proven: "+what, detail)
			}
			if int(rp.A) != r.D.A || rp.K.Go().Cmp(bi(int64(r.D.K))) != 0 || len(rp.Cs) != r.D.N || rp.Sign != r.D.Sign {
				res.Count("descriptor-differs-from-specification")
			}
		}
	})
}

type cstmt struct {
	idx    int // attribute index 1..3
	sign   int
	factor uint64
	delta  *gobig.Int // sign*(factor*m - bound); >= 0 means the statement is true
	three  bool
}

func complete(a *hx.Args, res *hx.Result) {
	rng := hx.Rng(a.Seed, "rp-complete")
	n := a.N
	if n <= 0 {
		n = 1000
	}
	w := newWorld(hx.Keys1024()[int(a.Seed)%2])
	pk := w.kp.PK
	lm := pk.Params.Lm
	tab := table65535()
	tabLimit := int64(len(*tab) - 1)
	maxThree := tabLimit // the table is documented to serve every difference up to and including its limit

	// ---- credentials: small values, word boundaries, the largest attribute
	top := new(gobig.Int).Sub(new(gobig.Int).Lsh(bi(1), lm), bi(1))
	attrSets := [][]*gobig.Int{
		{bi(0), bi(1), bi(2)}, {bi(5), bi(12), bi(1000)}, {bi(16383), bi(16384), bi(65535)},
		{new(gobig.Int).Lsh(bi(1), 32), new(gobig.Int).Sub(new(gobig.Int).Lsh(bi(1), 63), bi(1)), new(gobig.Int).Lsh(bi(1), 64)},
		{top, new(gobig.Int).Rsh(top, 1), new(gobig.Int).Lsh(bi(1), 128)},
	}
	for k := 0; k < 3; k++ {
		var s []*gobig.Int
		for i := 0; i < 3; i++ {
			s = append(s, new(gobig.Int).Rand(rng, top))
		}
		attrSets = append(attrSets, s)
	}
	creds := make([]*gabi.Credential, len(attrSets))
	hx.Parallel(len(attrSets), func(i int) {
		l := make([]*big.Int, 3)
		for k, v := range attrSets[i] {
			l[k] = big.Convert(new(gobig.Int).Set(v))
		}
		creds[i] = w.issue(l)
	})

	// ---- the statements: a dense window of differences around 0 for every factor, sign and splitter
	type job struct {
		cred  int
		stmts []cstmt
	}
	var singles []cstmt
	window := int64(12)
	for d := -3 * int64(1); d <= window; d++ {
		for _, s := range []int{1, -1} {
			for f := uint64(1); f <= 8; f++ {
				singles = append(singles, cstmt{0, s, f, bi(d), false})
			}
			singles = append(singles, cstmt{0, s, 1, bi(d), true})
		}
	}
	// three squares: around the end of the table, and spread over it
	for _, d := range []int64{maxThree - 1, maxThree, 13, 100, 1000, 4095, 4096, 9999} {
		for _, s := range []int{1, -1} {
			singles = append(singles, cstmt{0, s, 1, bi(d), true})
		}
	}
	var jobs []job
	// every single statement on some credential/attribute (round robin), then random combinations
	for i, st := range singles {
		st.idx = 1 + i%3
		jobs = append(jobs, job{i % len(creds), []cstmt{st}})
	}
	randDelta := func() *gobig.Int {
		bits := 1 + rng.Intn(256)
		d := new(gobig.Int).Rand(rng, new(gobig.Int).Lsh(bi(1), uint(bits)))
		switch rng.Intn(8) {
		case 0:
			d.Lsh(bi(1), uint(bits-1)) // a power of two
		case 1:
			d.Sub(new(gobig.Int).Lsh(bi(1), uint(bits)), bi(1)) // 2^k - 1 (7 mod 8: needs four squares)
		case 2:
			r := new(gobig.Int).Rand(rng, new(gobig.Int).Lsh(bi(1), uint(bits/2+1)))
			if r.BitLen() > 128 {
				r.Rsh(r, uint(r.BitLen()-128))
			}
			d.Mul(r, r) // a perfect square
		}
		return d
	}
	for len(jobs) < n {
		j := job{cred: rng.Intn(len(creds))}
		k := 1 + rng.Intn(4)
		for x := 0; x < k; x++ {
			st := cstmt{idx: 1 + rng.Intn(3), sign: 1 - 2*rng.Intn(2), factor: uint64(1 + rng.Intn(8))}
			switch rng.Intn(5) {
			case 0:
				st.three, st.factor = true, 1
				st.delta = bi(rng.Int63n(maxThree + 1))
			case 1:
				st.delta = bi(int64(rng.Intn(40)))
			case 2:
				st.delta = bi(-1 - int64(rng.Intn(3))) // false
				if rng.Intn(2) == 0 {
					st.three, st.factor = true, 1
				}
			default:
				st.delta = randDelta()
			}
			j.stmts = append(j.stmts, st)
		}
		jobs = append(jobs, j)
	}
	hx.Parallel(len(jobs), func(i int) {
		j := jobs[i]
		cred := creds[j.cred]
		attrs := attrSets[j.cred]
		rs := map[int][]*rangeproof.Statement{}
		type flat struct {
			idx, pos int
			st       *rangeproof.Statement
			bound    *gobig.Int
			c        cstmt
		}
		var fl []flat
		allTrue := true
		desc := ""
		for _, c := range j.stmts {
			// bound := factor*m - sign*delta
			b := new(gobig.Int).Mul(new(gobig.Int).SetUint64(c.factor), attrs[c.idx-1])
			b.Sub(b, new(gobig.Int).Mul(bi(int64(c.sign)), c.delta))
			st := &rangeproof.Statement{Sign: c.sign, Factor: uint(c.factor), Bound: big.Convert(new(gobig.Int).Set(b))}
			if c.three {
				st.Splitter = tab
			}
			fl = append(fl, flat{c.idx, len(rs[c.idx]), st, b, c})
			rs[c.idx] = append(rs[c.idx], st)
			if c.delta.Sign() < 0 {
				allTrue = false
			}
			desc += fmt.Sprintf("[attr %d (%v): sign %d, factor %d, bound %v, difference %v, three=%v] ", c.idx, attrs[c.idx-1], c.sign, c.factor, b, c.delta, c.three)
		}
		detail := hx.M{"statements": desc, "seed": a.Seed, "job": i}
		disclosed := []int{}
		for x := 1; x <= 3; x++ {
			if len(rs[x]) == 0 && (i+x)%2 == 0 {
				disclosed = append(disclosed, x)
			}
		}
		nonce := w.nonce()
		var pd *gabi.ProofD
		var err error
		if pan, msg := hx.Try(func() { pd, err = cred.CreateDisclosureProof(disclosed, rs, false, w.context, nonce) }); pan {
			res.Violation("panic", "CreateDisclosureProof panics: "+msg+" "+desc, detail)
			return
		}
		key := ""
		if len(j.stmts) > 1 || !allTrue {
			key = desc
		}
		res.Eval(key)
		for range j.stmts {
			res.Count("statements")
		}
		if !allTrue {
			res.Count("false-proof-requests")
			if err == nil {
				ok := false
				hx.Try(func() { ok = cpFull(pd).Verify(pk, w.context, nonce, false) })
				if ok {
					res.Violation("false-statement-proven", "a proof for a false statement was created and verifies: "+desc, detail)
				} else {
					res.Violation("false-statement-not-refused", "CreateDisclosureProof returned a proof (not an error) for a false statement: "+desc, detail)
				}
			}
			return
		}
		if err != nil {
			res.Violation("true-statement-unprovable", "CreateDisclosureProof fails for true statements within the limits: "+err.Error()+" "+desc, detail)
			return
		}
		var ok1, ok2 bool
		jp := viaJSON(pd)
		if jp == nil {
			// negative K: exists in memory only (not part of C13); verify a second in-memory copy instead
			res.Count("not-json-transportable")
			jp = cpFull(pd)
		}
		if pan, msg := hx.Try(func() {
			ok1 = pd.Verify(pk, w.context, nonce, false)
			ok2 = gabi.ProofList{jp}.Verify([]*gabikeys.PublicKey{pk}, w.context, nonce, false, nil)
		}); pan {
			res.Violation("panic", "Verify panics on an honest proof: "+msg+" "+desc, detail)
			return
		}
		if !ok1 || !ok2 {
			res.Violation("true-statement-not-verifying", fmt.Sprintf("honest proof does not verify (ProofD.Verify %v, ProofList.Verify on the transported copy %v): %s", ok1, ok2, desc), detail)
			return
		}
		for _, f := range fl {
			rp := jp.RangeProofs[f.idx][f.pos]
			if !rp.Proves(f.st) || !rp.ProvesStatement(f.c.sign, uint(f.c.factor), big.Convert(f.bound)) {
				res.Violation("true-statement-not-reported", fmt.Sprintf("verified proof does not report statement %d as proven: %s", f.pos, desc), detail)
			}
			typ, pf, pb := rp.ProvenStatement()
			if typSign(typ) != f.c.sign || uint64(pf) != f.c.factor || pb.Go().Cmp(f.bound) != 0 {
				res.Count("proven-statement-differs-from-request")
			}
			if !holds(typSign(typ), uint64(pf), pb.Go(), attrs[f.idx-1]) {
				res.Violation("false-statement-accepted", "ProvenStatement of an honest proof is false: "+desc, detail)
			}
		}
		if i%97 == 0 {
			res.Sample(hx.M{"statements": desc, "disclosed": disclosed, "verified": true})
		}
	})
	edges(w, res, true)
	if a.In != "" {
		stmtTable(a, w, res)
	}

	// ---- splitters against the relation sum of squares = n
	sumsq := func(l []*big.Int) *gobig.Int {
		s := new(gobig.Int)
		for _, x := range l {
			s.Add(s, new(gobig.Int).Mul(x.Go(), x.Go()))
		}
		return s
	}
	tables := []*rangeproof.SquaresTable{tab}
	if a.Tier == "thorough" {
		tables = append(tables, rangeproof.GenerateSquaresTable(262143), rangeproof.GenerateSquaresTable(1000), rangeproof.GenerateSquaresTable(2))
	} else {
		tables = append(tables, rangeproof.GenerateSquaresTable(1000), rangeproof.GenerateSquaresTable(2))
	}
	for _, t := range tables {
		limit := len(*t) - 1
		ld := t.Ld()
		hx.Parallel(limit+6, func(v int) {
			v -= 2 // also just outside the table on both sides
			var l []*big.Int
			var err error
			if pan, msg := hx.Try(func() { l, err = t.Split(big.NewInt(int64(v))) }); pan {
				res.Violation("panic", fmt.Sprintf("SquaresTable(%d).Split(%d) panics: %s", limit, v, msg), hx.M{"limit": limit, "v": v})
				return
			}
			res.Count("table-entries")
			inside := v >= 0 && v <= limit && v%4 == 2
			if !inside {
				if err == nil && sumsq(l).Cmp(bi(int64(v))) != 0 {
					res.Violation("split-wrong", fmt.Sprintf("SquaresTable(%d).Split(%d) returns squares that do not sum to it", limit, v), hx.M{"limit": limit, "v": v})
				}
				return
			}
			if err != nil {
				res.Violation("split-failed", fmt.Sprintf("SquaresTable(%d).Split(%d): %v", limit, v, err), hx.M{"limit": limit, "v": v})
				return
			}
			if len(l) != 3 || sumsq(l).Cmp(bi(int64(v))) != 0 {
				res.Violation("split-wrong", fmt.Sprintf("SquaresTable(%d).Split(%d) = %v: squares do not sum to it", limit, v, l), hx.M{"limit": limit, "v": v})
				return
			}
			for _, x := range l {
				if uint(x.BitLen()) > ld {
					res.Violation("split-oversized", fmt.Sprintf("SquaresTable(%d).Split(%d) = %v exceeds Ld() = %d bits", limit, v, l, ld), hx.M{"limit": limit, "v": v})
				}
			}
		})
	}
	bound := 1 << 16
	if a.Tier == "thorough" {
		bound = 1 << 20
	}
	four := &rangeproof.FourSquaresSplitter{}
	const chunk = 1 << 10
	hx.Parallel(bound/chunk, func(ci int) {
		for v := ci * chunk; v < (ci+1)*chunk; v++ {
			nn := big.NewInt(int64(v))
			var x, y, z, u *big.Int
			if pan, msg := hx.Try(func() { x, y, z, u = verifx.SumFourSquares(nn) }); pan {
				res.Violation("panic", fmt.Sprintf("SumFourSquares(%d) panics: %s", v, msg), hx.M{"n": v})
				continue
			}
			if sumsq([]*big.Int{x, y, z, u}).Cmp(bi(int64(v))) != 0 {
				res.Violation("split-wrong", fmt.Sprintf("SumFourSquares(%d) = %v %v %v %v: squares do not sum to it", v, x, y, z, u), hx.M{"n": v})
			}
		}
		res.Count("four-square-chunks")
	})
	res.Notes["four_squares_below"] = bound
	// large arguments through the splitter interface
	nl := 2000
	if a.Tier == "thorough" {
		nl = 20000
	}
	large := make([]*gobig.Int, nl)
	for i := range large {
		large[i] = randDelta()
	}
	hx.Parallel(nl, func(i int) {
		var l []*big.Int
		var err error
		if pan, msg := hx.Try(func() { l, err = four.Split(big.Convert(new(gobig.Int).Set(large[i]))) }); pan {
			res.Violation("panic", fmt.Sprintf("FourSquaresSplitter.Split(%v) panics: %s", large[i], msg), hx.M{"n": large[i].String()})
			return
		}
		if err != nil || len(l) != 4 || sumsq(l).Cmp(large[i]) != 0 {
			res.Violation("split-wrong", fmt.Sprintf("FourSquaresSplitter.Split(%v) = %v, %v", large[i], l, err), hx.M{"n": large[i].String()})
			return
		}
		for _, x := range l {
			if uint(x.BitLen()) > four.Ld() {
				res.Violation("split-oversized", fmt.Sprintf("FourSquaresSplitter.Split(%v): root of %d bits", large[i], x.BitLen()), hx.M{"n": large[i].String()})
			}
		}
		res.Count("large-splits")
	})
}
