package main

import (
	"encoding/json"
	"fmt"
	gobig "math/big"

	"verifharness/hx"

	"github.com/privacybydesign/gabi"
	"github.com/privacybydesign/gabi/big"
	"github.com/privacybydesign/gabi/gabikeys"
	"github.com/privacybydesign/gabi/rangeproof"
	"github.com/privacybydesign/gabi/verifx"
)

// rp fsforge --in scenarios.ndjson
//
// RangeFS.tla: a prover that chooses the commitments C_i of a range proof (and the bound K) AFTER it has seen the challenge.
// It hashes T_m = R^t S^-1 and T_i = R^(x_i) S with exponents it knows, gets c, and then solves
//     c (SUM d_i^2 - sign (m - K)) + SUM d_i x_i = tau
// for d_i (hence C_i = R^(d_i)) and K. If the challenge does not cover the C_i, the proof verifies for a false statement.
// The forged proof goes through JSON and is given to ProofD.Verify and ProofList.Verify; acceptance of a false statement is a VIOLATION.
type fsScen struct {
	Variant string `json:"variant"`
	Sign    int    `json:"sign"`
	Off     int64  `json:"off"`
}

func fsPow(base, exp, n *big.Int) *big.Int {
	r, err := verifx.ModPow(base, exp, n)
	if err != nil {
		hx.Fatal("ModPow: %v", err)
	}
	return r
}

// a prime p = 1 mod 4 as a sum of two squares (Cornacchia)
func fsTwoSquares(p *gobig.Int) (*gobig.Int, *gobig.Int) {
	r := new(gobig.Int).ModSqrt(new(gobig.Int).Sub(p, gobig.NewInt(1)), p)
	a, b := new(gobig.Int).Set(p), r
	for new(gobig.Int).Mul(b, b).Cmp(p) > 0 {
		a, b = b, new(gobig.Int).Mod(a, b)
	}
	rest := new(gobig.Int).Sub(p, new(gobig.Int).Mul(b, b))
	s := new(gobig.Int).Sqrt(rest)
	if new(gobig.Int).Mul(s, s).Cmp(rest) != 0 {
		return nil, nil
	}
	return b, s
}

func fsThreeSquares(w *gobig.Int, rng interface{ Int63() int64 }) []*gobig.Int {
	if w.Sign() <= 0 {
		return nil
	}
	root := new(gobig.Int).Sqrt(w)
	for try := 0; try < 20000; try++ {
		x := new(gobig.Int).Mod(new(gobig.Int).Mul(gobig.NewInt(rng.Int63()), gobig.NewInt(rng.Int63())), root)
		x.Mul(x, gobig.NewInt(rng.Int63())).Mod(x, root)
		p := new(gobig.Int).Sub(w, new(gobig.Int).Mul(x, x))
		if p.Bit(0) != 1 || p.Bit(1) != 0 || !p.ProbablyPrime(20) {
			continue
		}
		if a, b := fsTwoSquares(p); a != nil {
			return []*gobig.Int{x, a, b}
		}
	}
	return nil
}

func fsforge(a *hx.Args, res *hx.Result) {
	rng := hx.Rng(a.Seed, "rp-fsforge")
	kp := hx.Keys1024()[0]
	pk := kp.PK
	N := pk.N
	one := big.NewInt(1)
	var scen []fsScen
	for _, l := range hx.ReadNDJSON(a.In) {
		var s fsScen
		if err := json.Unmarshal(l, &s); err != nil {
			hx.Fatal("bad scenario: %v", err)
		}
		scen = append(scen, s)
	}
	for _, sc := range scen {
		for _, mval := range []int64{5, 70} {
			m := big.NewInt(mval)
			ms := []*big.Int{big.Convert(randInt(rng, 250)), m, big.NewInt(12345)}
			sig0, err := gabi.SignMessageBlock(kp.SK, pk, ms)
			if err != nil {
				hx.Fatal("sign: %v", err)
			}
			idx := 1
			R, S := pk.R[idx], pk.S
			s := big.NewInt(int64(sc.Sign))
			ctx, nonce := big.NewInt(1), big.Convert(randInt(rng, 80))
			// ordinary first move of the disclosure proof
			sig, err := sig0.Randomize(pk)
			if err != nil {
				hx.Fatal("randomize: %v", err)
			}
			eCommit, vCommit := big.Convert(randInt(rng, int(pk.Params.LeCommit))), big.Convert(randInt(rng, int(pk.Params.LvCommit)))
			rho := map[int]*big.Int{0: big.Convert(randInt(rng, int(pk.Params.LmCommit))), 1: big.Convert(randInt(rng, int(pk.Params.LmCommit)))}
			Z := new(big.Int).Mul(fsPow(sig.A, eCommit, N), fsPow(S, vCommit, N))
			for i, r := range rho {
				Z.Mul(Z, fsPow(pk.R[i], r, N)).Mod(Z, N)
			}
			x := make([]*big.Int, 4)
			tau := new(big.Int)
			if sc.Variant == "any" {
				for i := range x {
					x[i] = new(big.Int).Lsh(one, uint(64*i))
				}
				tau.Lsh(one, 400)
			} else {
				x[0], x[1], x[2], x[3] = big.NewInt(1), big.NewInt(0), big.NewInt(0), big.NewInt(0)
				tau.Lsh(one, 790)
			}
			tExp := new(big.Int).Sub(tau, new(big.Int).Mul(s, rho[1]))
			Tm := new(big.Int).Mul(fsPow(R, tExp, N), fsPow(S, big.NewInt(-1), N))
			Tm.Mod(Tm, N)
			contrib := []*big.Int{ctx, sig.A, Z, Tm}
			for i := range x {
				Ti := new(big.Int).Mul(fsPow(R, x[i], N), S)
				contrib = append(contrib, Ti.Mod(Ti, N))
			}
			contrib = append(contrib, nonce)
			c := verifx.HashCommit(contrib, false)
			// second move
			d := make([]*big.Int, 4)
			var K *big.Int
			if sc.Variant == "any" {
				D, rem := new(big.Int).DivMod(tau, c, new(big.Int))
				sumsq := new(big.Int)
				mask := new(big.Int).Sub(new(big.Int).Lsh(one, 64), one)
				for i := range d {
					d[i] = new(big.Int).And(new(big.Int).Rsh(rem, uint(64*i)), mask)
					sumsq.Add(sumsq, new(big.Int).Mul(d[i], d[i]))
				}
				K = new(big.Int).Sub(m, new(big.Int).Mul(s, new(big.Int).Sub(sumsq, D)))
			} else {
				K = new(big.Int).Add(m, new(big.Int).Mul(s, big.NewInt(sc.Off))) // m >= m + off  /  m <= m - off : false
				E := new(big.Int).Mul(s, new(big.Int).Sub(m, K))
				Q, d0 := new(big.Int).DivMod(tau, c, new(big.Int))
				okk := false
				for j := int64(0); j < 64 && !okk; j++ {
					d[0] = new(big.Int).Add(d0, new(big.Int).Mul(big.NewInt(j), c))
					W := new(big.Int).Sub(Q, big.NewInt(j))
					W.Add(W, E).Sub(W, new(big.Int).Mul(d[0], d[0]))
					if three := fsThreeSquares(W.Go(), rng); three != nil {
						d[1], d[2], d[3] = big.Convert(three[0]), big.Convert(three[1]), big.Convert(three[2])
						okk = true
					}
				}
				if !okk {
					hx.Fatal("no three-square decomposition found")
				}
			}
			rp := &rangeproof.Proof{Ld: 128, Sign: sc.Sign, A: 1, K: K, V5Response: big.NewInt(1)}
			if sc.Variant == "exact" {
				rp.Ld = 256
			}
			for i := range d {
				rp.Cs = append(rp.Cs, fsPow(R, d[i], N))
				rp.DResponses = append(rp.DResponses, new(big.Int).Add(x[i], new(big.Int).Mul(c, d[i])))
				rp.VResponses = append(rp.VResponses, big.NewInt(1))
			}
			ePrime := new(big.Int).Sub(sig.E, new(big.Int).Lsh(one, pk.Params.Le-1))
			proof := &gabi.ProofD{C: c, A: sig.A,
				EResponse:   new(big.Int).Add(eCommit, new(big.Int).Mul(c, ePrime)),
				VResponse:   new(big.Int).Add(vCommit, new(big.Int).Mul(c, sig.V)),
				AResponses:  map[int]*big.Int{},
				ADisclosed:  map[int]*big.Int{},
				RangeProofs: map[int][]*rangeproof.Proof{idx: {rp}}}
			for i, av := range ms {
				if r, hidden := rho[i]; hidden {
					proof.AResponses[i] = new(big.Int).Add(r, new(big.Int).Mul(c, av))
				} else {
					proof.ADisclosed[i] = av
				}
			}
			label := fmt.Sprintf("%s sign=%d m=%d K=%s", sc.Variant, sc.Sign, mval, shortStr(K.String()))
			res.Eval("fsforge/" + label)
			det := hx.M{"scenario": sc, "m": mval, "K": K.String()}
			holds := new(big.Int).Mul(s, new(big.Int).Sub(m, K)).Sign() >= 0
			if holds {
				hx.Fatal("the forged statement is true: %s", label)
			}
			var ok1, ok2 bool
			bts, err := json.Marshal(proof)
			received := new(gabi.ProofD)
			if err == nil {
				err = json.Unmarshal(bts, received)
			}
			if err != nil {
				received = proof // (a negative K cannot travel as JSON: in memory only)
				res.Count("fsforge:memory-only")
			}
			panicked, msg := hx.Try(func() {
				ok1 = received.Verify(pk, ctx, nonce, false)
				ok2 = gabi.ProofList{received}.Verify([]*gabikeys.PublicKey{pk}, ctx, nonce, false, nil)
			})
			res.Count(fmt.Sprintf("fsforge:%s:accepted=%v", sc.Variant, ok1 || ok2))
			switch {
			case panicked:
				res.Violation("panic", "verification of a forged range proof panicked: "+msg, det)
			case ok1 || ok2:
				res.Violation("false-inequality-accepted", fmt.Sprintf("a disclosure proof whose range-proof commitments C_i were chosen AFTER the challenge was accepted for the false statement %d*(m - K) >= 0 with m = %d, K = %s (%s)",
					sc.Sign, mval, shortStr(K.String()), sc.Variant), det)
			}
		}
	}
}

func randInt(rng interface{ Int63() int64 }, bits int) *gobig.Int {
	x := new(gobig.Int)
	for x.BitLen() < bits {
		x.Lsh(x, 62).Add(x, gobig.NewInt(rng.Int63()>>1))
	}
	return x.Rsh(x, uint(x.BitLen()-bits))
}

func shortStr(s string) string {
	if len(s) > 24 {
		return s[:10] + "..." + s[len(s)-6:] + fmt.Sprintf(" (%d digits)", len(s))
	}
	return s
}
