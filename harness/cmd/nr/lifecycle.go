package main

import (
	"encoding/json"
	"fmt"
	mrand "math/rand"

	"verifharness/hx"

	"github.com/privacybydesign/gabi"
	"github.com/privacybydesign/gabi/big"
	"github.com/privacybydesign/gabi/gabikeys"
	"github.com/privacybydesign/gabi/revocation"
)

// Replay of Gabi.tla: whole life cycles (issue, revoke, update, show, sign, combine) on real objects.

type gOp struct {
	Op        string `json:"op"`
	H         int    `json:"h"`
	Other     int    `json:"other"`
	Ok        bool   `json:"ok"`
	Idx       int    `json:"idx"`
	Fresh     bool   `json:"fresh"`
	Disclosed []int  `json:"disclosed"`
}
type gHist struct {
	Hist []gOp `json:"hist"`
}

func lifecycle(a *hx.Args, kps []hx.KeyPair, rng *mrand.Rand, res *hx.Result) {
	lines := hx.ReadNDJSON(a.In)
	var hs []gHist
	for _, l := range lines {
		var h gHist
		if err := json.Unmarshal(l, &h); err != nil {
			hx.Fatal("bad history: %v", err)
		}
		hs = append(hs, h)
	}
	if a.N > 0 && len(hs) > a.N {
		rng.Shuffle(len(hs), func(i, j int) { hs[i], hs[j] = hs[j], hs[i] })
		hs = hs[:a.N]
	}
	seeds := make([]int64, len(hs))
	for i := range seeds {
		seeds[i] = rng.Int63()
	}
	hx.Parallel(len(hs), func(i int) {
		runLifecycle(kps[i%len(kps)], hs[i], mrand.New(mrand.NewSource(seeds[i])), res)
	})
}

func runLifecycle(kp hx.KeyPair, h gHist, rng *mrand.Rand, res *hx.Result) {
	c := newChain(kp)
	creds := map[int]*gabi.Credential{}
	issued := map[int][]*big.Int{}
	ctx := big.NewInt(1)
	b, _ := json.Marshal(h)
	res.Eval("life/" + hx.Digest(b))
	for step, op := range h.Hist {
		det := hx.M{"history": h.Hist, "step": step, "key": kp.PK.Issuer}
		stop := false
		fail := func(kind, what string) {
			res.Violation(kind, what, det)
			stop = true
		}
		panicked, msg := hx.Try(func() {
			switch op.Op {
			case "issue":
				n := len(c.accs) - 1
				w, err := revocation.RandomWitness(kp.SK, c.accs[n])
				if err != nil {
					hx.Fatal("RandomWitness: %v", err)
				}
				s := *c.saccs[n]
				w.SignedAccumulator = &s
				attrs := []*big.Int{randBits(rng, 200), randBits(rng, 200), randBits(rng, 200), w.E}
				cred, err := hx.Issue(kp, ctx, randBits(rng, 250), nil, attrs, w, nil)
				if err != nil {
					fail("honest-issuance-failed", fmt.Sprintf("issuance: %v", err))
					return
				}
				creds[op.H], issued[op.H] = cred, attrs
			case "revoke":
				c.revoke(creds[op.H].NonRevocationWitness.E)
			case "revokeother":
				c.revoke(freshPrime())
			case "update":
				w := creds[op.H].NonRevocationWitness
				err := w.Update(kp.PK, c.update(int(w.SignedAccumulator.Accumulator.Index)))
				if op.Ok && err != nil {
					fail("update-failed", fmt.Sprintf("Witness.Update of a non-revoked witness: %v", err))
				}
				if !op.Ok && err != revocation.ErrorRevoked {
					fail("revocation-not-reported", fmt.Sprintf("Witness.Update of a revoked witness returned %v", err))
				}
				if got := int(w.SignedAccumulator.Accumulator.Index); got != op.Idx {
					fail("witness-index-diverges", fmt.Sprintf("witness at index %d, spec %d", got, op.Idx))
				}
			case "show", "sign":
				sig := op.Op == "sign"
				nonce := randBits(rng, 80)
				db, err := creds[op.H].CreateDisclosureProofBuilder(op.Disclosed, nil, true)
				if err != nil {
					fail("honest-proof-not-created", fmt.Sprintf("CreateDisclosureProofBuilder: %v", err))
					return
				}
				list, err := gabi.ProofBuilderList{db}.BuildProofList(ctx, nonce, sig)
				if err != nil {
					fail("honest-proof-not-created", fmt.Sprintf("BuildProofList: %v", err))
					return
				}
				pd := list[0].(*gabi.ProofD)
				keys := []*gabikeys.PublicKey{kp.PK}
				if !list.Verify(keys, ctx, nonce, sig, nil) {
					if hx.D10Ambiguous(pd, revIdx) {
						res.Count("discarded-known-finding-D10")
						return
					}
					fail("honest-proof-rejected", "the proof of a holder with a valid witness does not verify")
					return
				}
				if clone(pd).Verify(kp.PK, ctx, nonce, !sig) {
					fail("session-kind-confusion", "the proof also verifies for the other session kind")
				}
				idx := embeddedIndex(kp, pd)
				if idx != op.Idx {
					fail("proof-reads-wrong-accumulator", fmt.Sprintf("accepted proof embeds accumulator index %d, spec %d", idx, op.Idx))
				}
				if fresh := idx == len(c.accs)-1; fresh != op.Fresh {
					fail("freshness-diverges", fmt.Sprintf("proof fresh=%v, spec %v", fresh, op.Fresh))
				}
				for _, i := range op.Disclosed {
					if v, ok := pd.ADisclosed[i]; !ok || v.Cmp(issued[op.H][i-1]) != 0 {
						fail("disclosed-value-not-issued", fmt.Sprintf("attribute %d is not reported with the issued value", i))
					}
				}
				if len(pd.ADisclosed) != len(op.Disclosed) {
					fail("wrong-disclosure-sets", "proof discloses other indices than chosen")
				}
			case "combine":
				d1, err1 := creds[op.H].CreateDisclosureProofBuilder([]int{1}, nil, false)
				d2, err2 := creds[op.Other].CreateDisclosureProofBuilder([]int{2}, nil, false)
				if err1 != nil || err2 != nil {
					fail("honest-proof-not-created", fmt.Sprintf("builders: %v %v", err1, err2))
					return
				}
				nonce := randBits(rng, 80)
				list, err := gabi.ProofBuilderList{d1, d2}.BuildProofList(ctx, nonce, false)
				if err != nil {
					fail("honest-proof-not-created", fmt.Sprintf("BuildProofList: %v", err))
					return
				}
				keys := []*gabikeys.PublicKey{kp.PK, kp.PK}
				if list.Verify(keys, ctx, nonce, false, nil) || list.Verify(keys, ctx, nonce, false, []string{"x", "x"}) {
					fail("unlinked-proofs-accepted", "credentials of two different holders were accepted as linked")
				}
				if !list.Verify(keys, ctx, nonce, false, []string{"x", "y"}) {
					fail("honest-list-rejected", "credentials of two holders under different labels were rejected")
				}
			}
		})
		if panicked {
			res.Violation("lifecycle-panic", fmt.Sprintf("%s panicked: %s", op.Op, msg), det)
			return
		}
		if stop {
			return
		}
	}
	res.Sample(h)
}
