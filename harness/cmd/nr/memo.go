package main

import (
	"encoding/json"
	"fmt"
	gobig "math/big"
	mrand "math/rand"

	"verifharness/hx"

	"github.com/privacybydesign/gabi"
	"github.com/privacybydesign/gabi/big"
	"github.com/privacybydesign/gabi/gabikeys"
	"github.com/privacybydesign/gabi/revocation"
)

// nr memo --in histories.ndjson
//
// SaccMemo.tla: every history of operations on ONE SignedAccumulator object - the one in the non-revocation witness of a
// credential that was read from storage - is replayed on the real object, and every Verify / Ensure on the way is compared
// with the outcome the specification owes (error or not, and WHICH accumulator is handed out).
//
//	sign v      the issuer signs its accumulator object of value v (a0: index 0, a1: index 1); the witness gets the result
//	mutate      the issuer changes that accumulator object (Index = 7, Nu = 4)
//	decode m    json.Unmarshal of the signed message m into the object (m0, m1: index 0 / 1 under the issuer's key,
//	            mX: index 1 under another key, bad: garbage)
//	edit        all bytes of Data are overwritten in place
//	setfield    the exported field Accumulator is assigned a made-up accumulator (index 9)
//	verify k    SignedAccumulator.UnmarshalVerify(pk_k)
//	ensure      Credential.NonrevBuildProofBuilder(), which calls ensureAccumulator and then reads the witness and its
//	            .Accumulator; the witness value u is first set to the one that is valid for the accumulator the current
//	            bytes really carry, so that the call must succeed exactly if these bytes are signed by the issuer
//
// VIOLATION = an outcome that differs from the specification's, or a panic.
type mOp struct {
	Op    string `json:"op"`
	Arg   string `json:"arg"`
	Ok    bool   `json:"ok"`
	Value string `json:"value"`
}

type memoWorld struct {
	kp      hx.KeyPair
	pk2     *gabikeys.PublicKey // the other key, with the same counter
	accs    [2]*revocation.Accumulator
	us      [2]*big.Int // the holder's u for index 0 and index 1
	msgs    map[string][]byte
	stored  []byte
	payload map[string]int // message -> index its bytes carry (-1: none)
}

func newMemoWorld(kp, other hx.KeyPair, rng *mrand.Rand) *memoWorld {
	w := &memoWorld{kp: kp, msgs: map[string][]byte{}, payload: map[string]int{"m0": 0, "m1": 1, "mX": 1, "bad": -1}}
	c := newChain(kp)
	cred := c.holder(rng)
	bts, err := json.Marshal(cred)
	if err != nil {
		hx.Fatal("marshal credential: %v", err)
	}
	w.stored = bts
	w.us[0] = new(big.Int).Set(cred.NonRevocationWitness.U)
	c.revoke(freshPrime())
	wit := *cred.NonRevocationWitness
	wit.U = new(big.Int).Set(wit.U)
	if err := wit.Update(kp.PK, c.update(0)); err != nil {
		hx.Fatal("witness update: %v", err)
	}
	w.us[1] = wit.U
	w.accs[0], w.accs[1] = c.accs[0], c.accs[1]
	for i, name := range []string{"m0", "m1"} {
		b, err := json.Marshal(c.sacc(i))
		if err != nil {
			hx.Fatal("marshal: %v", err)
		}
		w.msgs[name] = b
	}
	// the same accumulator of index 1 signed under another key that carries the same counter
	sk2 := *other.SK
	sk2.Counter = kp.SK.Counter
	a1 := *c.accs[1]
	sx, err := a1.Sign(&sk2)
	if err != nil {
		hx.Fatal("sign: %v", err)
	}
	b, _ := json.Marshal(&revocation.SignedAccumulator{Data: sx.Data, PKCounter: sx.PKCounter})
	w.msgs["mX"] = b
	pk2 := *other.PK
	pk2.Counter = kp.PK.Counter
	w.pk2 = &pk2
	garbage := make([]byte, len(c.saccs[0].Data))
	for i := range garbage {
		garbage[i] = byte(0x80 | rng.Intn(64))
	}
	b, _ = json.Marshal(&revocation.SignedAccumulator{Data: garbage, PKCounter: kp.PK.Counter})
	w.msgs["bad"] = b
	return w
}

// abstract value of an accumulator
func (w *memoWorld) valueOf(a *revocation.Accumulator) string {
	if a == nil {
		return "none"
	}
	for i, name := range []string{"a0", "a1"} {
		if a.Index == w.accs[i].Index && a.Nu != nil && a.Nu.Cmp(w.accs[i].Nu) == 0 && a.Time == w.accs[i].Time {
			return name
		}
	}
	switch a.Index {
	case 7:
		return "mut"
	case 9:
		return "forged"
	}
	return fmt.Sprintf("other(index %d)", a.Index)
}

func memo(a *hx.Args, kps []hx.KeyPair, rng *mrand.Rand, res *hx.Result) {
	var hs [][]mOp
	for _, l := range hx.ReadNDJSON(a.In) {
		var h []mOp
		if err := json.Unmarshal(l, &h); err != nil {
			hx.Fatal("bad history: %v", err)
		}
		hs = append(hs, h)
	}
	if a.N > 0 && len(hs) > a.N {
		rng.Shuffle(len(hs), func(i, j int) { hs[i], hs[j] = hs[j], hs[i] })
		hs = hs[:a.N]
	}
	w := newMemoWorld(kps[0], kps[1], rng)
	hx.Parallel(len(hs), func(i int) {
		runMemo(w, hs[i], res)
	})
}

func runMemo(w *memoWorld, h []mOp, res *hx.Result) {
	cred := &gabi.Credential{Pk: w.kp.PK}
	if err := json.Unmarshal(w.stored, cred); err != nil {
		hx.Fatal("unmarshal credential: %v", err)
	}
	wit := cred.NonRevocationWitness
	var callerAcc *revocation.Accumulator
	current := 0 // index the current bytes carry (-1: garbage)
	signedByIssuer := true
	fail := func(kind, what string, step int) {
		res.Violation(kind, what, hx.M{"history": h, "step": step})
	}
	for step, op := range h {
		var failed bool
		panicked, msg := hx.Try(func() {
			switch op.Op {
			case "sign":
				i := 0
				if op.Arg == "a1" {
					i = 1
				}
				acc := *w.accs[i]
				acc.Nu = new(big.Int).Set(acc.Nu)
				acc.EventHash = append(revocation.Hash(nil), acc.EventHash...)
				callerAcc = &acc
				sacc, err := callerAcc.Sign(w.kp.SK)
				if err != nil {
					hx.Fatal("sign: %v", err)
				}
				wit.SignedAccumulator = sacc
				current, signedByIssuer = i, true
			case "mutate":
				callerAcc.Index = 7
				callerAcc.Nu = big.NewInt(4)
			case "decode":
				if err := json.Unmarshal(w.msgs[op.Arg], wit.SignedAccumulator); err != nil {
					hx.Fatal("decode %s: %v", op.Arg, err)
				}
				current, signedByIssuer = w.payload[op.Arg], op.Arg == "m0" || op.Arg == "m1"
			case "edit":
				for i := range wit.SignedAccumulator.Data {
					wit.SignedAccumulator.Data[i] = 0xff
				}
				current, signedByIssuer = -1, false
			case "setfield":
				wit.SignedAccumulator.Accumulator = &revocation.Accumulator{Nu: big.Convert(gobig.NewInt(4)), Index: 9, Time: w.accs[0].Time}
			case "verify":
				res.Eval("memo:verify")
				pk := w.kp.PK
				if op.Arg == "K2" {
					pk = w.pk2
				}
				acc, err := wit.SignedAccumulator.UnmarshalVerify(pk)
				got := w.valueOf(acc)
				switch {
				case (err == nil) != op.Ok && op.Ok:
					fail("genuine-accumulator-refused", fmt.Sprintf("step %d: UnmarshalVerify(%s) failed (%v); the current bytes are signed by that key", step, op.Arg, err), step)
					failed = true
				case (err == nil) != op.Ok:
					fail("unauthentic-accumulator-accepted", fmt.Sprintf("step %d: UnmarshalVerify(%s) returned the accumulator %s without error; the current bytes are not a message signed by that key", step, op.Arg, got), step)
					failed = true
				case err == nil && got != op.Value:
					fail("accumulator-differs-from-signed-bytes", fmt.Sprintf("step %d: UnmarshalVerify(%s) returned the accumulator %s; the bytes the object holds carry %s", step, op.Arg, got, op.Value), step)
					failed = true
				}
			case "ensure":
				res.Eval("memo:ensure")
				// the honest holder: the witness value that belongs to the accumulator the bytes really carry
				if current >= 0 {
					wit.U = new(big.Int).Set(w.us[current])
				}
				_, err := cred.NonrevBuildProofBuilder()
				got := w.valueOf(wit.SignedAccumulator.Accumulator)
				switch {
				case err != nil && op.Ok:
					fail("honest-holder-cannot-prove", fmt.Sprintf("step %d: NonrevBuildProofBuilder failed (%v) for a witness that is valid for the issuer-signed accumulator its SignedAccumulator carries (index %d)", step, err, current), step)
					failed = true
				case err == nil && !op.Ok:
					fail("unauthentic-accumulator-accepted", fmt.Sprintf("step %d: NonrevBuildProofBuilder went ahead with the accumulator %s; the bytes of the witness' SignedAccumulator are not signed by the issuer", step, got), step)
					failed = true
				case err == nil && got != op.Value:
					fail("accumulator-differs-from-signed-bytes", fmt.Sprintf("step %d: after NonrevBuildProofBuilder the witness' accumulator is %s; the bytes it holds carry %s", step, got, op.Value), step)
					failed = true
				}
				_ = signedByIssuer
			default:
				hx.Fatal("unknown op %q", op.Op)
			}
		})
		if panicked {
			fail("memo-panic", fmt.Sprintf("step %d (%s %s) panicked: %s", step, op.Op, op.Arg, msg), step)
			return
		}
		if failed {
			return
		}
	}
	res.Count(fmt.Sprintf("memo:last=%s:ok=%v", h[len(h)-1].Op, h[len(h)-1].Ok))
}

// nr witapi --in scenarios.ndjson
//
// RevAPI.tla, scenarios "prove": a credential whose non-revocation witness was built in memory, read from storage, or stored
// incompletely (without u / without e) starts a non-revocation proof through each of the three entry points. The caller is
// owed an error for the incomplete witnesses - never a panic - and a verifying proof otherwise.
type wScen struct {
	S struct {
		Call string `json:"call"`
		Wit  string `json:"wit"`
		Via  string `json:"via"`
	} `json:"s"`
	Expect struct {
		Class string `json:"class"`
		Post  string `json:"post"`
	} `json:"expect"`
}

func witapi(a *hx.Args, kps []hx.KeyPair, rng *mrand.Rand, res *hx.Result) {
	kp := kps[0]
	c := newChain(kp)
	built := c.holder(rng)
	bts, err := json.Marshal(built)
	if err != nil {
		hx.Fatal("marshal credential: %v", err)
	}
	for _, l := range hx.ReadNDJSON(a.In) {
		var sc wScen
		if err := json.Unmarshal(l, &sc); err != nil {
			hx.Fatal("bad scenario: %v", err)
		}
		if sc.S.Call != "prove" {
			continue
		}
		res.Eval(string(l))
		cred := built
		if sc.S.Wit != "built" {
			var m map[string]json.RawMessage
			if err := json.Unmarshal(bts, &m); err != nil {
				hx.Fatal("unmarshal: %v", err)
			}
			var wm map[string]json.RawMessage
			if err := json.Unmarshal(m["nonrevWitness"], &wm); err != nil {
				hx.Fatal("credential JSON has no witness: %v", err)
			}
			if f, ok := map[string]string{"decoded-no-u": "u", "decoded-no-e": "e"}[sc.S.Wit]; ok {
				if _, present := wm[f]; !present {
					hx.Fatal("witness JSON has no field %q", f)
				}
				delete(wm, f)
			}
			m["nonrevWitness"], _ = json.Marshal(wm)
			b2, _ := json.Marshal(m)
			cred = &gabi.Credential{Pk: kp.PK}
			if err := json.Unmarshal(b2, cred); err != nil {
				hx.Fatal("unmarshal credential: %v", err)
			}
		}
		var cerr error
		verified := true
		panicked, msg := hx.Try(func() {
			switch sc.S.Via {
			case "prepare":
				cerr = cred.NonrevPrepareCache()
			case "builder":
				_, cerr = cred.NonrevBuildProofBuilder()
			default:
				ctx, nonce := big.NewInt(1), randBits(rng, 80)
				var pd *gabi.ProofD
				pd, cerr = cred.CreateDisclosureProof([]int{1}, nil, true, ctx, nonce)
				if cerr == nil {
					verified = gabi.ProofList{pd}.Verify([]*gabikeys.PublicKey{kp.PK}, ctx, nonce, false, nil) && pd.HasNonRevocationProof()
				}
			}
		})
		det := hx.M{"scenario": sc.S, "expected": sc.Expect}
		switch {
		case panicked:
			res.Violation("api-panic", fmt.Sprintf("%s on a credential whose witness is %s panicked: %s", sc.S.Via, sc.S.Wit, msg), det)
		case (cerr == nil) != (sc.Expect.Class == "ok") && cerr != nil:
			res.Violation("api-spurious-failure", fmt.Sprintf("%s on a credential whose witness is %s failed: %v", sc.S.Via, sc.S.Wit, cerr), det)
		case (cerr == nil) != (sc.Expect.Class == "ok"):
			res.Violation("api-accepts-invalid-state", fmt.Sprintf("%s on a credential whose witness is %s (incomplete) returned no error", sc.S.Via, sc.S.Wit), det)
		case cerr == nil && !verified:
			res.Violation("honest-proof-rejected", fmt.Sprintf("the proof made by %s on a credential whose witness is %s does not verify", sc.S.Via, sc.S.Wit), det)
		default:
			res.Count("witapi:" + sc.Expect.Class)
		}
	}
}
