// Command nr binds NonRev.tla to the real non-revocation proof code (C11).
//
//	nr replay --in histories.ndjson   operation histories on a real credential with attacks on the produced proofs
//	nr d10                            the known finding D10 constructed deliberately
package main

import (
	"crypto/rand"
	"encoding/json"
	"fmt"
	gobig "math/big"
	mrand "math/rand"
	"os"

	"verifharness/hx"

	"github.com/privacybydesign/gabi"
	"github.com/privacybydesign/gabi/big"
	"github.com/privacybydesign/gabi/revocation"
	"github.com/privacybydesign/gabi/verifx"
)

type aOp struct {
	Op        string `json:"op"`
	Ok        bool   `json:"ok"`
	Idx       int    `json:"idx"`
	T         int    `json:"t"`
	Kind      string `json:"kind"`
	FromCache bool   `json:"fromcache"`
	Refreshed bool   `json:"refreshed"`
}
type aHist struct {
	Hist []aOp `json:"hist"`
}

func randBits(rng *mrand.Rand, bits uint) *big.Int {
	b := make([]byte, (bits+7)/8)
	rng.Read(b)
	x := new(gobig.Int).SetBytes(b)
	return big.Convert(x.Rsh(x, uint(len(b))*8-bits))
}

// issuer side of one accumulator chain
const timeBase = 1_700_000_000

type chain struct {
	kp     hx.KeyPair
	t      int // abstract time of the current signed accumulator
	accs   []*revocation.Accumulator
	saccs  []*revocation.SignedAccumulator
	events []*revocation.Event
}

func newChain(kp hx.KeyPair) *chain {
	u, err := revocation.NewAccumulator(kp.SK)
	if err != nil {
		hx.Fatal("NewAccumulator: %v", err)
	}
	acc, err := u.SignedAccumulator.UnmarshalVerify(kp.PK)
	if err != nil {
		hx.Fatal("UnmarshalVerify: %v", err)
	}
	c := &chain{kp: kp, accs: []*revocation.Accumulator{acc}, saccs: []*revocation.SignedAccumulator{u.SignedAccumulator}, events: u.Events}
	c.resignAt(0)
	return c
}

// resignAt signs the current accumulator again with the given abstract time.
func (c *chain) resignAt(t int) {
	n := len(c.accs) - 1
	a := *c.accs[n]
	a.Time = timeBase + int64(t)
	s, err := a.Sign(c.kp.SK)
	if err != nil {
		hx.Fatal("Sign: %v", err)
	}
	c.accs[n], c.saccs[n], c.t = &a, s, t
}

func (c *chain) revoke(e *big.Int) {
	n := len(c.accs) - 1
	acc, ev, err := c.accs[n].Remove(c.kp.SK, e, c.events[n])
	if err != nil {
		hx.Fatal("Remove: %v", err)
	}
	c.t++
	acc.Time = timeBase + int64(c.t)
	sacc, err := acc.Sign(c.kp.SK)
	if err != nil {
		hx.Fatal("Sign: %v", err)
	}
	c.accs, c.saccs, c.events = append(c.accs, acc), append(c.saccs, sacc), append(c.events, ev)
}

// update from the witness' index to the current accumulator
func (c *chain) update(from int) *revocation.Update {
	n := len(c.accs) - 1
	s := *c.saccs[n]
	u := &revocation.Update{SignedAccumulator: &s, Events: []*revocation.Event{}}
	if from+1 <= n {
		u.Events = append(u.Events, c.events[from+1:]...)
	}
	return u
}

func (c *chain) sacc(i int) *revocation.SignedAccumulator {
	return &revocation.SignedAccumulator{Data: c.saccs[i].Data, PKCounter: c.saccs[i].PKCounter}
}

func (c *chain) holder(rng *mrand.Rand) *gabi.Credential {
	w, err := revocation.RandomWitness(c.kp.SK, c.accs[len(c.accs)-1])
	if err != nil {
		hx.Fatal("RandomWitness: %v", err)
	}
	s := *c.saccs[len(c.saccs)-1]
	w.SignedAccumulator = &s
	attrs := []*big.Int{randBits(rng, 200), randBits(rng, 200), randBits(rng, 200), w.E}
	cred, err := hx.Issue(c.kp, big.NewInt(1), randBits(rng, 250), nil, attrs, w, nil)
	if err != nil {
		hx.Fatal("issuance: %v", err)
	}
	return cred
}

func freshPrime() *big.Int {
	p, err := verifx.RandomPrimeInRange(rand.Reader, 3, revocation.Parameters.AttributeSize)
	if err != nil {
		hx.Fatal("prime: %v", err)
	}
	return p
}

const revIdx = 4 // the witness value is attribute 4 of the credentials made here

func clone(p *gabi.ProofD) *gabi.ProofD {
	b, err := json.Marshal(p)
	if err != nil {
		hx.Fatal("marshal proof: %v", err)
	}
	q := &gabi.ProofD{}
	if err := json.Unmarshal(b, q); err != nil {
		hx.Fatal("unmarshal proof: %v", err)
	}
	return q
}

func main() {
	if len(os.Args) < 2 {
		hx.Fatal("usage: nr replay|d10|lifecycle|memo ...")
	}
	cmd := os.Args[1]
	os.Args = append(os.Args[:1], os.Args[2:]...)
	a := hx.ParseArgs()
	res := hx.NewResult()
	rng := hx.Rng(a.Seed, "nr")
	kps := append(hx.Keys1024(), hx.Key3())
	switch cmd {
	case "replay":
		lines := hx.ReadNDJSON(a.In)
		var hs []aHist
		for _, l := range lines {
			var h aHist
			if err := json.Unmarshal(l, &h); err != nil {
				hx.Fatal("bad history: %v", err)
			}
			hs = append(hs, h)
		}
		if a.N > 0 && len(hs) > a.N {
			rng.Shuffle(len(hs), func(i, j int) { hs[i], hs[j] = hs[j], hs[i] })
			hs = hs[:a.N]
		}
		seeds := make([]int64, len(hs))
		for i := range seeds {
			seeds[i] = rng.Int63()
		}
		hx.Parallel(len(hs), func(i int) {
			runHistory(kps[i%len(kps)], hs[i], mrand.New(mrand.NewSource(seeds[i])), res)
		})
	case "d10":
		d10(kps[0], rng, res)
	case "lifecycle":
		lifecycle(a, kps, rng, res)
	case "memo":
		memo(a, kps, rng, res)
	case "witapi":
		witapi(a, kps, rng, res)
	default:
		hx.Fatal("unknown subcommand")
	}
	res.Write(a.Out)
}

func embeddedTime(kp hx.KeyPair, p *gabi.ProofD) int {
	s := &revocation.SignedAccumulator{Data: p.NonRevocationProof.SignedAccumulator.Data, PKCounter: p.NonRevocationProof.SignedAccumulator.PKCounter}
	acc, err := s.UnmarshalVerify(kp.PK)
	if err != nil {
		return -1
	}
	return int(acc.Time - timeBase)
}

func embeddedIndex(kp hx.KeyPair, p *gabi.ProofD) int {
	s := &revocation.SignedAccumulator{Data: p.NonRevocationProof.SignedAccumulator.Data, PKCounter: p.NonRevocationProof.SignedAccumulator.PKCounter}
	acc, err := s.UnmarshalVerify(kp.PK)
	if err != nil {
		return -1
	}
	return int(acc.Index)
}

func runHistory(kp hx.KeyPair, h aHist, rng *mrand.Rand, res *hx.Result) {
	c := newChain(kp)
	cred := c.holder(rng)
	other := c.holder(rng) // another holder of the same issuer with an own valid witness (source of transplants)
	ctx, nonce := big.NewInt(1), randBits(rng, 80)
	b, _ := json.Marshal(h)
	res.Eval(hx.Digest(b))
	var last *gabi.ProofD
	// the state the holder stores at issuance (rollback reads it back into the variable in use), and the index the witness is at
	// (kept by the harness: after a rollback the unserialised fields of the objects do not tell)
	stored0, err := json.Marshal(cred)
	if err != nil {
		hx.Fatal("marshal credential: %v", err)
	}
	witIdx := 0
	for step, op := range h.Hist {
		det := hx.M{"history": h.Hist, "step": step, "key": kp.PK.Issuer}
		var violated bool
		panicked, msg := hx.Try(func() {
			switch op.Op {
			case "prepare":
				if err := cred.NonrevPrepareCache(); err != nil {
					res.Violation("prepare-failed", fmt.Sprintf("NonrevPrepareCache: %v", err), det)
					violated = true
					return
				}
				cb := cred.VerifCachedNonrevBuilder()
				if cb == nil {
					res.Violation("cache-empty-after-prepare", "no cached builder after NonrevPrepareCache", det)
					violated = true
					return
				}
				if idx, _ := cb.VerifState(); int(idx) != op.Idx {
					res.Violation("cached-commitment-stale", fmt.Sprintf("cached builder committed to index %d, witness is at %d", idx, op.Idx), det)
					violated = true
				}
			case "revokeother":
				c.revoke(freshPrime())
			case "resign":
				c.resignAt(c.t + 1)
			case "revokeself":
				c.revoke(cred.NonRevocationWitness.E)
			case "update":
				err := cred.NonRevocationWitness.Update(kp.PK, c.update(witIdx))
				if err == nil {
					witIdx = op.Idx
				}
				// the other holder follows every update
				ofrom := int(other.NonRevocationWitness.SignedAccumulator.Accumulator.Index)
				if oerr := other.NonRevocationWitness.Update(kp.PK, c.update(ofrom)); oerr != nil {
					hx.Fatal("other holder's update: %v", oerr)
				}
				if op.Ok && err != nil {
					res.Violation("update-failed", fmt.Sprintf("Witness.Update of a non-revoked witness: %v", err), det)
					violated = true
				}
				if !op.Ok && err != revocation.ErrorRevoked {
					res.Violation("revocation-not-reported", fmt.Sprintf("Witness.Update of a revoked witness returned %v", err), det)
					violated = true
				}
				if got := int(cred.NonRevocationWitness.SignedAccumulator.Accumulator.Index); got != op.Idx {
					res.Violation("witness-index-diverges", fmt.Sprintf("witness at index %d, spec %d", got, op.Idx), det)
					violated = true
				}
			case "rollback":
				if err := json.Unmarshal(stored0, cred); err != nil {
					hx.Fatal("reading the stored credential back: %v", err)
				}
				witIdx = 0
			case "prove":
				hadCache := cred.VerifCachedNonrevBuilder() != nil
				p, err := cred.CreateDisclosureProof([]int{1}, nil, true, ctx, nonce)
				if err != nil {
					res.Violation("honest-nonrev-proof-not-created", fmt.Sprintf("CreateDisclosureProof(nonrev): %v", err), det)
					violated = true
					return
				}
				if hadCache != op.FromCache {
					res.Count("cache-use-diverges")
				}
				ok := clone(p).Verify(kp.PK, ctx, nonce, false)
				if !ok {
					if hx.D10Ambiguous(p, revIdx) {
						res.Violation("honest-nonrev-proof-rejected", "honest non-revocation proof rejected", hx.M{"cause": "other-hidden-response-below-alpha-bound", "history": h.Hist, "step": step})
					} else {
						res.Violation("honest-nonrev-proof-rejected", "honest non-revocation proof rejected (not the D10 pattern)", hx.M{"cause": "unknown", "history": h.Hist, "step": step,
							"fromcache": hadCache, "refreshed": op.Refreshed})
						violated = true
					}
					last = nil
					return
				}
				if got := embeddedIndex(kp, p); got != op.Idx {
					res.Violation("proof-reads-wrong-accumulator", fmt.Sprintf("accepted proof embeds accumulator index %d, it was made against %d", got, op.Idx), det)
					violated = true
				}
				if got := embeddedTime(kp, p); got != op.T {
					res.Violation("proof-reads-wrong-accumulator", fmt.Sprintf("accepted proof embeds an accumulator signed at time %d, the witness it was made from holds the one signed at %d", got, op.T), det)
					violated = true
				}
				res.Count(fmt.Sprintf("prove:fromcache=%v:refreshed=%v", op.FromCache, op.Refreshed))
				last = p
			case "attack":
				if last == nil {
					return
				}
				attack(kp, c, cred, other, last, op.Kind, ctx, nonce, rng, res, det)
			}
		})
		if panicked {
			res.Violation("nonrev-panic", fmt.Sprintf("%s panicked: %s", op.Op, msg), det)
			return
		}
		if violated {
			return
		}
	}
	res.Sample(h)
}

func attack(kp hx.KeyPair, c *chain, cred, other *gabi.Credential, last *gabi.ProofD, kind string, ctx, nonce *big.Int, rng *mrand.Rand, res *hx.Result, det hx.M) {
	p := clone(last)
	n := kp.PK.N
	mul4 := func(x *big.Int) *big.Int { return new(big.Int).Mod(new(big.Int).Mul(x, big.NewInt(4)), n) }
	bump := func(x *big.Int) *big.Int { return new(big.Int).Add(x, big.NewInt(1)) }
	idx := embeddedIndex(kp, last)
	applicable := true
	switch kind {
	case "Cr":
		p.NonRevocationProof.Cr = mul4(p.NonRevocationProof.Cr)
	case "Cu":
		p.NonRevocationProof.Cu = mul4(p.NonRevocationProof.Cu)
	case "beta", "delta", "epsilon", "zeta":
		p.NonRevocationProof.Responses[kind] = bump(p.NonRevocationProof.Responses[kind])
	case "alpha-response":
		p.AResponses[revIdx] = bump(p.AResponses[revIdx])
	case "sacc-older":
		if idx < 1 {
			applicable = false
		} else {
			p.NonRevocationProof.SignedAccumulator = c.sacc(idx - 1)
		}
	case "sacc-newer":
		if idx+1 >= len(c.saccs) {
			applicable = false
		} else {
			p.NonRevocationProof.SignedAccumulator = c.sacc(idx + 1)
		}
	case "sacc-otherchain":
		p.NonRevocationProof.SignedAccumulator = newChain(kp).sacc(0)
	case "sacc-garbled":
		d := append([]byte{}, p.NonRevocationProof.SignedAccumulator.Data...)
		d[len(d)/3] ^= 0x10
		p.NonRevocationProof.SignedAccumulator = &revocation.SignedAccumulator{Data: d, PKCounter: p.NonRevocationProof.SignedAccumulator.PKCounter}
	case "transplant":
		// the other holder proves non-revocation in the same session; its non-revocation part is moved over
		op, err := other.CreateDisclosureProof([]int{1}, nil, true, ctx, nonce)
		if err != nil {
			applicable = false
		} else {
			p.NonRevocationProof = clone(op).NonRevocationProof
		}
	case "strip":
		p.NonRevocationProof = nil
	case "foreign-witness-sk", "foreign-witness-attr":
		// B: a value with a valid witness for the newest accumulator. The attacker's credential has a revocation attribute
		// for which it holds NO valid witness (it stands for a revoked one) and carries B's value in a hidden attribute.
		newest := len(c.accs) - 1
		wB, err := revocation.RandomWitness(kp.SK, c.accs[newest])
		if err != nil {
			hx.Fatal("RandomWitness: %v", err)
		}
		sa := *c.saccs[newest]
		wB.SignedAccumulator = &sa
		secret := randBits(rng, 250)
		attrs := []*big.Int{randBits(rng, 200), randBits(rng, 200), randBits(rng, 200), freshPrime()}
		at := 0
		if kind == "foreign-witness-sk" {
			secret = new(big.Int).Set(wB.E)
		} else {
			at = 1
			attrs[0] = new(big.Int).Set(wB.E)
		}
		acred, err := hx.Issue(kp, big.NewInt(1), secret, nil, attrs, nil, nil)
		if err != nil {
			hx.Fatal("issuance: %v", err)
		}
		b, err := acred.CreateDisclosureProofBuilder([]int{2}, nil, false)
		if err != nil {
			hx.Fatal("builder: %v", err)
		}
		r := revocation.NewProofRandomizer()
		rnd, _ := gabi.NewProofRandomizers()
		if at == 0 {
			rnd["secretkey"] = r
		} else {
			b.VerifSetAttrRandomizer(at, r)
		}
		// the response of the real revocation attribute must not look like one: a randomiser of full length with its top bit set
		pad := randBits(rng, kp.PK.Params.LmCommit)
		pad.SetBit(pad, int(kp.PK.Params.LmCommit)-1, 1)
		b.VerifSetAttrRandomizer(revIdx, pad)
		contrib, err := b.Commit(rnd)
		if err != nil {
			hx.Fatal("commit: %v", err)
		}
		nrc, ncommit, err := revocation.NewProofCommit(kp.PK, wB, r)
		if err != nil {
			hx.Fatal("NewProofCommit: %v", err)
		}
		l := append([]*big.Int{ctx}, contrib...)
		l = append(append(l, nrc...), nonce)
		ch := verifx.HashCommit(l, false)
		p = b.CreateProof(ch).(*gabi.ProofD)
		p.NonRevocationProof = ncommit.BuildProof(ch)
	case "Cr-zero":
		p.NonRevocationProof.Cr = zeroRep(n, rng)
	case "Cu-zero":
		p.NonRevocationProof.Cu = zeroRep(n, rng)
	case "zero-forgery":
		// the holder builds a proof without its witness: Cr = Cu = 0 mod n, zeros hashed for the three commitments the
		// verifier will reconstruct, the issuer's newest signed accumulator embedded
		b, err := cred.CreateDisclosureProofBuilder([]int{1}, nil, false)
		if err != nil {
			hx.Fatal("builder: %v", err)
		}
		b.VerifSetAttrRandomizer(revIdx, revocation.NewProofRandomizer())
		rnd, _ := gabi.NewProofRandomizers()
		contrib, err := b.Commit(rnd)
		if err != nil {
			hx.Fatal("commit: %v", err)
		}
		newest := c.sacc(len(c.saccs) - 1)
		acc, err := newest.UnmarshalVerify(kp.PK)
		if err != nil {
			hx.Fatal("newest accumulator: %v", err)
		}
		zr, zu, z := zeroRep(n, rng), zeroRep(n, rng), big.NewInt(0)
		// (the hash sees the representatives as they are sent)
		l := append([]*big.Int{ctx}, contrib[:2]...)
		l = append(l, zr, zu, acc.Nu, z, z, z, nonce)
		p = b.CreateProof(verifx.HashCommit(l, false)).(*gabi.ProofD)
		p.NonRevocationProof = &revocation.Proof{Cr: zr, Cu: zu, SignedAccumulator: newest,
			Responses: map[string]*big.Int{"beta": randBits(rng, 200), "delta": randBits(rng, 200), "epsilon": randBits(rng, 200), "zeta": randBits(rng, 200)}}
	case "witness-attr-disclosed":
		q, err := cred.CreateDisclosureProof([]int{1, revIdx}, nil, true, ctx, nonce)
		if err != nil {
			res.Count("attack:witness-attr-disclosed:prover-refused")
			return
		}
		p = clone(q)
	default:
		hx.Fatal("unknown attack %s", kind)
	}
	if !applicable {
		res.Count("attack:" + kind + ":not-applicable")
		return
	}
	ok := p.Verify(kp.PK, ctx, nonce, false)
	res.Count(fmt.Sprintf("attack:%s:accepted=%v", kind, ok))
	// the same content in objects with a history: the ProofD (and its non-revocation part) that verified the honest proof
	// are overwritten field by field with the manipulated content and verified again
	if host := clone(last); host.Verify(kp.PK, ctx, nonce, false) || hx.D10Ambiguous(host, revIdx) {
		q := p
		if host.NonRevocationProof != nil && q.NonRevocationProof != nil {
			hx.Overwrite(host.NonRevocationProof, q.NonRevocationProof)
			q.NonRevocationProof = host.NonRevocationProof
		}
		hx.Overwrite(host, q)
		if ok2 := host.Verify(kp.PK, ctx, nonce, false); ok2 != ok && !hx.D10Ambiguous(host, revIdx) {
			d := hx.M{"attack": kind}
			for k, v := range det {
				d[k] = v
			}
			res.Violation("verdict-depends-on-object-history", fmt.Sprintf("the manipulated proof (%s) is judged %v in fresh objects but %v in objects that verified the honest proof before", kind, ok, ok2), d)
			return
		}
		res.Count("attack:reused-object-agrees")
	}
	if ok {
		d := hx.M{"attack": kind}
		for k, v := range det {
			d[k] = v
		}
		if kind == "foreign-witness-attr" {
			d["cause"] = "witness-attribute-not-identified"
			res.Violation("foreign-witness-accepted", "a disclosure proof was accepted whose non-revocation part proves the witness of ANOTHER value, carried by an ordinary hidden attribute of the credential, while the credential's revocation attribute has no valid witness", d)
			return
		}
		res.Violation("manipulated-nonrev-proof-accepted", "a disclosure proof with a manipulated non-revocation part was accepted ("+kind+")", d)
	}
}

// zeroRep returns a representative of 0 modulo n: 0, n, -n or 2n.
func zeroRep(n *big.Int, rng *mrand.Rand) *big.Int {
	return []*big.Int{big.NewInt(0), new(big.Int).Set(n), new(big.Int).Neg(n), new(big.Int).Lsh(n, 1)}[rng.Intn(4)]
}

// d10 constructs the known finding: an honest proof in which another hidden response is below the alpha bound.
func d10(kp hx.KeyPair, rng *mrand.Rand, res *hx.Result) {
	c := newChain(kp)
	cred := c.holder(rng)
	ctx := big.NewInt(1)
	for trial := 0; trial < 6; trial++ {
		nonce := randBits(rng, 80)
		b, err := cred.CreateDisclosureProofBuilder([]int{1}, nil, true)
		if err != nil {
			hx.Fatal("builder: %v", err)
		}
		b.VerifSetAttrRandomizer(2, randBits(rng, 300)) // a randomizer that happens to be small: probability 2^-12 per attribute in honest use
		list, err := gabi.ProofBuilderList{b}.BuildProofList(ctx, nonce, false)
		if err != nil {
			hx.Fatal("BuildProofList: %v", err)
		}
		p := list[0].(*gabi.ProofD)
		if !hx.D10Ambiguous(p, revIdx) {
			hx.Fatal("construction of the D10 pattern failed")
		}
		rejected := 0
		for i := 0; i < 48; i++ {
			if !clone(p).Verify(kp.PK, ctx, nonce, false) {
				rejected++
			}
		}
		res.Eval(fmt.Sprintf("d10/%d", trial))
		res.Count(fmt.Sprintf("d10:rejected=%d/48", rejected))
		if rejected > 0 {
			res.Violation("honest-nonrev-proof-rejected", fmt.Sprintf("honest non-revocation proof rejected in %d of 48 verifications of the same proof", rejected),
				hx.M{"cause": "other-hidden-response-below-alpha-bound", "constructed": true})
		}
	}
	res.Sample(hx.M{"d10": "honest proof with a second hidden response below 2^580, verified 48 times"})
}
