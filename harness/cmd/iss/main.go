// Command iss binds Issuance.tla to the real issuance protocol code (C06).
//
//	iss replay --in cases.ndjson   every (configuration, single fault) case over several concrete attribute layouts
package main

import (
	"encoding/json"
	"fmt"
	gobig "math/big"
	mrand "math/rand"
	"os"
	"sort"

	"verifharness/hx"

	"github.com/privacybydesign/gabi"
	"github.com/privacybydesign/gabi/big"
	"github.com/privacybydesign/gabi/gabikeys"
	"github.com/privacybydesign/gabi/revocation"
)

type aCfg struct {
	Blind bool `json:"blind"`
	Wit   bool `json:"wit"`
	Ks    bool `json:"ks"`
}
type aFault struct {
	Msg   string `json:"msg"`
	Field string `json:"field"`
	Kind  string `json:"kind"`
}
type aCase struct {
	Cfg     aCfg     `json:"cfg"`
	Faults  []aFault `json:"faults"`
	Outcome string   `json:"outcome"`
}

func (c aCase) hasFault(msg, kind string) bool {
	for _, f := range c.Faults {
		if f.Msg == msg && (kind == "" || f.Kind == kind) {
			return true
		}
	}
	return false
}

func randBits(rng *mrand.Rand, bits uint) *big.Int {
	b := make([]byte, (bits+7)/8)
	rng.Read(b)
	x := new(gobig.Int).SetBytes(b)
	return big.Convert(x.Rsh(x, uint(len(b))*8-bits))
}

// run is one protocol run: everything both parties hold.
type run struct {
	kp        hx.KeyPair
	ctx       *big.Int
	secret    *big.Int
	kssSecret *big.Int
	nonce1    *big.Int
	attrs     []*big.Int // as given to issuer and user (nil at blind indices)
	blind     []int
	witness   *revocation.Witness
	cb        *gabi.CredentialBuilder
	icm       *gabi.IssueCommitmentMessage
	labels    []string
}

type layout struct {
	n     int   // number of attributes
	blind []int // blind indices (0-based in the attribute list)
	sizes []int // value class per attribute
}

func (l layout) String() string { return fmt.Sprintf("n=%d blind=%v sizes=%v", l.n, l.blind, l.sizes) }

func attrValue(rng *mrand.Rand, class int, lm uint) *big.Int {
	switch class {
	case 0:
		return big.NewInt(0)
	case 1:
		return big.NewInt(1)
	case 2:
		x := randBits(rng, lm)
		return big.Convert(x.Go().SetBit(x.Go(), int(lm)-1, 1))
	case 3:
		x := randBits(rng, lm+200)
		return big.Convert(x.Go().SetBit(x.Go(), int(lm)+199, 1))
	}
	return randBits(rng, 120)
}

func newRun(kp hx.KeyPair, cfg aCfg, l layout, acc *revocation.Accumulator, sacc *revocation.SignedAccumulator, kssSecret *big.Int, rng *mrand.Rand) *run {
	r := &run{kp: kp, ctx: big.NewInt(1), secret: randBits(rng, 250), nonce1: randBits(rng, 80)}
	for i := 0; i < l.n; i++ {
		r.attrs = append(r.attrs, attrValue(rng, l.sizes[i], kp.PK.Params.Lm))
	}
	if cfg.Blind {
		r.blind = append(r.blind, l.blind...)
		for _, i := range r.blind {
			r.attrs[i] = nil
		}
	}
	if cfg.Wit {
		w, err := revocation.RandomWitness(kp.SK, acc)
		if err != nil {
			hx.Fatal("witness: %v", err)
		}
		cp := *sacc
		w.SignedAccumulator = &cp
		r.witness = w
		r.attrs = append(r.attrs, w.E)
	}
	var ksp *big.Int
	if cfg.Ks {
		r.kssSecret = kssSecret
		ksp = big.Convert(new(gobig.Int).Exp(kp.PK.R[0].Go(), kssSecret.Go(), kp.PK.N.Go()))
	}
	cb, err := gabi.NewCredentialBuilder(kp.PK, r.ctx, r.secret, randBits(rng, 80), ksp, r.blind)
	if err != nil {
		hx.Fatal("NewCredentialBuilder: %v", err)
	}
	r.cb = cb
	if !cfg.Ks {
		r.icm, err = cb.CommitToSecretAndProve(r.nonce1)
		if err != nil {
			hx.Fatal("CommitToSecretAndProve: %v", err)
		}
		return r
	}
	// with a keyshare contribution the commitment proof is completed by the keyshare server
	builders := gabi.ProofBuilderList{cb}
	keys := map[string]*gabikeys.PublicKey{"k": kp.PK}
	randomizers := map[string]*big.Int{"secretkey": randBits(rng, gabikeys.DefaultSystemParameters[1024].LmCommit)}
	commReq, hashInput, err := gabi.KeyshareUserCommitmentRequest(builders, randomizers, keys)
	if err != nil {
		hx.Fatal("keyshare commitment request: %v", err)
	}
	kssRand, kssComm, err := gabi.NewKeyshareCommitments(kssSecret, []*gabikeys.PublicKey{kp.PK})
	if err != nil {
		hx.Fatal("keyshare commitments: %v", err)
	}
	cb.SetProofPCommitment(kssComm[0])
	respReq, challenge, err := gabi.KeyshareUserResponseRequest(builders, randomizers, hashInput, r.ctx, r.nonce1, false)
	if err != nil {
		hx.Fatal("keyshare response request: %v", err)
	}
	proofP, err := gabi.KeyshareResponse(kssSecret, kssRand, commReq, respReq, keys)
	if err != nil {
		hx.Fatal("keyshare response: %v", err)
	}
	list, err := builders.BuildDistributedProofList(challenge, []*gabi.ProofP{proofP})
	if err != nil {
		hx.Fatal("distributed proof list: %v", err)
	}
	r.icm = cb.CreateIssueCommitmentMessage(list)
	r.labels = []string{"kss"}
	return r
}

func bump(x *big.Int) *big.Int { return new(big.Int).Add(x, big.NewInt(1)) }

func firstKey(m map[int]*big.Int) int {
	var ks []int
	for k := range m {
		ks = append(ks, k)
	}
	sort.Ints(ks)
	return ks[0]
}

func main() {
	if len(os.Args) < 2 || os.Args[1] != "replay" {
		hx.Fatal("usage: iss replay ...")
	}
	os.Args = append(os.Args[:1], os.Args[2:]...)
	a := hx.ParseArgs()
	res := hx.NewResult()
	rng := hx.Rng(a.Seed, "iss")
	kps := append(hx.Keys1024(), hx.Key3())
	type rev struct {
		acc  *revocation.Accumulator
		sacc *revocation.SignedAccumulator
	}
	revs := make([]rev, len(kps))
	for i, kp := range kps {
		_, upd, err := hx.NewRevocation(kp)
		if err != nil {
			hx.Fatal("revocation: %v", err)
		}
		revs[i] = rev{upd.SignedAccumulator.Accumulator, upd.SignedAccumulator}
	}
	kssSecret := randBits(rng, 250)
	lines := hx.ReadNDJSON(a.In)
	nlay := 3
	if a.Tier == "thorough" {
		nlay = 6
	}
	type job struct {
		c  aCase
		l  layout
		k  int
		sd int64
	}
	var jobs []job
	for _, ln := range lines {
		var c aCase
		if err := json.Unmarshal(ln, &c); err != nil {
			hx.Fatal("bad case: %v", err)
		}
		for j := 0; j < nlay; j++ {
			n := 1 + rng.Intn(4) // at most 4 + witness value = 5 attributes on a key with 6 bases
			if j == 0 {
				n = 4
			}
			l := layout{n: n}
			for i := 0; i < n; i++ {
				l.sizes = append(l.sizes, rng.Intn(5))
				if rng.Intn(2) == 0 {
					l.blind = append(l.blind, i)
				}
			}
			if len(l.blind) == 0 {
				l.blind = []int{rng.Intn(n)}
			}
			if j == 2 { // a blind attribute on the LAST base of the key (6 bases: secret + 5 attributes, one taken by the witness value)
				n = 5
				if c.Cfg.Wit {
					n = 4
				}
				l = layout{n: n, blind: []int{n - 1}}
				for i := 0; i < n; i++ {
					l.sizes = append(l.sizes, rng.Intn(5))
				}
			}
			if j == 1 { // every index blind
				l.blind = nil
				for i := 0; i < n; i++ {
					l.blind = append(l.blind, i)
				}
			}
			jobs = append(jobs, job{c, l, rng.Intn(len(kps)), rng.Int63()})
		}
	}
	hx.Parallel(len(jobs), func(i int) {
		j := jobs[i]
		runCase(kps[j.k], revs[j.k].acc, revs[j.k].sacc, kssSecret, j.c, j.l, mrand.New(mrand.NewSource(j.sd)), res)
	})
	res.Write(a.Out)
}

func runCase(kp hx.KeyPair, acc *revocation.Accumulator, sacc *revocation.SignedAccumulator, kssSecret *big.Int, c aCase, l layout, rng *mrand.Rand, res *hx.Result) {
	A := newRun(kp, c.Cfg, l, acc, sacc, kssSecret, rng) // the run under attack
	B := newRun(kp, c.Cfg, l, acc, sacc, kssSecret, rng) // a parallel honest run: source of substitutions
	key := ""
	if len(c.Faults) > 0 {
		key = fmt.Sprintf("%v/%v/%s", c.Cfg, c.Faults, l)
	}
	res.Eval(key)
	det := hx.M{"case": c, "layout": l.String(), "key": kp.PK.Issuer}
	outcome := ""
	fdesc := fmt.Sprint(c.Faults)
	var cred *gabi.Credential
	var ism *gabi.IssueSignatureMessage
	panicked, msg := hx.Try(func() {
		// ---- network, first message
		icm := A.icm
		pu, _ := icm.Proofs.GetFirstProofU()
		bu, _ := B.icm.Proofs.GetFirstProofU()
		ctxView, nonce1View := A.ctx, A.nonce1
		for _, f := range c.Faults {
			if f.Msg != "icm" {
				continue
			}
			pick := func(orig, other *big.Int) *big.Int {
				switch f.Kind {
				case "alter":
					return bump(orig)
				case "other":
					return other
				}
				return nil
			}
			switch f.Field {
			case "*":
				icm = B.icm
			case "nonce2":
				icm.Nonce2 = pick(icm.Nonce2, B.icm.Nonce2)
			case "pu_U":
				pu.U = pick(pu.U, bu.U)
			case "pu_c":
				pu.C = pick(pu.C, bu.C)
			case "pu_v":
				pu.VPrimeResponse = pick(pu.VPrimeResponse, bu.VPrimeResponse)
			case "pu_s":
				pu.SResponse = pick(pu.SResponse, bu.SResponse)
			case "pu_m":
				k := firstKey(pu.MUserResponses)
				if f.Kind == "nil" {
					delete(pu.MUserResponses, k)
				} else {
					pu.MUserResponses[k] = pick(pu.MUserResponses[k], bu.MUserResponses[k])
				}
			case "nonce1":
				nonce1View = pick(nonce1View, B.nonce1)
			case "ctx":
				ctxView = pick(ctxView, nil)
			}
		}
		// ---- issuer
		ok := icm.Proofs.Verify([]*gabikeys.PublicKey{kp.PK}, ctxView, nonce1View, false, A.labels)
		if !ok {
			outcome = "issuer-reject"
			return
		}
		proofU, err := icm.Proofs.GetFirstProofU()
		if err != nil {
			outcome = "issuer-reject"
			return
		}
		// (a missing nonce is the library's to refuse: the issuer role does not look at it)
		ism, err = gabi.NewIssuer(kp.SK, kp.PK, ctxView).IssueSignature(proofU.U, A.attrs, A.witness, icm.Nonce2, A.blind)
		if err != nil {
			outcome = "issuer-reject"
			return
		}
		// the parallel run's answer, for substitutions
		var bism *gabi.IssueSignatureMessage
		if c.hasFault("ism", "other") {
			bism, err = gabi.NewIssuer(kp.SK, kp.PK, B.ctx).IssueSignature(bu.U, B.attrs, B.witness, B.icm.Nonce2, B.blind)
			if err != nil {
				hx.Fatal("parallel run: %v", err)
			}
		}
		// ---- network, second message
		for _, f := range c.Faults {
			if f.Msg != "ism" {
				continue
			}
			pick := func(orig *big.Int, other func() *big.Int) *big.Int {
				switch f.Kind {
				case "alter":
					return bump(orig)
				case "other":
					return other()
				}
				return nil
			}
			switch f.Field {
			case "*":
				ism = bism
			case "ps_c":
				ism.Proof.C = pick(ism.Proof.C, func() *big.Int { return bism.Proof.C })
			case "ps_e":
				ism.Proof.EResponse = pick(ism.Proof.EResponse, func() *big.Int { return bism.Proof.EResponse })
			case "A":
				ism.Signature.A = pick(ism.Signature.A, func() *big.Int { return bism.Signature.A })
			case "e":
				ism.Signature.E = pick(ism.Signature.E, func() *big.Int { return bism.Signature.E })
			case "v":
				ism.Signature.V = pick(ism.Signature.V, func() *big.Int { return bism.Signature.V })
			case "share":
				k := firstKey(ism.MIssuer)
				if f.Kind == "nil" {
					delete(ism.MIssuer, k)
				} else {
					ism.MIssuer[k] = pick(ism.MIssuer[k], func() *big.Int { return bism.MIssuer[k] })
				}
			case "w_u":
				ism.NonRevocationWitness.U = pick(ism.NonRevocationWitness.U, func() *big.Int { return bism.NonRevocationWitness.U })
			case "w_e":
				ism.NonRevocationWitness.E = pick(ism.NonRevocationWitness.E, func() *big.Int { return bism.NonRevocationWitness.E })
			case "w_sacc":
				switch f.Kind {
				case "alter":
					d := append([]byte{}, ism.NonRevocationWitness.SignedAccumulator.Data...)
					d[len(d)/2] ^= 1
					ism.NonRevocationWitness.SignedAccumulator = &revocation.SignedAccumulator{Data: d, PKCounter: ism.NonRevocationWitness.SignedAccumulator.PKCounter}
				case "other": // a genuinely signed accumulator of another chain under the same key
					u2, err := revocation.NewAccumulator(kp.SK)
					if err != nil {
						hx.Fatal("accumulator: %v", err)
					}
					ism.NonRevocationWitness.SignedAccumulator = &revocation.SignedAccumulator{Data: u2.SignedAccumulator.Data, PKCounter: u2.SignedAccumulator.PKCounter}
				default:
					ism.NonRevocationWitness.SignedAccumulator = nil
				}
			case "witness":
				if f.Kind == "nil" {
					ism.NonRevocationWitness = nil
				} else {
					ism.NonRevocationWitness = bism.NonRevocationWitness
				}
			}
		}
		// ---- user
		cred, err = A.cb.ConstructCredential(ism, A.attrs)
		if err != nil && cred != nil {
			outcome = "cred-with-error" // "no credential is produced" when the recipient rejects
			return
		}
		if err != nil || cred == nil {
			outcome = "user-reject"
			return
		}
		outcome = "cred"
	})
	res.Count(fmt.Sprintf("faults=%d:code=%s:spec=%s", len(c.Faults), outcome, c.Outcome))
	if outcome == "cred-with-error" {
		res.Violation("credential-from-tampered-run", fmt.Sprintf("ConstructCredential returned an error AND a credential (%s)", fdesc), det)
		return
	}
	if panicked {
		res.Violation("issuance-panic", fmt.Sprintf("issuance panicked instead of rejecting (%s): %s", fdesc, msg), det)
		return
	}
	switch c.Outcome {
	case "cred":
		if outcome != "cred" {
			res.Violation("honest-issuance-failed", "an honest issuance run did not produce a credential: "+outcome, det)
			return
		}
	case "cred-without-witness": // the witness as a whole was dropped: a credential without witness, or a rejection, are both fine
		if outcome == "cred" && cred.NonRevocationWitness != nil {
			res.Violation("credential-from-tampered-run", "credential carries a witness although the witness was dropped in transit", det)
		}
		if outcome != "cred" {
			return
		}
	case "issuer-reject":
		if outcome != "issuer-reject" {
			res.Violation("issuer-accepted-tampered-commitment", fmt.Sprintf("the issuer did not reject a tampered commitment message (%s); run ended in %s", fdesc, outcome), det)
			return
		}
		return
	case "user-reject":
		if outcome == "cred" {
			res.Violation("credential-from-tampered-run", fmt.Sprintf("a credential was produced although the run was tampered with (%s)", fdesc), det)
		}
		return
	}
	// a credential was produced: it must be a signature over exactly (secret, attributes), blind = sum of shares
	ms := append([]*big.Int{A.secret}, A.attrs...)
	okSig := len(cred.Attributes) == len(ms)
	for i := range ms {
		if !okSig {
			break
		}
		if ms[i] != nil && cred.Attributes[i].Cmp(ms[i]) != 0 {
			okSig = false
		}
	}
	for _, bi := range A.blind {
		if ism == nil || ism.MIssuer[bi+1] == nil || cred.Attributes[bi+1].Cmp(ism.MIssuer[bi+1]) < 0 {
			okSig = false // the user's share is non-negative, so the sum is at least the issuer's share
		}
	}
	if !okSig || !cred.Signature.Verify(kp.PK, cred.Attributes) {
		res.Violation("credential-not-over-agreed-attributes", "the credential's signature does not verify over exactly (secret, attributes) with blind attributes = sum of both shares", det)
		return
	}
	if c.Cfg.Wit && c.Outcome == "cred" {
		if _, err := cred.NonrevIndex(); err != nil || cred.NonRevocationWitness == nil {
			res.Violation("credential-without-usable-witness", fmt.Sprintf("honest run with witness: %v", err), det)
		}
	}
	res.Sample(hx.M{"cfg": c.Cfg, "faults": c.Faults, "layout": l.String(), "outcome": outcome})
}
