// Command fs binds FiatShamirDER.tla to the real hashing code of gabi (C15).
//
//	fs replay --in cases.ndjson    every line is a case TLC printed (field t = DER | GHN | IH | PROOF):
//	                               DER/PROOF: bytes(segs) is the specification's pre-image; SHA-256 of it (crypto/sha256),
//	                                          read as an unsigned integer, must be common.HashCommit(vals, marker);
//	                                          PROOF additionally carries the challenge found inside a real proof (want)
//	                               GHN:       common.GetHashNumber(a, b, index, bitlen) must be SUM SHA-256(limb.pre) << limb.shift
//	                                          (and the same recomposition of the real HashCommit outputs)
//	                               IH:        common.IntHashSha256(input) must be SHA-256(pre)
//	fs record <out.ndjson>         runs the real issuance and disclosure protocols (1024-bit keys) and writes, for every
//	                               proof produced, the challenge inside the proof together with (context, the contributions
//	                               ChallengeContribution returns per proof in list order, nonce, marker); TLC turns these into
//	                               pre-images (FiatShamirDERTrace.tla), which come back to `replay` as PROOF cases.
//
// The harness never uses encoding/asn1: all pre-image bytes come from TLC.
package main

import (
	"crypto/sha256"
	"encoding/json"
	"fmt"
	gobig "math/big"
	"os"
	"strings"
	"sync"

	"verifharness/hx"

	"github.com/privacybydesign/gabi"
	"github.com/privacybydesign/gabi/big"
	"github.com/privacybydesign/gabi/gabikeys"
	"github.com/privacybydesign/gabi/rangeproof"
	"github.com/privacybydesign/gabi/verifx"
)

// ---------------------------------------------------------------- case formats (as printed by TLC)

// desc is a value: either a descriptor (sign n, length l, first byte f, fill g, step s, trailing zero bytes z;
// FiatShamirDER!Mag) or an explicit magnitude (recorded values).
type desc struct {
	N   bool   `json:"n"`
	L   int    `json:"l"`
	F   int    `json:"f"`
	G   int    `json:"g"`
	S   int    `json:"s"`
	Z   int    `json:"z"`
	Mag *[]int `json:"mag,omitempty"`
}

type seg struct {
	B []int `json:"b"`
	R int   `json:"r"`
}

type limb struct {
	Ctr   int   `json:"ctr"`
	Shift int   `json:"shift"`
	N     int   `json:"n"`
	Pre   []int `json:"pre"`
}

type fsCase struct {
	T      string `json:"t"`
	ID     int    `json:"id"`
	Fam    string `json:"fam"`
	Marker bool   `json:"marker"`
	Vals   []desc `json:"vals"`
	Len    int    `json:"len"`
	Segs   []seg  `json:"segs"`
	// PROOF
	Want   string `json:"want"`
	What   string `json:"what"`
	Expect string `json:"expect"` // "equal" (default) | "differ" (order probe)
	// GHN
	A      []desc `json:"a"`
	B      []desc `json:"b"`
	Neg    bool   `json:"neg"`
	Index  int64  `json:"index"`
	Bitlen int    `json:"bitlen"`
	Trunc  bool   `json:"trunc"`
	Limbs  []limb `json:"limbs"`
	// IH
	Input []int `json:"input"`
	Pre   []int `json:"pre"`
}

func toBytes(xs []int) []byte {
	out := make([]byte, len(xs))
	for i, x := range xs {
		if x < 0 || x > 255 {
			hx.Fatal("byte out of range in TLC output: %d", x)
		}
		out[i] = byte(x)
	}
	return out
}

// mag mirrors FiatShamirDER!Mag (pure data expansion of a descriptor).
func (d desc) mag() []byte {
	if d.Mag != nil {
		return toBytes(*d.Mag)
	}
	out := make([]byte, d.L)
	for i := 1; i <= d.L; i++ {
		switch {
		case i == 1:
			out[0] = byte(d.F)
		case i > d.L-d.Z:
			out[i-1] = 0
		default:
			out[i-1] = byte((d.G + (i-2)*d.S) % 256)
		}
	}
	return out
}

func (d desc) value() *big.Int {
	m := d.mag()
	if len(m) > 0 && m[0] == 0 {
		hx.Fatal("magnitude with a leading zero byte")
	}
	v := new(gobig.Int).SetBytes(m)
	if d.N {
		v.Neg(v)
	}
	return big.Convert(v)
}

func values(ds []desc) []*big.Int {
	out := make([]*big.Int, len(ds))
	for i, d := range ds {
		out[i] = d.value()
	}
	return out
}

func assemble(c *fsCase) []byte {
	var out []byte
	for _, s := range c.Segs {
		out = append(out, toBytes(s.B)...)
		if s.R > 0 {
			if s.R > len(c.Vals) {
				hx.Fatal("case %d: segment refers to value %d of %d", c.ID, s.R, len(c.Vals))
			}
			out = append(out, c.Vals[s.R-1].mag()...)
		}
	}
	if c.Len != 0 && c.Len != len(out) {
		hx.Fatal("case %d: assembled %d bytes, TLC says %d", c.ID, len(out), c.Len)
	}
	return out
}

func shaInt(b []byte) *gobig.Int {
	h := sha256.Sum256(b)
	return new(gobig.Int).SetBytes(h[:])
}

func hexs(x *gobig.Int) string {
	if x == nil {
		return "nil"
	}
	return x.Text(16)
}

func short(raw json.RawMessage) any {
	if len(raw) > 400000 {
		return string(raw[:2000]) + "...(truncated)"
	}
	return raw
}

// hashCommit calls the real code; a panic is an outcome.
func hashCommit(vals []*big.Int, marker bool) (r *gobig.Int, panicked string) {
	p, msg := hx.Try(func() {
		x := verifx.HashCommit(vals, marker)
		if x != nil {
			r = x.Go()
		}
	})
	if p {
		return nil, msg
	}
	return r, ""
}

// ---------------------------------------------------------------- replay

var (
	violMu    sync.Mutex
	violKinds = map[string]int{}
)

// viol records at most 25 violations per kind, so that one systematic deviation does not crowd out the other kinds
// (the result keeps 200 in total); every occurrence is counted.
func viol(res *hx.Result, kind, what string, detail hx.M) {
	violMu.Lock()
	violKinds[kind]++
	n := violKinds[kind]
	violMu.Unlock()
	if n <= 25 {
		res.Violation(kind, what, detail)
	} else {
		res.Count("violations:" + kind)
	}
}

func nontrivialKey(c *fsCase, pre []byte) string {
	nt := c.Marker || len(c.Vals) == 0 || len(pre) >= 130 || c.T == "PROOF"
	for _, d := range c.Vals {
		m := d.mag()
		if d.N && len(m) > 0 || len(m) > 0 && m[0] >= 128 || len(m) == 0 {
			nt = true
		}
	}
	if !nt {
		return ""
	}
	return c.T + ":" + hx.Digest(pre)
}

func replayDER(res *hx.Result, c *fsCase, raw json.RawMessage) {
	pre := assemble(c)
	want := shaInt(pre)
	vals := values(c.Vals)
	res.Eval(nontrivialKey(c, pre))
	res.Count("t:" + c.T)
	if c.Fam != "" {
		res.Count("fam:" + c.Fam)
	}
	got, pmsg := hashCommit(vals, c.Marker)
	detail := hx.M{"case": short(raw), "id": c.ID, "fam": c.Fam, "marker": c.Marker, "n": len(c.Vals), "preimage_len": len(pre), "want": hexs(want), "got": hexs(got)}
	switch {
	case pmsg != "":
		detail["panic"] = pmsg
		viol(res, "panic", fmt.Sprintf("HashCommit panics on a list of %d values (marker=%v, case %s/%d)", len(vals), c.Marker, c.Fam, c.ID), detail)
		return
	case got == nil || got.Sign() < 0 || got.Cmp(want) != 0:
		viol(res, "hashcommit", fmt.Sprintf("HashCommit(list of %d, marker=%v) = %s, SHA-256 of the specification's pre-image (%d bytes) = %s (case %s%s/%d)",
			len(vals), c.Marker, hexs(got), len(pre), hexs(want), c.Fam, c.What, c.ID), detail)
	}
	if c.T == "PROOF" {
		w, ok := new(gobig.Int).SetString(c.Want, 10)
		if !ok {
			hx.Fatal("case %d: bad want %q", c.ID, c.Want)
		}
		detail["challenge_in_proof"] = hexs(w)
		if c.Expect == "differ" {
			if w.Cmp(want) == 0 {
				viol(res, "order", "the challenge of a real proof list equals the hash of the contributions in a different proof order: "+c.What, detail)
			}
		} else if w.Cmp(want) != 0 {
			viol(res, "challenge", fmt.Sprintf("challenge inside a real proof (%s) = %s, specification SHA-256(Preimage(marker=%v, context, contributions, nonce)) = %s",
				c.What, hexs(w), c.Marker, hexs(want)), detail)
		}
		return
	}
	// the hash must change whenever marker, count, order or an integer changes (real code, sampled perturbations)
	if got == nil || len(pre) > 16384 {
		return
	}
	perturb := func(kind string, vs []*big.Int, m bool) {
		g, p := hashCommit(vs, m)
		res.Count("perturbed")
		if p == "" && g != nil && g.Cmp(got) == 0 {
			d := hx.M{}
			for k, v := range detail {
				d[k] = v
			}
			d["perturbation"] = kind
			viol(res, "collision", fmt.Sprintf("HashCommit does not change when %s (case %s/%d, marker=%v, %d values)", kind, c.Fam, c.ID, c.Marker, len(vals)), d)
		}
	}
	perturb("the marker is flipped", vals, !c.Marker)
	if n := len(vals); n > 0 {
		perturb("the last integer is dropped", vals[:n-1], c.Marker)
		inc := append([]*big.Int{}, vals...)
		inc[0] = new(big.Int).Add(vals[0], big.NewInt(1))
		perturb("the first integer is incremented", inc, c.Marker)
		neg := append([]*big.Int{}, vals...)
		neg[n-1] = new(big.Int).Neg(vals[n-1])
		if neg[n-1].Cmp(vals[n-1]) != 0 {
			perturb("the last integer is negated", neg, c.Marker)
		}
		if n >= 2 && vals[0].Cmp(vals[n-1]) != 0 {
			sw := append([]*big.Int{}, vals...)
			sw[0], sw[n-1] = sw[n-1], sw[0]
			perturb("the first and last integer are swapped", sw, c.Marker)
		}
	}
	perturb("an integer 0 is appended", append(append([]*big.Int{}, vals...), big.NewInt(0)), c.Marker)
}

func opt(ds []desc) *big.Int {
	if len(ds) == 0 {
		return nil
	}
	return ds[0].value()
}

func replayGHN(res *hx.Result, c *fsCase, raw json.RawMessage) {
	a, b := opt(c.A), opt(c.B)
	index := c.Index
	if c.Neg {
		index = -index
	}
	ref := new(gobig.Int)
	recomposed := new(gobig.Int)
	detail := hx.M{"case": short(raw), "id": c.ID, "index": index, "bitlen": c.Bitlen, "limbs": len(c.Limbs), "a_present": a != nil, "b_present": b != nil}
	for _, l := range c.Limbs {
		pre := toBytes(l.Pre)
		h := shaInt(pre)
		ref.Add(ref, new(gobig.Int).Lsh(h, uint(l.Shift)))
		// the list of this limb per the specification's schedule: a, b (if present), index, counter
		var list []*big.Int
		if a != nil {
			list = append(list, a)
		}
		if b != nil {
			list = append(list, b)
		}
		list = append(list, big.NewInt(index), big.NewInt(int64(l.Ctr)))
		if len(list) != l.N {
			hx.Fatal("GHN case %d: limb list has %d entries, TLC says %d", c.ID, len(list), l.N)
		}
		hc, pmsg := hashCommit(list, false)
		if pmsg != "" || hc == nil || hc.Cmp(h) != 0 {
			detail["panic"] = pmsg
			viol(res, "hashcommit", fmt.Sprintf("HashCommit of limb %d of GetHashNumber case %d = %s, SHA-256 of the specification's pre-image = %s", l.Ctr, c.ID, hexs(hc), hexs(h)), detail)
			hc = new(gobig.Int)
		}
		recomposed.Add(recomposed, new(gobig.Int).Lsh(hc, uint(l.Shift)))
	}
	if c.Trunc {
		mask := new(gobig.Int).Lsh(gobig.NewInt(1), uint(c.Bitlen))
		ref.Mod(ref, mask)
		recomposed.Mod(recomposed, mask)
	}
	var got *gobig.Int
	p, pmsg := hx.Try(func() {
		x := verifx.GetHashNumber(a, b, int(index), uint(c.Bitlen))
		if x != nil {
			got = x.Go()
		}
	})
	key := ""
	if len(c.Limbs) != 1 || a == nil || b != nil || index < 0 {
		key = fmt.Sprintf("GHN:%d", c.ID)
	}
	res.Eval(key)
	res.Count("t:GHN")
	detail["want"], detail["got"], detail["recomposed"] = hexs(ref), hexs(got), hexs(recomposed)
	switch {
	case p:
		detail["panic"] = pmsg
		viol(res, "panic", fmt.Sprintf("GetHashNumber panics (index=%d, bitlen=%d)", index, c.Bitlen), detail)
	case got == nil || got.Cmp(ref) != 0:
		viol(res, "gethashnumber", fmt.Sprintf("GetHashNumber(a present=%v, b present=%v, index=%d, bitlen=%d) = %s, the specification's schedule of %d limbs gives %s",
			a != nil, b != nil, index, c.Bitlen, hexs(got), len(c.Limbs), hexs(ref)), detail)
	case got.Cmp(recomposed) != 0:
		viol(res, "ghn-recomposition", fmt.Sprintf("GetHashNumber(index=%d, bitlen=%d) is not the recomposition of the HashCommit outputs per the specification's schedule", index, c.Bitlen), detail)
	}
}

func replayIH(res *hx.Result, c *fsCase, raw json.RawMessage) {
	in := toBytes(c.Input)
	want := shaInt(toBytes(c.Pre))
	var got *gobig.Int
	p, pmsg := hx.Try(func() {
		x := verifx.IntHashSha256(in)
		if x != nil {
			got = x.Go()
		}
	})
	res.Eval(fmt.Sprintf("IH:%s", hx.Digest(in)))
	res.Count("t:IH")
	if p || got == nil || got.Sign() < 0 || got.Cmp(want) != 0 {
		viol(res, "inthash", fmt.Sprintf("IntHashSha256(%d bytes) = %s, SHA-256 of the specified input = %s", len(in), hexs(got), hexs(want)),
			hx.M{"case": short(raw), "id": c.ID, "panic": pmsg, "want": hexs(want), "got": hexs(got)})
	}
}

func replay(a *hx.Args) {
	res := hx.NewResult()
	lines := hx.ReadNDJSON(a.In)
	cases := make([]*fsCase, len(lines))
	for i, l := range lines {
		c := &fsCase{}
		if err := json.Unmarshal(l, c); err != nil {
			hx.Fatal("case %d: %v", i, err)
		}
		cases[i] = c
	}
	hx.Parallel(len(cases), func(i int) {
		c := cases[i]
		switch c.T {
		case "DER", "PROOF":
			replayDER(res, c, lines[i])
		case "GHN":
			replayGHN(res, c, lines[i])
		case "IH":
			replayIH(res, c, lines[i])
		default:
			hx.Fatal("case %d: unknown type %q", i, c.T)
		}
		if i%97 == 0 && c.T != "GHN" {
			res.Sample(hx.M{"t": c.T, "id": c.ID, "fam": c.Fam + c.What, "marker": c.Marker, "values": len(c.Vals), "preimage_len": c.Len})
		}
	})
	res.Write(a.Out)
}

// ---------------------------------------------------------------- record: challenges of real proofs

type rval struct {
	N   bool  `json:"n"`
	Mag []int `json:"mag"`
}

type rec struct {
	ID       int      `json:"id"`
	Kind     string   `json:"kind"` // "challenge": ChallengePreimage(marker, context, contribs, nonce); "list": Preimage(marker, vals)
	What     string   `json:"what"`
	Marker   bool     `json:"marker"`
	Context  rval     `json:"context"`
	Contribs [][]rval `json:"contribs"`
	Nonce    rval     `json:"nonce"`
	Vals     []rval   `json:"vals"`
	C        string   `json:"c"`
	Expect   string   `json:"expect"`
}

func rv(x *big.Int) rval {
	if x == nil {
		hx.Fatal("nil integer in a real proof")
	}
	g := x.Go()
	bs := new(gobig.Int).Abs(g).Bytes()
	m := make([]int, len(bs))
	for i, b := range bs {
		m[i] = int(b)
	}
	return rval{N: g.Sign() < 0, Mag: m}
}

func rvs(xs []*big.Int) []rval {
	out := make([]rval, len(xs))
	for i, x := range xs {
		out[i] = rv(x)
	}
	return out
}

type recorder struct {
	recs []rec
	res  *hx.Result
}

func (r *recorder) challenge(what string, marker bool, context, nonce *big.Int, contribs [][]*big.Int, c *big.Int, expect string) {
	x := rec{ID: len(r.recs), Kind: "challenge", What: what, Marker: marker, Context: rv(context), Nonce: rv(nonce), C: c.Go().String(), Expect: expect, Contribs: [][]rval{}}
	flat := []rval{rv(context)}
	for _, cs := range contribs {
		x.Contribs = append(x.Contribs, rvs(cs))
		flat = append(flat, rvs(cs)...)
	}
	x.Vals = append(flat, rv(nonce))
	r.recs = append(r.recs, x)
	r.res.Count("recorded:" + strings.SplitN(what, " ", 2)[0])
}

func (r *recorder) list(what string, vals []*big.Int, c *big.Int) {
	zero := rval{Mag: []int{}}
	r.recs = append(r.recs, rec{ID: len(r.recs), Kind: "list", What: what, Context: zero, Nonce: zero, Contribs: [][]rval{}, Vals: rvs(vals), C: c.Go().String(), Expect: "equal"})
	r.res.Count("recorded:" + strings.SplitN(what, " ", 2)[0])
}

func must[T any](x T, err error) T {
	if err != nil {
		hx.Fatal("protocol run failed: %v", err)
	}
	return x
}

func randBits(rng interface{ Intn(int) int }, bits uint) *big.Int {
	n := (bits + 7) / 8
	b := make([]byte, n)
	for i := range b {
		b[i] = byte(rng.Intn(256))
	}
	v := new(gobig.Int).SetBytes(b)
	v.Rsh(v, uint(8*n-bits))
	return big.Convert(v)
}

// contributions of a proof list, per proof, in list order, as the real code reports them
func contribsOf(pl gabi.ProofList, pks []*gabikeys.PublicKey) [][]*big.Int {
	out := make([][]*big.Int, len(pl))
	for i, p := range pl {
		out[i] = must(p.ChallengeContribution(pks[i]))
	}
	return out
}

func challengeOf(p gabi.Proof) *big.Int {
	switch x := p.(type) {
	case *gabi.ProofD:
		return x.C
	case *gabi.ProofU:
		return x.C
	}
	hx.Fatal("unexpected proof type %T", p)
	return nil
}

func record(a *hx.Args) {
	if len(a.Rest) < 1 {
		hx.Fatal("record: output path missing")
	}
	res := hx.NewResult()
	r := &recorder{res: res}
	keys := hx.Keys1024()
	attrs := func(salt string) []*big.Int {
		return []*big.Int{
			new(big.Int).SetBytes([]byte("one" + salt)), new(big.Int).SetBytes([]byte("two" + salt)),
			new(big.Int).SetBytes([]byte("three" + salt)), new(big.Int).SetBytes([]byte("four" + salt))}
	}
	rounds := 3
	if a.Tier == "thorough" {
		rounds = 30
	}
	if a.N > 0 {
		rounds = a.N
	}
	for round := 0; round < rounds; round++ {
		rng := hx.Rng(a.Seed, fmt.Sprintf("fs-record-%d", round))
		pk1, pk2 := keys[0].PK, keys[1].PK
		context := randBits(rng, pk1.Params.Lh)
		nonce1 := randBits(rng, pk1.Params.Lstatzk)
		nonce2 := randBits(rng, pk1.Params.Lstatzk)
		nonce := randBits(rng, pk1.Params.Lstatzk)
		secret := randBits(rng, pk1.Params.Lm)
		switch round % 3 {
		case 1: // leading 0x80 byte: the DER content gets a 0x00 pad
			nonce = big.Convert(new(gobig.Int).Lsh(gobig.NewInt(1), pk1.Params.Lstatzk-1))
			nonce1 = big.Convert(new(gobig.Int).Lsh(gobig.NewInt(0x80ff), pk1.Params.Lstatzk-16))
		case 2:
			context = big.NewInt(0)
			nonce = big.NewInt(128)
		}
		tag := fmt.Sprintf("(round %d)", round)

		// ---- issuance: ProofU (never a signature session) and ProofS
		issue := func(kp hx.KeyPair, salt string) *gabi.Credential {
			at := attrs(salt)
			cb := must(gabi.NewCredentialBuilder(kp.PK, context, secret, nonce2, nil, nil))
			commit := must(cb.CommitToSecretAndProve(nonce1))
			pu, ok := commit.Proofs[0].(*gabi.ProofU)
			if !ok {
				hx.Fatal("issue commitment without ProofU")
			}
			r.challenge("ProofU of CommitToSecretAndProve "+tag, false, context, nonce1, contribsOf(commit.Proofs, []*gabikeys.PublicKey{kp.PK}), pu.C, "equal")
			ism := must(gabi.NewIssuer(kp.SK, kp.PK, context).IssueSignature(commit.U, at, nil, nonce2, nil))
			// ProofS: c = H(context, Q, A, nonce2, ACommit) with Q = A^e, ACommit = A^(c + eResponse*e)  (math/big)
			n := kp.PK.N.Go()
			A, E := ism.Signature.A.Go(), ism.Signature.E.Go()
			Q := new(gobig.Int).Exp(A, E, n)
			ex := new(gobig.Int).Mul(ism.Proof.EResponse.Go(), E)
			ex.Add(ex, ism.Proof.C.Go())
			AC := new(gobig.Int).Exp(A, ex, n)
			r.list("ProofS of IssueSignature "+tag, []*big.Int{context, big.Convert(Q), ism.Signature.A, nonce2, big.Convert(AC)}, ism.Proof.C)
			return must(cb.ConstructCredential(ism, at))
		}
		cred1 := issue(keys[0], "")
		cred2 := issue(keys[1], "'")

		// ---- a single disclosure proof
		pd := must(cred1.CreateDisclosureProof([]int{1, 2}, nil, false, context, nonce))
		r.challenge("ProofD of CreateDisclosureProof "+tag, false, context, nonce, contribsOf(gabi.ProofList{pd}, []*gabikeys.PublicKey{pk1}), pd.C, "equal")

		// ---- lists of two disclosure proofs, disclosure and signature sessions
		for _, issig := range []bool{false, true} {
			b1 := must(cred1.CreateDisclosureProofBuilder([]int{1, 2}, nil, false))
			b2 := must(cred2.CreateDisclosureProofBuilder([]int{1, 3}, nil, false))
			pl := must(gabi.ProofBuilderList{b1, b2}.BuildProofList(context, nonce, issig))
			pks := []*gabikeys.PublicKey{pk1, pk2}
			if !pl.Verify(pks, context, nonce, issig, nil) {
				hx.Fatal("honest proof list does not verify")
			}
			cs := contribsOf(pl, pks)
			for i, p := range pl {
				r.challenge(fmt.Sprintf("ProofList[%d] of two disclosure proofs issig=%v %s", i, issig, tag), issig, context, nonce, cs, challengeOf(p), "equal")
			}
			r.challenge(fmt.Sprintf("order-probe: two disclosure proofs with the contributions in reverse proof order issig=%v %s", issig, tag),
				issig, context, nonce, [][]*big.Int{cs[1], cs[0]}, challengeOf(pl[0]), "differ")
			r.challenge(fmt.Sprintf("order-probe: nonce and context exchanged issig=%v %s", issig, tag), issig, nonce, context, cs, challengeOf(pl[0]), "differ")
			// a single proof in a signature / disclosure session through the list builder
			b3 := must(cred2.CreateDisclosureProofBuilder([]int{2}, nil, false))
			pl1 := must(gabi.ProofBuilderList{b3}.BuildProofList(context, nonce1, issig))
			r.challenge(fmt.Sprintf("ProofList of one disclosure proof issig=%v %s", issig, tag), issig, context, nonce1, contribsOf(pl1, pks[1:]), challengeOf(pl1[0]), "equal")
		}

		// ---- issuance bound to a disclosure: ProofU and ProofD in one list
		{
			cb := must(gabi.NewCredentialBuilder(pk2, context, secret, nonce2, nil, nil))
			bd := must(cred1.CreateDisclosureProofBuilder([]int{3}, nil, false))
			pl := must(gabi.ProofBuilderList{cb, bd}.BuildProofList(context, nonce1, false))
			pks := []*gabikeys.PublicKey{pk2, pk1}
			cs := contribsOf(pl, pks)
			for i, p := range pl {
				r.challenge(fmt.Sprintf("ProofList[%d] of ProofU+ProofD %s", i, tag), false, context, nonce1, cs, challengeOf(p), "equal")
			}
		}

		// ---- a disclosure proof carrying a range proof (more contributions per proof), signature session
		{
			at := attrs("")
			stmt := must(rangeproof.NewStatement(rangeproof.GreaterOrEqual, new(big.Int).Sub(at[0], big.NewInt(63))))
			bd := must(cred1.CreateDisclosureProofBuilder([]int{2}, map[int][]*rangeproof.Statement{1: {stmt}}, false))
			b2 := must(cred2.CreateDisclosureProofBuilder([]int{1}, nil, false))
			pl := must(gabi.ProofBuilderList{bd, b2}.BuildProofList(context, nonce, true))
			pks := []*gabikeys.PublicKey{pk1, pk2}
			if !pl.Verify(pks, context, nonce, true, nil) {
				hx.Fatal("honest proof list with range proof does not verify")
			}
			cs := contribsOf(pl, pks)
			r.challenge(fmt.Sprintf("ProofList[0] of range-proof disclosure + disclosure issig=true %s", tag), true, context, nonce, cs, challengeOf(pl[0]), "equal")
			r.challenge(fmt.Sprintf("ProofList[1] of range-proof disclosure + disclosure issig=true %s", tag), true, context, nonce, cs, challengeOf(pl[1]), "equal")
		}
	}
	f, err := os.Create(a.Rest[0])
	if err != nil {
		hx.Fatal("create %s: %v", a.Rest[0], err)
	}
	enc := json.NewEncoder(f)
	for _, x := range r.recs {
		if err := enc.Encode(x); err != nil {
			hx.Fatal("write: %v", err)
		}
	}
	if err := f.Close(); err != nil {
		hx.Fatal("close: %v", err)
	}
	res.Notes["records"] = len(r.recs)
	res.Notes["rounds"] = rounds
	res.Write(a.Out)
}

func main() {
	if len(os.Args) < 2 {
		hx.Fatal("usage: fs replay|record ...")
	}
	sub := os.Args[1]
	os.Args = append(os.Args[:1], os.Args[2:]...)
	a := hx.ParseArgs()
	switch sub {
	case "replay":
		replay(a)
	case "record":
		record(a)
	default:
		hx.Fatal("unknown sub-command %q", sub)
	}
}
