// Command kg binds KeyGen.tla / SafePrimeWorkers.tla to the real key generation of gabi (C16):
// gabikeys.GenerateKeyPair, generateSafePrimePair, findMatch, GenerateRevocationKeypair and
// safeprime.GenerateConcurrent / Generate, through the tag-guarded blocking hooks of both packages.
//
//	kg volume --n N <trace.ndjson>   code -> spec: N key pairs at toy modulus lengths (128..512 bits, a few 1024 in the
//	                                 thorough tier), 1..20 attributes, sequentially and from several goroutines; for
//	                                 every key the WellFormed projection is computed with math/big and the private key,
//	                                 every candidate decision of generateSafePrimePair is logged through the hook;
//	                                 KeyGenTrace.tla decides every logged decision and every projection. Afterwards no
//	                                 goroutine of any worker pool may be left.
//	kg gates --in schedules.ndjson   spec -> code: every schedule printed by SafePrimeWorkersGen.tla (one per distinct
//	                                 state of the model) is established on the real goroutines with the blocking hooks
//	                                 (workers, monitor, consumer identified by goroutine id), then all gates are opened
//	                                 and every goroutine of the pool must end (gates.go)
//	kg errpath --n K                 error path in child processes: crypto/rand.Reader fails, GenerateKeyPair must return
//	                                 the error, the process must survive and no worker may be left (errpath.go)
//
// Verdicts come from the real code only: the projection is computed here with math/big (Euler's criterion, orders,
// primality by math/big), never with the library's own predicates - except keyproof.CanProve, whose result is part of
// the property ("a key-correctness proof can always be made") and is logged next to the transcribed residue condition.
package main

import (
	"bufio"
	"bytes"
	"crypto/elliptic"
	"encoding/base64"
	"encoding/json"
	"fmt"
	gobig "math/big"
	"os"
	"regexp"
	"runtime"
	"sort"
	"strconv"
	"strings"
	"sync"
	"sync/atomic"
	"time"

	"verifharness/hx"

	"github.com/privacybydesign/gabi/big"
	"github.com/privacybydesign/gabi/gabikeys"
	"github.com/privacybydesign/gabi/keyproof"
	"github.com/privacybydesign/gabi/safeprime"
	"github.com/privacybydesign/gabi/signed"
)

func main() {
	if len(os.Args) < 2 {
		hx.Fatal("usage: kg volume|gates|errpath|errchild ...")
	}
	cmd := os.Args[1]
	os.Args = append(os.Args[:1], os.Args[2:]...)
	if cmd == "errchild" {
		errchild()
		return
	}
	a := hx.ParseArgs()
	res := hx.NewResult()
	switch cmd {
	case "volume":
		volume(a, res)
	case "gates":
		gates(a, res)
	case "errpath":
		errpath(a, res)
	case "stoplat":
		stoplat(a, res)
	default:
		hx.Fatal("unknown subcommand %s", cmd)
	}
	res.Write(a.Out)
}

// ---------------------------------------------------------------- goroutines

// goid parses the id of the calling goroutine from its stack header ("goroutine 12 [running]:").
func goid() int64 {
	var buf [64]byte
	n := runtime.Stack(buf[:], false)
	s := buf[len("goroutine "):n]
	i := bytes.IndexByte(s, ' ')
	if i < 0 {
		hx.Fatal("cannot parse goroutine id from %q", buf[:n])
	}
	id, err := strconv.ParseInt(string(s[:i]), 10, 64)
	if err != nil {
		hx.Fatal("cannot parse goroutine id from %q", buf[:n])
	}
	return id
}

type ginfo struct {
	ID    int64
	State string // "chan send", "select", "running", "runnable", ...
	Top   string // first function of the stack
	Pool  bool   // created by safeprime.GenerateConcurrent (worker or monitor)
	Text  string
}

var ghead = regexp.MustCompile(`^goroutine (\d+) \[([^\]]*)\]:`)

// goroutines parses a dump of all goroutines.
func goroutines() []ginfo {
	buf := make([]byte, 1<<20)
	for {
		n := runtime.Stack(buf, true)
		if n < len(buf) {
			buf = buf[:n]
			break
		}
		buf = make([]byte, 2*len(buf))
	}
	var out []ginfo
	for _, blk := range strings.Split(string(buf), "\n\n") {
		m := ghead.FindStringSubmatch(blk)
		if m == nil {
			continue
		}
		id, _ := strconv.ParseInt(m[1], 10, 64)
		st := m[2]
		if i := strings.IndexByte(st, ','); i >= 0 { // "select, 2 minutes"
			st = st[:i]
		}
		g := ginfo{ID: id, State: st, Text: blk}
		lines := strings.Split(blk, "\n")
		if len(lines) > 1 {
			g.Top = strings.TrimSpace(lines[1])
		}
		g.Pool = strings.Contains(blk, "created by github.com/privacybydesign/gabi/safeprime.GenerateConcurrent")
		out = append(out, g)
	}
	return out
}

// poolGoroutines returns the goroutines started by safeprime.GenerateConcurrent that are still alive.
func poolGoroutines() []ginfo {
	var out []ginfo
	for _, g := range goroutines() {
		if g.Pool {
			out = append(out, g)
		}
	}
	return out
}

// parked tells whether a goroutine state is a channel operation it cannot leave by itself.
func parked(state string) bool {
	return state == "chan send" || state == "select" || state == "chan receive" ||
		strings.HasPrefix(state, "chan send") || strings.HasPrefix(state, "select")
}

// awaitNoPool waits until no goroutine of any worker pool is left; it returns the remaining ones at the deadline.
// It gives up early when all that is left has been parked in a channel operation for a while (a leak does not heal).
func awaitNoPool(deadline time.Duration, only map[int64]bool) []ginfo {
	t0 := time.Now()
	var stuckSince time.Time
	for {
		var left []ginfo
		for _, g := range poolGoroutines() {
			if only == nil || only[g.ID] {
				left = append(left, g)
			}
		}
		if len(left) == 0 {
			return nil
		}
		all := true
		for _, g := range left {
			if !parked(g.State) {
				all = false
			}
		}
		if all {
			if stuckSince.IsZero() {
				stuckSince = time.Now()
			} else if time.Since(stuckSince) > 1500*time.Millisecond {
				return left
			}
		} else {
			stuckSince = time.Time{}
		}
		if time.Since(t0) > deadline {
			return left
		}
		time.Sleep(2 * time.Millisecond)
	}
}

func brief(gs []ginfo) []string {
	var out []string
	for _, g := range gs {
		fr := ""
		for _, l := range strings.Split(g.Text, "\n") {
			if strings.Contains(l, "safeprime.go:") {
				fr = strings.TrimSpace(l)
				break
			}
		}
		out = append(out, fmt.Sprintf("goroutine %d [%s] %s %s", g.ID, g.State, g.Top, fr))
	}
	sort.Strings(out)
	return out
}

// ---------------------------------------------------------------- parameters

// ownDerived is MakeDerivedParameters written down a second time from the Idemix specification (section 4.1 / table 2),
// so that the library's arithmetic is compared with something.
func ownDerived(b gabikeys.BaseParameters) gabikeys.DerivedParameters {
	lv := b.Ln + 2*b.Lstatzk + b.Lh + b.Lm + 4
	return gabikeys.DerivedParameters{
		Le:            b.Lstatzk + b.Lh + b.Lm + 5,
		LeCommit:      b.LePrime + b.Lstatzk + b.Lh,
		LmCommit:      b.Lm + b.Lstatzk + b.Lh,
		LRA:           b.Ln + b.Lstatzk,
		LsCommit:      b.Lm + b.Lstatzk + b.Lh + 1,
		Lv:            lv,
		LvCommit:      lv + b.Lstatzk + b.Lh,
		LvPrime:       b.Ln + b.Lstatzk,
		LvPrimeCommit: b.Ln + 2*b.Lstatzk + b.Lh,
	}
}

// toyParams builds system parameters for a toy modulus length the way the repository's tests do: the base
// parameters of the 1024-bit set with Ln replaced (GenerateKeyPair reads Ln only), derived by the library.
func toyParams(ln uint) *gabikeys.SystemParameters {
	if p, ok := gabikeys.DefaultSystemParameters[int(ln)]; ok {
		return p
	}
	base := gabikeys.BaseParameters{LePrime: 120, Lh: 256, Lm: 256, Ln: ln, Lstatzk: 80}
	return &gabikeys.SystemParameters{BaseParameters: base, DerivedParameters: gabikeys.MakeDerivedParameters(base)}
}

// ---------------------------------------------------------------- projection (math/big only)

var one = gobig.NewInt(1)

func mod8(x *gobig.Int) int { return int(new(gobig.Int).And(x, gobig.NewInt(7)).Int64()) }
func half(x *gobig.Int) *gobig.Int {
	return new(gobig.Int).Rsh(new(gobig.Int).Sub(x, one), 1)
}
func safePrime(p *gobig.Int) bool {
	return p.Cmp(gobig.NewInt(5)) >= 0 && p.ProbablyPrime(24) && half(p).ProbablyPrime(24)
}

// euler: a is a non-zero square modulo the odd prime p (Euler's criterion).
func euler(a, p *gobig.Int) bool {
	return new(gobig.Int).Exp(a, half(p), p).Cmp(one) == 0
}

// qrn: a is an element of QR_n, n = pq: in range, a unit, a square modulo p and modulo q.
func qrn(a *big.Int, p, q, n *gobig.Int) bool {
	if a == nil {
		return false
	}
	x := a.Go()
	if x.Sign() <= 0 || x.Cmp(n) >= 0 || new(gobig.Int).GCD(nil, nil, x, n).Cmp(one) != 0 {
		return false
	}
	return euler(new(gobig.Int).Mod(x, p), p) && euler(new(gobig.Int).Mod(x, q), q)
}

type cand struct {
	PP8     int    `json:"pp8"`
	P8      int    `json:"p8"`
	Bits    int    `json:"bits"`
	Safe    bool   `json:"safe"`
	NB      []int  `json:"nb"`      // BitLen(p * stored[i])
	NStored int    `json:"nstored"` // len(safeprimes) when the decision was taken
	Dec     string `json:"dec"`     // skip | store | return
	Match   int    `json:"match"`   // 1-based index in safeprimes of the returned q, 0 if none
	Ln      int    `json:"ln"`
}

// projectCand computes what KeyGen.tla needs to know about one iteration of the consumer loop.
func projectCand(kind string, param *gabikeys.SystemParameters, p, q *big.Int, stored []*big.Int) cand {
	P := p.Go()
	c := cand{PP8: mod8(half(P)), P8: mod8(P), Bits: P.BitLen(), Safe: safePrime(P), NB: []int{}, NStored: len(stored),
		Dec: kind, Ln: int(param.Ln)}
	for _, s := range stored {
		c.NB = append(c.NB, new(gobig.Int).Mul(P, s.Go()).BitLen())
	}
	if q != nil {
		for i, s := range stored {
			if s == q || s.Cmp(q) == 0 {
				c.Match = i + 1
				break
			}
		}
		if c.Match == 0 {
			c.Match = -1 // a q that was never stored
		}
	}
	return c
}

// projectKey computes the WellFormed projection of a generated key pair.
func projectKey(sk *gabikeys.PrivateKey, pk *gabikeys.PublicKey, param *gabikeys.SystemParameters, nattr int) hx.M {
	m := hx.M{"ln": int(param.Ln), "primeSize": int(param.Ln / 2), "nAttr": nattr}
	if sk == nil || pk == nil || sk.P == nil || sk.Q == nil || pk.N == nil {
		m["nil"] = true
		return m
	}
	p, q, n := sk.P.Go(), sk.Q.Go(), pk.N.Go()
	pp, qp := half(p), half(q)
	m["pBits"], m["qBits"], m["nBits"] = p.BitLen(), q.BitLen(), n.BitLen()
	m["pSafe"], m["qSafe"] = safePrime(p), safePrime(q)
	m["distinct"] = p.Cmp(q) != 0
	pq := new(gobig.Int).Mul(p, q)
	m["nIsPQ"] = pq.Cmp(n) == 0 && sk.N != nil && sk.N.Go().Cmp(n) == 0
	m["primesConsistent"] = sk.PPrime != nil && sk.QPrime != nil && sk.Order != nil && sk.PPrime.Go().Cmp(pp) == 0 &&
		sk.QPrime.Go().Cmp(qp) == 0 && sk.Order.Go().Cmp(new(gobig.Int).Mul(pp, qp)) == 0
	m["p8"], m["q8"], m["pp8"], m["qp8"] = mod8(p), mod8(q), mod8(pp), mod8(qp)
	canProve := false
	if sk.PPrime != nil && sk.QPrime != nil {
		canProve = keyproof.CanProve(sk.PPrime, sk.QPrime)
	}
	m["canProve"] = canProve
	// S: a square, and a generator of QR_n (cyclic of order p'q' for distinct safe primes): S^p' != 1, S^q' != 1, S^(p'q') = 1
	sqr := qrn(pk.S, p, q, n)
	sgen := false
	if sqr {
		s := pk.S.Go()
		sgen = new(gobig.Int).Exp(s, pp, n).Cmp(one) != 0 && new(gobig.Int).Exp(s, qp, n).Cmp(one) != 0 &&
			new(gobig.Int).Exp(s, new(gobig.Int).Mul(pp, qp), n).Cmp(one) == 0
	}
	m["sQR"], m["sGenerates"] = sqr, sgen
	// <S> = QR_n once S generates, so membership in <S> is: being a square modulo both primes
	zqr := qrn(pk.Z, p, q, n)
	m["zQR"], m["zInS"] = zqr, zqr && sgen
	rqr, rin := []bool{}, []bool{}
	for _, r := range pk.R {
		x := qrn(r, p, q, n)
		rqr = append(rqr, x)
		rin = append(rin, x && sgen)
	}
	m["rQR"], m["rInS"] = rqr, rin
	m["gQR"], m["hQR"] = qrn(pk.G, p, q, n), qrn(pk.H, p, q, n)
	// derived parameters: the key carries the parameter set it was generated for, and that set is consistent
	m["derivedParamsOK"] = pk.Params != nil && pk.Params.BaseParameters == param.BaseParameters &&
		pk.Params.DerivedParameters == ownDerived(param.BaseParameters) && pk.Params.Ln == param.Ln
	// revocation key pair: present on both sides, public = d*G on P-256, and the serialised forms decode to the same keys
	present := sk.ECDSA != nil && pk.ECDSA != nil && sk.RevocationSupported() && pk.RevocationSupported() && pk.G != nil && pk.H != nil
	matches := false
	if present {
		x, y := elliptic.P256().ScalarBaseMult(sk.ECDSA.D.Bytes())
		matches = sk.ECDSA.Curve == elliptic.P256() && pk.ECDSA.Curve == elliptic.P256() &&
			x.Cmp(pk.ECDSA.X) == 0 && y.Cmp(pk.ECDSA.Y) == 0 && sk.ECDSA.PublicKey.X.Cmp(x) == 0 && sk.ECDSA.PublicKey.Y.Cmp(y) == 0
		if b, err := base64.StdEncoding.DecodeString(sk.ECDSAString); err != nil {
			matches = false
		} else if k, err := signed.UnmarshalPrivateKey(b); err != nil || k.D.Cmp(sk.ECDSA.D) != 0 {
			matches = false
		}
		if b, err := base64.StdEncoding.DecodeString(pk.ECDSAString); err != nil {
			matches = false
		} else if k, err := signed.UnmarshalPublicKey(b); err != nil || k.X.Cmp(x) != 0 || k.Y.Cmp(y) != 0 {
			matches = false
		}
		if matches { // and the pair works as a signature key pair
			sig, err := signed.Sign(sk.ECDSA, []byte("verif"))
			matches = err == nil && signed.Verify(pk.ECDSA, []byte("verif"), sig) == nil
		}
	}
	m["revocationPresent"], m["ecdsaMatches"] = present, matches
	return m
}

// wellFormed is the Go twin of WellFormed in KeyGen.tla, used only to attach a readable reason to a violation record
// (the verdict on a recorded key is TLC's).
func wellFormed(m hx.M) []string {
	var bad []string
	b := func(k string) {
		if v, ok := m[k].(bool); !ok || !v {
			bad = append(bad, k)
		}
	}
	if m["nil"] != nil {
		return []string{"nil"}
	}
	ps := m["primeSize"].(int)
	if m["pBits"].(int) != ps {
		bad = append(bad, "pBits")
	}
	if m["qBits"].(int) != ps {
		bad = append(bad, "qBits")
	}
	if m["nBits"].(int) != m["ln"].(int) {
		bad = append(bad, "nBits")
	}
	for _, k := range []string{"pSafe", "qSafe", "distinct", "nIsPQ", "primesConsistent", "canProve", "sQR", "sGenerates", "zQR", "zInS",
		"gQR", "hQR", "derivedParamsOK", "ecdsaMatches", "revocationPresent"} {
		b(k)
	}
	p8, q8, pp8, qp8 := m["p8"].(int), m["q8"].(int), m["pp8"].(int), m["qp8"].(int)
	if p8 == 1 || q8 == 1 || pp8 == 1 || qp8 == 1 || p8 == q8 || pp8 == qp8 {
		bad = append(bad, "residues")
	}
	if len(m["rInS"].([]bool)) != m["nAttr"].(int) {
		bad = append(bad, "nAttr")
	}
	for i, x := range m["rInS"].([]bool) {
		if !x || !m["rQR"].([]bool)[i] {
			bad = append(bad, fmt.Sprintf("R%d", i))
		}
	}
	return bad
}

// ---------------------------------------------------------------- volume

type keyjob struct {
	id    int
	ln    uint
	nattr int
	cands []cand
}

func volume(a *hx.Args, res *hx.Result) {
	if len(a.Rest) < 1 {
		hx.Fatal("usage: kg volume --n N <trace.ndjson>")
	}
	f, err := os.Create(a.Rest[0])
	if err != nil {
		hx.Fatal("create trace: %v", err)
	}
	defer f.Close()
	out := bufio.NewWriter(f)
	defer out.Flush()
	var outMu sync.Mutex
	thorough := a.Tier == "thorough"
	rng := hx.Rng(a.Seed, "kg-volume")
	n := a.N
	if n <= 0 {
		n = 150
	}
	// modulus lengths: mostly the cheap ones (the cost of a safe prime grows with the fourth power of its length)
	lens := []uint{128, 128, 128, 160, 160, 192, 192, 224, 256, 256, 320, 384}
	if thorough {
		lens = append(lens, 128, 160, 192, 256, 320, 384, 448, 512)
	}
	jobs := make([]*keyjob, n)
	for i := range jobs {
		jobs[i] = &keyjob{id: i + 1, ln: lens[rng.Intn(len(lens))], nattr: 1 + (i+int(a.Seed))%20}
	}
	// every length and both ends of the attribute range occur whatever the seed
	for i, l := range []uint{128, 160, 192, 224, 256, 320, 384, 512} {
		if i < n {
			jobs[i].ln = l
		}
	}
	n1024 := 0
	if thorough {
		n1024 = 10
		for i := 0; i < n1024 && 10+i < n; i++ {
			jobs[10+i].ln = 1024
		}
	}

	// hooks: the consumer's decisions are attributed to the key whose GenerateKeyPair runs on the calling goroutine
	var byG sync.Map // goroutine id -> *keyjob
	var hookCount [8]atomic.Int64
	points := map[string]int{"worker.generated": 0, "worker.send.before": 1, "worker.send.after": 2, "worker.stopped": 3,
		"monitor.close.before": 4, "monitor.stopped": 5, "cons.recv": 6, "cons.err": 7}
	gabikeys.SetVerifHook(func(point string, args ...any) {
		if i, ok := points[point]; ok {
			hookCount[i].Add(1)
		}
		if point != "cons.decision" {
			return
		}
		j, ok := byG.Load(goid())
		if !ok {
			hx.Fatal("cons.decision on a goroutine that is not generating a key")
		}
		kind := args[1].(string)
		param := args[2].(*gabikeys.SystemParameters)
		p := args[3].(*big.Int)
		var q *big.Int
		if args[4] != nil {
			q, _ = args[4].(*big.Int)
		}
		stored := args[5].([]*big.Int)
		job := j.(*keyjob)
		job.cands = append(job.cands, projectCand(kind, param, p, q, stored))
	})
	// per worker goroutine: the sequence of hook points it passed (validated by SafePrimeWorkersTrace.tla)
	var wseqMu sync.Mutex
	wseq := map[int64][]string{}
	safeprime.SetVerifHook(func(point string, args ...any) {
		if i, ok := points[point]; ok {
			hookCount[i].Add(1)
		}
		ev := ""
		switch point {
		case "worker.generated":
			ev = "gen-ok"
			if len(args) > 2 && args[2] != nil {
				if e, isErr := args[2].(error); isErr && e != nil {
					ev = "gen-err"
				}
			}
		case "worker.stopped":
			ev = fmt.Sprintf("stopped%d", args[1].(int))
		case "worker.send.before":
			ev = "send-before"
		case "worker.send.after":
			ev = "send-after"
		case "worker.err.before":
			ev = "err-before"
		case "worker.err.close.before":
			ev = "err-close"
		}
		if ev != "" {
			g := goid()
			wseqMu.Lock()
			wseq[g] = append(wseq[g], ev)
			wseqMu.Unlock()
		}
	})
	defer func() {
		if len(a.Rest) < 2 {
			return
		}
		wf, err := os.Create(a.Rest[1])
		if err != nil {
			hx.Fatal("create worker trace: %v", err)
		}
		w := bufio.NewWriter(wf)
		wseqMu.Lock()
		for _, sq := range wseq {
			b, _ := json.Marshal(map[string]any{"seq": sq})
			w.Write(b)
			w.WriteByte('\n')
		}
		res.Notes["worker_sequences"] = len(wseq)
		wseqMu.Unlock()
		w.Flush()
		wf.Close()
	}()
	defer gabikeys.SetVerifHook(nil)
	defer safeprime.SetVerifHook(nil)

	base := runtime.NumGoroutine()
	expiry := time.Unix(1_900_000_000, 0)
	var slowest atomic.Int64
	one := func(j *keyjob) {
		byG.Store(goid(), j)
		defer byG.Delete(goid())
		param := toyParams(j.ln)
		var sk *gabikeys.PrivateKey
		var pk *gabikeys.PublicKey
		var gerr error
		t0 := time.Now()
		done := make(chan struct{})
		var panicked bool
		var pmsg string
		go func() { // the watchdog only reports: a generation that does not end is a machinery timeout (DESIGN N3), not a verdict
			select {
			case <-done:
			case <-time.After(10 * time.Minute):
				hx.Fatal("GenerateKeyPair(Ln=%d) did not return within 10 minutes", j.ln)
			}
		}()
		panicked, pmsg = hx.Try(func() { sk, pk, gerr = gabikeys.GenerateKeyPair(param, j.nattr, uint(j.id%4), expiry) })
		close(done)
		if d := time.Since(t0).Milliseconds(); d > slowest.Load() {
			slowest.Store(d)
		}
		key := fmt.Sprintf("ln%d", j.ln)
		res.Count(key)
		if panicked || gerr != nil {
			res.Eval("")
			res.Violation("keygen-failed", fmt.Sprintf("GenerateKeyPair(Ln=%d, %d attributes) failed: panic=%v %s err=%v", j.ln, j.nattr, panicked, pmsg, gerr),
				hx.M{"ln": j.ln, "nattr": j.nattr, "seed": a.Seed})
			return
		}
		proj := projectKey(sk, pk, param, j.nattr)
		proj["ev"], proj["k"], proj["ncand"] = "key", j.id, len(j.cands)
		if sk.Counter != uint(j.id%4) || pk.Counter != uint(j.id%4) || sk.ExpiryDate != expiry.Unix() || pk.ExpiryDate != expiry.Unix() {
			proj["derivedParamsOK"] = false
		}
		res.Eval(fmt.Sprintf("ln%d/a%d/%d%d%d%d", j.ln, j.nattr, proj["p8"], proj["q8"], proj["pp8"], proj["qp8"]))
		res.Sample(hx.M{"ln": j.ln, "nattr": j.nattr, "candidates": j.cands, "projection": proj})
		outMu.Lock()
		defer outMu.Unlock()
		emit := func(v any) {
			b, err := json.Marshal(v)
			if err != nil {
				hx.Fatal("marshal: %v", err)
			}
			out.Write(b)
			out.WriteByte('\n')
		}
		emit(hx.M{"ev": "begin", "k": j.id, "ln": int(j.ln), "nAttr": j.nattr})
		for _, c := range j.cands {
			emit(struct {
				Ev string `json:"ev"`
				K  int    `json:"k"`
				cand
			}{"cand", j.id, c})
			res.Count("decision:" + c.Dec)
			if c.PP8 == 1 {
				res.Count("candidates with p' = 1 mod 8")
			}
		}
		emit(proj)
		if bad := wellFormed(proj); len(bad) > 0 { // readable twin of TLC's verdict on the same record
			res.Violation("not-wellformed", fmt.Sprintf("generated key (Ln=%d, %d attributes) violates WellFormed: %v", j.ln, j.nattr, bad),
				hx.M{"projection": proj, "candidates": j.cands, "seed": a.Seed, "p": sk.P.String(), "q": sk.Q.String()})
		}
	}
	// first half sequentially, second half from several goroutines at once (each generation starts its own worker pool)
	seq := n / 2
	t0 := time.Now()
	for _, j := range jobs[:seq] {
		one(j)
	}
	tseq := time.Since(t0)
	conc := 4
	if thorough {
		conc = 6
	}
	var wg sync.WaitGroup
	ch := make(chan *keyjob)
	for g := 0; g < conc; g++ {
		wg.Add(1)
		go func() {
			defer wg.Done()
			for j := range ch {
				one(j)
			}
		}()
	}
	for _, j := range jobs[seq:] {
		ch <- j
	}
	close(ch)
	wg.Wait()
	res.Notes["keys"] = n
	res.Notes["sequential_s"] = tseq.Seconds()
	res.Notes["concurrent_s"] = time.Since(t0).Seconds() - tseq.Seconds()
	res.Notes["slowest_key_ms"] = slowest.Load()
	res.Notes["keys_1024"] = n1024
	hc := hx.M{}
	for k, i := range points {
		hc[k] = hookCount[i].Load()
	}
	res.Notes["hook_events"] = hc

	// (iii) no worker, no monitor may be left of any of the pools, and the goroutine count is back at its baseline
	left := awaitNoPool(20*time.Second, nil)
	if len(left) > 0 {
		res.Violation("goroutine-leak", fmt.Sprintf("%d goroutine(s) of safeprime.GenerateConcurrent still alive after %d key generations returned", len(left), n),
			hx.M{"goroutines": brief(left), "keys": n, "seed": a.Seed})
	}
	dl := time.Now().Add(5 * time.Second)
	for runtime.NumGoroutine() > base && time.Now().Before(dl) {
		time.Sleep(5 * time.Millisecond)
	}
	res.Notes["goroutines_baseline"], res.Notes["goroutines_after"] = base, runtime.NumGoroutine()
	if runtime.NumGoroutine() > base && len(left) == 0 {
		var other []ginfo
		for _, g := range goroutines() {
			if strings.Contains(g.Text, "privacybydesign/gabi/") && !strings.Contains(g.Text, "verifharness") {
				other = append(other, g)
			}
		}
		if len(other) > 0 {
			res.Violation("goroutine-leak", fmt.Sprintf("goroutine count %d above the baseline %d after all generations returned", runtime.NumGoroutine(), base),
				hx.M{"goroutines": brief(other), "seed": a.Seed})
		}
	}
}
