package main

import (
	"crypto/rand"
	"encoding/json"
	"errors"
	"fmt"
	"io"
	gobig "math/big"
	"runtime"
	"strings"
	"sync"
	"sync/atomic"
	"time"

	"verifharness/hx"

	"github.com/privacybydesign/gabi/big"
	"github.com/privacybydesign/gabi/gabikeys"
	"github.com/privacybydesign/gabi/safeprime"
)

// Gate replay of SafePrimeWorkers.tla on the real goroutines.
//
// A schedule is a path of the model, i.e. a sequence of actions (GenReturn w, Check w, Send w, ..., MonStop,
// RecvPrime, DecideMore, CloseStop, ...) ending in one particular state of the model. The hooks of safeprime
// and gabikeys block every goroutine of the real pool at the hook point that corresponds to its model state; a
// model action is executed by releasing exactly that goroutine and waiting until it reports at its next hook point:
//
//	model state of worker w      real goroutine is blocked at (or on its way to)
//	  gen                          worker.generated (after Generate returned)  [or worker.send.after of the round before]
//	  chk                          worker.generated                            Check = release, first select runs now
//	  snd                          worker.send.before                          Send/SendGiveUp = release, second select runs now
//	  errsend / errclose           worker.err.before / worker.err.close.before
//	monitor wait / close           monitor.start (before its select) / monitor.close.before
//	consumer recv / decide / stop  cons.select.before / cons.recv / cons.decision(return) or cons.err
//
// What a Generate call returns is decided by the harness too: crypto/rand.Reader is replaced by a reader that hands
// the calling worker the bytes of a prepared safe prime of a chosen residue class (so that the real consumer takes
// the decision the schedule wants: store, skip or return) or fails (error path). Two ready cases of a select cannot
// be steered (Go picks at random): if the real goroutine takes the other case, the run is counted as diverged and
// continues unsteered. After the schedule all gates are opened - workers first, then the consumer, the monitor last,
// which is the order that leaked before fix D11 - and every goroutine of the pool must end.
//
// mode "real": the consumer is gabikeys.generateSafePrimePair itself (through GenerateKeyPair);
// mode "ext":  the harness consumes from the public safeprime.GenerateConcurrent API, stops whenever the schedule says.

type step struct {
	A string `json:"a"`
	W int    `json:"w"`
}
type mstate struct {
	Wpc        []string `json:"wpc"`
	Buf        int      `json:"buf"`
	Errbuf     int      `json:"errbuf"`
	StopClosed bool     `json:"stopClosed"`
	Stopped    bool     `json:"stopped"`
	Mon        string   `json:"mon"`
	Cons       string   `json:"cons"`
	Got        int      `json:"got"`
	Nerr       int      `json:"nerr"`
}
type schedule struct {
	Mode      string `json:"mode"`
	N         int    `json:"n"`
	Sched     []step `json:"sched"`
	State     mstate `json:"state"`
	LeakSetup bool   `json:"leaksetup"`
}

// ---- goroutine bookkeeping

type gor struct {
	id       int64
	role     string // worker | monitor | cons
	w        int    // model id of a worker (1..N)
	at       string // hook point it reported last
	args     []any
	arrivals int
	gate     chan struct{} // non-nil while it is blocked in the hook
	gens     int           // completed Generate calls (worker)
	reads    int           // reads of the planned reader during the current Generate call
}

type outcome struct { // what one Generate call of a worker is to return
	err   bool
	class string // "", "A" (p' = 5 mod 8, p = 3), "B" (p' in {3,7}, p = 7), "skip" (p' = 1)
}

type run struct {
	mu       sync.Mutex
	notify   chan struct{}
	n        int
	mode     string
	gs       map[int64]*gor
	workers  []*gor // by model id, [0] unused
	monitor  *gor
	cons     *gor
	excluded map[int64]bool
	free     bool
	plan     [][]outcome // by model worker id
	decided  []string    // decisions the real consumer took
	ints     any
	fatal    string
}

var curRun atomic.Pointer[run]
var errInjected = errors.New("injected failure of the entropy source")

func (r *run) wake() {
	select {
	case r.notify <- struct{}{}:
	default:
	}
}

func blockingPoint(point string, args []any) bool {
	switch point {
	case "worker.generated", "worker.send.before", "worker.send.after", "worker.err.before", "worker.err.close.before",
		"monitor.start", "monitor.close.before", "cons.select.before", "cons.recv", "cons.err":
		return true
	case "cons.decision":
		return args[1].(string) == "return"
	}
	return false
}

// bind registers a goroutine seen for the first time (r.mu held).
func (r *run) bind(id int64, role string) *gor {
	g := &gor{id: id, role: role}
	switch role {
	case "worker":
		for w := 1; w <= r.n; w++ {
			if r.workers[w] == nil {
				g.w = w
				r.workers[w] = g
				break
			}
		}
		if g.w == 0 {
			r.fatal = fmt.Sprintf("more than %d worker goroutines", r.n)
		}
	case "monitor":
		if r.monitor != nil {
			r.fatal = "two monitor goroutines"
		}
		r.monitor = g
	case "cons":
		if r.cons != nil && r.cons.id != id {
			r.fatal = "two consumer goroutines"
		}
		r.cons = g
	}
	r.gs[id] = g
	return g
}

func hook(point string, args ...any) {
	r := curRun.Load()
	if r == nil {
		return
	}
	id := goid()
	r.mu.Lock()
	g := r.gs[id]
	if g == nil {
		g = r.bind(id, point[:strings.IndexByte(point, '.')])
	}
	g.at, g.args = point, args
	g.arrivals++
	if point == "worker.generated" {
		g.gens++
		g.reads = 0
	}
	if point == "cons.decision" {
		r.decided = append(r.decided, args[1].(string))
	}
	if point == "cons.select.before" || point == "cons.recv" {
		r.ints = args[0]
	}
	var ch chan struct{}
	if !r.free && blockingPoint(point, args) {
		ch = make(chan struct{})
		g.gate = ch
	}
	r.mu.Unlock()
	r.wake()
	if ch != nil {
		<-ch
	}
}

// ---- the entropy source of the workers

type planReader struct{ real io.Reader }

var pools = map[string][]*gobig.Int{} // class -> prepared q = p' (p = 2q+1 a safe prime of gateBits bits)
var poolNext = map[string]int{}

const gateBits = 32 // length of the safe primes of the gate replays (modulus 64 bits)

func (pr planReader) Read(b []byte) (int, error) {
	r := curRun.Load()
	if r == nil {
		return pr.real.Read(b)
	}
	id := goid()
	r.mu.Lock()
	if r.excluded[id] {
		r.mu.Unlock()
		return pr.real.Read(b)
	}
	g := r.gs[id]
	if g == nil {
		g = r.bind(id, "worker") // first read of a goroutine that is neither the consumer nor the harness: a worker in Generate
	}
	if g.role != "worker" || g.w == 0 || g.w >= len(r.plan) || g.gens >= len(r.plan[g.w]) {
		r.mu.Unlock()
		return pr.real.Read(b)
	}
	o := r.plan[g.w][g.gens]
	g.reads++
	reads := g.reads
	r.mu.Unlock()
	if o.err {
		return 0, errInjected
	}
	if o.class == "" || reads > 2 || len(b) != (gateBits-1+7)/8 {
		return pr.real.Read(b)
	}
	r.mu.Lock()
	q := pools[o.class][poolNext[o.class]%len(pools[o.class])]
	if reads == 1 {
		poolNext[o.class]++
	}
	r.mu.Unlock()
	q.FillBytes(b)
	return len(b), nil
}

// preparePools finds safe primes p = 2q+1 of gateBits bits whose q has the two top bits set (as safeprime.Generate
// forces them), sorted by residue class of q modulo 8, with math/big.
func preparePools(rng interface{ Int63() int64 }) {
	want := map[string]int{"A": 40, "B": 40, "skip": 20}
	seen := map[int64]bool{}
	for want["A"] > 0 || want["B"] > 0 || want["skip"] > 0 {
		x := rng.Int63() & (1<<(gateBits-1) - 1)
		x |= 3 << (gateBits - 3)
		x |= 1
		if seen[x] {
			continue
		}
		q := gobig.NewInt(x)
		p := new(gobig.Int).Add(new(gobig.Int).Lsh(q, 1), one)
		if !q.ProbablyPrime(24) || !p.ProbablyPrime(24) {
			continue
		}
		seen[x] = true
		cl := map[int64]string{1: "skip", 5: "A", 3: "B", 7: "B"}[x%8]
		if want[cl] > 0 {
			want[cl]--
			pools[cl] = append(pools[cl], q)
		}
	}
}

// makePlan walks the schedule and decides what every Generate call must return: failures where the schedule has
// GenErr, and (real consumer) residue classes such that the k-th prime the consumer receives produces the k-th
// decision of the schedule: the first one is stored (class A), DecideMore = another A or a skipped one,
// DecideDone = a B, which pairs with the first A.
func makePlan(s *schedule) [][]outcome {
	plan := make([][]outcome, s.N+1)
	type ref struct{ w, k int }
	var queue []ref
	var cur ref
	nmore := 0
	for _, st := range s.Sched {
		switch st.A {
		case "GenReturn":
			plan[st.W] = append(plan[st.W], outcome{class: map[bool]string{true: "A", false: ""}[s.Mode == "real"]})
		case "GenErr":
			plan[st.W] = append(plan[st.W], outcome{err: true})
		case "Send":
			queue = append(queue, ref{st.W, len(plan[st.W]) - 1})
		case "RecvPrime":
			cur, queue = queue[0], queue[1:]
		case "DecideMore":
			if s.Mode == "real" {
				nmore++
				if nmore > 1 && nmore%2 == 0 {
					plan[cur.w][cur.k].class = "skip"
				}
			}
		case "DecideDone":
			if s.Mode == "real" {
				plan[cur.w][cur.k].class = "B"
			}
		}
	}
	return plan
}

// ---- the scheduler

type diverged struct{ why string }
type stuck struct {
	why string
	g   ginfo
}

const arrivalTimeout = 20 * time.Second

// await waits until cond() holds (evaluated under r.mu).
func (r *run) await(what string, cond func() bool) {
	deadline := time.After(arrivalTimeout)
	for {
		r.mu.Lock()
		ok, f := cond(), r.fatal
		r.mu.Unlock()
		if f != "" {
			panic(hxFatal{f})
		}
		if ok {
			return
		}
		select {
		case <-r.notify:
		case <-time.After(20 * time.Millisecond):
		case <-deadline:
			panic(hxFatal{"timeout waiting for " + what})
		}
	}
}

type hxFatal struct{ msg string }

// release opens the gate g is blocked at and returns the number of arrivals seen so far.
func (r *run) release(g *gor, at ...string) int {
	r.mu.Lock()
	defer r.mu.Unlock()
	if g.gate == nil {
		panic(hxFatal{fmt.Sprintf("%s %d is not blocked (last seen at %s), expected it at %v", g.role, g.w, g.at, at)})
	}
	ok := len(at) == 0
	for _, a := range at {
		if g.at == a {
			ok = true
		}
	}
	if !ok {
		panic(hxFatal{fmt.Sprintf("%s %d is blocked at %s, expected it at %v", g.role, g.w, g.at, at)})
	}
	close(g.gate)
	g.gate = nil
	return g.arrivals
}

// next releases g and waits for its next report; a goroutine that instead parks in a channel operation is returned as stuck.
func (r *run) next(g *gor, from []string, what string) (string, *stuck) {
	n := r.release(g, from...)
	t0 := time.Now()
	var parkedSince time.Time
	for {
		r.mu.Lock()
		arr, at, blocked, f := g.arrivals, g.at, g.gate != nil, r.fatal
		r.mu.Unlock()
		if f != "" {
			panic(hxFatal{f})
		}
		// a report counts when the goroutine is blocked there, or when it is the last one before it returns;
		// cons.decision(skip|store) is passed without blocking and only recorded
		if arr > n && (blocked || in(at, "worker.stopped", "monitor.close.after", "monitor.stopped", "cons.stop.closed")) {
			return at, nil
		}
		select {
		case <-r.notify:
			continue
		case <-time.After(5 * time.Millisecond):
		}
		// not arrived: look at what the goroutine is doing
		if time.Since(t0) > 40*time.Millisecond {
			for _, gi := range goroutines() {
				if gi.ID != g.id {
					continue
				}
				if parked(gi.State) && strings.Contains(gi.Text, "safeprime.GenerateConcurrent") && !strings.Contains(gi.Text, "verifHook") {
					if parkedSince.IsZero() {
						parkedSince = time.Now()
					} else if time.Since(parkedSince) > 300*time.Millisecond {
						return "", &stuck{what, gi}
					}
				} else {
					parkedSince = time.Time{}
				}
			}
		}
		if time.Since(t0) > arrivalTimeout {
			panic(hxFatal{"timeout: " + what})
		}
	}
}

func (r *run) gone(id int64, what string) {
	t0 := time.Now()
	for {
		alive := false
		for _, gi := range goroutines() {
			if gi.ID == id {
				alive = true
			}
		}
		if !alive {
			return
		}
		if time.Since(t0) > arrivalTimeout {
			panic(hxFatal{"timeout: " + what})
		}
		time.Sleep(200 * time.Microsecond)
	}
}

type replayResult struct {
	diverged  string
	stuck     *stuck
	left      []ginfo
	consErr   error
	consPanic string
	consDone  bool
	bufSeen   int
	steps     int
}

func in(s string, xs ...string) bool {
	for _, x := range xs {
		if s == x {
			return true
		}
	}
	return false
}

// replayOne establishes one schedule and lets the pool run out. Machinery problems panic with hxFatal.
func replayOne(s *schedule, idx int) (rr replayResult) {
	r := &run{notify: make(chan struct{}, 1), n: s.N, mode: s.Mode, gs: map[int64]*gor{}, workers: make([]*gor, s.N+1),
		excluded: map[int64]bool{goid(): true}, plan: makePlan(s)}
	runtime.GOMAXPROCS(s.N) // GenerateConcurrent starts GOMAXPROCS workers and gives ints that capacity
	curRun.Store(r)
	defer curRun.Store(nil)

	// the consumer
	var ints <-chan *big.Int
	var errs <-chan error
	var stop chan struct{}
	consDone := make(chan struct{})
	if s.Mode == "real" {
		go func() {
			r.mu.Lock()
			id := goid()
			r.excluded[id] = true
			r.bind(id, "cons")
			r.mu.Unlock()
			p, m := hx.Try(func() {
				_, _, rr.consErr = gabikeys.GenerateKeyPair(toyParams(2*gateBits), 2, 0, time.Unix(1_900_000_000, 0))
			})
			if p {
				rr.consPanic = m
			}
			close(consDone)
		}()
	} else {
		stop = make(chan struct{})
		ints, errs = safeprime.GenerateConcurrent(gateBits, stop)
		close(consDone)
	}

	// the model state the schedule has reached so far (what the select statements of the real code will see)
	stopped, stopClosed, buf, errbuf := false, false, 0, 0
	worker := func(w int) *gor {
		r.await(fmt.Sprintf("worker %d to show up", w), func() bool { return r.workers[w] != nil })
		return r.workers[w]
	}
	at := func(g *gor, points ...string) { // wait until g is blocked at one of the points
		r.await(fmt.Sprintf("%s %d at %v", g.role, g.w, points), func() bool { return g.gate != nil && in(g.at, points...) })
	}
	consStopped := false
	finish := func(why string) { rr.diverged = why }

steps:
	for i, st := range s.Sched {
		rr.steps = i
		switch st.A {
		case "GenReturn", "GenErr":
			g := worker(st.W)
			r.mu.Lock()
			after := g.gate != nil && g.at == "worker.send.after"
			r.mu.Unlock()
			if after {
				r.release(g, "worker.send.after")
			}
			at(g, "worker.generated")
			r.mu.Lock()
			gotErr := g.args[2] != nil && g.args[2].(error) != nil
			r.mu.Unlock()
			if gotErr != (st.A == "GenErr") {
				panic(hxFatal{fmt.Sprintf("step %d %v: Generate returned err=%v", i, st, gotErr)})
			}
			if gotErr {
				if p, sk := r.next(g, []string{"worker.generated"}, "failing worker to reach errs <- err"); sk != nil || p != "worker.err.before" {
					panic(hxFatal{fmt.Sprintf("step %d %v: failing worker went to %q", i, st, p)})
				}
			}
		case "Check":
			g := worker(st.W)
			p, sk := r.next(g, []string{"worker.generated"}, "worker after the first select")
			want := "worker.send.before"
			if stopped {
				want = "worker.stopped"
			}
			if sk != nil || p != want {
				panic(hxFatal{fmt.Sprintf("step %d %v: first select led to %q (stuck=%v), the model says %s", i, st, p, sk != nil, want)})
			}
		case "Send", "SendGiveUp":
			g := worker(st.W)
			p, sk := r.next(g, []string{"worker.send.before"}, "worker in its send")
			canSend, canGiveUp := buf < s.N, stopped
			if sk != nil {
				if canGiveUp && !canSend {
					// stopped is closed, ints is full, the worker sits in the send for good: NoSendAfterAbandon broken
					rr.stuck = sk
					break steps
				}
				panic(hxFatal{fmt.Sprintf("step %d %v: worker parked although buf=%d stopped=%v", i, st, buf, stopped)})
			}
			switch {
			case p == "worker.send.after" && canSend:
				buf++
				if st.A != "Send" {
					finish("select took the send although stopped was closed")
					break steps
				}
			case p == "worker.stopped" && canGiveUp:
				if st.A != "SendGiveUp" {
					finish("select took stopped although ints had room")
					break steps
				}
			default:
				panic(hxFatal{fmt.Sprintf("step %d %v: second select led to %q with buf=%d stopped=%v", i, st, p, buf, stopped)})
			}
		case "ErrSend":
			g := worker(st.W)
			if p, sk := r.next(g, []string{"worker.err.before"}, "errs <- err"); sk != nil || p != "worker.err.close.before" {
				panic(hxFatal{fmt.Sprintf("step %d %v: errs <- err led to %q (stuck=%v)", i, st, p, sk != nil)})
			}
			errbuf++
		case "ErrClose":
			g := worker(st.W)
			r.release(g, "worker.err.close.before")
			r.gone(g.id, "failing worker to return after close(stopped)")
			stopped = true
		case "MonStop", "MonStopped":
			r.await("monitor to show up", func() bool { return r.monitor != nil })
			g := r.monitor
			at(g, "monitor.start")
			p, sk := r.next(g, []string{"monitor.start"}, "monitor select")
			if sk != nil {
				panic(hxFatal{fmt.Sprintf("step %d %v: monitor parked although stop=%v stopped=%v", i, st, stopClosed, stopped)})
			}
			switch {
			case p == "monitor.close.before" && stopClosed:
				if st.A != "MonStop" {
					at(g, "monitor.close.before")
					finish("monitor select took stop although stopped was closed too")
					break steps
				}
			case p == "monitor.stopped" && stopped:
				if st.A != "MonStopped" {
					finish("monitor select took stopped although stop was closed too")
					break steps
				}
			default:
				panic(hxFatal{fmt.Sprintf("step %d %v: monitor went to %q with stop=%v stopped=%v", i, st, p, stopClosed, stopped)})
			}
		case "MonClose":
			g := r.monitor
			at(g, "monitor.close.before")
			if p, sk := r.next(g, []string{"monitor.close.before"}, "close(stopped)"); sk != nil || p != "monitor.close.after" {
				panic(hxFatal{fmt.Sprintf("step %d %v: monitor went to %q", i, st, p)})
			}
			stopped = true
		case "RecvPrime", "RecvErr":
			if s.Mode == "ext" { // the external consumer receives from exactly the channel the schedule names
				var pc <-chan *big.Int
				var ec <-chan error
				if st.A == "RecvPrime" {
					pc = ints
				} else {
					ec = errs
				}
				select {
				case x := <-pc:
					if x == nil {
						panic(hxFatal{fmt.Sprintf("step %d %v: received a nil prime", i, st)})
					}
					buf--
				case e := <-ec:
					if e != errInjected {
						panic(hxFatal{fmt.Sprintf("step %d %v: received error %v", i, st, e)})
					}
					errbuf--
				case <-time.After(arrivalTimeout):
					panic(hxFatal{fmt.Sprintf("step %d %v: nothing to receive (buf=%d errbuf=%d)", i, st, buf, errbuf)})
				}
				break
			}
			r.await("consumer to show up", func() bool { return r.cons != nil })
			g := r.cons
			at(g, "cons.select.before")
			p, sk := r.next(g, []string{"cons.select.before"}, "consumer select")
			if sk != nil {
				panic(hxFatal{fmt.Sprintf("step %d %v: consumer parked although buf=%d errbuf=%d", i, st, buf, errbuf)})
			}
			switch {
			case p == "cons.recv" && buf > 0:
				buf--
				if st.A != "RecvPrime" {
					finish("consumer select took ints although errs was ready")
					break steps
				}
			case p == "cons.err" && errbuf > 0:
				errbuf--
				if st.A != "RecvErr" {
					finish("consumer select took errs although ints was ready")
					break steps
				}
			default:
				panic(hxFatal{fmt.Sprintf("step %d %v: consumer went to %q with buf=%d errbuf=%d", i, st, p, buf, errbuf)})
			}
		case "DecideMore", "DecideDone":
			if s.Mode == "ext" {
				break
			}
			g := r.cons
			p, sk := r.next(g, []string{"cons.recv"}, "consumer decision")
			want := map[string]string{"DecideMore": "cons.select.before", "DecideDone": "cons.decision"}[st.A]
			if sk != nil || p != want {
				r.mu.Lock()
				d := fmt.Sprint(r.decided)
				r.mu.Unlock()
				panic(hxFatal{fmt.Sprintf("step %d %v: the consumer decided %s and went to %q: the prepared primes did not steer it", i, st, d, p)})
			}
		case "GiveUp":
			if s.Mode != "ext" {
				panic(hxFatal{"GiveUp in a schedule for the real consumer"})
			}
		case "CloseStop":
			if s.Mode == "ext" {
				close(stop)
			} else {
				g := r.cons
				if p, sk := r.next(g, []string{"cons.decision", "cons.err"}, "close(stop)"); sk != nil || p != "cons.stop.closed" {
					panic(hxFatal{fmt.Sprintf("step %d %v: consumer went to %q", i, st, p)})
				}
			}
			stopClosed, consStopped = true, true
		default:
			panic(hxFatal{"unknown action " + st.A})
		}
		rr.steps = i + 1
	}

	// the state is established (or the run diverged at a select that cannot be steered): compare what can be observed
	if rr.diverged == "" && rr.stuck == nil {
		var n int
		if s.Mode == "ext" {
			n = len(ints)
		} else {
			r.mu.Lock()
			if c, ok := r.ints.(<-chan *big.Int); ok {
				n = len(c)
			} else {
				n = -1
			}
			r.mu.Unlock()
		}
		rr.bufSeen = n
		if n >= 0 && n != s.State.Buf {
			panic(hxFatal{fmt.Sprintf("after the schedule ints holds %d primes, the model state says %d", n, s.State.Buf)})
		}
	}

	// open all gates: workers first (they run into their select, and park there if ints is full), ...
	r.mu.Lock()
	r.free = true
	var ws, rest []*gor
	for _, g := range r.gs {
		if g.role == "worker" {
			ws = append(ws, g)
		} else if g.role == "cons" {
			rest = append([]*gor{g}, rest...)
		} else {
			rest = append(rest, g)
		}
	}
	r.mu.Unlock()
	open := func(g *gor) {
		r.mu.Lock()
		if g.gate != nil {
			close(g.gate)
			g.gate = nil
		}
		r.mu.Unlock()
	}
	for _, g := range ws {
		open(g)
	}
	time.Sleep(1500 * time.Microsecond)
	// ... then the consumer (an external consumer that has not stopped yet stops now: by closing stop, or like
	// keyproof.findSafePrime by sending on it), the monitor last
	var sent chan struct{}
	if s.Mode == "ext" && !consStopped {
		if idx%2 == 1 && s.State.Nerr == 0 {
			sent = make(chan struct{})
			go func() { stop <- struct{}{}; close(sent) }()
		} else {
			close(stop)
		}
	}
	for _, g := range rest {
		open(g)
		time.Sleep(300 * time.Microsecond)
	}
	if sent != nil {
		select {
		case <-sent:
		case <-time.After(arrivalTimeout):
			panic(hxFatal{"the monitor did not take the value sent on stop"})
		}
	}
	select {
	case <-consDone:
		rr.consDone = true
	case <-time.After(arrivalTimeout):
	}
	// every goroutine of this pool must end
	r.mu.Lock()
	mine := map[int64]bool{}
	for id, g := range r.gs {
		if g.role != "cons" {
			mine[id] = true
		}
	}
	r.mu.Unlock()
	for _, g := range poolGoroutines() { // goroutines of the pool that never reached a hook
		if !knownLeaked[g.ID] {
			mine[g.ID] = true
		}
	}
	rr.left = awaitNoPool(10*time.Second, mine)
	for _, g := range rr.left {
		knownLeaked[g.ID] = true
	}
	return rr
}

var knownLeaked = map[int64]bool{}

func gates(a *hx.Args, res *hx.Result) {
	lines := hx.ReadNDJSON(a.In)
	if len(lines) == 0 {
		hx.Fatal("no schedules")
	}
	rng := hx.Rng(a.Seed, "kg-gates")
	preparePools(rng)
	rand.Reader = planReader{real: rand.Reader}
	gabikeys.SetVerifHook(hook)
	safeprime.SetVerifHook(hook)
	procs := runtime.GOMAXPROCS(0)
	defer runtime.GOMAXPROCS(procs)
	leaks, stucks := 0, 0
	for idx, l := range lines {
		var s schedule
		if err := json.Unmarshal(l, &s); err != nil {
			hx.Fatal("schedule %d: %v", idx, err)
		}
		if s.Mode != "real" && s.Mode != "ext" {
			hx.Fatal("schedule %d: mode %q", idx, s.Mode)
		}
		var rr replayResult
		func() {
			defer func() {
				if x := recover(); x != nil {
					if f, ok := x.(hxFatal); ok {
						b, _ := json.Marshal(s)
						hx.Fatal("schedule %d cannot be established: %s\n%s", idx, f.msg, b)
					}
					panic(x)
				}
			}()
			rr = replayOne(&s, idx)
		}()
		key := fmt.Sprintf("%s/%d/%v/%d/%d/%v/%v/%s/%s/%d/%d", s.Mode, s.N, s.State.Wpc, s.State.Buf, s.State.Errbuf, s.State.StopClosed, s.State.Stopped,
			s.State.Mon, s.State.Cons, s.State.Got, s.State.Nerr)
		res.Eval(key)
		res.Count("mode:" + s.Mode)
		if s.LeakSetup {
			res.Count("leak-setup schedules (consumer gone, ints full, all workers about to send)")
		}
		if rr.diverged != "" {
			res.Count("diverged at an unsteerable select: " + rr.diverged)
		}
		if idx < 3 || s.LeakSetup && len(res.Samples) < 5 {
			res.Sample(hx.M{"schedule": s, "steps_replayed": rr.steps, "ints_len_seen": rr.bufSeen, "goroutines_left": len(rr.left)})
		}
		detail := hx.M{"case": s, "seed": a.Seed, "steps_replayed": rr.steps}
		if rr.stuck != nil {
			stucks++
			detail["goroutine"] = brief([]ginfo{rr.stuck.g})
			res.Violation("worker-stuck-in-send", fmt.Sprintf("stopped is closed and ints is full, yet the worker stays in its send (%s): %v",
				rr.stuck.why, brief([]ginfo{rr.stuck.g})), detail)
		}
		if len(rr.left) > 0 {
			leaks++
			detail["goroutines"] = brief(rr.left)
			res.Violation("goroutine-leak", fmt.Sprintf("%d goroutine(s) of safeprime.GenerateConcurrent never end after the consumer stopped (N=%d, %s consumer, state %v buf=%d): %v",
				len(rr.left), s.N, s.Mode, s.State.Wpc, s.State.Buf, brief(rr.left)), detail)
		}
		if s.Mode == "real" {
			switch {
			case !rr.consDone:
				res.Violation("keygen-hangs", "GenerateKeyPair did not return after the schedule", detail)
			case rr.consPanic != "":
				res.Violation("keygen-panic", "GenerateKeyPair panicked: "+rr.consPanic, detail)
			case s.State.Nerr == 0 && rr.consErr != nil:
				res.Violation("keygen-failed", fmt.Sprintf("GenerateKeyPair failed without an injected error: %v", rr.consErr), detail)
			case rr.consErr != nil && !errors.Is(rr.consErr, errInjected):
				res.Violation("keygen-failed", fmt.Sprintf("GenerateKeyPair returned an error that is not the injected one: %v", rr.consErr), detail)
			}
			if rr.consErr != nil {
				res.Count("GenerateKeyPair returned the injected error")
			}
		}
		if leaks+stucks >= 8 { // a leak costs its full deadline; a handful of them is verdict enough
			res.Notes["stopped_early_after"] = idx + 1
			break
		}
	}
	res.Notes["schedules"] = len(lines)
}
