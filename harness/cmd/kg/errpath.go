package main

import (
	"bytes"
	"crypto/rand"
	"encoding/json"
	"errors"
	"fmt"
	"os"
	"os/exec"
	"runtime"
	"strconv"
	"strings"
	"time"

	"verifharness/hx"

	"github.com/privacybydesign/gabi/gabikeys"
)

// Error path of the worker pool. safeprime.Generate fails only if the entropy source fails; then every worker
// fails, each sends its error and closes `stopped`, the consumer returns the first error and closes `stop`, which
// makes the monitor close `stopped` as well. A panic in one of these library goroutines cannot be recovered by any
// caller, so each attempt runs in a child process (this binary, sub-command errchild).

type failingReader struct{}

func (failingReader) Read([]byte) (int, error) {
	return 0, errors.New("injected failure of the entropy source")
}

// errchild: GOMAXPROCS from argv[1]; prints one JSON line.
func errchild() {
	procs, _ := strconv.Atoi(os.Args[1])
	if procs < 1 {
		procs = 2
	}
	runtime.GOMAXPROCS(procs)
	rand.Reader = failingReader{}
	var gerr error
	var sk *gabikeys.PrivateKey
	done := make(chan struct{})
	go func() {
		sk, _, gerr = gabikeys.GenerateKeyPair(toyParams(128), 3, 0, time.Unix(1_900_000_000, 0))
		close(done)
	}()
	out := map[string]any{"procs": procs}
	select {
	case <-done:
		out["returned"] = true
		out["key"] = sk != nil
		if gerr != nil {
			out["err"] = gerr.Error()
		}
	case <-time.After(20 * time.Second):
		out["returned"] = false
	}
	left := awaitNoPool(5*time.Second, nil) // also gives a second close(stopped) the time to happen
	out["left"] = brief(left)
	b, _ := json.Marshal(out)
	fmt.Println("ERRCHILD " + string(b))
}

func errpath(a *hx.Args, res *hx.Result) {
	exe, err := os.Executable()
	if err != nil {
		hx.Fatal("executable: %v", err)
	}
	n := a.N
	if n <= 0 {
		n = 6
	}
	for i := 0; i < n; i++ {
		procs := 1 + i%4
		cmd := exec.Command(exe, "errchild", strconv.Itoa(procs))
		var buf bytes.Buffer
		cmd.Stdout, cmd.Stderr = &buf, &buf
		err := cmd.Run()
		text := buf.String()
		res.Eval(fmt.Sprintf("procs%d", procs))
		detail := hx.M{"procs": procs, "output": tail(text, 1500), "seed": a.Seed, "how": "crypto/rand.Reader replaced by a failing reader, gabikeys.GenerateKeyPair(Ln=128)"}
		var out struct {
			Returned bool     `json:"returned"`
			Key      bool     `json:"key"`
			Err      string   `json:"err"`
			Left     []string `json:"left"`
		}
		parsed := false
		for _, l := range strings.Split(text, "\n") {
			if strings.HasPrefix(l, "ERRCHILD ") {
				parsed = json.Unmarshal([]byte(l[len("ERRCHILD "):]), &out) == nil
			}
		}
		switch {
		case strings.Contains(text, "close of closed channel"):
			res.Violation("errpath-double-close", "entropy failure during key generation: the process dies with 'panic: close of closed channel' in a goroutine of safeprime.GenerateConcurrent (stopped closed twice)", detail)
		case err != nil || !parsed:
			if strings.Contains(text, "panic:") {
				res.Violation("errpath-panic", "entropy failure during key generation: the process dies in a panic: "+firstLine(text, "panic:"), detail)
			} else {
				hx.Fatal("errchild failed: %v\n%s", err, tail(text, 2000))
			}
		case !out.Returned:
			res.Violation("errpath-hangs", "entropy failure during key generation: GenerateKeyPair does not return", detail)
		case out.Err == "" || out.Key:
			res.Violation("errpath-no-error", "entropy failure during key generation: GenerateKeyPair returned no error", detail)
		case len(out.Left) > 0:
			detail["goroutines"] = out.Left
			res.Violation("goroutine-leak", fmt.Sprintf("entropy failure during key generation: %d goroutine(s) of the worker pool never end: %v", len(out.Left), out.Left), detail)
		default:
			res.Count("error returned, process alive, no goroutine left")
		}
	}
}

func tail(s string, n int) string {
	if len(s) > n {
		return s[len(s)-n:]
	}
	return s
}

func firstLine(s, marker string) string {
	for _, l := range strings.Split(s, "\n") {
		if strings.Contains(l, marker) {
			return l
		}
	}
	return ""
}
