package main

import (
	"fmt"
	"time"

	"verifharness/hx"

	"github.com/privacybydesign/gabi/big"
	"github.com/privacybydesign/gabi/safeprime"
)

// kg stoplat
//
// SafePrimeWorkers.tla treats a worker's search for the next safe prime as one step that ends - with a prime, or by noticing that
// the pool was stopped (NoLeak: once the consumer is done, every worker and the monitor finish). In the code that step is a loop
// over candidates that looks at the stop channel every 1000 candidates; at the sizes of real keys one safe prime takes many
// thousands of candidates, so a loop that stops looking keeps the worker - and a core - busy long after GenerateKeyPair returned.
// Here the step is timed at 1024 and 1536 bits, where a safe prime takes minutes: a stopped generation must be over in seconds.
func stoplat(a *hx.Args, res *hx.Result) {
	const limit = 15 * time.Second
	for _, bits := range []int{1024, 1536} {
		// Generate with a stop channel that is closed shortly after the start
		{
			stop := make(chan struct{})
			done := make(chan *big.Int, 1)
			t0 := time.Now()
			go func() {
				p, _ := safeprime.Generate(bits, stop)
				done <- p
			}()
			time.Sleep(300 * time.Millisecond)
			close(stop)
			res.Eval(fmt.Sprintf("stoplat/generate/%d", bits))
			select {
			case p := <-done:
				if p != nil && time.Since(t0) > 2*time.Second {
					res.Count("stoplat:generate-finished-with-a-prime")
				}
				res.Count("stoplat:generate-returned")
			case <-time.After(limit):
				res.Violation("generation-ignores-stop", fmt.Sprintf("safeprime.Generate(%d, stop) is still running %v after stop was closed (the documentation: close the channel to cancel the generation)", bits, limit), hx.M{"bits": bits})
			}
		}
		// the worker pool: stopped by the consumer after a short while, every goroutine of the pool must be gone soon after
		{
			stop := make(chan struct{})
			ints, errs := safeprime.GenerateConcurrent(bits, stop)
			time.Sleep(300 * time.Millisecond)
			close(stop)
			res.Eval(fmt.Sprintf("stoplat/pool/%d", bits))
			go func() { // drain, as a consumer that lost interest may
				for {
					select {
					case <-ints:
					case <-errs:
					case <-time.After(limit + 5*time.Second):
						return
					}
				}
			}()
			if left := awaitNoPool(limit, nil); len(left) > 0 {
				busy := 0
				for _, g := range left {
					if !parked(g.State) {
						busy++
					}
				}
				res.Violation("workers-outlive-stop", fmt.Sprintf("%d goroutine(s) of the safe-prime worker pool for %d bits are still alive %v after the consumer closed stop (%d of them running, i.e. still searching)", len(left), bits, limit, busy), hx.M{"bits": bits, "left": len(left)})
			} else {
				res.Count("stoplat:pool-gone")
			}
		}
	}
}
