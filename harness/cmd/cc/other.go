package main

import (
	"bufio"
	"crypto/aes"
	"encoding/binary"
	"encoding/json"
	"fmt"
	gobig "math/big"
	mrand "math/rand"
	"os"
	"reflect"
	"runtime"
	"sync"
	"sync/atomic"

	"verifharness/hx"

	"github.com/privacybydesign/gabi"
	"github.com/privacybydesign/gabi/big"
	"github.com/privacybydesign/gabi/gabikeys"
	"github.com/privacybydesign/gabi/revocation"
	"github.com/privacybydesign/gabi/verifx"
)

// ---------------------------------------------------------------- CPRNG reservations

func cprng(a *hx.Args, rng *mrand.Rand, res *hx.Result) {
	var seed [32]byte
	rng.Read(seed[:])
	c, err := verifx.NewCPRNG(&seed)
	if err != nil {
		hx.Fatal("NewCPRNG: %v", err)
	}
	blk, _ := aes.NewCipher(seed[:])
	type rec struct {
		First uint64 `json:"first"`
		N     uint64 `json:"n"`
		Len   int    `json:"len"`
		g     int64
		data  []byte
	}
	var mu sync.Mutex
	byG := map[int64]*rec{}
	var all []*rec
	verifx.SetCommonVerifHook(func(point string, args ...any) {
		if point != "cprng.reserve" || args[0].(*verifx.CPRNG) != c {
			return
		}
		r := &rec{First: args[1].(uint64), N: args[2].(uint64), Len: args[3].(int), g: goid()}
		mu.Lock()
		byG[r.g] = r
		all = append(all, r)
		mu.Unlock()
	})
	defer verifx.SetCommonVerifHook(nil)
	G, R := 16, 100
	if a.Tier == "thorough" {
		G, R = 64, 400
	}
	var wg sync.WaitGroup
	seeds := make([]int64, G)
	for i := range seeds {
		seeds[i] = rng.Int63()
	}
	for g := 0; g < G; g++ {
		wg.Add(1)
		go func(g int) {
			defer wg.Done()
			r := mrand.New(mrand.NewSource(seeds[g]))
			id := goid()
			for i := 0; i < R; i++ {
				buf := make([]byte, 1+r.Intn(200))
				if _, err := c.Read(buf); err != nil {
					res.Violation("cprng-read-error", err.Error(), nil)
					return
				}
				mu.Lock()
				byG[id].data = buf // the reservation this goroutine just made
				mu.Unlock()
				if i%7 == 0 {
					runtime.Gosched()
				}
			}
		}(g)
	}
	wg.Wait()
	// every caller got exactly the keystream of the blocks it reserved
	var pt, ct [16]byte
	for _, r := range all {
		if r.data == nil {
			hx.Fatal("reservation without data")
		}
		want := make([]byte, 0, r.N*16)
		for b := uint64(0); b < r.N; b++ {
			binary.LittleEndian.PutUint64(pt[:], r.First+b)
			blk.Encrypt(ct[:], pt[:])
			want = append(want, ct[:]...)
		}
		res.Eval(fmt.Sprintf("read/%d", r.First))
		if len(r.data) != r.Len || string(want[:r.Len]) != string(r.data) {
			res.Violation("cprng-wrong-keystream", fmt.Sprintf("read of %d bytes did not return the AES-CTR keystream of its reserved blocks %d..%d", r.Len, r.First, r.First+r.N-1), hx.M{"first": r.First, "n": r.N})
		}
	}
	f, err := os.Create(a.Rest[0])
	if err != nil {
		hx.Fatal("trace: %v", err)
	}
	w := bufio.NewWriter(f)
	for _, r := range all {
		b, _ := json.Marshal(r)
		w.Write(b)
		w.WriteByte('\n')
	}
	w.Flush()
	f.Close()
	res.Notes["reads"] = len(all)
	res.Sample(hx.M{"goroutines": G, "reads_each": R, "first_reservation": all[0]})
}

// ---------------------------------------------------------------- free-running stress (meant to be built with -race)

func stress(a *hx.Args, rng *mrand.Rand, res *hx.Result) {
	rounds, maxG := 3, 16
	if a.Tier == "thorough" {
		rounds, maxG = 8, 64
	}
	ctx := big.NewInt(1)
	// the FIRST use of a credential that was read from storage, by several goroutines released at the same instant (a spin barrier):
	// all of them find the accumulator of the witness not unmarshaled yet. Many short rounds: what is raced for is one field
	{
		firstUse := 24
		if a.Tier == "thorough" {
			firstUse = 120
		}
		kp := hx.FreshKey1024(0)
		base, _ := newCredential(kp, rng)
		bts, err := json.Marshal(base)
		if err != nil {
			hx.Fatal("marshal credential: %v", err)
		}
		for round := 0; round < firstUse; round++ {
			// (a fresh public key OBJECT with the same key material: state that the library initialises lazily inside it is raced
			// for at the same instant)
			fresh := &gabikeys.PublicKey{}
			{
				src, dst := reflect.ValueOf(kp.PK).Elem(), reflect.ValueOf(fresh).Elem()
				for i := 0; i < src.NumField(); i++ {
					if src.Type().Field(i).IsExported() { // (unexported fields are what the library initialises lazily: left zero)
						dst.Field(i).Set(src.Field(i))
					}
				}
			}
			stored := &gabi.Credential{Pk: fresh}
			if err := json.Unmarshal(bts, stored); err != nil {
				hx.Fatal("unmarshal credential: %v", err)
			}
			const G = 8
			var ready int32
			var wg sync.WaitGroup
			nonces := make([]*big.Int, G)
			for g := range nonces {
				nonces[g] = randBits(rng, 80)
			}
			for g := 0; g < G; g++ {
				wg.Add(1)
				go func(g int) {
					defer wg.Done()
					atomic.AddInt32(&ready, 1)
					for atomic.LoadInt32(&ready) < G {
					}
					res.Eval(fmt.Sprintf("first-use/%d/%d", round, g))
					if g%2 == 0 {
						if err := stored.NonrevPrepareCache(); err != nil {
							res.Violation("prepare-failed", "NonrevPrepareCache on a credential just read from storage: "+err.Error(), nil)
						}
						return
					}
					p, err := stored.CreateDisclosureProof([]int{1}, nil, true, ctx, nonces[g])
					if err != nil {
						res.Violation("prover-failed", fmt.Sprintf("CreateDisclosureProof on a credential just read from storage, under concurrency: %v", err), nil)
						return
					}
					if !p.Verify(fresh, ctx, nonces[g], false) && !hx.D10Ambiguous(p, revIdx) {
						res.Violation("concurrently-built-proof-invalid", "a proof built at the first concurrent use of a stored credential does not verify", nil)
					}
				}(g)
			}
			wg.Wait()
		}
	}
	for round := 0; round < rounds; round++ {
		for _, G := range []int{2, 4, maxG} {
			runtime.GOMAXPROCS(1 + rng.Intn(runtime.NumCPU()))
			kp := hx.FreshKey1024(round % 2)  // a freshly loaded key object: lazily initialised state inside it is raced for as well
			cred, _ := newCredential(kp, rng) // first-time cache preparation races with the provers
			if round%2 == 1 {
				// the credential comes from storage: its witness has not unmarshaled its accumulator yet, the first users do that
				bts, err := json.Marshal(cred)
				if err != nil {
					hx.Fatal("marshal credential: %v", err)
				}
				stored := &gabi.Credential{Pk: kp.PK}
				if err := json.Unmarshal(bts, stored); err != nil {
					hx.Fatal("unmarshal credential: %v", err)
				}
				cred = stored
			}
			var wg sync.WaitGroup
			// witnesses that share one locally signed accumulator object, verified concurrently
			{
				upd, err := revocation.NewAccumulator(kp.SK)
				if err != nil {
					hx.Fatal("NewAccumulator: %v", err)
				}
				for i := 0; i < 4; i++ {
					w, err := revocation.RandomWitness(kp.SK, upd.SignedAccumulator.Accumulator)
					if err != nil {
						hx.Fatal("RandomWitness: %v", err)
					}
					w.SignedAccumulator = upd.SignedAccumulator
					wg.Add(1)
					go func() {
						defer wg.Done()
						if err := w.Verify(kp.PK); err != nil {
							res.Violation("shared-accumulator-witness-invalid", fmt.Sprintf("Witness.Verify under concurrency: %v", err), nil)
						}
					}()
				}
			}
			// one SignedAccumulator object asked for its accumulator by several goroutines at once (SaccMemoConc.tla), in each of the
			// states it can be in: signed locally (memo intact), decoded and not verified yet (fresh), verified and then changed
			// through the accumulator that was handed out (the issuer's idiom acc.Time = now; acc.Sign(sk)), field cleared
			{
				upd, err := revocation.NewAccumulator(kp.SK)
				if err != nil {
					hx.Fatal("NewAccumulator: %v", err)
				}
				want := *upd.SignedAccumulator.Accumulator
				for _, state := range []string{"intact", "fresh", "tampered", "cleared"} {
					sacc := upd.SignedAccumulator
					if state != "intact" {
						sacc = &revocation.SignedAccumulator{Data: upd.SignedAccumulator.Data, PKCounter: upd.SignedAccumulator.PKCounter}
					}
					if state == "tampered" || state == "cleared" {
						acc, err := sacc.UnmarshalVerify(kp.PK)
						if err != nil {
							hx.Fatal("UnmarshalVerify: %v", err)
						}
						if state == "tampered" {
							acc.Time += 1000
						} else {
							sacc.Accumulator = nil
						}
					}
					for i := 0; i < 4; i++ {
						wg.Add(1)
						go func() {
							defer wg.Done()
							res.Eval("sacc-concurrent:" + state)
							acc, err := sacc.UnmarshalVerify(kp.PK)
							if err != nil || acc == nil || acc.Index != want.Index || acc.Time != want.Time || acc.Nu.Cmp(want.Nu) != 0 {
								res.Violation("concurrent-unmarshalverify-wrong", fmt.Sprintf("UnmarshalVerify under concurrency on a %s object: err %v, accumulator %+v, signed %+v", state, err, acc, want), nil)
							}
						}()
					}
				}
			}
			seeds := make([]int64, G)
			for i := range seeds {
				seeds[i] = rng.Int63()
			}
			for g := 0; g < G; g++ {
				wg.Add(1)
				go func(g int) {
					defer wg.Done()
					r := mrand.New(mrand.NewSource(seeds[g]))
					for i := 0; i < 3; i++ {
						switch op := (g + i) % 5; op {
						case 0:
							if err := cred.NonrevPrepareCache(); err != nil {
								res.Violation("prepare-failed", err.Error(), nil)
							}
						case 1, 2, 3:
							nonrev := op != 3
							nonce := randBits(r, 80)
							p, err := cred.CreateDisclosureProof([]int{1}, nil, nonrev, ctx, nonce)
							res.Eval(fmt.Sprintf("stress/%d/%d/%d/%d", round, G, g, i))
							if err != nil {
								res.Violation("prover-failed", fmt.Sprintf("CreateDisclosureProof under concurrency: %v", err), nil)
								continue
							}
							// one public key used by many verifiers at once
							if !p.Verify(kp.PK, ctx, nonce, false) || !(gabi.ProofList{p}).Verify([]*gabikeys.PublicKey{kp.PK}, ctx, nonce, false, nil) {
								if nonrev && hx.D10Ambiguous(p, revIdx) {
									res.Count("discarded-known-finding-D10")
								} else {
									res.Violation("concurrently-built-proof-invalid", "a proof built while other goroutines used the same credential does not verify", hx.M{"goroutines": G, "nonrev": nonrev})
								}
							}
						case 4:
							buf := make([]byte, 1+r.Intn(200))
							x := verifx.FastRandomBigInt(new(big.Int).Lsh(big.NewInt(1), uint(8*len(buf))))
							_ = x
							verifx.RandomQR(kp.PK.N)
						}
					}
				}(g)
			}
			wg.Wait()
		}
	}
	runtime.GOMAXPROCS(runtime.NumCPU())
	res.Sample(hx.M{"rounds": rounds, "goroutines": []int{2, 4, maxG}, "ops": "prepare cache / prove nonrev / prove plain / verify / generator reads"})
}

// ---------------------------------------------------------------- C07: randomness is never reused

type rOp struct {
	Op   string `json:"op"`
	Cred int    `json:"cred"`
}
type rSeq struct {
	Ops []rOp `json:"ops"`
}

// one produced proof with everything needed to look for reuse
type produced struct {
	what     string
	cred     int
	c        *gobig.Int
	resp     map[string]*gobig.Int // response name -> value
	secret   map[string]*gobig.Int // response name -> the secret it answers for (known to the harness)
	ids      map[string]*gobig.Int // randomiser name -> value (from the accessors)
	elements map[string]*gobig.Int // A', C_r, C_u
	nb       *gabi.NonRevocationProofBuilder
}

func reuse(a *hx.Args, rng *mrand.Rand, res *hx.Result) {
	lines := hx.ReadNDJSON(a.In)
	var seqs []rSeq
	for _, l := range lines {
		var s rSeq
		if err := json.Unmarshal(l, &s); err != nil {
			hx.Fatal("bad sequence: %v", err)
		}
		seqs = append(seqs, s)
	}
	if a.N > 0 && len(seqs) > a.N {
		rng.Shuffle(len(seqs), func(i, j int) { seqs[i], seqs[j] = seqs[j], seqs[i] })
		seqs = seqs[:a.N]
	}
	kps := hx.Keys1024()
	seeds := make([]int64, len(seqs))
	for i := range seeds {
		seeds[i] = rng.Int63()
	}
	hx.Parallel(len(seqs), func(si int) {
		r := mrand.New(mrand.NewSource(seeds[si]))
		runReuse(kps[si%2], seqs[si], r, res)
	})
}

func runReuse(kp hx.KeyPair, s rSeq, rng *mrand.Rand, res *hx.Result) {
	creds := map[int]*gabi.Credential{}
	chains := map[int]*chainT{}
	get := func(i int) *gabi.Credential {
		if creds[i] == nil {
			creds[i], chains[i] = newCredentialChain(kp, rng)
		}
		return creds[i]
	}
	ctx := big.NewInt(1)
	var out []*produced
	var lastCB *gabi.CredentialBuilder
	var lastSecret *gobig.Int
	nBuilders := 0
	b, _ := json.Marshal(s)
	res.Eval(hx.Digest(b))
	det := hx.M{"sequence": s.Ops}
	fromD := func(what string, ci int, db *gabi.DisclosureProofBuilder, pd *gabi.ProofD, skR *gobig.Int) *produced {
		cred := creds[ci]
		p := &produced{what: what, cred: ci, c: pd.C.Go(), resp: map[string]*gobig.Int{}, secret: map[string]*gobig.Int{}, ids: map[string]*gobig.Int{}, elements: map[string]*gobig.Int{}}
		eC, vC, attr, A := db.VerifRandomizers()
		p.ids["e"], p.ids["v"] = eC.Go(), vC.Go()
		for i, x := range attr {
			if i == 0 {
				continue // the shared secret-key randomiser of a list is one randomiser used by one session
			}
			p.ids[fmt.Sprintf("a%d", i)] = x.Go()
		}
		p.ids["sk"] = skR
		p.elements["A"] = A.Go()
		for i, x := range pd.AResponses {
			p.resp[fmt.Sprintf("a%d", i)] = x.Go()
			p.secret[fmt.Sprintf("a%d", i)] = cred.Attributes[i].Go()
		}
		if pd.NonRevocationProof != nil {
			p.elements["Cr"], p.elements["Cu"] = pd.NonRevocationProof.Cr.Go(), pd.NonRevocationProof.Cu.Go()
			p.nb = db.VerifNonrevBuilder()
			_, rnd := p.nb.VerifState()
			p.ids["alpha"] = rnd.Go()
			// every randomiser and blinding secret of the non-revocation commitment (alpha's is the one above)
			rz, sec := p.nb.VerifCommit().VerifRandomizers()
			for name, x := range rz {
				if name != "alpha" && x != nil {
					p.ids["nr."+name] = x.Go()
				}
			}
			for _, name := range []string{"epsilon", "zeta"} { // r2, r3: drawn per commitment
				if x := sec[name]; x != nil {
					p.ids["nrsecret."+name] = x.Go()
				}
			}
			delete(p.ids, fmt.Sprintf("a%d", revIdx)) // by design the witness attribute's randomiser IS the alpha randomiser of the non-revocation part
		}
		return p
	}
	for step, op := range s.Ops {
		var perr error
		panicked, msg := hx.Try(func() {
			switch op.Op {
			case "prepare":
				perr = get(op.Cred).NonrevPrepareCache()
			case "update":
				c := get(op.Cred)
				chains[op.Cred].revokeOther()
				perr = c.NonRevocationWitness.Update(kp.PK, chains[op.Cred].update(int(c.NonRevocationWitness.SignedAccumulator.Accumulator.Index)))
			case "prove", "provenr":
				c := get(op.Cred)
				db, err := c.CreateDisclosureProofBuilder([]int{1}, nil, op.Op == "provenr")
				if err != nil {
					perr = err
					return
				}
				rz, _ := gabi.NewProofRandomizers()
				nonce := randBits(rng, 80)
				ch, err := gabi.ProofBuilderList{db}.ChallengeWithRandomizers(ctx, nonce, rz, false)
				if err != nil {
					perr = err
					return
				}
				pd := db.CreateProof(ch).(*gabi.ProofD)
				out = append(out, fromD(op.Op, op.Cred, db, pd, rz["secretkey"].Go()))
			case "list": // one session over two credentials
				c1, c2 := get(op.Cred), get(3-op.Cred)
				d1, err := c1.CreateDisclosureProofBuilder([]int{1}, nil, true)
				if err != nil {
					perr = err
					return
				}
				d2, err := c2.CreateDisclosureProofBuilder([]int{2}, nil, false)
				if err != nil {
					perr = err
					return
				}
				rz, _ := gabi.NewProofRandomizers()
				nonce := randBits(rng, 80)
				bl := gabi.ProofBuilderList{d1, d2}
				ch, err := bl.ChallengeWithRandomizers(ctx, nonce, rz, false)
				if err != nil {
					perr = err
					return
				}
				p1 := fromD("list1", op.Cred, d1, d1.CreateProof(ch).(*gabi.ProofD), rz["secretkey"].Go())
				p2 := fromD("list2", 3-op.Cred, d2, d2.CreateProof(ch).(*gabi.ProofD), nil)
				out = append(out, p1, p2)
			case "issue", "reissue":
				// issuance commitment with one random-blind attribute; "reissue": the latest builder commits again for another nonce.
				// The randomisers of v' and of the user's shares live as long as the builder (by design, observation O1) and are
				// compared only between DIFFERENT builders; the secret-key randomiser is drawn per call and must be fresh: the
				// extractor runs over the commitments of one builder
				if op.Op == "issue" || lastCB == nil {
					secret := randBits(rng, 250)
					cb, err := gabi.NewCredentialBuilder(kp.PK, ctx, secret, randBits(rng, 80), nil, []int{1})
					if err != nil {
						perr = err
						return
					}
					lastCB, lastSecret, nBuilders = cb, secret.Go(), nBuilders+1
				}
				icm, err := lastCB.CommitToSecretAndProve(randBits(rng, 80))
				if err != nil {
					perr = err
					return
				}
				pu, _ := icm.Proofs.GetFirstProofU()
				vC, skR, mC := lastCB.VerifRandomizers()
				p := &produced{what: op.Op, cred: 100 + nBuilders, c: pu.C.Go(), resp: map[string]*gobig.Int{"sk": pu.SResponse.Go()}, secret: map[string]*gobig.Int{"sk": lastSecret},
					ids: map[string]*gobig.Int{"sk": skR.Go()}, elements: map[string]*gobig.Int{}}
				if op.Op == "issue" {
					p.ids["vprime"] = vC.Go()
					p.elements["U"] = pu.U.Go()
					for i, x := range mC {
						p.ids[fmt.Sprintf("m%d", i)] = x.Go()
					}
				}
				out = append(out, p)
			}
		})
		if panicked {
			res.Violation("reuse-panic", fmt.Sprintf("%s panicked: %s", op.Op, msg), det)
			return
		}
		if perr != nil {
			res.Violation("operation-failed", fmt.Sprintf("step %d %s: %v", step, op.Op, perr), det)
			return
		}
	}
	// 1. randomiser identities are pairwise distinct over all proofs of the history
	seen := map[string]string{}
	for pi, p := range out {
		for name, v := range p.ids {
			if v == nil {
				continue
			}
			k := v.String()
			tag := fmt.Sprintf("%s#%d.%s", p.what, pi, name)
			if prev, dup := seen[k]; dup {
				res.Violation("randomiser-reused", fmt.Sprintf("commitment randomiser used twice: %s and %s", prev, tag), det)
				return
			}
			seen[k] = tag
		}
		for name, v := range p.elements {
			k := "el:" + v.String()
			tag := fmt.Sprintf("%s#%d.%s", p.what, pi, name)
			if prev, dup := seen[k]; dup {
				res.Violation("randomised-element-repeated", fmt.Sprintf("%s and %s are the same group element", prev, tag), det)
				return
			}
			seen[k] = tag
		}
	}
	// 2. a prepared non-revocation commitment is consumed by at most one proof
	nbs := map[*gabi.NonRevocationProofBuilder]int{}
	for pi, p := range out {
		if p.nb == nil {
			continue
		}
		if q, dup := nbs[p.nb]; dup {
			res.Violation("prepared-commitment-consumed-twice", fmt.Sprintf("proofs %d and %d consumed the same non-revocation proof builder", q, pi), det)
			return
		}
		nbs[p.nb] = pi
	}
	// 3. the two-transcript extractor fails on every pair: (s1 - s2) / (c1 - c2) must not be the secret
	for i := 0; i < len(out); i++ {
		for j := i + 1; j < len(out); j++ {
			p, q := out[i], out[j]
			if p.cred != q.cred || p.cred == 0 || p.c.Cmp(q.c) == 0 {
				continue
			}
			dc := new(gobig.Int).Sub(p.c, q.c)
			for name, s1 := range p.resp {
				s2, ok := q.resp[name]
				if !ok {
					continue
				}
				ds := new(gobig.Int).Sub(s1, s2)
				quo, rem := new(gobig.Int).QuoRem(ds, dc, new(gobig.Int))
				if rem.Sign() == 0 && quo.Cmp(p.secret[name]) == 0 {
					res.Violation("extractor-recovers-secret", fmt.Sprintf("from proofs %d and %d of credential %d the two-transcript extractor recovers hidden value %s", i, j, p.cred, name), det)
					return
				}
			}
		}
	}
	res.Sample(hx.M{"sequence": s.Ops, "proofs": len(out)})
}
