// Command cc binds NonrevCache.tla / CPRNGTrace.tla to the real concurrent code (C07, C20).
//
//	cc gates  --in schedules.ndjson     TLC-generated interleavings of the cache protocol established on real goroutines (blocking hooks)
//	cc cprng  <trace-out>                concurrent reads of a CPRNG with a known seed; reservations logged for CPRNGTrace.tla
//	cc stress                            free-running goroutines (build with -race): proofs, cache preparation, verification, generator reads
//	cc reuse  --in sequences.ndjson      C07: operation sequences; randomiser identities and the two-transcript extractor over all proof pairs
package main

import (
	"bytes"
	"encoding/json"
	"fmt"
	gobig "math/big"
	mrand "math/rand"
	"os"
	"runtime"
	"strconv"
	"sync"
	"time"

	"verifharness/hx"

	"github.com/privacybydesign/gabi"
	"github.com/privacybydesign/gabi/big"
	"github.com/privacybydesign/gabi/revocation"
)

func randBits(rng *mrand.Rand, bits uint) *big.Int {
	b := make([]byte, (bits+7)/8)
	rng.Read(b)
	x := new(gobig.Int).SetBytes(b)
	return big.Convert(x.Rsh(x, uint(len(b))*8-bits))
}

func goid() int64 {
	var buf [64]byte
	n := runtime.Stack(buf[:], false)
	f := bytes.Fields(buf[:n])
	id, _ := strconv.ParseInt(string(f[1]), 10, 64)
	return id
}

const revIdx = 4

// a credential with a witness on a fresh accumulator
func newCredential(kp hx.KeyPair, rng *mrand.Rand) (*gabi.Credential, *revocation.Update) {
	w, upd, err := hx.NewRevocation(kp)
	if err != nil {
		hx.Fatal("revocation: %v", err)
	}
	attrs := []*big.Int{randBits(rng, 200), randBits(rng, 200), randBits(rng, 200), w.E}
	cred, err := hx.Issue(kp, big.NewInt(1), randBits(rng, 250), nil, attrs, w, nil)
	if err != nil {
		hx.Fatal("issuance: %v", err)
	}
	return cred, upd
}

func main() {
	if len(os.Args) < 2 {
		hx.Fatal("usage: cc gates|cprng|stress|reuse ...")
	}
	cmd := os.Args[1]
	os.Args = append(os.Args[:1], os.Args[2:]...)
	a := hx.ParseArgs()
	res := hx.NewResult()
	rng := hx.Rng(a.Seed, "cc-"+cmd)
	switch cmd {
	case "gates":
		gates(a, rng, res)
	case "cprng":
		cprng(a, rng, res)
	case "stress":
		stress(a, rng, res)
	case "reuse":
		reuse(a, rng, res)
	default:
		hx.Fatal("unknown subcommand")
	}
	res.Write(a.Out)
}

// ---------------------------------------------------------------- gate replay of cache schedules

type sStep struct {
	P    int    `json:"p"`
	Step string `json:"step"`
	Got  bool   `json:"got"`
	B    int    `json:"b"`
}
type sched struct {
	Hist []sStep `json:"hist"`
	Buf  int     `json:"buf"`
	Nb   int     `json:"nb"`
}

type procState struct {
	park    chan string   // the process reports the gate it is parked at
	release chan struct{} // the controller lets it continue
	outcome string        // last outcome hook seen
	builder *gabi.NonRevocationProofBuilder
	pending *gabi.NonRevocationProofBuilder // the builder a preparer is about to put into the cache
	done    chan error
	db      *gabi.DisclosureProofBuilder
}

type gateCtl struct {
	mu    sync.Mutex
	procs map[int64]*procState // by goroutine id
}

func (g *gateCtl) hook(point string, args ...any) {
	g.mu.Lock()
	ps := g.procs[goid()]
	g.mu.Unlock()
	if ps == nil {
		return
	}
	switch point {
	case "prepare.recv.before", "prepare.send.before", "consume.recv.before":
		if point == "prepare.send.before" {
			ps.pending = args[1].(*gabi.NonRevocationProofBuilder)
		}
		ps.park <- point
		<-ps.release
	case "prepare.recv.cached", "consume.recv.cached":
		ps.outcome = "cached"
		ps.builder = args[1].(*gabi.NonRevocationProofBuilder)
	case "prepare.recv.empty", "consume.recv.empty":
		ps.outcome = "empty"
		ps.builder = nil
	case "prepare.send.stored":
		ps.outcome = "stored"
	case "prepare.send.discarded":
		ps.outcome = "discarded"
	}
}

func waitPark(ps *procState, want string) {
	select {
	case got := <-ps.park:
		if got != want {
			hx.Fatal("schedule not established: parked at %s, expected %s", got, want)
		}
	case <-time.After(30 * time.Second):
		hx.Fatal("schedule not established: process did not reach %s within 30 s", want)
	}
}

func waitDone(ps *procState) error {
	select {
	case err := <-ps.done:
		return err
	case <-time.After(30 * time.Second):
		hx.Fatal("schedule not established: process did not return within 30 s")
	}
	return nil
}

func gates(a *hx.Args, rng *mrand.Rand, res *hx.Result) {
	lines := hx.ReadNDJSON(a.In)
	var scheds []sched
	for _, l := range lines {
		var s sched
		if err := json.Unmarshal(l, &s); err != nil {
			hx.Fatal("bad schedule: %v", err)
		}
		scheds = append(scheds, s)
	}
	if a.N > 0 && len(scheds) > a.N {
		rng.Shuffle(len(scheds), func(i, j int) { scheds[i], scheds[j] = scheds[j], scheds[i] })
		scheds = scheds[:a.N]
	}
	kp := hx.Keys1024()[0]
	base, _ := newCredential(kp, rng)
	ctl := &gateCtl{procs: map[int64]*procState{}}
	gabi.SetVerifHook(ctl.hook)
	defer gabi.SetVerifHook(nil)
	ctx := big.NewInt(1)
	for si, s := range scheds {
		cred := *base // fresh cache (the base credential's cache was never created)
		procs := map[int]*procState{}
		isPrep := map[int]bool{}
		for _, st := range s.Hist {
			if st.Step[0] == 'p' {
				isPrep[st.P] = true
			}
		}
		start := func(p int, f func(ps *procState) error) *procState {
			ps := &procState{park: make(chan string, 1), release: make(chan struct{}), done: make(chan error, 1)}
			procs[p] = ps
			ready := make(chan struct{})
			go func() {
				ctl.mu.Lock()
				ctl.procs[goid()] = ps
				ctl.mu.Unlock()
				close(ready)
				ps.done <- f(ps)
			}()
			<-ready
			return ps
		}
		// provers start first and park before touching the cache
		for _, st := range s.Hist {
			if st.Step == "c.recv" && procs[st.P] == nil {
				ps := start(st.P, func(ps *procState) error {
					db, err := cred.CreateDisclosureProofBuilder([]int{1}, nil, true)
					ps.db = db
					return err
				})
				waitPark(ps, "consume.recv.before")
			}
		}
		ids := map[int]*gabi.NonRevocationProofBuilder{} // spec builder id -> real builder
		detail := hx.M{"schedule": s.Hist}
		bad := false
		fail := func(kind, what string) {
			if !bad {
				res.Violation(kind, what, detail)
			}
			bad = true
		}
		check := func(st sStep, ps *procState, real *gabi.NonRevocationProofBuilder) {
			if st.Got != (ps.outcome == "cached") {
				fail("cache-step-diverges", fmt.Sprintf("process %d %s: spec got=%v, code %s", st.P, st.Step, st.Got, ps.outcome))
				return
			}
			if st.Got {
				if ids[st.B] != real {
					fail("cache-step-diverges", fmt.Sprintf("process %d %s: received a different builder than the one the spec says is cached", st.P, st.Step))
				}
			} else {
				for _, other := range ids {
					if other == real {
						fail("builder-handed-out-twice", fmt.Sprintf("process %d %s: a freshly built builder is identical to an existing one", st.P, st.Step))
					}
				}
				ids[st.B] = real
			}
		}
		for _, st := range s.Hist {
			switch st.Step {
			case "p.init":
				ps := start(st.P, func(ps *procState) error { return cred.NonrevPrepareCache() })
				waitPark(ps, "prepare.recv.before")
			case "p.recv":
				ps := procs[st.P]
				ps.release <- struct{}{}
				waitPark(ps, "prepare.send.before")
				check(st, ps, ps.pending) // the builder the preparer now holds (received from the cache or newly built)
			case "p.send":
				ps := procs[st.P]
				ps.release <- struct{}{}
				if err := waitDone(ps); err != nil {
					fail("prepare-failed", fmt.Sprintf("NonrevPrepareCache: %v", err))
				}
				if st.Got != (ps.outcome == "stored") {
					fail("cache-step-diverges", fmt.Sprintf("process %d p.send: spec stored=%v, code %s", st.P, st.Got, ps.outcome))
				}
			case "c.recv":
				ps := procs[st.P]
				ps.release <- struct{}{}
				if err := waitDone(ps); err != nil {
					fail("prover-failed", fmt.Sprintf("CreateDisclosureProofBuilder: %v", err))
					continue
				}
				check(st, ps, ps.db.VerifNonrevBuilder())
			}
		}
		// final cache content and single consumption
		final := cred.VerifCachedNonrevBuilder()
		if (s.Buf == 0) != (final == nil) || (s.Buf != 0 && ids[s.Buf] != final) {
			fail("final-cache-diverges", "the cache does not hold the builder the spec says it holds at the end")
		}
		seen := map[*gabi.NonRevocationProofBuilder]int{}
		for p, ps := range procs {
			if !isPrep[p] && ps.db != nil {
				b := ps.db.VerifNonrevBuilder()
				if q, dup := seen[b]; dup {
					fail("prepared-commitment-consumed-twice", fmt.Sprintf("provers %d and %d consumed the same non-revocation proof builder", q, p))
				}
				seen[b] = p
			}
		}
		// every prover completes its proof; it must verify
		for p, ps := range procs {
			if isPrep[p] || ps.db == nil {
				continue
			}
			nonce := randBits(rng, 80)
			list, err := gabi.ProofBuilderList{ps.db}.BuildProofList(ctx, nonce, false)
			if err != nil {
				fail("prover-failed", fmt.Sprintf("BuildProofList: %v", err))
				continue
			}
			pd := list[0].(*gabi.ProofD)
			if !pd.Verify(kp.PK, ctx, nonce, false) {
				if hx.D10Ambiguous(pd, revIdx) {
					res.Count("discarded-known-finding-D10")
				} else {
					fail("concurrently-built-proof-invalid", fmt.Sprintf("the proof of prover %d does not verify", p))
				}
			}
		}
		ctl.mu.Lock()
		ctl.procs = map[int64]*procState{}
		ctl.mu.Unlock()
		res.Eval(fmt.Sprintf("sched-%d", si))
		if si < 2 {
			res.Sample(hx.M{"schedule": s.Hist, "final_cache": s.Buf, "builders": s.Nb})
		}
	}
}
