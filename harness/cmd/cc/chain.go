package main

import (
	"crypto/rand"
	mrand "math/rand"

	"verifharness/hx"

	"github.com/privacybydesign/gabi"
	"github.com/privacybydesign/gabi/big"
	"github.com/privacybydesign/gabi/revocation"
	"github.com/privacybydesign/gabi/verifx"
)

// chainT is the issuer side of one accumulator.
type chainT struct {
	kp     hx.KeyPair
	accs   []*revocation.Accumulator
	saccs  []*revocation.SignedAccumulator
	events []*revocation.Event
}

func newCredentialChain(kp hx.KeyPair, rng *mrand.Rand) (*gabi.Credential, *chainT) {
	cred, upd := newCredential(kp, rng)
	acc := upd.SignedAccumulator.Accumulator
	return cred, &chainT{kp: kp, accs: []*revocation.Accumulator{acc}, saccs: []*revocation.SignedAccumulator{upd.SignedAccumulator}, events: upd.Events}
}

func (c *chainT) revokeOther() {
	e, err := verifx.RandomPrimeInRange(rand.Reader, 3, revocation.Parameters.AttributeSize)
	if err != nil {
		hx.Fatal("prime: %v", err)
	}
	n := len(c.accs) - 1
	acc, ev, err := c.accs[n].Remove(c.kp.SK, e, c.events[n])
	if err != nil {
		hx.Fatal("Remove: %v", err)
	}
	sacc, err := acc.Sign(c.kp.SK)
	if err != nil {
		hx.Fatal("Sign: %v", err)
	}
	c.accs, c.saccs, c.events = append(c.accs, acc), append(c.saccs, sacc), append(c.events, ev)
}

func (c *chainT) update(from int) *revocation.Update {
	n := len(c.accs) - 1
	s := *c.saccs[n]
	u := &revocation.Update{SignedAccumulator: &s, Events: []*revocation.Event{}}
	if from+1 <= n {
		u.Events = append(u.Events, c.events[from+1:]...)
	}
	return u
}

var _ = big.NewInt
