// Command zk binds ZkProof.tla to the real representation-proof engine (zkproof/representationproof.go).
//
//	zk replay --in cases.ndjson
//
// Every case (variant, structure, values of the prover-supplied bases, secrets, randomisers, challenge, honest and
// arbitrary responses) is evaluated by the real engine in the same toy group (zkproof.BuildGroup(23); a public key
// with n = 77), and the commitment, the commitment reconstructed from the honest responses, the one reconstructed
// from the arbitrary responses and IsTrue are compared with the numbers TLC computed.
package main

import (
	"encoding/json"
	"fmt"
	"os"
	"time"

	"verifharness/hx"

	"github.com/privacybydesign/gabi/big"
	"github.com/privacybydesign/gabi/gabikeys"
	"github.com/privacybydesign/gabi/zkproof"
)

type contrib struct {
	B string `json:"b"`
	S string `json:"s"`
	P int64  `json:"p"`
}
type structure struct {
	Name string    `json:"name"`
	Lhs  []contrib `json:"lhs"`
	Rhs  []contrib `json:"rhs"`
}
type zcase struct {
	V      string    `json:"v"`
	St     structure `json:"st"`
	X      int64     `json:"x"`
	Y      int64     `json:"y"`
	A      int64     `json:"a"`
	B      int64     `json:"b"`
	Ra     int64     `json:"ra"`
	Rb     int64     `json:"rb"`
	C      int64     `json:"c"`
	Qa     int64     `json:"qa"`
	Qb     int64     `json:"qb"`
	Commit int64     `json:"commit"`
	Honest int64     `json:"honest"`
	Arb    int64     `json:"arb"`
	IsTrue bool      `json:"istrue"`
}

// supplied holds the bases that come from the prover; it looks them up the way the library's own lookups do
// (rangeproof.proof.Exp, keyproof PedersenProof.Exp: ret.Exp(base, exp, modulus)).
type supplied struct{ x, y *big.Int }

func (s *supplied) Base(name string) *big.Int {
	switch name {
	case "x":
		return s.x
	case "y":
		return s.y
	}
	return nil
}
func (s *supplied) Exp(ret *big.Int, name string, exp, m *big.Int) bool {
	b := s.Base(name)
	if b == nil {
		return false
	}
	ret.Exp(b, exp, m)
	return true
}
func (s *supplied) Names() []string { return []string{"x", "y"} }

type values struct{ sa, sb, ra, rb, pa, pb *big.Int }

func pick(name string, a, b *big.Int) *big.Int {
	if name == "a" {
		return a
	}
	if name == "b" {
		return b
	}
	return nil
}
func (v *values) Secret(n string) *big.Int      { return pick(n, v.sa, v.sb) }
func (v *values) Randomizer(n string) *big.Int  { return pick(n, v.ra, v.rb) }
func (v *values) ProofResult(n string) *big.Int { return pick(n, v.pa, v.pb) }

func main() {
	if len(os.Args) < 2 || (os.Args[1] != "replay" && os.Args[1] != "group" && os.Args[1] != "smallgroups") {
		hx.Fatal("usage: zk replay --in cases.ndjson | zk group")
	}
	if os.Args[1] == "replay" {
		os.Args = append(os.Args[:1], os.Args[2:]...)
	}
	g, ok := zkproof.BuildGroup(big.NewInt(23))
	if !ok || g.Order.Cmp(big.NewInt(11)) != 0 {
		hx.Fatal("zkproof.BuildGroup(23) failed: ok=%v order=%v", ok, g.Order)
	}
	if os.Args[1] == "smallgroups" { // BuildGroup on every small safe prime: returns, and gives two different generators of the subgroup of squares (or refuses)
		for _, p := range []int64{5, 7, 11, 23, 47, 59, 83, 107} {
			done := make(chan string, 1)
			go func() {
				sg, ok := zkproof.BuildGroup(big.NewInt(p))
				if !ok {
					done <- "refused"
					return
				}
				one := big.NewInt(1)
				inSub := func(x *big.Int) bool { return x.Cmp(one) > 0 && new(big.Int).Exp(x, sg.Order, sg.P).Cmp(one) == 0 }
				if !inSub(sg.G) || !inSub(sg.H) || sg.G.Cmp(sg.H) == 0 {
					done <- fmt.Sprintf("bad generators g=%v h=%v", sg.G, sg.H)
					return
				}
				done <- "ok"
			}()
			select {
			case r := <-done:
				fmt.Printf("{\"p\": %d, \"result\": %q}\n", p, r)
			case <-time.After(5 * time.Second):
				fmt.Printf("{\"p\": %d, \"result\": \"does not return\"}\n", p)
			}
		}
		return
	}
	if os.Args[1] == "group" { // print the generators of the toy group for the specification's constants
		fmt.Printf("{\"g\": %v, \"h\": %v}\n", g.G, g.H)
		return
	}
	a := hx.ParseArgs()
	res := hx.NewResult()
	pk := &gabikeys.PublicKey{N: big.NewInt(77), S: big.NewInt(4), Z: big.NewInt(9), R: []*big.Int{big.NewInt(16)}}
	var cases []zcase
	for _, l := range hx.ReadNDJSON(a.In) {
		var c zcase
		if err := json.Unmarshal(l, &c); err != nil {
			hx.Fatal("bad case: %v", err)
		}
		cases = append(cases, c)
	}
	hx.Parallel(len(cases), func(i int) {
		c := cases[i]
		sup := &supplied{big.NewInt(c.X), big.NewInt(c.Y)}
		var lhs []zkproof.LhsContribution
		var rhs []zkproof.RhsContribution
		for _, l := range c.St.Lhs {
			lhs = append(lhs, zkproof.LhsContribution{Base: l.B, Power: big.NewInt(l.P)})
		}
		for _, r := range c.St.Rhs {
			rhs = append(rhs, zkproof.RhsContribution{Base: r.B, Secret: r.S, Power: r.P})
		}
		var commit, honest, arb *big.Int
		var istrue bool
		vals := &values{sa: big.NewInt(c.A), sb: big.NewInt(c.B), ra: big.NewInt(c.Ra), rb: big.NewInt(c.Rb)}
		ch := big.NewInt(c.C)
		panicked, msg := hx.Try(func() {
			if c.V == "group" {
				st := &zkproof.RepresentationProofStructure{Lhs: lhs, Rhs: rhs}
				bases := zkproof.NewBaseMerge(&g, sup)
				commit = st.CommitmentsFromSecrets(g, nil, &bases, vals)[0]
				istrue = st.IsTrue(g, &bases, vals)
				// the callers' responses: (r - c*s) mod order
				h := &values{}
				h.pa = new(big.Int).Mod(new(big.Int).Sub(vals.ra, new(big.Int).Mul(ch, vals.sa)), g.Order)
				h.pb = new(big.Int).Mod(new(big.Int).Sub(vals.rb, new(big.Int).Mul(ch, vals.sb)), g.Order)
				honest = st.CommitmentsFromProof(g, nil, ch, &bases, h)[0]
				arb = st.CommitmentsFromProof(g, nil, ch, &bases, &values{pa: big.NewInt(c.Qa), pb: big.NewInt(c.Qb)})[0]
			} else {
				st := &zkproof.QrRepresentationProofStructure{Lhs: lhs, Rhs: rhs}
				bases := zkproof.NewBaseMerge(pk, sup)
				commit = st.CommitmentsFromSecrets(pk, nil, &bases, vals)[0]
				istrue = c.IsTrue // (the Qr variant has no IsTrue)
				h := &values{}
				h.pa = new(big.Int).Add(vals.ra, new(big.Int).Mul(ch, vals.sa))
				h.pb = new(big.Int).Add(vals.rb, new(big.Int).Mul(ch, vals.sb))
				honest = st.CommitmentsFromProof(pk, nil, ch, &bases, h)[0]
				arb = st.CommitmentsFromProof(pk, nil, ch, &bases, &values{pa: big.NewInt(c.Qa), pb: big.NewInt(c.Qb)})[0]
			}
		})
		key := fmt.Sprintf("%s/%s/%d/%d/%d/%d/%d/%d/%d/%d/%d", c.V, c.St.Name, c.X, c.Y, c.A, c.B, c.Ra, c.Rb, c.C, c.Qa, c.Qb)
		res.Eval(key)
		d := hx.M{"case": c}
		if panicked {
			res.Violation("zk-engine-panic", "the representation-proof engine panicked: "+msg, d)
			return
		}
		res.Count(fmt.Sprintf("%s:%s:true=%v:accepts=%v", c.V, c.St.Name, c.IsTrue, honest.Cmp(commit) == 0))
		got := hx.M{"commit": commit.String(), "honest": honest.String(), "arb": arb.String(), "istrue": istrue}
		if commit.Cmp(big.NewInt(c.Commit)) != 0 || honest.Cmp(big.NewInt(c.Honest)) != 0 || arb.Cmp(big.NewInt(c.Arb)) != 0 || istrue != c.IsTrue {
			d["observed"] = got
			res.Violation("zk-engine-diverges", fmt.Sprintf("%s %s: spec commit=%d honest=%d arbitrary=%d istrue=%v, code %v", c.V, c.St.Name, c.Commit, c.Honest, c.Arb, c.IsTrue, got), d)
			return
		}
		if i < 3 {
			res.Sample(hx.M{"case": c, "observed": got})
		}
	})
	res.Write(a.Out)
}
